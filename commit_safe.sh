#!/bin/bash
# usage: ./commit_safe.sh "<message>" [properties whose builder is still editing ...]
# stages everything except the files of the properties named (their in-progress state must not reach an acceptance run)
msg="$1"; shift
declare -A FILES=(
 [C01]="MCodec MCodecTxt PCodec PCodecTxt PCodecData PCodecToy" [C02]="MCodec MCodecTxt PCodec PCodecTxt PCodecData PCodecToy"
 [C03]="MBinary PBinary" [C04]="MLoad PLoad" [C05]="MQV PQV MPose PPose" [C06]="MRigs PRigs" [C07]="MTraj MRec PTraj PRec"
 [C08]="MCompare PCompare" [C09]="MMergeKeep PMergeKeep" [C10]="MMergeRemap PMergeRemap" [C11]="MMergeRecon PMergeRecon"
 [C12]="MTar PTar" [C13]="MColmap PColmap" [C14]="MOpenmvg POpenmvg" [C15]="MOpensfm POpensfm" [C16]="MEffects PEffects"
 [C17]="MDownload PDownload" [C18]="MUntar PUntar" [C19]="MClear PClear" [C20]="MUpgrade PUpgrade")
excl=()
for p in "$@"; do
  lc=$(echo $p | tr A-Z a-z)
  excl+=(":!harness/props/$lc.py" ":!coq/Props/$p.v" ":!docs/$p.md" ":!corpus/$p" ":!evidence/$p.json" ":!selftest/mutants/$p-*" ":!selftest/harmless/$p-*")
  if [ "$p" = C01 ] || [ "$p" = C02 ]; then excl+=(":!harness/props/_codec.py"); fi
  for f in ${FILES[$p]}; do excl+=(":!coq/Model/$f.v" ":!coq/Proofs/$f.v"); done
done
git add -A -- . "${excl[@]}" >/dev/null 2>&1
git commit -qm "$msg" && git log --oneline | head -1
