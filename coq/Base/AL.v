(* Base/AL.v — insertion-ordered association lists with Python-dict semantics:
   assigning an existing key overwrites in place (position kept), a new key goes last,
   deletion removes the entry.  Keys are kept unique by construction (invariant [wf]). *)
From Coq Require Import List Bool Lia.
From KV Require Import Eqb.
Import ListNotations.

Section AL.
  Context {K V : Type} `{EqDec K}.

  Definition al := list (K * V).

  Fixpoint lookup (k : K) (m : al) : option V :=
    match m with
    | [] => None
    | (k', v) :: m' => if eqb k k' then Some v else lookup k m'
    end.

  Fixpoint insert (k : K) (v : V) (m : al) : al :=
    match m with
    | [] => [(k, v)]
    | (k', v') :: m' => if eqb k k' then (k', v) :: m' else (k', v') :: insert k v m'
    end.

  Fixpoint remove (k : K) (m : al) : al :=
    match m with
    | [] => []
    | (k', v') :: m' => if eqb k k' then remove k m' else (k', v') :: remove k m'
    end.

  Definition keys (m : al) : list K := map fst m.
  Definition mem (k : K) (m : al) : bool := match lookup k m with Some _ => true | None => false end.
  Definition wf (m : al) : Prop := NoDup (keys m).

  (* insert only when absent: Python's  `if k not in d: d[k] = v`  (first wins) *)
  Definition insert_new (k : K) (v : V) (m : al) : al := if mem k m then m else insert k v m.

  Lemma lookup_insert_eq k v m : lookup k (insert k v m) = Some v.
  Proof.
    induction m as [|[k' v'] m IH]; cbn; [rewrite eqb_refl; reflexivity|].
    destruct (eqb k k') eqn:E; cbn; rewrite E; auto.
  Qed.

  Lemma lookup_insert_neq k k' v m : k' <> k -> lookup k' (insert k v m) = lookup k' m.
  Proof.
    intros N; induction m as [|[k2 v2] m IH]; cbn.
    - apply neq_eqb in N; rewrite N; reflexivity.
    - destruct (eqb k k2) eqn:E; cbn.
      + apply eqb_true in E; subst k2. apply neq_eqb in N; rewrite N. reflexivity.
      + rewrite IH; reflexivity.
  Qed.

  Lemma lookup_insert k k' v m :
    lookup k' (insert k v m) = if eqb k' k then Some v else lookup k' m.
  Proof.
    destruct (eqb_spec k' k) as [->|N]; [apply lookup_insert_eq | apply lookup_insert_neq; assumption].
  Qed.

  Lemma lookup_remove_eq k m : lookup k (remove k m) = None.
  Proof.
    induction m as [|[k' v'] m IH]; cbn; [reflexivity|].
    destruct (eqb k k') eqn:E; cbn; [assumption | rewrite E; assumption].
  Qed.

  Lemma lookup_remove_neq k k' m : k' <> k -> lookup k' (remove k m) = lookup k' m.
  Proof.
    intros N; induction m as [|[k2 v2] m IH]; cbn; [reflexivity|].
    destruct (eqb k k2) eqn:E; cbn.
    - apply eqb_true in E; subst k2. apply neq_eqb in N; rewrite N. assumption.
    - rewrite IH; reflexivity.
  Qed.

  Lemma lookup_remove k k' m :
    lookup k' (remove k m) = if eqb k' k then None else lookup k' m.
  Proof.
    destruct (eqb_spec k' k) as [->|N]; [apply lookup_remove_eq | apply lookup_remove_neq; assumption].
  Qed.

  Lemma lookup_In_keys k m : lookup k m <> None <-> In k (keys m).
  Proof.
    induction m as [|[k' v'] m IH]; cbn; [tauto|].
    destruct (eqb_spec k k') as [->|N].
    - split; [auto | discriminate].
    - rewrite IH. split; [auto | intros [E|E]; [congruence | assumption]].
  Qed.

  Lemma lookup_None_keys k m : lookup k m = None <-> ~ In k (keys m).
  Proof. rewrite <- lookup_In_keys. destruct (lookup k m); intuition congruence. Qed.

  Lemma mem_In_keys k m : mem k m = true <-> In k (keys m).
  Proof.
    unfold mem. rewrite <- lookup_In_keys. destruct (lookup k m); intuition congruence.
  Qed.

  Lemma keys_insert_mem k v m : In k (keys m) -> keys (insert k v m) = keys m.
  Proof.
    unfold keys; induction m as [|[k' v'] m IH]; cbn; [tauto|].
    destruct (eqb_spec k k') as [->|N]; cbn; [reflexivity|].
    intros [E|E]; [congruence|]. rewrite IH; auto.
  Qed.

  Lemma keys_insert_new k v m : ~ In k (keys m) -> keys (insert k v m) = keys m ++ [k].
  Proof.
    unfold keys; induction m as [|[k' v'] m IH]; cbn; [reflexivity|].
    destruct (eqb_spec k k') as [->|N]; cbn; [tauto|].
    intros NI. rewrite IH; auto.
  Qed.

  Lemma In_keys_insert k k' v m : In k' (keys (insert k v m)) <-> k' = k \/ In k' (keys m).
  Proof.
    rewrite <- !lookup_In_keys, lookup_insert.
    destruct (eqb_spec k' k) as [->|N]; intuition congruence.
  Qed.

  Lemma In_keys_remove k k' m : In k' (keys (remove k m)) <-> k' <> k /\ In k' (keys m).
  Proof.
    rewrite <- !lookup_In_keys, lookup_remove.
    destruct (eqb_spec k' k) as [->|N]; intuition congruence.
  Qed.

  Lemma wf_nil : wf [].
  Proof. constructor. Qed.

  Lemma NoDup_snoc (l : list K) (k : K) : NoDup l -> ~ In k l -> NoDup (l ++ [k]).
  Proof.
    induction l as [|x l IH]; cbn; intros W NI; [constructor; [auto|constructor]|].
    inversion W as [|? ? NX W']; subst. constructor.
    - rewrite in_app_iff; cbn. intuition congruence.
    - apply IH; auto.
  Qed.

  Lemma wf_insert k v m : wf m -> wf (insert k v m).
  Proof.
    unfold wf; intros W. destruct (mem k m) eqn:E.
    - apply mem_In_keys in E. rewrite keys_insert_mem; auto.
    - assert (NI : ~ In k (keys m)) by (rewrite <- mem_In_keys; congruence).
      rewrite keys_insert_new by assumption. apply NoDup_snoc; assumption.
  Qed.

  Lemma keys_remove k m : keys (remove k m) = List.filter (fun x => negb (eqb k x)) (keys m).
  Proof.
    unfold keys; induction m as [|[k' v'] m IH]; cbn; [reflexivity|].
    destruct (eqb k k'); cbn; [assumption | rewrite IH; reflexivity].
  Qed.

  Lemma wf_remove k m : wf m -> wf (remove k m).
  Proof. unfold wf; intros W. rewrite keys_remove. apply NoDup_filter; assumption. Qed.

  Lemma wf_insert_new k v m : wf m -> wf (insert_new k v m).
  Proof. unfold insert_new; destruct (mem k m); auto using wf_insert. Qed.

  Lemma lookup_insert_new k k' v m :
    lookup k' (insert_new k v m) =
    match lookup k' m with Some x => Some x | None => if eqb k' k then Some v else None end.
  Proof.
    unfold insert_new, mem. destruct (lookup k m) eqn:E.
    - destruct (eqb_spec k' k) as [->|N]; [rewrite E; reflexivity | destruct (lookup k' m); reflexivity].
    - rewrite lookup_insert. destruct (eqb_spec k' k) as [->|N]; [rewrite E; reflexivity|].
      destruct (lookup k' m); reflexivity.
  Qed.

  Lemma lookup_In k v m : wf m -> (lookup k m = Some v <-> In (k, v) m).
  Proof.
    unfold wf; induction m as [|[k' v'] m IH]; cbn; intros W; [split; [discriminate|tauto]|].
    inversion W as [|? ? NI W']; subst.
    destruct (eqb_spec k k') as [->|N].
    - split; [intros [= ->]; auto|]. intros [[= ->]|I]; [reflexivity|].
      exfalso; apply NI. apply in_map_iff. exists (k', v); auto.
    - rewrite IH by assumption. split; [auto|]. intros [[= -> ->]|I]; [congruence|assumption].
  Qed.

  (* lookup-extensional equivalence: same content, order ignored *)
  Definition equiv (m1 m2 : al) : Prop := forall k, lookup k m1 = lookup k m2.

  Lemma equiv_refl m : equiv m m. Proof. intro; reflexivity. Qed.
  Lemma equiv_sym m1 m2 : equiv m1 m2 -> equiv m2 m1. Proof. intros E k; symmetry; apply E. Qed.
  Lemma equiv_trans m1 m2 m3 : equiv m1 m2 -> equiv m2 m3 -> equiv m1 m3.
  Proof. intros E1 E2 k; rewrite E1; apply E2. Qed.

End AL.

Arguments al : clear implicits.
