(* Base/Eqb.v — decidable boolean equality as a class, with the instances the models use.
   Definitions and their specifications only; no property theorem lives here. *)
From Coq Require Import List Bool ZArith NArith Arith String Ascii Lia.
Import ListNotations.

Class EqDec (A : Type) := {
  eqb : A -> A -> bool;
  eqb_spec : forall x y, reflect (x = y) (eqb x y)
}.

#[global] Arguments eqb : simpl never.

Lemma eqb_refl {A} `{EqDec A} (x : A) : eqb x x = true.
Proof. destruct (eqb_spec x x); congruence. Qed.

Lemma eqb_eq {A} `{EqDec A} (x y : A) : eqb x y = true <-> x = y.
Proof. destruct (eqb_spec x y); split; congruence. Qed.

Lemma eqb_neq {A} `{EqDec A} (x y : A) : eqb x y = false <-> x <> y.
Proof. destruct (eqb_spec x y); split; congruence. Qed.

Lemma eqb_true {A} `{EqDec A} (x y : A) : eqb x y = true -> x = y.
Proof. apply eqb_eq. Qed.

Lemma eqb_false {A} `{EqDec A} (x y : A) : eqb x y = false -> x <> y.
Proof. apply eqb_neq. Qed.

Lemma neq_eqb {A} `{EqDec A} (x y : A) : x <> y -> eqb x y = false.
Proof. apply eqb_neq. Qed.

Lemma eqb_sym {A} `{EqDec A} (x y : A) : eqb x y = eqb y x.
Proof. destruct (eqb_spec x y), (eqb_spec y x); congruence. Qed.

#[global] Instance EqDec_nat : EqDec nat := {| eqb := Nat.eqb; eqb_spec := Nat.eqb_spec |}.
#[global] Instance EqDec_Z : EqDec Z := {| eqb := Z.eqb; eqb_spec := Z.eqb_spec |}.
#[global] Instance EqDec_N : EqDec N := {| eqb := N.eqb; eqb_spec := N.eqb_spec |}.
#[global] Instance EqDec_bool : EqDec bool := {| eqb := Bool.eqb; eqb_spec := Bool.eqb_spec |}.
#[global] Instance EqDec_string : EqDec string := {| eqb := String.eqb; eqb_spec := String.eqb_spec |}.
#[global] Instance EqDec_ascii : EqDec ascii := {| eqb := Ascii.eqb; eqb_spec := Ascii.eqb_spec |}.

Definition pair_eqb {A B} `{EqDec A} `{EqDec B} (p q : A * B) : bool :=
  eqb (fst p) (fst q) && eqb (snd p) (snd q).

Lemma pair_eqb_spec {A B} `{EqDec A} `{EqDec B} (p q : A * B) : reflect (p = q) (pair_eqb p q).
Proof.
  destruct p as [a b], q as [c d]; unfold pair_eqb; cbn [fst snd].
  destruct (eqb_spec a c), (eqb_spec b d); cbn; constructor; congruence.
Qed.

#[global] Instance EqDec_pair {A B} `{EqDec A} `{EqDec B} : EqDec (A * B) :=
  {| eqb := pair_eqb; eqb_spec := pair_eqb_spec |}.

Definition option_eqb {A} `{EqDec A} (p q : option A) : bool :=
  match p, q with
  | Some a, Some b => eqb a b
  | None, None => true
  | _, _ => false
  end.

Lemma option_eqb_spec {A} `{EqDec A} (p q : option A) : reflect (p = q) (option_eqb p q).
Proof.
  destruct p as [a|], q as [b|]; cbn; try (constructor; congruence).
  destruct (eqb_spec a b); constructor; congruence.
Qed.

#[global] Instance EqDec_option {A} `{EqDec A} : EqDec (option A) :=
  {| eqb := option_eqb; eqb_spec := option_eqb_spec |}.

Fixpoint list_eqb {A} `{EqDec A} (l m : list A) : bool :=
  match l, m with
  | [], [] => true
  | x :: l', y :: m' => eqb x y && list_eqb l' m'
  | _, _ => false
  end.

Lemma list_eqb_spec {A} `{EqDec A} (l m : list A) : reflect (l = m) (list_eqb l m).
Proof.
  revert m; induction l as [|x l IH]; intros [|y m]; cbn; try (constructor; congruence).
  destruct (eqb_spec x y); cbn; [|constructor; congruence].
  destruct (IH m); constructor; congruence.
Qed.

#[global] Instance EqDec_list {A} `{EqDec A} : EqDec (list A) :=
  {| eqb := list_eqb; eqb_spec := list_eqb_spec |}.

(* membership *)
Fixpoint memb {A} `{EqDec A} (x : A) (l : list A) : bool :=
  match l with
  | [] => false
  | y :: l' => eqb x y || memb x l'
  end.

Lemma memb_In {A} `{EqDec A} (x : A) (l : list A) : memb x l = true <-> In x l.
Proof.
  induction l as [|y l IH]; cbn; [split; [discriminate|tauto]|].
  rewrite orb_true_iff, IH, eqb_eq. split; intros [E|E]; auto.
Qed.

Lemma memb_not_In {A} `{EqDec A} (x : A) (l : list A) : memb x l = false <-> ~ In x l.
Proof.
  rewrite <- memb_In. destruct (memb x l); split; congruence.
Qed.

Lemma memb_app {A} `{EqDec A} (x : A) (l m : list A) : memb x (l ++ m) = memb x l || memb x m.
Proof. induction l as [|y l IH]; cbn; [reflexivity|]. rewrite IH, orb_assoc; reflexivity. Qed.

(* order-preserving de-duplication, first occurrence kept *)
Fixpoint dedup_acc {A} `{EqDec A} (seen l : list A) : list A :=
  match l with
  | [] => []
  | x :: l' => if memb x seen then dedup_acc seen l' else x :: dedup_acc (x :: seen) l'
  end.
Definition dedup {A} `{EqDec A} (l : list A) : list A := dedup_acc [] l.

Lemma dedup_acc_In {A} `{EqDec A} (seen l : list A) (x : A) :
  In x (dedup_acc seen l) <-> In x l /\ ~ In x seen.
Proof.
  revert seen; induction l as [|y l IH]; intros seen; cbn; [tauto|].
  destruct (memb y seen) eqn:E.
  - rewrite IH. apply memb_In in E. split.
    + intros [H1 H2]; auto.
    + intros [[->|H1] H2]; [contradiction|auto].
  - apply memb_not_In in E. cbn. rewrite IH. cbn. split.
    + intros [->|[H1 H2]]; [auto|]. split; [auto|]. intro; apply H2; auto.
    + intros [[->|H1] H2]; [auto|]. destruct (eqb_spec y x) as [->|N]; [auto|].
      right; split; [auto|]. intros [->|?]; auto.
Qed.

Lemma dedup_In {A} `{EqDec A} (l : list A) (x : A) : In x (dedup l) <-> In x l.
Proof. unfold dedup; rewrite dedup_acc_In; cbn; tauto. Qed.

Lemma dedup_acc_NoDup {A} `{EqDec A} (seen l : list A) : NoDup (dedup_acc seen l).
Proof.
  revert seen; induction l as [|y l IH]; intros seen; cbn; [constructor|].
  destruct (memb y seen) eqn:E; [apply IH|].
  constructor; [|apply IH]. rewrite dedup_acc_In. cbn. intros [_ N]; apply N; auto.
Qed.

Lemma dedup_NoDup {A} `{EqDec A} (l : list A) : NoDup (dedup l).
Proof. apply dedup_acc_NoDup. Qed.
