(* Base/Run.v — the correspondence runner evaluated inside Coq by the generated shards:
   [mismatches chk cases] returns the indices (0-based) of the cases on which the model's
   verdict [chk] is false.  Nothing else of a shard's output is ever parsed. *)
From Coq Require Import List Bool.
Import ListNotations.

Fixpoint mismatches_from {A} (chk : A -> bool) (i : nat) (l : list A) : list nat :=
  match l with
  | [] => []
  | x :: l' => if chk x then mismatches_from chk (S i) l' else i :: mismatches_from chk (S i) l'
  end.

Definition mismatches {A} (chk : A -> bool) (l : list A) : list nat := mismatches_from chk 0 l.

Lemma mismatches_from_nil {A} (chk : A -> bool) i l :
  mismatches_from chk i l = [] <-> forallb chk l = true.
Proof.
  revert i; induction l as [|x l IH]; intros i; cbn; [tauto|].
  destruct (chk x); cbn; [apply IH | split; discriminate].
Qed.

Lemma mismatches_nil {A} (chk : A -> bool) l : mismatches chk l = [] <-> Forall (fun x => chk x = true) l.
Proof. unfold mismatches; rewrite mismatches_from_nil, forallb_forall, Forall_forall; tauto. Qed.
