(* Base/Str.v — strings as the harness encodes them: Coq [string] holding the UTF-8 bytes of a
   Python str.  Lexicographic comparison of the bytes equals Python's comparison of the code
   points (UTF-8 preserves code-point order), so [sleb] models Python's  a <= b  on str. *)
From Coq Require Import List Bool String Ascii NArith Arith Lia.
From KV Require Import Eqb.
Import ListNotations.
Local Open Scope string_scope.

Definition byte_of (c : ascii) : N := N_of_ascii c.

Fixpoint bytes_of (s : string) : list N :=
  match s with
  | EmptyString => []
  | String c s' => byte_of c :: bytes_of s'
  end.

Fixpoint of_bytes (l : list N) : string :=
  match l with
  | [] => EmptyString
  | b :: l' => String (ascii_of_N b) (of_bytes l')
  end.

Lemma of_bytes_bytes_of s : of_bytes (bytes_of s) = s.
Proof. induction s as [|c s IH]; cbn; [reflexivity|]. unfold byte_of; rewrite ascii_N_embedding, IH; reflexivity. Qed.

(* lexicographic <= / < on lists of N *)
Fixpoint lleb (a b : list N) : bool :=
  match a, b with
  | [], _ => true
  | _ :: _, [] => false
  | x :: a', y :: b' => if N.ltb x y then true else if N.eqb x y then lleb a' b' else false
  end.

Definition sleb (a b : string) : bool := lleb (bytes_of a) (bytes_of b).
Definition sltb (a b : string) : bool := negb (sleb b a).

Lemma lleb_refl a : lleb a a = true.
Proof. induction a as [|x a IH]; cbn; [reflexivity|]. rewrite N.ltb_irrefl, N.eqb_refl; assumption. Qed.

Lemma lleb_total a b : lleb a b = true \/ lleb b a = true.
Proof.
  revert b; induction a as [|x a IH]; intros [|y b]; cbn; auto.
  destruct (N.ltb_spec x y), (N.ltb_spec y x); auto; try lia.
  assert (x = y) by lia; subst. rewrite N.eqb_refl. apply IH.
Qed.

Lemma lleb_trans a b c : lleb a b = true -> lleb b c = true -> lleb a c = true.
Proof.
  revert b c; induction a as [|x a IH]; intros [|y b] [|z c]; cbn; auto; try discriminate.
  destruct (N.ltb_spec x y), (N.ltb_spec y z), (N.ltb_spec x z); auto; try lia;
    destruct (N.eqb_spec x y), (N.eqb_spec y z), (N.eqb_spec x z); subst; auto; try lia; try discriminate.
  apply IH.
Qed.

Lemma lleb_antisym a b : lleb a b = true -> lleb b a = true -> a = b.
Proof.
  revert b; induction a as [|x a IH]; intros [|y b]; cbn; auto; try discriminate.
  destruct (N.compare_spec x y) as [E|L|L].
  - subst. rewrite N.ltb_irrefl, N.eqb_refl. intros; f_equal; auto.
  - intros _. replace (N.ltb y x) with false by (symmetry; apply N.ltb_ge; lia).
    replace (N.eqb y x) with false by (symmetry; apply N.eqb_neq; lia). discriminate.
  - replace (N.ltb x y) with false by (symmetry; apply N.ltb_ge; lia).
    replace (N.eqb x y) with false by (symmetry; apply N.eqb_neq; lia). discriminate.
Qed.

Fixpoint prefixb (p s : string) : bool :=
  match p, s with
  | EmptyString, _ => true
  | String a p', String b s' => Ascii.eqb a b && prefixb p' s'
  | _, _ => false
  end.

Lemma prefixb_spec p s : prefixb p s = true <-> exists t, s = p ++ t.
Proof.
  revert s; induction p as [|a p IH]; intros s; cbn.
  - split; [intros _; exists s; reflexivity | reflexivity].
  - destruct s as [|b s]; [split; [discriminate | intros [t E]; discriminate]|].
    rewrite andb_true_iff, IH, Ascii.eqb_eq. split.
    + intros [-> [t ->]]; exists t; reflexivity.
    + intros [t [= -> ->]]; split; [reflexivity | exists t; reflexivity].
Qed.

(* insertion sort by [sleb]; Python's sorted() on str *)
Fixpoint sinsert (x : string) (l : list string) : list string :=
  match l with
  | [] => [x]
  | y :: l' => if sleb x y then x :: l else y :: sinsert x l'
  end.
Fixpoint ssort (l : list string) : list string :=
  match l with
  | [] => []
  | x :: l' => sinsert x (ssort l')
  end.

Lemma sinsert_In x y l : In y (sinsert x l) <-> y = x \/ In y l.
Proof.
  induction l as [|z l IH]; cbn; [intuition congruence|].
  destruct (sleb x z); cbn; [intuition congruence|]. rewrite IH. intuition congruence.
Qed.

Lemma ssort_In y l : In y (ssort l) <-> In y l.
Proof.
  induction l as [|x l IH]; cbn; [tauto|]. rewrite sinsert_In, IH. intuition congruence.
Qed.

Lemma sinsert_length x l : List.length (sinsert x l) = S (List.length l).
Proof. induction l as [|z l IH]; cbn; [reflexivity|]. destruct (sleb x z); cbn; [reflexivity|rewrite IH; reflexivity]. Qed.

Lemma ssort_length l : List.length (ssort l) = List.length l.
Proof. induction l as [|x l IH]; cbn; [reflexivity|]. rewrite sinsert_length, IH; reflexivity. Qed.
