(* Model/MBinary.v — executable model of kapture's raw binary array files (property C03).
   Definitions only; proofs are in Proofs/PBinary.v.

   Modelled (behaviour of the tree under test, after the repair "little-endian dump"):
   - kapture.io.binary.array_to_file / array_from_file and TarHandler.add_array_to_tar / get_array_from_tar:
     an array is a list of element bit patterns (N) in row-major order; the file is the concatenation of
     the little-endian bytes of each element, without header; reading cuts the bytes into items and
     reshapes to (-1, dsize) — with the exact failure cases of numpy (see [read_bytes]).
   - the typed front ends of kapture.io.features / kapture.io.records: keypoints, descriptors, global
     features (pass through), matches (asserts float64 x 3 on writing, reads float64 x 3), depth maps
     (converted to float32 on writing, read as float32 and reshaped to (height, width)).
   - the file locations: posixpath.join / normpath, path_secure, get_features_fullpath,
     get_matches_fullpath, get_record_fullpath, tar member names, Matches.lexical_order.
   Tables (directories, extensions, pair separator, fixed element types, item sizes) come from
   Gen/Tbinary.v, i.e. from the tree under test and numpy on this run.
   Not modelled: numpy's in-memory layout (strides, Fortran order): the dump does not depend on it, which
   the correspondence run exercises; value conversion of depth_map_to_file (a Section variable [cast]). *)
From Coq Require Import List Bool String Ascii NArith ZArith.
From KV Require Import Eqb Str.
From KV.Gen Require Import Tbinary.
Import ListNotations.
Local Open Scope list_scope.
Local Open Scope string_scope.

(* ------------------------------------------------------------------ element types *)
Inductive dtype := F16 | F32 | F64 | I8 | I16 | I32 | I64 | U8 | U16 | U32 | U64.
Definition all_dtypes : list dtype := [F16; F32; F64; I8; I16; I32; I64; U8; U16; U32; U64].

Definition dtype_name (d : dtype) : string :=
  match d with
  | F16 => "float16" | F32 => "float32" | F64 => "float64"
  | I8 => "int8" | I16 => "int16" | I32 => "int32" | I64 => "int64"
  | U8 => "uint8" | U16 => "uint16" | U32 => "uint32" | U64 => "uint64"
  end.

(* item size in bytes (checked against numpy's table in Props/C03.v) *)
Definition isz (d : dtype) : nat :=
  match d with
  | I8 | U8 => 1 | F16 | I16 | U16 => 2 | F32 | I32 | U32 => 4 | F64 | I64 | U64 => 8
  end%nat.

Definition dtype_eqb (a b : dtype) : bool := String.eqb (dtype_name a) (dtype_name b).

Fixpoint find_dtype (n : string) (l : list dtype) : option dtype :=
  match l with
  | [] => None
  | d :: l' => if String.eqb n (dtype_name d) then Some d else find_dtype n l'
  end.
Definition dtype_of_name (n : string) : option dtype := find_dtype n all_dtypes.
Definition table_dtype (n : string) (default : dtype) : dtype :=
  match dtype_of_name n with Some d => d | None => default end.

(* what image_matches_from_file / depth_map_from_file pass to array_from_file in the tree under test *)
Definition matches_dt : dtype := table_dtype Tbinary.matches_dtype F64.
Definition matches_cols : N := Tbinary.matches_cols.
Definition depth_dt : dtype := table_dtype Tbinary.depth_dtype F32.

(* ------------------------------------------------------------------ little-endian bytes *)
(* the [w] low-order bytes of [n], least significant first *)
Fixpoint to_le (w : nat) (n : N) : list N :=
  match w with
  | O => []
  | S w' => (n mod 256)%N :: to_le w' (n / 256)%N
  end.
Fixpoint of_le (bs : list N) : N :=
  match bs with
  | [] => 0%N
  | b :: bs' => (b + 256 * of_le bs')%N
  end.
Definition to_be (w : nat) (n : N) : list N := rev (to_le w n).

(* ------------------------------------------------------------------ arrays *)
(* memory layout of the array handed to the writer; it never influences the dump *)
Inductive layout := LContig | LFortran | LStrided | LReversed.

(* the array handed to a writer: element type, shape, element bit patterns in row-major (C) order,
   byte order of the in-memory representation, memory layout *)
Record mem := {
  m_dtype : dtype;
  m_shape : list N;
  m_elems : list N;
  m_big : bool;
  m_layout : layout
}.

(* what a reader returns: always two-dimensional, native element type *)
Record arr := { a_dtype : dtype; a_rows : N; a_cols : N; a_elems : list N }.

Definition prodN (l : list N) : N := fold_right N.mul 1%N l.
Definition lenN {A} (l : list A) : N := N.of_nat (List.length l).
Definition elem_ok (d : dtype) (n : N) : bool := (n <? 2 ^ (8 * N.of_nat (isz d)))%N.
Definition wf_mem (m : mem) : bool :=
  N.eqb (lenN (m_elems m)) (prodN (m_shape m)) && forallb (elem_ok (m_dtype m)) (m_elems m).

(* the file: little-endian bytes of every element, row-major, nothing else *)
Definition encode (d : dtype) (elems : list N) : list N := flat_map (to_le (isz d)) elems.
Definition dump (m : mem) : list N := encode (m_dtype m) (m_elems m).
(* before the repair: tofile()/tobytes() wrote the in-memory byte order *)
Definition dump_legacy (m : mem) : list N :=
  if m_big m then flat_map (to_be (isz (m_dtype m))) (m_elems m) else dump m.

(* ------------------------------------------------------------------ reading *)
Inductive store := SFile | STar.
Inductive err := ErrType | ErrValue.
Inductive rres := ROk (a : arr) | RErr (e : err).

Fixpoint dec_items (w : nat) (k : nat) (bs : list N) : list N :=
  match k with
  | O => []
  | S k' => of_le (firstn w bs) :: dec_items w k' (skipn w bs)
  end.

(* array_from_file (np.fromfile + reshape((-1, dsize))) and get_array_from_tar (np.frombuffer + reshape):
   - dsize <= 0: TypeError from array_from_file's own check; ValueError from reshape for the tar reader;
   - a trailing partial item is silently ignored by np.fromfile, refused (ValueError) by np.frombuffer;
   - reshape((-1, dsize)) raises ValueError unless the number of items is a multiple of dsize
     (zero items give shape (0, dsize)). *)
Definition read_bytes (st : store) (d : dtype) (dsize : Z) (bs : list N) : rres :=
  if (dsize <=? 0)%Z then RErr (match st with SFile => ErrType | STar => ErrValue end) else
  let w := N.of_nat (isz d) in
  let nb := lenN bs in
  if (match st with STar => negb (nb mod w =? 0)%N | SFile => false end) then RErr ErrValue else
  let n := (nb / w)%N in
  let c := Z.to_N dsize in
  if negb (n mod c =? 0)%N then RErr ErrValue else
  ROk {| a_dtype := d; a_rows := (n / c)%N; a_cols := c; a_elems := dec_items (isz d) (N.to_nat n) bs |}.

(* depth_map_from_file(filepath, (width, height)): array_from_file(float32, int(width*height)) then
   reshape((height, width)) *)
Definition depth_read (width height : Z) (bs : list N) : rres :=
  match read_bytes SFile depth_dt (width * height)%Z bs with
  | RErr e => RErr e
  | ROk a =>
      if (0 <? width)%Z && (0 <? height)%Z && (a_rows a =? 1)%N
      then ROk {| a_dtype := depth_dt; a_rows := Z.to_N height; a_cols := Z.to_N width; a_elems := a_elems a |}
      else RErr ErrValue
  end.

(* ------------------------------------------------------------------ typed front ends *)
Inductive api := AKeypoints | ADescriptors | AGlobalFeatures | AMatches | ADepth | ARaw.
Inductive wres := Written (bs : list N) | Refused | IndexErr.

Section Write.
  (* numpy's value conversion ndarray.astype(float32) on element bit patterns, used by
     depth_map_to_file for arrays that are not float32 *)
  Variable cast : dtype -> N -> N.

  Definition depth_elems (m : mem) : list N :=
    if dtype_eqb (m_dtype m) depth_dt then m_elems m else map (cast (m_dtype m)) (m_elems m).

  Definition matches_gate (m : mem) (bs : list N) : wres :=
    (* assert image_matches.dtype == np.float64 ; assert image_matches.shape[1] == 3 *)
    if dtype_eqb (m_dtype m) F64 && negb (m_big m) then
      match m_shape m with
      | _ :: c :: _ => if (c =? 3)%N then Written bs else Refused
      | _ => IndexErr
      end
    else Refused.

  Definition write_api (a : api) (m : mem) : wres :=
    match a with
    | AMatches => matches_gate m (dump m)
    | ADepth => Written (encode depth_dt (depth_elems m))
    | _ => Written (dump m)
    end.

  Definition write_api_legacy (a : api) (m : mem) : wres :=
    match a with
    | AMatches => matches_gate m (dump_legacy m)
    | ADepth => Written (encode depth_dt (depth_elems m))   (* astype() already gave native order *)
    | _ => Written (dump_legacy m)
    end.
End Write.

(* the reader of each front end; [rd_d]/[rd_dsize] are what the caller passes to image_*_from_file,
   [rd_w]/[rd_h] the size passed to depth_map_from_file *)
Definition read_api (a : api) (st : store) (rd_d : dtype) (rd_dsize rd_w rd_h : Z) (bs : list N) : rres :=
  match a with
  | AMatches => read_bytes st matches_dt (Z.of_N matches_cols) bs
  | ADepth => depth_read rd_w rd_h bs
  | _ => read_bytes st rd_d rd_dsize bs
  end.

(* ------------------------------------------------------------------ paths *)
Definition slash : ascii := "/"%char.
Definition bslash : ascii := "\"%char.

(* str.split('/') : head component and the remaining ones *)
Fixpoint split1 (s : string) : string * list string :=
  match s with
  | EmptyString => (EmptyString, [])
  | String a s' =>
      let (h, t) := split1 s' in
      if Ascii.eqb a slash then (EmptyString, h :: t) else (String a h, t)
  end.
Definition split_slash (s : string) : list string := let (h, t) := split1 s in h :: t.

Fixpoint join_slash (l : list string) : string :=
  match l with
  | [] => ""
  | [x] => x
  | x :: l' => x ++ "/" ++ join_slash l'
  end.

Fixpoint ends_with_slash (s : string) : bool :=
  match s with
  | EmptyString => false
  | String a EmptyString => Ascii.eqb a slash
  | String _ s' => ends_with_slash s'
  end.

(* posixpath.normpath; [acc] holds the kept components in reverse *)
Definition norm_step (absolute : bool) (acc : list string) (comp : string) : list string :=
  if String.eqb comp "" || String.eqb comp "." then acc
  else if negb (String.eqb comp "..") then comp :: acc
  else match acc with
       | [] => if absolute then [] else [comp]
       | top :: rest => if String.eqb top ".." then comp :: acc else rest
       end.

Definition normpath (s : string) : string :=
  if String.eqb s "" then "." else
  let absolute := prefixb "/" s in
  let pre := if absolute then (if prefixb "//" s && negb (prefixb "///" s) then "//" else "/") else "" in
  let comps := rev (fold_left (norm_step absolute) (split_slash s) []) in
  let p := pre ++ join_slash comps in
  if String.eqb p "" then "." else p.

(* posixpath.join *)
Definition join2 (p b : string) : string :=
  if prefixb "/" b then b
  else if String.eqb p "" || ends_with_slash p then p ++ b
  else p ++ "/" ++ b.
Definition pjoin (a : string) (l : list string) : string := fold_left join2 l a.

Fixpoint replace_bs (s : string) : string :=
  match s with
  | EmptyString => EmptyString
  | String a s' => String (if Ascii.eqb a bslash then slash else a) (replace_bs s')
  end.

(* kapture.utils.paths.path_secure *)
Definition path_secure (s : string) : string := replace_bs (normpath s).

Fixpoint assoc (k : string) (l : list (string * string)) : string :=
  match l with
  | [] => ""
  | (k', v) :: l' => if String.eqb k k' then v else assoc k l'
  end.
Definition dir_of (kind : string) : string := assoc kind Tbinary.feature_dir.
Definition ext_of (kind : string) : string := assoc kind Tbinary.feature_ext.

(* image_filename + EXT if image_filename else '' *)
Definition feature_file (name ext : string) : string := if String.eqb name "" then "" else name ++ ext.

(* get_features_fullpath without tar handler *)
Definition feature_path_gen (dir ext root ftype name : string) : string :=
  path_secure (pjoin root [dir; ftype; feature_file name ext]).
Definition feature_path (kind root ftype name : string) : string :=
  feature_path_gen (dir_of kind) (ext_of kind) root ftype name.
(* with a tar handler: the member name used by add_array_to_tar *)
Definition tar_member_gen (ext name : string) : string := path_secure (name ++ ext).
Definition tar_member (kind name : string) : string := tar_member_gen (ext_of kind) name.

(* get_matches_fullpath *)
Definition matches_file_gen (sep a b : string) : string := path_secure (join2 (a ++ sep) b).
Definition matches_file (a b : string) : string := matches_file_gen Tbinary.pair_sep a b.
Definition matches_path (root ftype a b : string) : string :=
  feature_path "Matches" root ftype (matches_file a b).
Definition matches_tar_member (a b : string) : string := tar_member "Matches" (matches_file a b).

(* kapture.Matches.lexical_order *)
Definition lexical_order (a b : string) : string * string := if sltb a b then (a, b) else (b, a).

(* get_record_fullpath / get_depth_map_fullpath *)
Definition record_path_gen (rdir root name : string) : string := path_secure (pjoin root [rdir; name]).
Definition record_path (root name : string) : string := record_path_gen Tbinary.records_dir root name.

(* ------------------------------------------------------------------ normalised names *)
(* the domain on which the location clauses of the property are stated: relative POSIX paths whose
   components are non-empty and neither "." nor "..", without backslash *)
Fixpoint no_slashb (s : string) : bool :=
  match s with EmptyString => true | String a s' => negb (Ascii.eqb a slash) && no_slashb s' end.
Fixpoint no_bsb (s : string) : bool :=
  match s with EmptyString => true | String a s' => negb (Ascii.eqb a bslash) && no_bsb s' end.
Definition comp_ok (c : string) : bool :=
  negb (String.eqb c "") && negb (String.eqb c ".") && negb (String.eqb c "..").
Definition good_rel (s : string) : bool := forallb comp_ok (split_slash s) && no_bsb s.
(* a dataset root: normalised, relative or absolute *)
Definition good_root (s : string) : bool :=
  match s with
  | EmptyString => false
  | String a r => if Ascii.eqb a slash then good_rel r else good_rel s
  end.
(* a file extension / pair separator: no separator character, at least two characters *)
Definition good_ext (e : string) : bool := no_slashb e && no_bsb e && (2 <=? String.length e)%nat.
(* s ends with e *)
Fixpoint suffixb (e s : string) : bool :=
  String.eqb e s || match s with EmptyString => false | String _ s' => suffixb e s' end.
(* no directory component of the image name ends with the pair separator *)
Definition dirs_free_of (sep name : string) : bool :=
  forallb (fun c => negb (suffixb sep c)) (removelast (split_slash name)).

(* ------------------------------------------------------------------ several writes of one array *)
(* a writer seen as a step on the caller's array: it returns the outcome and the array as the caller
   finds it afterwards.  The code under test never modifies its argument. *)
Definition write_step (cast : dtype -> N -> N) (a : api) (m : mem) : wres * mem := (write_api cast a m, m).

Fixpoint run_seq (step : api -> mem -> wres * mem) (l : list api) (m : mem) : list wres * mem :=
  match l with
  | [] => ([], m)
  | a :: l' =>
      let (r, m1) := step a m in
      let (rs, m2) := run_seq step l' m1 in
      (r :: rs, m2)
  end.
Definition write_seq (cast : dtype -> N -> N) : list api -> mem -> list wres * mem := run_seq (write_step cast).

(* a variant that is NOT the behaviour under test (kept to show what the sequence cases exclude):
   byte-swapping a writeable big-endian buffer in place "to avoid a copy" leaves the caller's array
   holding the swapped values although its dtype still says big-endian *)
Definition bswap (w : nat) (n : N) : N := of_le (to_be w n).
Definition write_step_inplace (cast : dtype -> N -> N) (writeable : bool) (a : api) (m : mem) : wres * mem :=
  let touched := match a with ADepth | AMatches => false | _ => m_big m && writeable end in
  (write_api cast a m,
   if touched then {| m_dtype := m_dtype m; m_shape := m_shape m;
                      m_elems := map (bswap (isz (m_dtype m))) (m_elems m);
                      m_big := m_big m; m_layout := m_layout m |}
   else m).

(* ------------------------------------------------------------------ listing and a store of files *)
(* image_ids_from_feature_dirpath / image_ids_from_feature_tar: file name minus the extension *)
Definition id_of_member (ext s : string) : option string :=
  if suffixb ext s then Some (substring 0 (String.length s - String.length ext) s) else None.

(* files of one feature type (directory or tar archive), keyed by member name; the last write wins *)
Definition fstore := list (string * list N).
Definition fs_write (k : string) (bs : list N) (f : fstore) : fstore := (k, bs) :: f.
Fixpoint fs_read (k : string) (f : fstore) : option (list N) :=
  match f with
  | [] => None
  | (k', bs) :: f' => if String.eqb k k' then Some bs else fs_read k f'
  end.
Fixpoint opt_list {A} (l : list (option A)) : list A :=
  match l with [] => [] | Some x :: l' => x :: opt_list l' | None :: l' => opt_list l' end.
Definition fs_ids (ext : string) (f : fstore) : list string :=
  ssort (dedup (opt_list (map (fun e => id_of_member ext (fst e)) f))).


(* ------------------------------------------------------------------ a history on one kapture root *)
(* One step of a history: the location of a feature / matches array is asked for ([h_write = false]) or the array
   [h_mem] is written there ([h_write = true]).  [h_b] is the second image of a pair (matches only). *)
Record hstep := { h_write : bool; h_api : api; h_ftype : string; h_a : string; h_b : string; h_mem : mem }.

Definition kind_of_api (a : api) : string :=
  match a with
  | AKeypoints => "Keypoints" | ADescriptors => "Descriptors" | AGlobalFeatures => "GlobalFeatures"
  | AMatches => "Matches" | ADepth => "Depth" | ARaw => "Raw"
  end.

(* what get_<kind>_fullpath returns: the full path below the root, or the tar member name.  It is a function of
   the names ALONE: the store is not an argument. *)
Definition hist_loc (st : store) (root : string) (s : hstep) : string :=
  match st, h_api s with
  | SFile, AMatches => matches_path root (h_ftype s) (h_a s) (h_b s)
  | SFile, a => feature_path (kind_of_api a) root (h_ftype s) (h_a s)
  | STar, AMatches => matches_tar_member (h_a s) (h_b s)
  | STar, a => tar_member (kind_of_api a) (h_a s)
  end.
(* the key of the destination in the store of the whole root: the path, or kind|type|member for a tar archive
   (one archive per feature kind and type) *)
Definition hist_key (st : store) (root : string) (s : hstep) : string :=
  match st with
  | SFile => hist_loc st root s
  | STar => kind_of_api (h_api s) ++ "|" ++ h_ftype s ++ "|" ++ hist_loc st root s
  end.

(* the store after a history: every accepted write replaces the content of its own destination *)
Definition hist_step (cast : dtype -> N -> N) (st : store) (root : string) (f : fstore) (s : hstep) : fstore :=
  if h_write s then
    match write_api cast (h_api s) (h_mem s) with
    | Written bs => fs_write (hist_key st root s) bs f
    | _ => f
    end
  else f.
Definition hist_run (cast : dtype -> N -> N) (st : store) (root : string) (steps : list hstep) (f : fstore) : fstore :=
  fold_left (hist_step cast st root) steps f.

(* the last array written in a history by a step that satisfies [p] (None: no such write) *)
Fixpoint hist_last_by (cast : dtype -> N -> N) (p : hstep -> bool) (steps : list hstep) : option (list N) :=
  match steps with
  | [] => None
  | s :: rest =>
      match hist_last_by cast p rest with
      | Some bs => Some bs
      | None =>
          if h_write s && p s then
            match write_api cast (h_api s) (h_mem s) with Written bs => Some bs | _ => None end
          else None
      end
  end.
(* ... to the destination with key [k] *)
Definition hist_last (cast : dtype -> N -> N) (st : store) (root : string) (k : string) (steps : list hstep)
  : option (list N) := hist_last_by cast (fun s => String.eqb k (hist_key st root s)) steps.
(* ... of the matches of the pair (a, b) for feature type [ftype]: selected by the NAMES, not by a path *)
Definition same_pair (ftype a b : string) (s : hstep) : bool :=
  String.eqb ftype (h_ftype s) && String.eqb a (h_a s) && String.eqb b (h_b s).

(* a variant that is NOT the behaviour under test ("a pair is not oriented"): when the documented file of (a, b)
   is missing and the file of (b, a) exists, the location of (b, a) is returned.  The location then depends on
   the store. *)
Definition matches_path_fallback (f : fstore) (root ftype a b : string) : string :=
  match fs_read (matches_path root ftype a b) f, fs_read (matches_path root ftype b a) f with
  | None, Some _ => matches_path root ftype b a
  | _, _ => matches_path root ftype a b
  end.
Definition hist_step_fallback (root : string) (f : fstore) (s : hstep) : fstore :=
  match write_api (fun _ n => n) (h_api s) (h_mem s) with
  | Written bs => fs_write (matches_path_fallback f root (h_ftype s) (h_a s) (h_b s)) bs f
  | _ => f
  end.

(* ------------------------------------------------------------------ correspondence *)
Inductive wobs := WOk | WRefused | WIndexErr | WOther.
Inductive robs :=
| OArr (dt : string) (shape : list N) (elems : list N)
| OErrType | OErrValue | OOther | ONone.

Definition wobs_eqb (a b : wobs) : bool :=
  match a, b with WOk, WOk | WRefused, WRefused | WIndexErr, WIndexErr | WOther, WOther => true | _, _ => false end.

Definition robs_of (r : rres) : robs :=
  match r with
  | ROk a => OArr (dtype_name (a_dtype a)) [a_rows a; a_cols a] (a_elems a)
  | RErr ErrType => OErrType
  | RErr ErrValue => OErrValue
  end.
Definition robs_eqb (a b : robs) : bool :=
  match a, b with
  | OArr d s e, OArr d' s' e' => String.eqb d d' && eqb s s' && eqb e e'
  | OErrType, OErrType | OErrValue, OErrValue | OOther, OOther | ONone, ONone => true
  | _, _ => false
  end.

Fixpoint lookupN (k : N) (l : list (N * N)) : N :=
  match l with
  | [] => 0%N
  | (k', v) :: l' => if (k =? k')%N then v else lookupN k l'
  end.

Inductive case :=
(* an array written through a front end, the bytes found in the file / tar member, and what the
   matching reader returned; [cast_tbl] gives float32 bits for the source bit patterns (depth only) *)
| CArray (a : api) (st : store) (m : mem) (cast_tbl : list (N * N))
         (rd_d : dtype) (rd_dsize rd_w rd_h : Z)
         (ow : wobs) (obytes : list N) (ord : robs)
(* arbitrary bytes put in a file / tar member and read through a front end *)
| CBytes (a : api) (st : store) (bs : list N) (rd_d : dtype) (rd_dsize rd_w rd_h : Z) (ord : robs)
(* get_<kind>_fullpath(ftype, root, name): returned path, and the tar member name used for the same image *)
| CFeatPath (kind root ftype name : string) (opath : string) (otar : option string)
(* get_matches_fullpath((a, b), ftype, root), tar member name, Matches.lexical_order(a, b) *)
| CMatchPath (root ftype a b : string) (opath : string) (otar : option string) (oorder : string * string)
(* get_depth_map_fullpath(root, name) *)
| CRecPath (root name : string) (opath : string)
(* the SAME array object written through several front ends in turn: outcome and file bytes of every write,
   and the element bit patterns / dtype of the caller's array afterwards *)
| CSeq (m : mem) (cast_tbl : list (N * N)) (steps : list api) (owrites : list (wobs * list N))
       (oafter : list N) (odtype_kept : bool)
(* two images of one feature type written one after the other (second may be the same name), then the first
   is read back and the image ids are listed *)
| CTwo (kind : string) (st : store) (n1 n2 : string) (m1 m2 : mem) (ord1 : robs) (oids : list string)
(* DIFFERENT arrays written in turn to the SAME destination (file or tar member) of one front end: after every
   write, the bytes found there and what the reader returns; [bystander] is another file of the same feature
   type written before, [oby] its bytes at the end *)
| CRewrite (a : api) (st : store) (bystander : list N)
           (steps : list (mem * wobs * list N * robs)) (oby : list N)
(* a HISTORY on one kapture root "R": for every step the location the getter returned and the outcome of the write;
   at the end the whole tree (every file / tar member with its bytes, [otree]) and, for the last write of every
   destination, what the matching reader returned for the location the getter gives THEN ([ord], ONone otherwise) *)
| CHist (st : store) (steps : list (hstep * string * wobs * robs)) (otree : list (string * list N)).

(* a write REPLACES the content of its destination; the reader is given the element type / column count /
   (width, height) of the array just written *)
Fixpoint rewrite_run (a : api) (st : store) (f : fstore) (steps : list (mem * wobs * list N * robs)) (oby : list N)
  : bool :=
  match steps with
  | [] => match fs_read "other" f with Some c => eqb c oby | None => false end
  | (m, ow, ob, ord) :: rest =>
      match write_api (fun _ n => n) a m with
      | Written bs =>
          let f' := fs_write "dest" bs f in
          let (h, w) := match m_shape m with [h; w] => (Z.of_N h, Z.of_N w) | _ => (1%Z, Z.of_N (prodN (m_shape m))) end in
          wobs_eqb ow WOk
          && match fs_read "dest" f' with
             | Some c => eqb c ob && robs_eqb (robs_of (read_api a st (m_dtype m) w w h c)) ord
             | None => false
             end
          && rewrite_run a st f' rest oby
      | Refused => wobs_eqb ow WRefused && rewrite_run a st f rest oby
      | IndexErr => wobs_eqb ow WIndexErr && rewrite_run a st f rest oby
      end
  end.


Definition hist_root : string := "R".
Definition wobs_of (h : hstep) : wobs :=
  if h_write h then
    match write_api (fun _ n => n) (h_api h) (h_mem h) with Written _ => WOk | Refused => WRefused | IndexErr => WIndexErr end
  else WOk.
Definition hist_check (st : store) (steps : list (hstep * string * wobs * robs)) (otree : list (string * list N)) : bool :=
  let hs := map (fun x => fst (fst (fst x))) steps in
  let f := hist_run (fun _ n => n) st hist_root hs [] in
  (* every location returned is the location of the names, every outcome is the modelled one *)
  forallb (fun x => match x with (h, opath, ow, _) =>
                      String.eqb (hist_loc st hist_root h) opath && wobs_eqb (wobs_of h) ow end) steps
  (* the tree is exactly the store of the model: same keys, same bytes *)
  && forallb (fun e => match fs_read (fst e) f with Some bs => eqb bs (snd e) | None => false end) otree
  && forallb (fun k => memb k (map fst otree)) (map fst f)
  && Nat.eqb (List.length otree) (List.length (dedup (map fst f)))
  (* what is read back at the end *)
  && forallb (fun x => match x with (h, _, _, ord) =>
                match ord with
                | ONone => true
                | _ => match fs_read (hist_key st hist_root h) f with
                       | Some bs =>
                           let c := match m_shape (h_mem h) with [_; c] => Z.of_N c | _ => 1%Z end in
                           robs_eqb (robs_of (read_api (h_api h) st (m_dtype (h_mem h)) c 0 0 bs)) ord
                       | None => false
                       end
                end end) steps.

Definition check_case (c : case) : bool :=
  match c with
  | CArray a st m tbl rd_d rd_dsize rd_w rd_h ow obytes ord =>
      match write_api (fun _ n => lookupN n tbl) a m with
      | Written bs =>
          wobs_eqb ow WOk && eqb bs obytes
          && robs_eqb (robs_of (read_api a st rd_d rd_dsize rd_w rd_h bs)) ord
      | Refused => wobs_eqb ow WRefused
      | IndexErr => wobs_eqb ow WIndexErr
      end
  | CBytes a st bs rd_d rd_dsize rd_w rd_h ord =>
      robs_eqb (robs_of (read_api a st rd_d rd_dsize rd_w rd_h bs)) ord
  | CFeatPath kind root ftype name opath otar =>
      String.eqb (feature_path kind root ftype name) opath
      && match otar with Some t => String.eqb (tar_member kind name) t | None => true end
  | CMatchPath root ftype a b opath otar oorder =>
      String.eqb (matches_path root ftype a b) opath
      && match otar with Some t => String.eqb (matches_tar_member a b) t | None => true end
      && eqb (lexical_order a b) oorder
  | CRecPath root name opath => String.eqb (record_path root name) opath
  | CSeq m tbl steps owrites oafter odtype_kept =>
      let (rs, m') := write_seq (fun _ n => lookupN n tbl) steps m in
      eqb (map (fun r => match r with
                         | Written bs => (0%N, bs) | Refused => (1%N, []) | IndexErr => (2%N, [])
                         end) rs)
          (map (fun o => match o with
                         | (WOk, bs) => (0%N, bs) | (WRefused, _) => (1%N, []) | (WIndexErr, _) => (2%N, [])
                         | (WOther, _) => (3%N, [])
                         end) owrites)
      && eqb (m_elems m') oafter && odtype_kept
  | CTwo kind st n1 n2 m1 m2 ord1 oids =>
      let f := fs_write (tar_member kind n2) (dump m2) (fs_write (tar_member kind n1) (dump m1) []) in
      let c := match m_shape m1 with [_; c] => Z.of_N c | _ => 1%Z end in
      match fs_read (tar_member kind n1) f with
      | Some bs => robs_eqb (robs_of (read_bytes st (m_dtype m1) c bs)) ord1
      | None => false
      end
      && eqb (fs_ids (ext_of kind) f) oids
  | CRewrite a st bystander steps oby => rewrite_run a st (fs_write "other" bystander []) steps oby
  | CHist st steps otree => hist_check st steps otree
  end.
