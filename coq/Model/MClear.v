(* Model/MClear.v — executable model of kapture.io.structure.delete_existing_kapture_files
   (property C19).  Definitions only; proofs are in Proofs/PClear.v.

   Modelled: the selection of candidate paths from only/skip (lists of part type names), the
   "keep records_data when a kept part stores record files" rule, the consent gate, and the action
   taken per existing path (unlink for files and links, recursive delete for folders).
   The candidate tables come from Gen/Tables.v, i.e. from CSV_FILENAMES / FEATURES_DATA_DIRNAMES /
   get_record_fullpath of the tree under test. *)
From Coq Require Import List Bool String.
From KV Require Import Eqb Str.
From KV.Gen Require Import Tables.
Import ListNotations.
Local Open Scope string_scope.

Inductive kind := Absent | File | Dir | Link.
Inductive action := Unlink | Rmtree.

Definition kind_eqb (a b : kind) : bool :=
  match a, b with Absent, Absent | File, File | Dir, Dir | Link, Link => true | _, _ => false end.
Definition action_eqb (a b : action) : bool :=
  match a, b with Unlink, Unlink | Rmtree, Rmtree => true | _, _ => false end.

(* directory state: kind of each path relative to the dataset root; unlisted = Absent *)
Definition state := list (string * kind).
Fixpoint kind_of (st : state) (p : string) : kind :=
  match st with
  | [] => Absent
  | (q, k) :: st' => if eqb p q then k else kind_of st' p
  end.
Definition exists_at (st : state) (p : string) : bool := negb (kind_eqb (kind_of st p) Absent).

Inductive outcome :=
| Done (acts : list (string * action))    (* returned normally after performing acts *)
| Refused                                 (* ValueError "... already exist": no consent *)
| Crash.                                  (* any other exception *)

Section Clear.
  (* tables: (type name, relative path, stores record files) *)
  Variable csv : list (string * string * bool).
  Variable feat : list (string * string * bool).
  Variable rdata : string.

  Definition tname (e : string * string * bool) := fst (fst e).
  Definition tpath (e : string * string * bool) := snd (fst e).
  Definition tfile (e : string * string * bool) := snd e.

  Definition nonempty {A} (l : list A) : bool := match l with [] => false | _ => true end.

  (* `if skip: ...` then `if only: ...` (only overrides) *)
  Definition keep_csv (only skip : list string) : list string :=
    if nonempty only then List.filter (fun t => negb (memb t only)) (map tname csv)
    else if nonempty skip then List.filter (fun t => negb (memb t (map tname feat))) skip
    else [].
  Definition keep_feat (only skip : list string) : list string :=
    if nonempty only then List.filter (fun t => negb (memb t only)) (map tname feat)
    else if nonempty skip then List.filter (fun t => negb (memb t (map tname csv))) skip
    else [].

  (* issubclass(dtype, RecordsFilePath), by table lookup *)
  Fixpoint stores_files_in (tbl : list (string * string * bool)) (t : string) : bool :=
    match tbl with
    | [] => false
    | e :: tbl' => if eqb t (tname e) then tfile e else stores_files_in tbl' t
    end.
  Definition stores_files (t : string) : bool := stores_files_in (csv ++ feat) t.

  Definition must_keep_rdata (only skip : list string) : bool :=
    existsb stores_files (keep_csv only skip ++ keep_feat only skip).

  Definition cand_paths (only skip : list string) : list string :=
    map tpath (List.filter (fun e => negb (memb (tname e) (keep_csv only skip))) csv)
    ++ map tpath (List.filter (fun e => negb (memb (tname e) (keep_feat only skip))) feat)
    ++ [rdata].

  Fixpoint remove_first (x : string) (l : list string) : list string :=
    match l with
    | [] => []
    | y :: l' => if eqb x y then l' else y :: remove_first x l'
    end.

  (* list(reversed(sorted({...existing...})))  then drop records_data if it must be kept.
     The repaired code removes it only if present. *)
  Definition existing_paths (only skip : list string) (st : state) : list string :=
    let ex := rev (ssort (dedup (List.filter (exists_at st) (cand_paths only skip)))) in
    if nonempty ex && must_keep_rdata only skip then remove_first rdata ex else ex.

  Definition act_for (st : state) (p : string) : action :=
    match kind_of st p with
    | Dir => Rmtree
    | _ => Unlink            (* path.islink(p) or path.isfile(p) -> os.remove *)
    end.

  (* consent = force_erase or the user answered 'y' (asked only when something exists) *)
  Definition clear (only skip : list string) (st : state) (consent : bool) : outcome :=
    let ex := existing_paths only skip st in
    if nonempty ex then
      if consent then Done (map (fun p => (p, act_for st p)) ex) else Refused
    else Done [].

  (* the version before the repair ("fix: ... C19"): list.remove raised ValueError when
     records_data had to be kept but did not exist *)
  Definition clear_legacy (only skip : list string) (st : state) (consent : bool) : outcome :=
    let ex0 := rev (ssort (dedup (List.filter (exists_at st) (cand_paths only skip)))) in
    if nonempty ex0 && must_keep_rdata only skip && negb (memb rdata ex0) then Crash
    else clear only skip st consent.

  (* ---- declarative side, used by the theorems *)
  (* a part type is selected for deletion *)
  Definition selected (only skip : list string) (t : string) : bool :=
    if nonempty only then memb t only else negb (memb t skip).

  (* is the user prompted?  only when something would be deleted and the call is not forced *)
  Definition prompts (only skip : list string) (st : state) (force : bool) : bool :=
    nonempty (existing_paths only skip st) && negb force.

  (* the paths named in the question / in the refusal message *)
  Definition announced (only skip : list string) (st : state) : list string := existing_paths only skip st.

  (* ---- sessions: several calls made by one process, on the same directory as the previous calls left
     it, or on a fresh copy of the initial directory (another dataset directory).  The code keeps no
     state between calls, so the model of a session is the fold of `clear`. *)
  Record call := { k_only : list string; k_skip : list string; k_force : bool; k_yes : bool; k_fresh : bool }.
  Definition consent_of (k : call) : bool := k_force k || k_yes k.

  (* the directory after an outcome: the paths acted on are gone, everything else is as it was
     (no candidate lies inside another one: Props/C19.v C19_candidates_independent) *)
  Definition after (st : state) (o : outcome) : state :=
    match o with
    | Done acts => List.filter (fun e => negb (memb (fst e) (map fst acts))) st
    | _ => st
    end.

  Definition call_state (st0 cur : state) (k : call) : state := if k_fresh k then st0 else cur.
  Definition run_call (st0 cur : state) (k : call) : outcome :=
    clear (k_only k) (k_skip k) (call_state st0 cur k) (consent_of k).

  Fixpoint session (st0 cur : state) (ks : list call) : list outcome * state :=
    match ks with
    | [] => ([], cur)
    | k :: ks' =>
        let o := run_call st0 cur k in
        let r := session st0 (after (call_state st0 cur k) o) ks' in
        (o :: fst r, snd r)
    end.

End Clear.

(* the instance for the tree under test *)
Definition clear_repo := clear Tables.csv_files Tables.feature_dirs Tables.records_data_rel.
Definition prompts_repo := prompts Tables.csv_files Tables.feature_dirs Tables.records_data_rel.
Definition announced_repo := announced Tables.csv_files Tables.feature_dirs Tables.records_data_rel.
Definition session_repo := session Tables.csv_files Tables.feature_dirs Tables.records_data_rel.

(* ---- correspondence: one case = an initial directory state and a session of calls, with what the
   implementation did at every call *)
Inductive obs_outcome := ORet | ORefused | OCrash.
Definition obs_outcome_eqb (a b : obs_outcome) : bool :=
  match a, b with ORet, ORet | ORefused, ORefused | OCrash, OCrash => true | _, _ => false end.

Record step := {
  s_call : call;
  o_outcome : obs_outcome;
  o_removed : list string;       (* paths (relative) that existed before and not after, reverse-sorted *)
  o_asked : bool;                (* input() was called *)
  o_announced : option (list string);   (* the paths named in the question, else in the refusal message, when one was seen *)
}.
Record case := { c_state : state; c_steps : list step }.

Definition check_step (st : state) (s : step) : bool :=
  let k := s_call s in
  eqb (o_asked s) (prompts_repo (k_only k) (k_skip k) st (k_force k)) &&
  match o_announced s with
  | Some l => eqb (ssort l) (ssort (announced_repo (k_only k) (k_skip k) st))
  | None => true
  end &&
  match clear_repo (k_only k) (k_skip k) st (consent_of k) with
  | Done acts => obs_outcome_eqb (o_outcome s) ORet && eqb (map fst acts) (o_removed s)
  | Refused => obs_outcome_eqb (o_outcome s) ORefused && eqb (o_removed s) []
  | Crash => obs_outcome_eqb (o_outcome s) OCrash
  end.

Fixpoint check_steps (st0 cur : state) (ss : list step) : bool :=
  match ss with
  | [] => true
  | s :: ss' =>
      let k := s_call s in
      let st := call_state st0 cur k in
      check_step st s &&
      check_steps st0 (after st (clear_repo (k_only k) (k_skip k) st (consent_of k))) ss'
  end.

Definition check_case (c : case) : bool := check_steps (c_state c) (c_state c) (c_steps c).
