(* Model/MCodec.v — executable model of the kapture text codec (properties C01 and C02):
   kapture/io/csv.py  table_to_file / table_from_file, the per-file writers and readers,
   kapture_to_dir / kapture_from_dir.   Definitions only; proofs are in Proofs/PCodec*.v.

   Layers
     1. typed cells and schemas: a table file is a list of rows, a row a list of typed cells
        (string / optional name / int / float / optional float / "%.10f" float / element type name);
        a schema is a list of fixed column types plus an optional repeating group (sensors.txt
        parameters, observations.txt (image, feature) pairs).
     2. one generic writer [save_table] (version line, header line, str(v) fields, rjust padding,
        separator, stable sort of the rows as each writer does) and one generic reader [read_table]
        (table_from_file lexer, per-column conversion int()/float(), per-file post-processing,
        device filter, dict insertion: the last row with a key wins), and the specification-level
        parser [spec_read] (version line first; strict typed columns in the documented order).
     3. points3d.txt (numpy.savetxt / loadtxt with the column header line selecting 3 or 6 columns),
        in the repaired version [read_p3d] and the version before the repair [read_p3d_legacy].
     4. the dataset (18 parts) with [save], [load], [canon] and the well-formedness predicate [wf].
     5. the correspondence cases and [check_file_case] / [check_data_case].

   Floats are opaque: all float behaviour (repr, float(), '%.10f', Camera's canonical parameter
   strings) enters through a record [fops]; theorems are proved for every [fops] satisfying the
   contracts stated in Proofs/PCodec.v; the correspondence instantiates it with F := N (IEEE-754
   binary64 bit patterns) and finite tables computed by CPython for the floats of the case. *)
From Coq Require Import List Bool String Ascii NArith ZArith QArith Qabs.
From KV Require Import Eqb Str.
From KV.Model Require Import MCodecTxt.
From KV.Gen Require Import Tcodec.
Import ListNotations.
Local Close Scope Q_scope.
Local Open Scope list_scope.

Inductive result (A : Type) := Ok (a : A) | Err.
Arguments Ok {A} a.
Arguments Err {A}.

Definition is_ok {A} (r : result A) : bool := match r with Ok _ => true | Err => false end.

(* ---------------------------------------------------------------- small list helpers *)
Fixpoint map2 {A B C} (f : A -> B -> C) (la : list A) (lb : list B) : list C :=
  match la, lb with
  | a :: la', b :: lb' => f a b :: map2 f la' lb'
  | _, _ => []
  end.

Fixpoint forallb2 {A B} (f : A -> B -> bool) (la : list A) (lb : list B) : bool :=
  match la, lb with
  | [], [] => true
  | a :: la', b :: lb' => f a b && forallb2 f la' lb'
  | _, _ => false
  end.

Definition txt_eqb (a b : txt) : bool := @eqb (list ascii) _ a b.

Fixpoint assoc {B} (k : txt) (l : list (txt * B)) : option B :=
  match l with
  | [] => None
  | (k', v) :: l' => if txt_eqb k k' then Some v else assoc k l'
  end.

Fixpoint sassoc {B} (k : string) (l : list (string * B)) : option B :=
  match l with
  | [] => None
  | (k', v) :: l' => if String.eqb k k' then Some v else sassoc k l'
  end.

Definition tmem (x : txt) (l : list txt) : bool := existsb (txt_eqb x) l.

Fixpoint prefix_of (p l : txt) : bool :=
  match p, l with
  | [], _ => true
  | a :: p', b :: l' => Ascii.eqb a b && prefix_of p' l'
  | _ :: _, [] => false
  end.

(* Python:  pat in s *)
Fixpoint has_sub (pat l : txt) : bool :=
  prefix_of pat l || match l with [] => false | _ :: l' => has_sub pat l' end.

Definition bytes_txt (l : list N) : txt := map ascii_of_N l.

(* no (UTF-8 encoded) non-ASCII Python white space at either end: on such fields Python's str.strip()
   and the byte-level [strip] of MCodecTxt agree *)
Definition py_trimmed (s : txt) : bool :=
  forallb (fun w => negb (prefix_of (bytes_txt w) s) && negb (prefix_of (rev (bytes_txt w)) (rev s)))
          Tcodec.py_space_utf8.

(* a string field of a well-formed dataset: no comma, no line end, trimmed, not starting with '#' *)
Definition str_ok (s : txt) : bool := clean s && negb (starts_hash s) && py_trimmed s.

(* ---------------------------------------------------------------- floats: the opaque operations *)
Record fops := {
  F : Type;
  Feqb : F -> F -> bool;
  fin : F -> bool;                    (* math.isfinite *)
  show_float : F -> txt;              (* str(x) = repr(x) *)
  read_float : txt -> option F;       (* float(s) on a stripped field; None = ValueError *)
  fmt10 : F -> txt;                   (* '%.10f' % x *)
  round10 : F -> F;                   (* float('%.10f' % x) *)
  close10 : F -> F -> bool;           (* |a - b| <= 1e-10 *)
  cam_canon : txt -> option txt;      (* Camera.__init__: v = float(s); str(int(v)) if v.is_integer() else str(v) *)
  path_norm : txt -> txt              (* kapture.utils.paths.path_secure = os.path.normpath (not a float operation; kept in
                                         this record of opaque library operations) *)
}.

(* ---------------------------------------------------------------- cells, column types, schemas *)
Inductive cty :=
| TStr | TName | TInt | TFlt | TOFlt | TSFlt | TF10
| TDtype (accepted : list (txt * txt)).   (* field text -> the name the writer emits for that type *)

Record schema := { s_fixed : list cty; s_group : list cty }.

Definition tail_types (g : list cty) (m : nat) : list cty :=
  match g with
  | [] => []
  | _ => flat_map (fun _ => g) (seq 0 (Nat.div m (List.length g)))
  end.

(* the column types of a row with n cells *)
Definition types_for (sch : schema) (n : nat) : list cty :=
  s_fixed sch ++ tail_types (s_group sch) (n - List.length (s_fixed sch)).

Inductive post := PNone | PPose | PSensor | PObs.

Section WithFloats.
  Variable O : fops.

  Inductive cell := CStr (s : txt) | CInt (z : Z) | CFlt (f : F O) | CNone.
  Definition row := list cell.
  Definition table := list row.

  Definition cell_eqb (a b : cell) : bool :=
    match a, b with
    | CStr x, CStr y => txt_eqb x y
    | CInt x, CInt y => Z.eqb x y
    | CFlt x, CFlt y => Feqb O x y
    | CNone, CNone => true
    | _, _ => false
    end.
  Fixpoint row_eqb (a b : row) : bool :=
    match a, b with
    | [], [] => true
    | x :: a', y :: b' => cell_eqb x y && row_eqb a' b'
    | _, _ => false
    end.
  Fixpoint table_eqb (a b : table) : bool :=
    match a, b with
    | [], [] => true
    | x :: a', y :: b' => row_eqb x y && table_eqb a' b'
    | _, _ => false
    end.

  (* str(v) of a cell in a column of type ty *)
  Definition show_cell (ty : cty) (c : cell) : txt :=
    match c with
    | CStr s => s
    | CInt z => show_int z
    | CNone => []
    | CFlt f => match ty with TF10 => fmt10 O f | _ => show_float O f end
    end.

  (* conversion of a (stripped) field read in a column of type ty; None = the reader raises *)
  Definition read_cell (ty : cty) (s : txt) : option cell :=
    match ty with
    | TStr | TName => Some (CStr s)
    | TInt => option_map CInt (parse_int s)
    | TFlt | TF10 => option_map CFlt (read_float O s)
    | TOFlt => match s with [] => Some CNone | _ => option_map CFlt (read_float O s) end
    | TSFlt => Some (match read_float O s with Some f => CFlt f | None => CNone end)
    | TDtype tbl => option_map CStr (assoc s tbl)
    end.

  Definition cell_wf (ty : cty) (c : cell) : bool :=
    match ty, c with
    | TStr, CStr s => str_ok s
    | TName, CStr s => str_ok s
    | TName, CNone => true
    | TInt, CInt _ => true
    | TFlt, CFlt f | TF10, CFlt f | TOFlt, CFlt f | TSFlt, CFlt f => fin O f
    | TOFlt, CNone | TSFlt, CNone => true
    | TDtype tbl, CStr s => str_ok s && match assoc s tbl with Some s' => txt_eqb s' s | None => false end
    | _, _ => false
    end.

  (* what a cell becomes through one write / read cycle: a missing sensor name becomes the empty
     string, a point coordinate is rounded through '%.10f'; nothing else changes *)
  Definition canon_cell (ty : cty) (c : cell) : cell :=
    match ty, c with
    | TName, CNone => CStr []
    | TF10, CFlt f => CFlt (round10 O f)
    | _, _ => c
    end.

  Definition row_types (sch : schema) (r : row) : list cty := types_for sch (List.length r).
  Definition enc_row (sch : schema) (r : row) : list txt := map2 show_cell (row_types sch r) r.
  Definition canon_row (sch : schema) (r : row) : row := map2 canon_cell (row_types sch r) r.
  Definition row_wf (sch : schema) (r : row) : bool :=
    Nat.eqb (List.length (row_types sch r)) (List.length r) && forallb2 cell_wf (row_types sch r) r.

  Fixpoint read_cells (tys : list cty) (fs : list txt) : option row :=
    match tys, fs with
    | [], [] => Some []
    | ty :: tys', f :: fs' =>
        match read_cell ty f, read_cells tys' fs' with
        | Some c, Some cs => Some (c :: cs)
        | _, _ => None
        end
    | _, _ => None
    end.

  (* typed reading of one row of fields.  Exact arity unless [lenient] (observations.txt: a trailing
     field that does not complete an (image, feature) pair is ignored by the reader) *)
  Definition read_row (lenient : bool) (sch : schema) (fs : list txt) : option row :=
    let tys := types_for sch (List.length fs) in
    if Nat.eqb (List.length tys) (List.length fs) then read_cells tys fs
    else if lenient && Nat.ltb (List.length tys) (List.length fs) then read_cells tys (firstn (List.length tys) fs)
    else None.

  (* ---------------------------------------------------------------- per-file post-processing *)
  Definition is_none (c : cell) : bool := match c with CNone => true | _ => false end.
  (* rotation / translation are all-or-nothing *)
  Definition norm_group (g : row) : row := if existsb is_none g then map (fun _ => CNone) g else g.

  Definition camera_types : list txt := map t_of Tcodec.camera_sensor_types.
  Definition camera_models : list (txt * nat) := map (fun p => (t_of (fst p), snd p)) Tcodec.camera_models.

  Fixpoint canon_params (ps : row) : option row :=
    match ps with
    | [] => Some []
    | CStr p :: ps' => match cam_canon O p, canon_params ps' with
                       | Some p', Some r => Some (CStr p' :: r)
                       | _, _ => None
                       end
    | _ :: _ => None
    end.

  (* Ok None = the row is skipped *)
  Definition post_row (p : post) (r : row) : result (option row) :=
    match p with
    | PNone => Ok (Some r)
    | PPose =>
        match r with
        | a :: b :: rest => Ok (Some (a :: b :: norm_group (firstn 4 rest) ++ norm_group (skipn 4 rest)))
        | _ => Ok (Some r)
        end
    | PSensor =>   (* kapture.create_sensor *)
        match r with
        | id :: nm :: CStr ty :: params =>
            if tmem ty camera_types then
              match params with
              | CStr m :: ps =>
                  match assoc m camera_models with
                  | Some n => if Nat.eqb (List.length ps) n then
                                match canon_params ps with
                                | Some ps' => Ok (Some (id :: nm :: CStr ty :: CStr m :: ps'))
                                | None => Err
                                end
                              else Err
                  | None => Err
                  end
              | _ => Err
              end
            else Ok (Some r)
        | _ => Ok (Some r)
        end
    | PObs => if Nat.ltb (List.length r) 4 then Ok None else Ok (Some r)
    end.

  (* ---------------------------------------------------------------- ordering of rows (sorted(...)) *)
  Definition cell_rank (c : cell) : nat :=
    match c with CInt _ => 0 | CStr _ => 1 | CFlt _ => 2 | CNone => 3 end.
  Definition cell_leb (a b : cell) : bool :=
    match a, b with
    | CInt x, CInt y => Z.leb x y
    | CStr x, CStr y => lleb (map N_of_ascii x) (map N_of_ascii y)
    | _, _ => Nat.leb (cell_rank a) (cell_rank b)
    end.
  (* lexicographic comparison of the first k cells (Python tuple comparison) *)
  Fixpoint key_leb (k : nat) (r1 r2 : row) : bool :=
    match k with
    | 0 => true
    | S k' =>
        match r1, r2 with
        | a :: r1', b :: r2' =>
            if cell_leb a b then (if cell_leb b a then key_leb k' r1' r2' else true) else false
        | [], _ => true
        | _ :: _, [] => false
        end
    end.

  Fixpoint insert_by {A} (leb : A -> A -> bool) (x : A) (l : list A) : list A :=
    match l with
    | [] => [x]
    | y :: l' => if leb x y then x :: l else y :: insert_by leb x l'
    end.
  (* stable insertion sort *)
  Fixpoint isort {A} (leb : A -> A -> bool) (l : list A) : list A :=
    match l with
    | [] => []
    | x :: l' => insert_by leb x (isort leb l')
    end.

  (* ---------------------------------------------------------------- dict insertion *)
  Definition key_eqb (k : nat) (a b : row) : bool := row_eqb (firstn k a) (firstn k b).

  (* d[key] = row : replaces the row with the same key, else appends;
     merge = True: Observations.add semantics, the pairs are appended to the existing row *)
  Fixpoint upsert (merge : bool) (k : nat) (r : row) (tbl : table) : table :=
    match tbl with
    | [] => [r]
    | x :: t => if key_eqb k x r then (if merge then (x ++ skipn k r) :: t else r :: t)
                else x :: upsert merge k r t
    end.
  Definition of_rows (merge : bool) (k : nat) (rows : table) : table :=
    match k with
    | 0 => rows
    | _ => fold_left (fun tbl r => upsert merge k r tbl) rows []
    end.

  (* ---------------------------------------------------------------- file kinds *)
  Record fkind := {
    fk_name : string;          (* logical file name, key of the Tcodec tables *)
    fk_schema : schema;
    fk_key : nat;              (* number of leading cells that form the dict key (0: positional) *)
    fk_sort : nat;             (* the writer sorts (stably) by the first fk_sort cells; 0: keeps order *)
    fk_merge : bool;
    fk_lenient : bool;
    fk_post : post;
    fk_dev : nat               (* index of the device id cell used by the readers' id filter *)
  }.

  Definition version : txt := t_of Tcodec.version_line.
  Definition header_of (name : string) : txt :=
    match sassoc name Tcodec.writer_headers with Some h => t_of h | None => [] end.
  Definition padding_of (name : string) : list nat :=
    match sassoc name Tcodec.writer_paddings with Some p => p | None => [] end.

  (* ---- writer: table_to_file *)
  Fixpoint pad_fields (pad : list nat) (fs : list txt) : list txt :=
    match fs with
    | [] => []
    | f :: fs' => match pad with
                  | n :: pad' => rjust n f :: pad_fields pad' fs'
                  | [] => f :: pad_fields [] fs'
                  end
    end.
  Definition write_row (sep : txt) (pad : list nat) (fs : list txt) : txt :=
    join sep (pad_fields pad fs) ++ [LF].
  Definition write_rows (sep : txt) (pad : list nat) (rows : list (list txt)) : txt :=
    List.concat (map (write_row sep pad) rows).
  Definition write_table (hdr sep : txt) (pad : list nat) (rows : list (list txt)) : txt :=
    version ++ [LF] ++ hdr ++ [LF] ++ write_rows sep pad rows.

  Definition COMMA_SP : txt := [COMMA; SP].

  Definition sort_rows (fk : fkind) (rows : table) : table := isort (key_leb (fk_sort fk)) rows.

  Definition save_table (fk : fkind) (rows : table) : txt :=
    write_table (header_of (fk_name fk)) COMMA_SP (padding_of (fk_name fk))
                (map (enc_row (fk_schema fk)) (sort_rows fk rows)).

  (* what one write / read cycle makes of a table *)
  Definition canon_table (fk : fkind) (rows : table) : table :=
    map (canon_row (fk_schema fk)) (sort_rows fk rows).

  (* ---- reader *)
  Fixpoint read_rows (fk : fkind) (fields : list (list txt)) : result table :=
    match fields with
    | [] => Ok []
    | fs :: rest =>
        match read_row (fk_lenient fk) (fk_schema fk) fs with
        | None => Err
        | Some r =>
            match post_row (fk_post fk) r with
            | Err => Err
            | Ok o =>
                match read_rows fk rest with
                | Err => Err
                | Ok rs => Ok (match o with Some r' => r' :: rs | None => rs end)
                end
            end
        end
    end.

  Definition dev_of (fk : fkind) (r : row) : txt :=
    match nth_error r (fk_dev fk) with Some (CStr s) => s | _ => [] end.
  (* `if ids is not None and device_id not in ids: continue` *)
  Definition filter_ids (fk : fkind) (ids : option (list txt)) (rows : table) : table :=
    match ids with
    | None => rows
    | Some l => List.filter (fun r => tmem (dev_of fk r) l) rows
    end.

  Definition read_table (fk : fkind) (ids : option (list txt)) (t : txt) : result table :=
    match read_rows fk (table_of_text t) with
    | Err => Err
    | Ok rs => Ok (of_rows (fk_merge fk) (fk_key fk) (filter_ids fk ids rs))
    end.

  (* ---- the reader written from the specification alone: version line first, then every data row
     has exactly the documented typed columns; returns the rows in file order *)
  Fixpoint spec_rows (sch : schema) (fields : list (list txt)) : result table :=
    match fields with
    | [] => Ok []
    | fs :: rest =>
        match read_row false sch fs, spec_rows sch rest with
        | Some r, Ok rs => Ok (r :: rs)
        | _, _ => Err
        end
    end.
  (* the specification knows no "safe" float: an optional float field is empty or a float *)
  Definition spec_ty (ty : cty) : cty := match ty with TSFlt => TOFlt | _ => ty end.
  Definition spec_schema_of (sch : schema) : schema :=
    {| s_fixed := map spec_ty (s_fixed sch); s_group := map spec_ty (s_group sch) |}.
  Definition version_first (t : txt) : bool :=
    match lines t with l :: _ => prefix_of version l | [] => false end.
  Definition spec_read (sch : schema) (t : txt) : result table :=
    if version_first t then spec_rows (spec_schema_of sch) (table_of_text t) else Err.

  (* ---------------------------------------------------------------- the file kinds of kapture 1.1 *)
  Definition mk_schema (fixed group : list cty) : schema := {| s_fixed := fixed; s_group := group |}.

  Definition fk_sensors : fkind :=
    {| fk_name := "sensors.txt"; fk_schema := mk_schema [TStr; TName; TStr] [TStr];
       fk_key := 1; fk_sort := 0; fk_merge := false; fk_lenient := false; fk_post := PSensor; fk_dev := 0 |}.
  Definition fk_rigs : fkind :=
    {| fk_name := "rigs.txt";
       fk_schema := mk_schema [TStr; TStr; TSFlt; TSFlt; TSFlt; TSFlt; TSFlt; TSFlt; TSFlt] [];
       fk_key := 2; fk_sort := 0; fk_merge := false; fk_lenient := false; fk_post := PPose; fk_dev := 1 |}.
  Definition fk_traj : fkind :=
    {| fk_name := "trajectories.txt";
       fk_schema := mk_schema [TInt; TStr; TOFlt; TOFlt; TOFlt; TOFlt; TOFlt; TOFlt; TOFlt] [];
       fk_key := 2; fk_sort := 2; fk_merge := false; fk_lenient := false; fk_post := PPose; fk_dev := 1 |}.
  Definition fk_recfile (name : string) : fkind :=
    {| fk_name := name; fk_schema := mk_schema [TInt; TStr; TStr] [];
       fk_key := 2; fk_sort := 2; fk_merge := false; fk_lenient := false; fk_post := PNone; fk_dev := 1 |}.
  Definition fk_recarray (name : string) (key : nat) (data : list cty) : fkind :=
    {| fk_name := name; fk_schema := mk_schema (TInt :: TStr :: data) [];
       fk_key := key; fk_sort := 2; fk_merge := false; fk_lenient := false; fk_post := PNone; fk_dev := 1 |}.
  Definition fk_obs : fkind :=
    {| fk_name := "observations.txt"; fk_schema := mk_schema [TInt; TStr] [TStr; TInt];
       fk_key := 2; fk_sort := 2; fk_merge := true; fk_lenient := true; fk_post := PObs; fk_dev := 1 |}.

  Inductive reckind := RCamera | RDepth | RLidar | RWifi | RBluetooth | RGnss | RAccel | RGyro | RMag.
  Inductive tfile := FSensors | FRigs | FTraj | FRec (k : reckind) | FObs.
  Inductive featkind := KKeypoints | KDescriptors | KGlobal.

  Definition fk_rec (k : reckind) : fkind :=
    match k with
    | RCamera => fk_recfile "records_camera.txt"
    | RDepth => fk_recfile "records_depth.txt"
    | RLidar => fk_recfile "records_lidar.txt"
    | RWifi => fk_recarray "records_wifi.txt" 3 [TStr; TInt; TFlt; TStr; TInt; TInt]
    | RBluetooth => fk_recarray "records_bluetooth.txt" 3 [TStr; TFlt; TStr]
    | RGnss => fk_recarray "records_gnss.txt" 2 [TFlt; TFlt; TFlt; TInt; TFlt]
    | RAccel => fk_recarray "records_accelerometer.txt" 2 [TFlt; TFlt; TFlt]
    | RGyro => fk_recarray "records_gyroscope.txt" 2 [TFlt; TFlt; TFlt]
    | RMag => fk_recarray "records_magnetic.txt" 2 [TFlt; TFlt; TFlt]
    end.
  Definition fk_of (f : tfile) : fkind :=
    match f with
    | FSensors => fk_sensors | FRigs => fk_rigs | FTraj => fk_traj | FRec k => fk_rec k | FObs => fk_obs
    end.

  (* the sensor type whose ids select the records of each kind (_load_all_records) *)
  Definition rec_sensor_type (k : reckind) : txt :=
    t_of match k with
         | RCamera => "camera" | RDepth => "depth" | RLidar => "lidar" | RWifi => "wifi"
         | RBluetooth => "bluetooth" | RGnss => "gnss" | RAccel => "accelerometer"
         | RGyro => "gyroscope" | RMag => "magnetic"
         end%string.

  Definition feat_name (k : featkind) : string :=
    match k with KKeypoints => "keypoints" | KDescriptors => "descriptors" | KGlobal => "global_features" end%string.
  Definition dtype_table (k : featkind) : list (txt * txt) :=
    flat_map (fun e => let '(kind, a, b) := e in if String.eqb kind (feat_name k) then [(t_of a, t_of b)] else [])
             Tcodec.dtype_accepts.
  Definition fk_feat (k : featkind) : fkind :=
    let dt := TDtype (dtype_table k) in
    {| fk_name := (feat_name k ++ ".txt")%string;
       fk_schema := mk_schema match k with
                              | KKeypoints => [TStr; dt; TInt]
                              | KDescriptors => [TStr; dt; TInt; TStr; TStr]
                              | KGlobal => [TStr; dt; TInt; TStr]
                              end [];
       fk_key := 0; fk_sort := 0; fk_merge := false; fk_lenient := false; fk_post := PNone; fk_dev := 0 |}.
  (* pairs file: query_image, mapping_image, score (the score is not interpreted by the reader) *)
  Definition fk_pairs : fkind :=
    {| fk_name := "pairsfile"; fk_schema := mk_schema [TStr; TStr; TStr] [];
       fk_key := 0; fk_sort := 0; fk_merge := false; fk_lenient := false; fk_post := PNone; fk_dev := 0 |}.

  (* ---------------------------------------------------------------- feature descriptor files *)
  (* <kind>_config_from_file: only the first data row is looked at *)
  Definition read_config (k : featkind) (t : txt) : result row :=
    match table_of_text t with
    | [] => Err
    | fs :: _ => match read_row false (fk_schema (fk_feat k)) fs with Some r => Ok r | None => Err end
    end.

  (* matches_from_dir with a pairs file: (q, m) if q < m else (m, q) *)
  Definition txt_ltb (a b : txt) : bool := negb (lleb (map N_of_ascii b) (map N_of_ascii a)).
  Definition norm_pair (a b : txt) : txt * txt := if txt_ltb a b then (a, b) else (b, a).
  Fixpoint read_pairs (fields : list (list txt)) : result (list (txt * txt)) :=
    match fields with
    | [] => Ok []
    | [q; m; _] :: rest => match read_pairs rest with Ok l => Ok (norm_pair q m :: l) | Err => Err end
    | _ :: _ => Err
    end.

  (* ---------------------------------------------------------------- points3d.txt *)
  Definition p3d_schema (w : nat) : schema := mk_schema (repeat TF10 w) [].
  Definition p3d_line1 : txt := t_of (fst Tcodec.p3d_lines3).
  Definition p3d_line2 (w : nat) : txt :=
    t_of (if Nat.eqb w 3 then snd Tcodec.p3d_lines3 else snd Tcodec.p3d_lines6).
  Definition XYZ : txt := t_of Tcodec.p3d_xyz.
  Definition RGB : txt := t_of Tcodec.p3d_rgb.

  (* points3d_to_file: numpy.savetxt(delimiter=',', header=..., fmt='%.10f') *)
  Definition save_p3d (p : nat * table) : txt :=
    let '(w, rows) := p in
    p3d_line1 ++ [LF] ++ p3d_line2 w ++ [LF] ++ write_rows [COMMA] [] (map (enc_row (p3d_schema w)) rows).

  Definition nth_line (n : nat) (t : txt) : txt := nth n (lines t) [].
  Definition width_of_line (l : txt) : nat := if has_sub RGB l then 6 else 3.
  (* the number of columns announced by the header lines; [legacy]: the code before the repair tested
     the first line again instead of the second *)
  Definition p3d_expected (legacy : bool) (t : txt) : option nat :=
    let l1 := nth_line 0 t in
    let l2 := nth_line 1 t in
    if has_sub XYZ l1 then Some (width_of_line l1)
    else if has_sub XYZ (if legacy then l1 else l2) then Some (width_of_line l2)
    else None.

  Fixpoint read_float_rows (w : nat) (fields : list (list txt)) : result table :=
    match fields with
    | [] => Ok []
    | fs :: rest =>
        match read_row false (p3d_schema w) fs, read_float_rows w rest with
        | Some r, Ok rs => Ok (r :: rs)
        | _, _ => Err
        end
    end.

  (* numpy.loadtxt (the reader before the repair of property C02) only skips lines that are empty: a line
     of blanks is handed to float() and raises *)
  Definition np_blank_line (l : txt) : bool := all_ws l && nonempty l.
  Definition read_p3d_gen (legacy : bool) (t : txt) : result (nat * table) :=
    let fields := table_of_text t in
    match fields with
    | [] => Ok (match p3d_expected legacy t with Some w => w | None => 6 end, [])
    | fs :: _ =>
        let w := List.length fs in
        match p3d_expected legacy t with
        | Some e => if Nat.eqb e w then
                      match read_float_rows w fields with Ok rs => Ok (w, rs) | Err => Err end
                    else Err
        | None => if Nat.eqb w 3 || Nat.eqb w 6 then
                    match read_float_rows w fields with Ok rs => Ok (w, rs) | Err => Err end
                  else Err
        end
    end.
  Definition read_p3d := read_p3d_gen false.
  Definition read_p3d_legacy := read_p3d_gen true.            (* before the repair of C01 *)
  Definition read_p3d_legacy_blank (t : txt) : result (nat * table) :=   (* before the repair of C02 *)
    if existsb np_blank_line (lines t) then Err else read_p3d t.

  (* ---------------------------------------------------------------- datasets and directory trees *)
  Record featset := { fs_key : txt; fs_cfg : row; fs_images : list txt }.

  Record dataset := {
    d_tab : tfile -> option table;                 (* sensors, rigs, trajectories, 9 record kinds, observations *)
    d_feat : featkind -> option (list featset);    (* keypoints, descriptors, global_features *)
    d_matches : option (list (txt * list (txt * txt)));
    d_p3d : option (nat * table)
  }.

  Record tree := {
    t_tab : tfile -> option txt;                   (* the 13 table files *)
    t_p3d : option txt;
    t_cfg : featkind -> list (txt * txt);          (* feature type directory -> its descriptor file *)
    t_featfiles : featkind -> list (txt * txt);    (* (feature type, image) data files present *)
    t_matchdirs : list txt;                        (* sub-directories of reconstruction/matches *)
    t_matchfiles : list (txt * (txt * txt))        (* (keypoints type, (image1, image2)) match files *)
  }.

  Definition all_reckinds : list reckind := [RCamera; RDepth; RLidar; RWifi; RBluetooth; RGnss; RAccel; RGyro; RMag].
  Definition all_tfiles : list tfile := FSensors :: FRigs :: FTraj :: map FRec all_reckinds ++ [FObs].
  Definition all_featkinds : list featkind := [KKeypoints; KDescriptors; KGlobal].

  (* kapture_to_dir; the feature / match data files are the ones that belong to the dataset *)
  Definition save (d : dataset) : tree :=
    {| t_tab := fun f => option_map (save_table (fk_of f)) (d_tab d f);
       t_p3d := option_map save_p3d (d_p3d d);
       t_cfg := fun k => match d_feat d k with
                         | None => []
                         | Some l => map (fun s => (fs_key s, save_table (fk_feat k) [fs_cfg s])) l
                         end;
       t_featfiles := fun k => match d_feat d k with
                               | None => []
                               | Some l => flat_map (fun s => map (fun i => (fs_key s, i)) (fs_images s)) l
                               end;
       t_matchdirs := match d_matches d with None => [] | Some l => map fst l end;
       t_matchfiles := match d_matches d with
                       | None => []
                       | Some l => flat_map (fun e => map (fun p => (fst e, p)) (snd e)) l
                       end |}.

  Definition key1 (r : row) : txt := match r with CStr s :: _ => s | _ => [] end.
  Definition cell_txt (c : cell) : txt := match c with CStr s => s | _ => [] end.
  Definition ids_of_type (ty : txt) (sensors : table) : list txt :=
    map key1 (List.filter (fun r => match r with _ :: _ :: CStr t :: _ => txt_eqb t ty | _ => false end) sensors).

  (* rigs_from_file with the sensor ids: a rig id that is a sensor id is an error; afterwards the
     sensors of a rig that are neither sensors nor rigs are dropped *)
  Definition read_rigs (sids : list txt) (t : txt) : result (table * list txt) :=
    match read_rows fk_rigs (table_of_text t) with
    | Err => Err
    | Ok rs =>
        if existsb (fun r => tmem (key1 r) sids) rs then Err
        else let tbl := of_rows false 2 rs in
             let rig_ids := map key1 tbl in
             Ok (List.filter (fun r => let s := dev_of fk_rigs r in tmem s sids || tmem s rig_ids) tbl, rig_ids)
    end.

  (* observations_from_file with the loaded keypoints: rows of unknown or empty keypoints types are
     skipped, pairs of images without keypoints are skipped *)
  Fixpoint filter_pairs (imgs : list txt) (tail : row) : row :=
    match tail with
    | CStr i :: n :: rest => if tmem i imgs then CStr i :: n :: filter_pairs imgs rest else filter_pairs imgs rest
    | _ => []
    end.
  Definition filter_obs (kp : list (txt * list txt)) (rows : table) : table :=
    flat_map (fun r => match r with
                       | id :: CStr kt :: tail =>
                           match assoc kt kp with
                           | Some imgs => match imgs with
                                          | [] => []
                                          | _ => match filter_pairs imgs tail with
                                                 | [] => []
                                                 | tl => [id :: CStr kt :: tl]
                                                 end
                                          end
                           | None => []
                           end
                       | _ => []
                       end) rows.
  Definition read_obs (kp : option (list (txt * list txt))) (t : txt) : result table :=
    match read_rows fk_obs (table_of_text t) with
    | Err => Err
    | Ok rs => Ok (of_rows true 2 (match kp with Some l => filter_obs l rs | None => rs end))
    end.

  (* what is recorded for one 3-D point through one kind of keypoints: the (image, feature) cells of the row whose key
     is (point3d_id, keypoints_type).  A point is usually seen through several kinds: observations.txt then has
     several lines with the same point3d_id, and each of them is a row of its own. *)
  Definition obs_of (pid : cell) (kt : txt) (rows : table) : option row :=
    match List.find (fun r => key_eqb 2 r [pid; CStr kt]) rows with
    | Some r => Some (skipn 2 r)
    | None => None
    end.

  (* NOT the reader of the code: a reader that stores each line with  observations[point3d_id] = {kind: pairs}
     (dict keyed by the point id alone, a later line of the same point replaces the earlier one).  Kept to show
     that the round-trip theorems depend on the key being the PAIR (point3d_id, keypoints_type):
     [C01_obs_point_keyed_refuted]. *)
  Definition read_obs_point_keyed (t : txt) : result table :=
    match read_rows fk_obs (table_of_text t) with
    | Err => Err
    | Ok rs => Ok (of_rows false 1 rs)
    end.

  Definition opt_bind {A B} (o : option A) (f : A -> result (option B)) : result (option B) :=
    match o with None => Ok None | Some a => f a end.

  Definition cam_images (cams : option table) : list txt :=
    match cams with Some l => map (fun r => cell_txt (nth 2 r CNone)) l | None => [] end.

  Definition has_featfile (t : tree) (k : featkind) (key i : txt) : bool :=
    existsb (fun p => txt_eqb (fst p) key && txt_eqb (snd p) i) (t_featfiles t k).

  Fixpoint load_feat_list (t : tree) (k : featkind) (imgs : list txt) (l : list (txt * txt))
    : result (list featset) :=
    match l with
    | [] => Ok []
    | (key, text) :: l' =>
        match read_config k text, load_feat_list t k imgs l' with
        | Ok cfg, Ok rest =>
            Ok ({| fs_key := key; fs_cfg := cfg; fs_images := List.filter (has_featfile t k key) imgs |} :: rest)
        | _, _ => Err
        end
    end.

  Definition load_feat (t : tree) (cams : option table) (k : featkind) : result (option (list featset)) :=
    match t_cfg t k with
    | [] => Ok None
    | cfgs =>
        match cams with
        | None => Err                              (* assert kapture_data.records_camera is not None *)
        | Some _ => match load_feat_list t k (cam_images cams) cfgs with Ok l => Ok (Some l) | Err => Err end
        end
    end.

  (* matches_from_dir AS THE CODE IS: the pair names are re-derived from the (normalised) match file paths and then
     filtered against the raw image names of records_camera - a pair with an image path that is not in normpath
     form is therefore lost (known finding of C01) *)
  Definition match_pairs (t : tree) (imgs : list txt) (kt : txt) : list (txt * txt) :=
    map (fun e => (path_norm O (fst (snd e)), path_norm O (snd (snd e))))
        (List.filter (fun e => txt_eqb (fst e) kt && tmem (path_norm O (fst (snd e))) imgs &&
                               tmem (path_norm O (snd (snd e))) imgs)
                     (t_matchfiles t)).
  (* the ideal behaviour (pairs keep the spelling they were saved with); NOT what the code does *)
  Definition match_pairs_ideal (t : tree) (imgs : list txt) (kt : txt) : list (txt * txt) :=
    map snd (List.filter (fun e => txt_eqb (fst e) kt && tmem (fst (snd e)) imgs && tmem (snd (snd e)) imgs)
                         (t_matchfiles t)).

  Definition load_matches (ideal : bool) (t : tree) (cams : option table)
    : result (option (list (txt * list (txt * txt)))) :=
    match t_matchdirs t with
    | [] => Ok None
    | dirs =>
        match cams with
        | None => Err
        | Some _ => Ok (Some (map (fun kt => (kt, (if ideal then match_pairs_ideal else match_pairs) t (cam_images cams) kt))
                                  dirs))
        end
    end.

  (* kapture_from_dir.  [legacy] = the code before the repairs of property C01:
       - points3d header test (see p3d_expected),
       - records_gnss.txt was not loaded at all when no gnss sensor is declared. *)
  Definition load_rigs (t : tree) (sids : list txt) : result (option table * list txt) :=
    match t_tab t FRigs with
    | None => Ok (None, [])
    | Some rt => match read_rigs sids rt with Ok (tb, ids) => Ok (Some tb, ids) | Err => Err end
    end.

  Definition is_gnss (k : reckind) : bool := match k with RGnss => true | _ => false end.
  Definition is_nil {A} (l : list A) : bool := match l with [] => true | _ => false end.

  Definition load_rec (legacy : bool) (t : tree) (sensors : table) (k : reckind) : result (option table) :=
    opt_bind (t_tab t (FRec k)) (fun x =>
      let ids := ids_of_type (rec_sensor_type k) sensors in
      if legacy && is_gnss k && is_nil ids then Ok None
      else match read_table (fk_rec k) (Some ids) x with Ok tb => Ok (Some tb) | Err => Err end).

  Definition load_traj (t : tree) (ids : list txt) : result (option table) :=
    opt_bind (t_tab t FTraj) (fun x =>
      match read_table fk_traj (Some ids) x with Ok tb => Ok (Some tb) | Err => Err end).

  Definition load_p3d (legacy : bool) (t : tree) : result (option (nat * table)) :=
    match t_p3d t with
    | None => Ok None
    | Some x => match read_p3d_gen legacy x with Ok p => Ok (Some p) | Err => Err end
    end.

  Definition kp_map (kps : list featset) : list (txt * list txt) := map (fun s => (fs_key s, fs_images s)) kps.

  Definition load_obs (t : tree) (kp : option (list featset)) (p3d : option (nat * table)) : result (option table) :=
    opt_bind (t_tab t FObs) (fun x =>
      match kp, p3d with
      | Some kps, Some _ => match read_obs (Some (kp_map kps)) x with Ok tb => Ok (Some tb) | Err => Err end
      | _, _ => Err                      (* assert keypoints / points3d is not None *)
      end).

  Definition load_tab (legacy : bool) (t : tree) (sensors : table) (rigs : option table) (devs : list txt)
             (kp : option (list featset)) (p3d : option (nat * table)) (f : tfile) : result (option table) :=
    match f with
    | FSensors => Ok (Some sensors)
    | FRigs => Ok rigs
    | FTraj => load_traj t devs
    | FRec k => load_rec legacy t sensors k
    | FObs => load_obs t kp p3d
    end.

  Definition unwrap {A} (r : result (option A)) : option A := match r with Ok x => x | Err => None end.

  Definition load_gen (legacy ideal : bool) (t : tree) : result dataset :=
    match t_tab t FSensors with
    | None => Err                                                     (* sensors.txt is required *)
    | Some st =>
        if negb (version_first st) then Err                           (* other versions: not modelled here (C20) *)
        else
        match read_table fk_sensors None st with
        | Err => Err
        | Ok sensors =>
            let sids := map key1 sensors in
            match load_rigs t sids with
            | Err => Err
            | Ok (rigs, rig_ids) =>
                match load_rec legacy t sensors RCamera with
                | Err => Err
                | Ok cams =>
                    match load_feat t cams KKeypoints, load_feat t cams KDescriptors, load_feat t cams KGlobal,
                          load_matches ideal t cams, load_p3d legacy t with
                    | Ok kp, Ok de, Ok gf, Ok ma, Ok p3d =>
                        let tab := load_tab legacy t sensors rigs (sids ++ rig_ids) kp p3d in
                        if forallb (fun f => is_ok (tab f)) all_tfiles then
                          Ok {| d_tab := fun f => unwrap (tab f);
                                d_feat := fun k => match k with KKeypoints => kp | KDescriptors => de | KGlobal => gf end;
                                d_matches := ma;
                                d_p3d := p3d |}
                        else Err
                    | _, _, _, _, _ => Err
                    end
                end
            end
        end
    end.
  Definition load := load_gen false false.               (* the code as it is (after the repairs) *)
  Definition load_legacy := load_gen true false.         (* before the repairs of C01 *)
  Definition load_ideal_matches := load_gen false true.  (* with match pairs kept in their saved spelling *)

  (* what the statement of C01 allows a write / read cycle to change *)
  Definition canon (d : dataset) : dataset :=
    {| d_tab := fun f => option_map (canon_table (fk_of f)) (d_tab d f);
       d_feat := d_feat d;
       d_matches := d_matches d;
       d_p3d := option_map (fun p => (fst p, map (canon_row (p3d_schema (fst p))) (snd p))) (d_p3d d) |}.

  (* ---------------------------------------------------------------- well-formed datasets *)
  Fixpoint nodup_by {A} (eq : A -> A -> bool) (l : list A) : bool :=
    match l with
    | [] => true
    | x :: l' => negb (existsb (eq x) l') && nodup_by eq l'
    end.

  Definition keys_nodup (k : nat) (rows : table) : bool := nodup_by (key_eqb k) rows.

  (* pose groups are entirely present or entirely absent *)
  Definition group_ok (g : row) : bool := forallb is_none g || negb (existsb is_none g).
  Definition post_ok (p : post) (r : row) : bool :=
    match p with
    | PNone => true
    | PPose => match r with _ :: _ :: rest => group_ok (firstn 4 rest) && group_ok (skipn 4 rest) | _ => false end
    | PSensor =>
        match r with
        | _ :: _ :: CStr ty :: params =>
            if tmem ty camera_types then
              match params with
              | CStr m :: ps =>
                  match assoc m camera_models with
                  | Some n => Nat.eqb (List.length ps) n &&
                              forallb (fun c => match c with
                                                | CStr p => match cam_canon O p with Some p' => txt_eqb p' p | None => false end
                                                | _ => false end) ps
                  | None => false
                  end
              | _ => false
              end
            else true
        | _ => false
        end
    | PObs => Nat.leb 4 (List.length r)
    end.

  (* [post_ok] is asked of the row as it is written (a missing sensor name is written as the empty string) *)
  Definition table_wf (fk : fkind) (rows : table) : bool :=
    forallb (fun r => row_wf (fk_schema fk) r && post_ok (fk_post fk) (canon_row (fk_schema fk) r)) rows &&
    keys_nodup (fk_key fk) rows.

  Definition is_some {A} (o : option A) : bool := match o with Some _ => true | None => false end.
  Definition tab_or_nil (d : dataset) (f : tfile) : table := match d_tab d f with Some l => l | None => [] end.

  (* the parts the format can represent and the loader accepts:
     sensors.txt is required; features and matches are about the images of records_camera;
     observations are about keypoints and 3-D points *)
  Definition deps_ok (d : dataset) : bool :=
    is_some (d_tab d FSensors) &&
    (is_some (d_tab d (FRec RCamera)) ||
     negb (existsb (fun k => is_some (d_feat d k)) all_featkinds || is_some (d_matches d))) &&
    (negb (is_some (d_tab d FObs)) || (is_some (d_feat d KKeypoints) && is_some (d_p3d d))).

  Fixpoint pairs_known (imgs : list txt) (tl : row) : bool :=
    match tl with
    | [] => true
    | CStr i :: _ :: rest => tmem i imgs && pairs_known imgs rest
    | _ => false
    end.

  (* every reference is resolved inside the dataset (the readers silently drop what is not) *)
  Definition refs_ok (d : dataset) : bool :=
    let sensors := tab_or_nil d FSensors in
    let sids := map key1 sensors in
    let rigs := tab_or_nil d FRigs in
    let rig_ids := map key1 rigs in
    let imgs := cam_images (d_tab d (FRec RCamera)) in
    forallb (fun r => negb (tmem (key1 r) sids) && (tmem (dev_of fk_rigs r) sids || tmem (dev_of fk_rigs r) rig_ids)) rigs &&
    forallb (fun r => tmem (dev_of fk_traj r) (sids ++ rig_ids)) (tab_or_nil d FTraj) &&
    forallb (fun k => forallb (fun r => tmem (dev_of (fk_rec k) r) (ids_of_type (rec_sensor_type k) sensors))
                              (tab_or_nil d (FRec k))) all_reckinds &&
    forallb (fun k => match d_feat d k with
                      | None => true
                      | Some l => forallb (fun s => forallb (fun i => tmem i imgs) (fs_images s)) l
                      end) all_featkinds &&
    match d_matches d with
    | None => true
    | Some l => forallb (fun e => forallb (fun p => tmem (fst p) imgs && tmem (snd p) imgs) (snd e)) l
    end &&
    match d_feat d KKeypoints with
    | None => true
    | Some kps =>
        forallb (fun r => match r with
                          | _ :: CStr kt :: tail =>
                              match assoc kt (kp_map kps) with
                              | Some imgs' => pairs_known imgs' tail
                              | None => false
                              end
                          | _ => false
                          end) (tab_or_nil d FObs)
    end.

  Definition feat_wf (k : featkind) (l : list featset) : bool :=
    match l with [] => false | _ => true end &&                     (* an empty dict has no representation *)
    nodup_by txt_eqb (map fs_key l) &&
    forallb (fun s => str_ok (fs_key s) && row_wf (fk_schema (fk_feat k)) (fs_cfg s) &&
                      nodup_by txt_eqb (fs_images s)) l.

  (* strict: the image paths of the match pairs are in normalised form (a match file is named after them) *)
  Definition pair_normalised (p : txt * txt) : bool :=
    txt_eqb (path_norm O (fst p)) (fst p) && txt_eqb (path_norm O (snd p)) (snd p).
  Definition matches_wf (strict : bool) (l : list (txt * list (txt * txt))) : bool :=
    match l with [] => false | _ => true end && nodup_by txt_eqb (map fst l) &&
    (negb strict || forallb (fun e => forallb pair_normalised (snd e)) l).

  Definition p3d_wf (p : nat * table) : bool :=
    (Nat.eqb (fst p) 3 || Nat.eqb (fst p) 6) &&
    forallb (fun r => Nat.eqb (List.length r) (fst p) && row_wf (p3d_schema (fst p)) r) (snd p).

  Definition wf_gen (strict : bool) (d : dataset) : bool :=
    deps_ok d &&
    forallb (fun f => match d_tab d f with Some rows => table_wf (fk_of f) rows | None => true end) all_tfiles &&
    forallb (fun k => match d_feat d k with Some l => feat_wf k l | None => true end) all_featkinds &&
    match d_matches d with Some l => matches_wf strict l | None => true end &&
    match d_p3d d with Some p => p3d_wf p | None => true end &&
    refs_ok d.
  (* [wf]: the datasets for which the round trip is exact.  [wf_loose] drops only the condition that the image
     paths of match pairs are normalised: on those the code loses the non-normalised pairs (see [canon_asis]) *)
  Definition wf := wf_gen true.
  Definition wf_loose := wf_gen false.

  (* what the code as it is returns for a [wf_loose] dataset: the canonical form, where a match pair survives
     (under its normalised spelling) iff the normalised spellings of both image paths are image names *)
  Definition canon_asis (d : dataset) : dataset :=
    let imgs := cam_images (d_tab d (FRec RCamera)) in
    {| d_tab := d_tab (canon d); d_feat := d_feat d; d_p3d := d_p3d (canon d);
       d_matches := option_map (map (fun e => (fst e,
                      map (fun p => (path_norm O (fst p), path_norm O (snd p)))
                          (List.filter (fun p => tmem (path_norm O (fst p)) imgs && tmem (path_norm O (snd p)) imgs) (snd e)))))
                    (d_matches d) |}.

End WithFloats.

Arguments CStr {O} s.
Arguments CInt {O} z.
Arguments CFlt {O} f.
Arguments CNone {O}.

(* ==================================================================== column names
   The columns of every file as the model understands them (fixed columns, repeating / optional group),
   under the names the code uses.  Props/C02.v checks that these are, in this order, the columns of the
   header line each writer emits AND the columns of the syntax line of kapture_format.adoc. *)
Local Open Scope string_scope.
Definition fk_cols (name : string) : list string * list string :=
  let pose := ["qw"; "qx"; "qy"; "qz"; "tx"; "ty"; "tz"] in
  if String.eqb name "sensors.txt" then (["sensor_id"; "name"; "sensor_type"], ["sensor_params"])
  else if String.eqb name "rigs.txt" then ("rig_id" :: "sensor_id" :: pose, [])
  else if String.eqb name "trajectories.txt" then ("timestamp" :: "device_id" :: pose, [])
  else if String.eqb name "records_camera.txt" then (["timestamp"; "device_id"; "image_path"], [])
  else if String.eqb name "records_depth.txt" then (["timestamp"; "device_id"; "depth_map_path"], [])
  else if String.eqb name "records_lidar.txt" then (["timestamp"; "device_id"; "point_cloud_path"], [])
  else if String.eqb name "records_wifi.txt" then
    (["timestamp"; "device_id"; "bssid"; "frequency"; "rssi"; "ssid"; "scan_time_start"; "scan_time_end"], [])
  else if String.eqb name "records_bluetooth.txt" then (["timestamp"; "device_id"; "address"; "rssi"; "name"], [])
  else if String.eqb name "records_gnss.txt" then (["timestamp"; "device_id"; "x"; "y"; "z"; "utc"; "dop"], [])
  else if String.eqb name "records_accelerometer.txt" then (["timestamp"; "device_id"; "x_accel"; "y_accel"; "z_accel"], [])
  else if String.eqb name "records_gyroscope.txt" then (["timestamp"; "device_id"; "x_speed"; "y_speed"; "z_speed"], [])
  else if String.eqb name "records_magnetic.txt" then (["timestamp"; "device_id"; "x_strength"; "y_strength"; "z_strength"], [])
  else if String.eqb name "observations.txt" then (["point3d_id"; "keypoints_type"], ["image_path"; "feature_id"])
  else if String.eqb name "keypoints.txt" then (["name"; "dtype"; "dsize"], [])
  else if String.eqb name "descriptors.txt" then (["name"; "dtype"; "dsize"; "keypoints_type"; "metric_type"], [])
  else if String.eqb name "global_features.txt" then (["name"; "dtype"; "dsize"; "metric_type"], [])
  else if String.eqb name "points3d.txt" then (["X"; "Y"; "Z"], ["R"; "G"; "B"])
  else if String.eqb name "pairsfile" then (["query_image"; "mapping_image"; "score"], [])
  else ([], []).

(* names the specification uses for columns the code calls otherwise *)
Definition col_alias (c : string) : string :=
  match sassoc c [("sensor_device_id", "sensor_id"); ("rig_device_id", "rig_id"); ("x_acc", "x_accel");
                  ("y_acc", "y_accel"); ("z_acc", "z_accel"); ("BSSID", "bssid"); ("RSSI", "rssi"); ("SSID", "ssid");
                  ("x_acceleration", "x_accel")] with
  | Some c' => c'
  | None => c
  end.
Local Close Scope string_scope.

Definition is_mark (c : ascii) : bool :=
  existsb (Ascii.eqb c) ["["; "]"; "+"; "*"; "#"]%char.
(* a header / syntax line -> its column names: split on commas, drop the marks [ ] + * #, trim, alias *)
Definition line_cols (l : string) : list string :=
  map (fun f => col_alias (s_of (strip (List.filter (fun c => negb (is_mark c)) f)))) (split_on COMMA (t_of l)).
Definition all_cols (name : string) : list string := fst (fk_cols name) ++ snd (fk_cols name).

Definition cty_tag (t : cty) : nat :=
  match t with TStr => 0 | TName => 1 | TInt => 2 | TFlt => 3 | TOFlt => 4 | TSFlt => 5 | TF10 => 6 | TDtype _ => 7 end.
Definition pytype_tag (s : string) : nat :=
  if String.eqb s "int" then 2 else if String.eqb s "float" then 3 else if String.eqb s "str" then 0 else 99.

(* ==================================================================== executable instance of [fops]
   F := N, the IEEE-754 binary64 bit pattern; lexing by finite tables computed by CPython for the
   floats / tokens of one case (each entry is re-validated by the harness). *)
Local Open Scope N_scope.
Definition bits_exp (b : N) : N := N.land (N.shiftr b 52) 2047.
Definition bits_man (b : N) : N := N.land b (N.ones 52).
Definition bits_neg (b : N) : bool := N.testbit b 63.
Definition bits_fin (b : N) : bool := negb (N.eqb (bits_exp b) 2047).
(* the rational number a finite bit pattern denotes *)
Definition Q_of_bits (b : N) : Q :=
  let e := bits_exp b in
  let m := bits_man b in
  let mz := if N.eqb e 0 then Z.of_N m else Z.of_N (m + 2 ^ 52) in
  let ez := if N.eqb e 0 then (-1074)%Z else (Z.of_N e - 1075)%Z in
  let mz := if bits_neg b then Z.opp mz else mz in
  if Z.leb 0 ez then inject_Z (mz * 2 ^ ez)%Z else Qmake mz (Z.to_pos (2 ^ (- ez))%Z).
Local Close Scope N_scope.

Record ftabs := {
  ft_show : list (N * string);       (* x -> repr(x) *)
  ft_read : list (string * N);       (* token -> float(token), only tokens float() accepts *)
  ft_fmt10 : list (N * string);      (* x -> '%.10f' % x *)
  ft_cam : list (string * string);   (* token -> Camera's canonical parameter string *)
  ft_norm : list (string * string)   (* path -> os.path.normpath(path), for the paths that are not already normalised *)
}.

Fixpoint nassoc {B} (k : N) (l : list (N * B)) : option B :=
  match l with
  | [] => None
  | (k', v) :: l' => if N.eqb k k' then Some v else nassoc k l'
  end.

Definition mk_fops (ft : ftabs) : fops :=
  let rd := map (fun p => (t_of (fst p), snd p)) (ft_read ft) in
  let sh := map (fun p => (fst p, t_of (snd p))) (ft_show ft) in
  let f10 := map (fun p => (fst p, t_of (snd p))) (ft_fmt10 ft) in
  let cam := map (fun p => (t_of (fst p), t_of (snd p))) (ft_cam ft) in
  let nm := map (fun p => (t_of (fst p), t_of (snd p))) (ft_norm ft) in
  {| F := N; Feqb := N.eqb; fin := bits_fin;
     show_float := fun f => match nassoc f sh with Some s => s | None => [] end;
     read_float := fun s => assoc s rd;
     fmt10 := fun f => match nassoc f f10 with Some s => s | None => [] end;
     round10 := fun f => match nassoc f f10 with
                         | Some s => match assoc s rd with Some g => g | None => f end
                         | None => f
                         end;
     close10 := fun a b => Qle_bool (Qabs (Q_of_bits a - Q_of_bits b)) (1 # 10000000000);
     cam_canon := fun s => assoc s cam;
     path_norm := fun s => match assoc s nm with Some x => x | None => s end |}.

(* ==================================================================== correspondence cases *)
Inductive hcell := HS (s : string) | HI (z : Z) | HF (b : N) | HN.

Definition cell_of (ft : ftabs) (h : hcell) : cell (mk_fops ft) :=
  match h with
  | HS s => CStr (t_of s)
  | HI z => CInt z
  | HF b => @CFlt (mk_fops ft) b
  | HN => CNone
  end.
Definition table_of (ft : ftabs) (rows : list (list hcell)) : table (mk_fops ft) :=
  map (map (cell_of ft)) rows.

Definition tfile_index (f : tfile) : nat :=
  match f with
  | FSensors => 0 | FRigs => 1 | FTraj => 2
  | FRec RCamera => 3 | FRec RDepth => 4 | FRec RLidar => 5 | FRec RWifi => 6 | FRec RBluetooth => 7
  | FRec RGnss => 8 | FRec RAccel => 9 | FRec RGyro => 10 | FRec RMag => 11 | FObs => 12
  end.
Definition tfile_eqb (a b : tfile) : bool := Nat.eqb (tfile_index a) (tfile_index b).
Definition featkind_eqb (a b : featkind) : bool :=
  match a, b with
  | KKeypoints, KKeypoints | KDescriptors, KDescriptors | KGlobal, KGlobal => true
  | _, _ => false
  end.

Fixpoint tassoc {B} (f : tfile) (l : list (tfile * B)) : option B :=
  match l with
  | [] => None
  | (f', v) :: l' => if tfile_eqb f f' then Some v else tassoc f l'
  end.
Fixpoint kassoc {B} (k : featkind) (l : list (featkind * B)) : option B :=
  match l with
  | [] => None
  | (k', v) :: l' => if featkind_eqb k k' then Some v else kassoc k l'
  end.

Definition result_table_eqb {O} (a b : result (table O)) : bool :=
  match a, b with
  | Ok x, Ok y => table_eqb O x y
  | Err, Err => true
  | _, _ => false
  end.

Definition txt_leb (a b : txt) : bool := lleb (map N_of_ascii a) (map N_of_ascii b).
Definition sort_txt (l : list txt) : list txt := isort txt_leb l.
Fixpoint uniq_sorted (l : list txt) : list txt :=
  match l with
  | a :: (b :: _) as l' => if txt_eqb a b then uniq_sorted l' else a :: uniq_sorted l'
  | _ => l
  end.
Definition set_of (l : list txt) : list txt := uniq_sorted (sort_txt l).
Fixpoint list_txt_eqb (a b : list txt) : bool :=
  match a, b with
  | [], [] => true
  | x :: a', y :: b' => txt_eqb x y && list_txt_eqb a' b'
  | _, _ => false
  end.

(* tables compared as maps: both sides sorted by the full key of the file kind *)
Definition table_sim {O} (fk : fkind) (a b : table O) : bool :=
  match fk_key fk with
  | 0 => table_eqb O a b
  | k => table_eqb O (isort (key_leb O k) a) (isort (key_leb O k) b)
  end.

(* ---- per-file cases *)
Inductive fileid := IdTab (f : tfile) | IdFeat (k : featkind) | IdP3d | IdPairs.

Record fcase := {
  fc_ft : ftabs;
  fc_file : fileid;
  fc_text : string;
  fc_ids : option (list string);                  (* the id set handed to the reader, None = not given *)
  fc_kp : option (list (string * list string));   (* observations: the loaded keypoints *)
  fc_spec : option (nat * list (list hcell));     (* Some (w, rows): the text is a conformant file denoting these
                                                     rows, in file order (w = number of columns, points3d only) *)
  fc_obs : option (nat * list (list hcell))       (* what the real reader returned; None = it raised *)
}.

Definition pairs_table (ft : ftabs) (l : list (txt * txt)) : table (mk_fops ft) :=
  map (fun p => [CStr (fst p); CStr (snd p)]) l.

Definition model_read (c : fcase) : result (nat * table (mk_fops (fc_ft c))) :=
  let O := mk_fops (fc_ft c) in
  let t := t_of (fc_text c) in
  let ids := option_map (map t_of) (fc_ids c) in
  let wrap (r : result (table O)) := match r with Ok x => Ok (0, x) | Err => Err end in
  match fc_file c with
  | IdTab FRigs => match ids with
                   | Some l => match read_rigs O l t with Ok (tb, _) => Ok (0, tb) | Err => Err end
                   | None => wrap (read_table O (fk_rigs) None t)
                   end
  | IdTab FObs => wrap (read_obs O (option_map (map (fun p => (t_of (fst p), map t_of (snd p)))) (fc_kp c)) t)
  | IdTab f => wrap (read_table O (fk_of f) ids t)
  | IdFeat k => match read_config O k t with Ok r => Ok (0, [r]) | Err => Err end
  | IdP3d => read_p3d O t
  | IdPairs => match read_pairs (table_of_text t) with
               | Ok l => Ok (0, of_rows O false 2 (pairs_table (fc_ft c) l))
               | Err => Err
               end
  end.

Definition case_fk (c : fcase) : fkind :=
  let O := mk_fops (fc_ft c) in
  match fc_file c with
  | IdTab f => fk_of f
  | IdFeat k => fk_feat k
  | IdP3d => fk_pairs     (* positional *)
  | IdPairs => {| fk_name := "pairsfile"; fk_schema := mk_schema [TStr; TStr] []; fk_key := 2; fk_sort := 0;
                  fk_merge := false; fk_lenient := false; fk_post := PNone; fk_dev := 0 |}
  end.

Definition spec_schema (c : fcase) (w : nat) : schema :=
  let O := mk_fops (fc_ft c) in
  match fc_file c with
  | IdTab f => fk_schema (fk_of f)
  | IdFeat k => fk_schema (fk_feat k)
  | IdP3d => p3d_schema w
  | IdPairs => fk_schema (fk_pairs)
  end.

Definition check_file_case (c : fcase) : bool :=
  let O := mk_fops (fc_ft c) in
  let t := t_of (fc_text c) in
  (* the text is a conformant file: the specification-level parser accepts it with these rows *)
  match fc_spec c with
  | None => true
  | Some (w, rows) => match spec_read O (spec_schema c w) t with
                      | Ok got => table_sim (case_fk c) got (table_of (fc_ft c) rows)
                      | Err => false
                      end
  end &&
  (* the model of the reader and the real reader agree (value, or both fail) *)
  match model_read c, fc_obs c with
  | Ok (w, tb), Some (w', rows) => Nat.eqb w w' && table_sim (case_fk c) tb (table_of (fc_ft c) rows)
  | Err, None => true
  | _, _ => false
  end.

(* ---- whole-dataset cases *)
Record hfeat := { hf_key : string; hf_cfg : list hcell; hf_images : list string }.
Record hdata := {
  hd_tabs : list (tfile * list (list hcell));
  hd_feats : list (featkind * list hfeat);
  hd_matches : option (list (string * list (string * string)));
  hd_p3d : option (nat * list (list hcell))
}.

Definition dataset_of (ft : ftabs) (h : hdata) : dataset (mk_fops ft) :=
  {| d_tab := fun f => option_map (table_of ft) (tassoc f (hd_tabs h));
     d_feat := fun k => option_map (map (fun x => {| fs_key := t_of (hf_key x);
                                                      fs_cfg := map (cell_of ft) (hf_cfg x);
                                                      fs_images := map t_of (hf_images x) |}))
                                   (kassoc k (hd_feats h));
     d_matches := option_map (map (fun e => (t_of (fst e), map (fun p => (t_of (fst p), t_of (snd p))) (snd e))))
                             (hd_matches h);
     d_p3d := option_map (fun p => (fst p, table_of ft (snd p))) (hd_p3d h) |}.

Record dcase := {
  dc_ft : ftabs;
  dc_data : hdata;                                   (* the dataset held in memory *)
  dc_files : list (tfile * string);                  (* the table files kapture_to_dir wrote *)
  dc_p3d_file : option string;
  dc_cfg_files : list (featkind * list (string * string));   (* feature type -> descriptor file written *)
  dc_loaded : option hdata                           (* what kapture_from_dir returned; None = it raised *)
}.

Definition opt_eqb {A} (eq : A -> A -> bool) (a b : option A) : bool :=
  match a, b with
  | Some x, Some y => eq x y
  | None, None => true
  | _, _ => false
  end.

Definition featset_sim {O} (a b : featset O) : bool :=
  txt_eqb (fs_key O a) (fs_key O b) && row_eqb O (fs_cfg O a) (fs_cfg O b) &&
  list_txt_eqb (set_of (fs_images O a)) (set_of (fs_images O b)).
Definition sort_feats {O} (l : list (featset O)) : list (featset O) :=
  isort (fun a b => txt_leb (fs_key O a) (fs_key O b)) l.
Fixpoint list_sim {A} (eq : A -> A -> bool) (a b : list A) : bool :=
  match a, b with
  | [], [] => true
  | x :: a', y :: b' => eq x y && list_sim eq a' b'
  | _, _ => false
  end.
Definition pair_key (p : txt * txt) : txt := fst p ++ [LF] ++ snd p.
Definition match_sim (a b : txt * list (txt * txt)) : bool :=
  txt_eqb (fst a) (fst b) && list_txt_eqb (set_of (map pair_key (snd a))) (set_of (map pair_key (snd b))).
Definition sort_matches (l : list (txt * list (txt * txt))) := isort (fun a b => txt_leb (fst a) (fst b)) l.

(* equality of datasets as the property understands it: containers are maps / sets *)
Definition dataset_sim {O} (a b : dataset O) : bool :=
  forallb (fun f => opt_eqb (table_sim (fk_of f)) (d_tab O a f) (d_tab O b f)) (all_tfiles) &&
  forallb (fun k => opt_eqb (fun x y => list_sim featset_sim (sort_feats x) (sort_feats y)) (d_feat O a k) (d_feat O b k))
          (all_featkinds) &&
  opt_eqb (fun x y => list_sim match_sim (sort_matches x) (sort_matches y)) (d_matches O a) (d_matches O b) &&
  opt_eqb (fun x y => Nat.eqb (fst x) (fst y) && table_eqb O (snd x) (snd y)) (d_p3d O a) (d_p3d O b).

(* 3-D point coordinates of the canonical dataset are within 1e-10 of the original *)
Definition p3d_close {O} (a b : option (nat * table O)) : bool :=
  match a, b with
  | Some (_, ra), Some (_, rb) =>
      forallb2 (fun x y => forallb2 (fun c e => match c, e with
                                                | CFlt f, CFlt g => close10 O f g
                                                | _, _ => false end) x y) ra rb
  | None, None => true
  | _, _ => false
  end.

Definition case_tree (c : dcase) : tree :=
  let O := mk_fops (dc_ft c) in
  let d := dataset_of (dc_ft c) (dc_data c) in
  let s := save O d in
  {| t_tab := fun f => option_map t_of (tassoc f (dc_files c));
     t_p3d := option_map t_of (dc_p3d_file c);
     t_cfg := fun k => match kassoc k (dc_cfg_files c) with
                       | Some l => map (fun p => (t_of (fst p), t_of (snd p))) l
                       | None => []
                       end;
     t_featfiles := t_featfiles s;
     t_matchdirs := t_matchdirs s;
     t_matchfiles := t_matchfiles s |}.

Definition check_data_case (c : dcase) : bool :=
  let O := mk_fops (dc_ft c) in
  let d := dataset_of (dc_ft c) (dc_data c) in
  let tr := case_tree c in
  (* the generated dataset is well formed in the sense of the theorems, except possibly for match pairs on image
     paths that are not normalised (known finding: the code loses them; the model says which) *)
  wf_loose O d &&
  (* a file is written exactly for the parts that are present *)
  forallb (fun f => Bool.eqb (is_some (t_tab tr f)) (is_some (d_tab O d f))) (all_tfiles) &&
  Bool.eqb (is_some (t_p3d tr)) (is_some (d_p3d O d)) &&
  forallb (fun k => list_txt_eqb (sort_txt (map fst (t_cfg tr k)))
                                 (sort_txt (match d_feat O d k with Some l => map (fs_key O) l | None => [] end)))
          (all_featkinds) &&
  (* every written file is a valid file of the format: the specification-level parser recovers the table *)
  forallb (fun f => match t_tab tr f, d_tab O d f with
                    | Some x, Some rows =>
                        match spec_read O (fk_schema (fk_of f)) x with
                        | Ok got => table_sim (fk_of f) got (canon_table O (fk_of f) rows)   (* row order is not part of the format *)
                        | Err => false
                        end
                    | _, _ => true
                    end) (all_tfiles) &&
  match t_p3d tr, d_p3d O d with
  | Some x, Some (w, rows) =>
      result_table_eqb (spec_read O (p3d_schema w) x) (Ok (map (canon_row O (p3d_schema w)) rows)) &&
      opt_eqb Nat.eqb (p3d_expected false x) (Some w)
  | _, _ => true
  end &&
  forallb (fun k => match d_feat O d k with
                    | Some l => forallb (fun s => match assoc (fs_key O s) (t_cfg tr k) with
                                                  | Some x => result_table_eqb (spec_read O (fk_schema (fk_feat k)) x)
                                                                               (Ok [fs_cfg O s])
                                                  | None => false
                                                  end) l
                    | None => true
                    end) (all_featkinds) &&
  (* the model of the loader, run on the bytes the implementation wrote, returns what the implementation
     loaded, and that is the canonical form of the dataset *)
  match load O tr, dc_loaded c with
  | Ok dl, Some hl =>
      dataset_sim dl (dataset_of (dc_ft c) hl) && dataset_sim dl (canon_asis O d) &&
      (negb (wf O d) || dataset_sim dl (canon O d)) &&
      p3d_close (d_p3d O (canon O d)) (d_p3d O d)
  | _, _ => false
  end.

(* a history: several save / load steps run one after the other in one process (directory paths reused).
   The model of the loader is a function of the tree alone, so every step is checked on its own: any
   dependence of the implementation on earlier calls shows up as a disagreement on some step. *)
Definition check_history (steps : list dcase) : bool := forallb check_data_case steps.
