(* Model/MCodecTxt.v — text primitives of the kapture text codec (properties C01, C02).
   Definitions only; proofs are in Proofs/PCodecTxt.v.

   A text is the list of the UTF-8 bytes of a Python str ([txt := list ascii]); the harness hands
   texts over as Coq [string]s (kv.cstr) and [t_of] converts.  Modelled here, as the code in
   kapture/io/csv.py (table_from_file, table_to_file) and CPython behave on such texts:
     - str.strip() restricted to the ASCII white space of Python ([is_ws]: 9-13, 28-31, 32); fields of
       a well-formed dataset never start or end with a (possibly non-ASCII) Python blank, see [clean];
     - str.split(','), ', '.join, str.rjust;
     - universal-newline line splitting of a text-mode file (\n, \r\n, \r), rstrip("\n\r");
     - the comment / blank line filter and the field trimming of table_from_file;
     - str(int) and int(str) for decimal integers (sign, leading zeros; no '_' separators, no
       non-ASCII digits: such fields are outside the modelled input language). *)
From Coq Require Import List Bool String Ascii NArith ZArith.
From Coq Require Decimal DecimalN.
From KV Require Import Eqb.
Import ListNotations.
Local Open Scope char_scope.
Local Open Scope list_scope.

Definition txt := list ascii.
Definition t_of (s : string) : txt := list_ascii_of_string s.
Definition s_of (t : txt) : string := string_of_list_ascii t.

Definition LF : ascii := "010".
Definition CR : ascii := "013".
Definition COMMA : ascii := ",".
Definition HASH : ascii := "#".
Definition SP : ascii := " ".

Definition is_nl (c : ascii) : bool := Ascii.eqb c LF || Ascii.eqb c CR.

(* Python: chr(b).isspace() for b < 128 *)
Definition is_ws (c : ascii) : bool :=
  let n := N_of_ascii c in
  (N.leb 9 n && N.leb n 13) || (N.leb 28 n && N.leb n 32).

(* blanks a layout may put around a field: white space that does not end the line *)
Definition is_blank (c : ascii) : bool := is_ws c && negb (is_nl c).

Fixpoint lstrip (l : txt) : txt :=
  match l with
  | c :: l' => if is_ws c then lstrip l' else l
  | [] => []
  end.
Definition rstrip (l : txt) : txt := List.rev (lstrip (List.rev l)).
Definition strip (l : txt) : txt := rstrip (lstrip l).

(* str.split(c): always at least one piece *)
Fixpoint split_on (c : ascii) (l : txt) : list txt :=
  match l with
  | [] => [[]]
  | x :: l' =>
      if Ascii.eqb x c then [] :: split_on c l'
      else match split_on c l' with
           | h :: t => (x :: h) :: t
           | [] => [[x]]
           end
  end.

(* sep.join(fs) *)
Fixpoint join (sep : txt) (fs : list txt) : txt :=
  match fs with
  | [] => []
  | [f] => f
  | f :: fs' => f ++ sep ++ join sep fs'
  end.

(* str.rjust(n) *)
Definition rjust (n : nat) (f : txt) : txt := repeat SP (n - List.length f) ++ f.

(* Lines of a file opened in text mode (universal newlines) with the end of line removed:
   [lines] returns the segments between line ends; the segment after the last line end is
   included (it is empty when the text ends with a line end, and is then dropped as a blank
   line by every consumer below). *)
Fixpoint lines (l : txt) : list txt :=
  match l with
  | [] => [[]]
  | c :: l' =>
      let r := lines l' in
      if Ascii.eqb c LF then [] :: r
      else if Ascii.eqb c CR then
             match l' with
             | c' :: _ => if Ascii.eqb c' LF then r else [] :: r
             | [] => [] :: r
             end
      else match r with
           | h :: t => (c :: h) :: t
           | [] => [[c]]
           end
  end.

Definition all_ws (l : txt) : bool := forallb is_ws l.
Definition starts_hash (l : txt) : bool :=
  match l with c :: _ => Ascii.eqb c HASH | [] => false end.

(* table_from_file: `if line.strip() and not line.startswith('#')` *)
Definition keep_line (l : txt) : bool := negb (all_ws l) && negb (starts_hash l).
Definition parse_line (l : txt) : list txt := map strip (split_on COMMA l).
Definition table_of_lines (ls : list txt) : list (list txt) := map parse_line (List.filter keep_line ls).
Definition table_of_text (t : txt) : list (list txt) := table_of_lines (lines t).

(* ---- the character classes of a field that survives a write / read cycle *)
Definition plain_char (c : ascii) : bool := negb (Ascii.eqb c COMMA) && negb (is_nl c).
Definition first_not_ws (l : txt) : bool := match l with c :: _ => negb (is_ws c) | [] => true end.
Definition trimmed (l : txt) : bool := first_not_ws l && first_not_ws (List.rev l).
(* [clean]: contains no comma and no line end, does not start or end with ASCII white space *)
Definition clean (l : txt) : bool := forallb plain_char l && trimmed l.
Definition nonempty (l : txt) : bool := match l with [] => false | _ => true end.
Definition token (l : txt) : bool := clean l && nonempty l.
Definition blanks (l : txt) : bool := forallb is_blank l.

(* ---- decimal integers *)
Definition digit_val (c : ascii) : option N :=
  let n := N_of_ascii c in
  if N.leb 48 n && N.leb n 57 then Some (n - 48)%N else None.

Fixpoint digits_val (acc : N) (l : txt) : option N :=
  match l with
  | [] => Some acc
  | c :: l' => match digit_val c with
               | Some d => digits_val (10 * acc + d)%N l'
               | None => None
               end
  end.

Definition parse_nat (l : txt) : option N :=
  match l with [] => None | _ => digits_val 0 l end.

(* int(s) on an already stripped field: optional sign, at least one ASCII digit *)
Definition parse_int (l : txt) : option Z :=
  match l with
  | c :: r =>
      if Ascii.eqb c "-" then option_map (fun n => Z.opp (Z.of_N n)) (parse_nat r)
      else if Ascii.eqb c "+" then option_map Z.of_N (parse_nat r)
      else option_map Z.of_N (parse_nat l)
  | [] => None
  end.

Fixpoint txt_of_uint (d : Decimal.uint) : txt :=
  match d with
  | Decimal.Nil => []
  | Decimal.D0 d => "0" :: txt_of_uint d
  | Decimal.D1 d => "1" :: txt_of_uint d
  | Decimal.D2 d => "2" :: txt_of_uint d
  | Decimal.D3 d => "3" :: txt_of_uint d
  | Decimal.D4 d => "4" :: txt_of_uint d
  | Decimal.D5 d => "5" :: txt_of_uint d
  | Decimal.D6 d => "6" :: txt_of_uint d
  | Decimal.D7 d => "7" :: txt_of_uint d
  | Decimal.D8 d => "8" :: txt_of_uint d
  | Decimal.D9 d => "9" :: txt_of_uint d
  end.

(* str(n) for n >= 0 *)
Definition show_N (n : N) : txt := txt_of_uint (N.to_uint n).
(* str(z) *)
Definition show_int (z : Z) : txt :=
  match z with
  | Zneg p => "-" :: show_N (Npos p)
  | _ => show_N (Z.to_N z)
  end.

(* ---- layouts: the free choices a conformant rendering of a table may make *)
Inductive eol := EolLF | EolCRLF.
Definition eol_txt (e : eol) : txt := match e with EolLF => [LF] | EolCRLF => [CR; LF] end.

(* a rendered field: blanks before, the field text, blanks after *)
Definition padded := (txt * txt * txt)%type.
Definition padded_txt (p : padded) : txt := let '(a, f, b) := p in a ++ f ++ b.
Definition padded_field (p : padded) : txt := let '(_, f, _) := p in f.

Inductive item :=
| IRow (fs : list padded) (e : eol)     (* a data row *)
| IComment (body : txt) (e : eol)       (* '#' followed by body *)
| IBlank (ws : txt) (e : eol).          (* a line of blanks *)

Definition render_row (fs : list padded) : txt := join [COMMA] (map padded_txt fs).
Definition render_item (i : item) : txt :=
  match i with
  | IRow fs e => render_row fs ++ eol_txt e
  | IComment b e => HASH :: b ++ eol_txt e
  | IBlank w e => w ++ eol_txt e
  end.
Definition render_items (is : list item) : txt := List.concat (map render_item is).

Definition item_rows (i : item) : list (list txt) :=
  match i with IRow fs _ => [map padded_field fs] | _ => [] end.
Definition items_rows (is : list item) : list (list txt) := flat_map item_rows is.

Definition padded_ok (p : padded) : bool := let '(a, f, b) := p in blanks a && clean f && blanks b.
(* a data row must not look like a comment: when nothing precedes the first field it must not
   start with '#'; and a row has at least two fields (every kapture table has) *)
Definition row_ok (fs : list padded) : bool :=
  forallb padded_ok fs &&
  match fs with
  | (a, f, _) :: _ :: _ => negb (starts_hash (a ++ f))
  | _ => false
  end.
Definition no_nl (l : txt) : bool := forallb (fun c => negb (is_nl c)) l.
Definition item_ok (i : item) : bool :=
  match i with
  | IRow fs _ => row_ok fs
  | IComment b _ => no_nl b
  | IBlank w _ => blanks w
  end.
