(* Model/MColmap.v — executable model of the COLMAP converters of kapture (property C13):
     kapture.converter.colmap.export_colmap.export_colmap          (database + text reconstruction)
     kapture.converter.colmap.import_colmap.import_colmap          (database + text reconstruction)
   and of the arithmetic of kapture.converter.colmap.database (pair ids).  Definitions only; proofs are in
   Proofs/PColmap.v, the property theorems in Props/C13.v.

   LEVEL.  A kapture dataset as export_colmap sees it after kapture_from_dir (sensors, rigs, trajectories,
   records_camera, ONE keypoints type, ONE descriptors type, matches of that keypoints type, 3-D points,
   observations of that keypoints type) is mapped to an ABSTRACT COLMAP database (tables cameras, images, keypoints,
   descriptors, matches as lists of rows) plus an abstract text reconstruction (cameras.txt, images.txt,
   points3D.txt as lists of records whose floating-point fields are text tokens), and back.  What is mirrored:
   export
     * rigs_remove_inplace when rigs are present (export_colmap.py:79-82) = Model/MRigs.remove_inplace with the
       code's max_depth; the "rigs still used by trajectories" ValueError (database_extra.py:622-631);
     * add_cameras_to_database: EVERY camera of sensors, in dict order, gets ids 1, 2, ...; get_colmap_camera
       (cameras.py:42-68: model id from CAMERA_MODEL_IDS, params = camera_params[2:], UNKNOWN_CAMERA turned into
       SIMPLE_RADIAL with a made-up focal length);
     * add_images_to_database: images in flatten(records_camera) order get ids 1, 2, ...; prior pose = the (flattened)
       trajectory entry or zeros;
     * keypoints / descriptors per image id (columns cut to 2 unless 2/4/6), matches per pair id with the column swap
       of COLMAPDatabase.add_matches when id1 > id2, first entry wins on equal pair ids (database_extra.py:578-582);
     * cameras.txt for the cameras used by an image (width/height through int()), images.txt ONLY for images that
       have a pose -- and no images.txt at all when the dataset has no trajectories
       (export_colmap_reconstruction.py:250-251), points3D.txt with one line per point: index, xyz, int(rgb) or 0 0 0,
       track (image id, keypoint index) of the observations of that point;
     * every dict access that raises KeyError / assertion on a dangling reference is an explicit outcome [RExport]
       (the function [export_ok]).
   import
     * database: cameras -> sensors named cam_name(id) (model name from CAMERA_MODEL_NAMES, unknown id -> id 0),
       images -> records_camera[image id, cam_name(camera id)] = name, keypoints / descriptors resolved through
       records_camera[image id] (empty ones appended last), matches: pair_id_to_image_ids, names, column swap when
       the names are not in lexical order (import_colmap_database.py:286-294);
     * text: cameras.txt, images.txt (records + trajectories, world-to-camera exactly as written), points3D.txt
       (points indexed BY LINE, tracks resolved through the image id -> name table, 'unknown' when absent);
     * merge (import_colmap.py:233-249): everything from the database, trajectories / points / observations from the
       text files, sensors = database updated by text.
   REPAIRS (fixes/C13-*.patch), the code before them is kept as [*_legacy] (flag [legacy = true]):
     (A) export of a dataset with rigs but without trajectories raised AssertionError (rigs_remove_inplace(None, ..));
     (B) import resolved track image ids with the images of images.txt only, i.e. the POSED images: an observation in
         an image without pose came back with the image name 'unknown';
     (C) import of database + reconstruction raised AssertionError when images.txt does not exist (dataset without any
         pose), because the image id -> name table was taken from images.txt.
   NOT MODELLED (trusted, see docs/C13.md): SQLite, numpy blobs (float32 / uint8 / uint32 / float64 arrays are lists
   of exact rationals / integers), the lexing of the text files (fields are records; names are single tokens), float
   printing and parsing ([show]/[read] with the contract read (show x) = x), timestamps and sensor names (not
   carried by COLMAP), the two_view_geometries table (never written by export_colmap), colmap rig files, image files. *)
From Coq Require Import List Bool String Ascii ZArith QArith Qabs Qminmax Qround Lia.
From KV Require Import Eqb AL Str.
From KV.Model Require Import MQV MPose MRigs.
Import ListNotations.
Local Open Scope string_scope.
Local Open Scope list_scope.

(* ------------------------------------------------------------------ pair ids (database.py:113-122) *)
Definition pair_id (M a b : Z) : Z := if (a >? b)%Z then (b * M + a)%Z else (a * M + b)%Z.
Definition pair_ids (M p : Z) : Z * Z := let i2 := (p mod M)%Z in (((p - i2) / M)%Z, i2).

(* matches[:, ::-1] *)
Definition mrows := list (Z * Z).
Definition swap (m : mrows) : mrows := map (fun ab => (snd ab, fst ab)) m.

(* Matches.lexical_order(f1, f2) != (f1, f2)   <->   f2 < f1 *)
Definition out_of_order (f1 f2 : string) : bool := sltb f2 f1.

(* ------------------------------------------------------------------ small list utilities *)
Fixpoint number_from {A} (k : Z) (l : list A) : list (Z * A) :=
  match l with [] => [] | x :: l' => (k, x) :: number_from (k + 1)%Z l' end.

(* dict(pairs): later entries overwrite *)
Definition from_pairs {K V} `{EqDec K} (l : list (K * V)) : al K V :=
  fold_left (fun m kv => insert (fst kv) (snd kv) m) l [].
(* d.update(pairs) *)
Definition update {K V} `{EqDec K} (m : al K V) (l : list (K * V)) : al K V :=
  fold_left (fun m kv => insert (fst kv) (snd kv) m) l m.
(* first entry wins: `if key in seen: continue` *)
Fixpoint first_wins {K V} `{EqDec K} (seen : list K) (l : list (K * V)) : list (K * V) :=
  match l with
  | [] => []
  | (k, v) :: l' => if memb k seen then first_wins seen l' else (k, v) :: first_wins (k :: seen) l'
  end.
Definition nonempty {A} (l : list A) : bool := match l with [] => false | _ => true end.
Definition dflt {A} (d : A) (o : option A) : A := match o with Some a => a | None => d end.
(* int(x) of a float: truncation toward zero *)
Definition Qtrunc (q : Q) : Z := Z.quot (Qnum q) (Zpos (Qden q)).

(* ------------------------------------------------------------------ the kapture side *)
Inductive sensor := Cam (model : string) (params : list Q) | Other.
Definition rows := list (list Q).
Record feats := mkF { f_cols : Z; f_files : al string rows }.

Record dataset := mkD {
  d_sensors : al string sensor;               (* sensors, dict order *)
  d_rigs : option (rigs pose);
  d_traj : option (traj pose);
  d_images : map2 Z string string;            (* records_camera: timestamp -> camera -> image name *)
  d_kp : option feats;                        (* the keypoints type exported (None: no keypoints) *)
  d_desc : option feats;
  d_matches : option (al (string * string) mrows);   (* score column dropped, indices as integers *)
  d_points : rows;                            (* Points3d rows, 3 or 6 columns; [] = none *)
  d_obs : al Z (list (string * Z))            (* point index -> [(image name, keypoint index)]; [] = none *)
}.

(* flatten(records_camera): (timestamp, camera, name) in dict order *)
Definition images_of (d : dataset) : list (Z * string * string) := flat2 (d_images d).
Definition iname (e : Z * string * string) : string := snd e.
Definition icam (e : Z * string * string) : string := snd (fst e).
Definition its (e : Z * string * string) : Z := fst (fst e).
Definition image_names (d : dataset) : list string := map iname (images_of d).

(* --- the view "by image name" the property is about *)
Definition entry_of (d : dataset) (name : string) : option (Z * string * string) :=
  List.find (fun e => eqb (iname e) name) (images_of d).
Definition camera_of (d : dataset) (name : string) : option sensor :=
  match entry_of d name with Some e => lookup (icam e) (d_sensors d) | None => None end.
Definition pose_in (T : option (traj pose)) (d : dataset) (name : string) : option pose :=
  match entry_of d name, T with Some e, Some T => lookup2 (its e) (icam e) T | _, _ => None end.
Definition pose_of (d : dataset) (name : string) : option pose := pose_in (d_traj d) d name.
Definition feats_of (f : option feats) (name : string) : option rows :=
  match f with Some f => lookup name (f_files f) | None => None end.
Definition matches_of (d : dataset) (p : string * string) : option mrows :=
  match d_matches d with Some m => lookup p m | None => None end.
Definition xyz_of (d : dataset) : rows := map (firstn 3) (d_points d).
Definition obs_of (d : dataset) (i : Z) : list (string * Z) := dflt [] (lookup i (d_obs d)).

Inductive result (A : Type) := ROk (a : A) | RExport | RImport.   (* value | export raised | import raised *)
Arguments ROk {A} a.
Arguments RExport {A}.
Arguments RImport {A}.

(* how import_colmap is called: which artefacts it is given, skip_reconstruction, no_geometric_filtering *)
Inductive source := SBoth | SDb | STxt.            (* database + reconstruction directory | database only | text only *)
Record iopts := mkIO { io_src : source; io_skip : bool; io_nogeom : bool }.
Definition full_import : iopts := mkIO SBoth false false.

Section Colmap.
  Variable comp : pose -> pose -> pose.          (* PoseTransform.compose([a, b]), used by rigs_remove_inplace *)
  Variable tok : Type.                            (* a floating-point number as written in a text file *)
  Variable show : Q -> tok.                       (* '{}'.format(float) / str(float) *)
  Variable read : tok -> Q.                       (* float(text) *)
  Variable cam_name : Z -> string.                (* get_camera_kapture_id_from_colmap_id *)
  Variable model_ids : al string Z.               (* CAMERA_MODEL_IDS *)
  Variable model_names : al Z string.             (* CAMERA_MODEL_NAMES *)
  Variable unknown : string.                      (* CameraType.UNKNOWN_CAMERA *)
  Variable unknown_as : string.                   (* CameraType.SIMPLE_RADIAL *)
  Variable focal_factor : Q.                      (* DEFAULT_FOCAL_LENGTH_FACTOR *)
  Variable M : Z.                                 (* MAX_IMAGE_ID *)
  Variable legacy : bool.                         (* true: the code before fixes/C13-*.patch *)

  (* ---------------------------------------------------------------- the COLMAP side *)
  Record ccamera := mkCC { cc_id : Z; cc_model : Z; cc_w : Q; cc_h : Q; cc_params : list Q }.
  Record cimage := mkCI { ci_id : Z; ci_name : string; ci_cam : Z; ci_prior : pose }.
  Record cdb := mkDB {
    db_cameras : list ccamera;
    db_images : list cimage;
    db_kp : list (Z * Z * rows);                  (* image id, cols, data *)
    db_desc : list (Z * Z * rows);
    db_matches : list (Z * mrows) }.              (* pair id, data *)
  Record tcamera := mkTC { tc_id : Z; tc_model : string; tc_w : Z; tc_h : Z; tc_params : list tok }.
  Record timage := mkTI { ti_id : Z; ti_q : tok * tok * tok * tok; ti_t : tok * tok * tok; ti_cam : Z;
                          ti_name : string; ti_p2d : list (tok * tok) }.     (* POINT3D_ID is never read back *)
  Record tpoint := mkTP { tp_id : Z; tp_xyz : list tok; tp_rgb : list Z; tp_track : list (Z * Z) }.
  Record ctxt := mkTX { tx_cameras : list tcamera; tx_images : option (list timage); tx_points : list tpoint }.
  Definition colmap := (cdb * ctxt)%type.

  (* ---------------------------------------------------------------- export *)
  (* trajectories after `if kapture_data.rigs is not None: rigs_remove_inplace(trajectories, rigs)`;
     None = the call raised *)
  Definition world_traj (d : dataset) : option (option (traj pose)) :=
    match d_rigs d, d_traj d with
    | None, T => Some T
    | Some R, Some T =>
        match remove_inplace pose comp max_depth R T with
        | Done T' => Some (Some T')
        | _ => None
        end
    | Some R, None => if legacy then None else Some None
    end.
  Definition wtraj (d : dataset) : option (traj pose) := dflt None (world_traj d).

  (* kapture_to_colmap / export_to_colmap_txt: `if kapture_data.rigs:` a used sensor is a rig id -> ValueError *)
  Definition rigs_still_used (d : dataset) : bool :=
    match d_rigs d with
    | Some R => if nonempty R then
                  match wtraj d with
                  | Some T => existsb (fun e => is_rig R (snd (fst e))) (flat2 T)
                  | None => legacy          (* legacy: kapture_data.trajectories.values() on None *)
                  end
                else false
    | None => false
    end.

  Definition cam_list (d : dataset) : list (string * (string * list Q)) :=
    flat_map (fun se => match snd se with Cam m p => [(fst se, (m, p))] | Other => [] end) (d_sensors d).
  Definition cam_ids (d : dataset) : al string Z :=
    map (fun ic => (fst (snd ic), fst ic)) (number_from 1%Z (cam_list d)).

  (* get_colmap_camera: (model id, width, height, params); None = ValueError / assertion *)
  Definition colmap_camera (model : string) (params : list Q) : option (Z * Q * Q * list Q) :=
    match params with
    | w :: h :: rest =>
        if eqb model unknown then
          match lookup unknown_as model_ids with
          | Some i => Some (i, w, h, [focal_factor * Qmax w h; w / 2; h / 2; 0])
          | None => None
          end
        else match lookup model model_ids with
             | Some i => Some (i, w, h, rest)
             | None => None
             end
    | _ => None
    end.
  Definition ccamera_of (ic : Z * (string * (string * list Q))) : ccamera :=
    match colmap_camera (fst (snd (snd ic))) (snd (snd (snd ic))) with
    | Some (i, w, h, ps) => mkCC (fst ic) i w h ps
    | None => mkCC (fst ic) 0%Z 0 0 []
    end.

  Definition numbered_images (d : dataset) : list (Z * (Z * string * string)) := number_from 1%Z (images_of d).
  Definition image_ids (d : dataset) : al string Z := map (fun ie => (iname (snd ie), fst ie)) (numbered_images d).
  Definition id_of (d : dataset) (name : string) : Z := dflt 0%Z (lookup name (image_ids d)).
  Definition pzero : pose := mkP qzero vzero.
  Definition cimage_of (d : dataset) (ie : Z * (Z * string * string)) : cimage :=
    let e := snd ie in
    mkCI (fst ie) (iname e) (dflt 0%Z (lookup (icam e) (cam_ids d)))
         (dflt pzero (match wtraj d with Some T => lookup2 (its e) (icam e) T | None => None end)).

  Definition colmap_cols (c : Z) : bool := (c =? 2)%Z || (c =? 4)%Z || (c =? 6)%Z.
  Definition export_feats (d : dataset) (cut : bool) (f : option feats) : list (Z * Z * rows) :=
    match f with
    | None => []
    | Some f =>
        let keep := negb cut || colmap_cols (f_cols f) in
        map (fun nr => (id_of d (fst nr), if keep then f_cols f else 2%Z,
                        if keep then snd nr else map (firstn 2) (snd nr))) (f_files f)
    end.

  Definition export_match (d : dataset) (e : (string * string) * mrows) : Z * mrows :=
    let i1 := id_of d (fst (fst e)) in let i2 := id_of d (snd (fst e)) in
    (pair_id M i1 i2, if (i1 >? i2)%Z then swap (snd e) else snd e).
  Definition export_matches (d : dataset) : list (Z * mrows) :=
    match d_matches d with
    | Some m => first_wins [] (map (export_match d) m)
    | None => []
    end.

  Definition export_db (d : dataset) : cdb :=
    mkDB (map ccamera_of (number_from 1%Z (cam_list d)))
         (map (cimage_of d) (numbered_images d))
         (export_feats d true (d_kp d)) (export_feats d false (d_desc d)) (export_matches d).

  (* cameras.txt: the cameras some image uses, in sensors order *)
  Definition cam_used (d : dataset) (sid : string) : bool := existsb (fun e => eqb (icam e) sid) (images_of d).
  Definition tcamera_of (ic : Z * (string * (string * list Q))) : tcamera :=
    let c := ccamera_of ic in
    mkTC (cc_id c) (dflt "" (lookup (cc_model c) model_names)) (Qtrunc (cc_w c)) (Qtrunc (cc_h c)) (map show (cc_params c)).
  Definition export_tcameras (d : dataset) : list tcamera :=
    map tcamera_of (List.filter (fun ic => cam_used d (fst (snd ic))) (number_from 1%Z (cam_list d))).

  (* images.txt second lines: only `if keypoints and points3d and observations` *)
  Definition p2d_of (d : dataset) (name : string) : list (tok * tok) :=
    match d_kp d with
    | Some f => if nonempty (d_points d) && nonempty (d_obs d) then
                  map (fun r => (show (nth 0 r 0), show (nth 1 r 0))) (dflt [] (lookup name (f_files f)))
                else []
    | None => []
    end.
  Definition timage_of (d : dataset) (T : traj pose) (ie : Z * (Z * string * string)) : list timage :=
    let e := snd ie in
    match lookup2 (its e) (icam e) T with
    | Some p =>
        let q := pr p in let t := pt p in
        [mkTI (fst ie) (show (qw q), show (qx q), show (qy q), show (qz q)) (show (vx t), show (vy t), show (vz t))
              (dflt 0%Z (lookup (icam e) (cam_ids d))) (iname e) (p2d_of d (iname e))]
    | None => []
    end.
  Definition export_timages (d : dataset) : option (list timage) :=
    match wtraj d with
    | Some T => Some (flat_map (timage_of d T) (numbered_images d))
    | None => None                                 (* 'skipping colmap images.txt' *)
    end.

  Definition tpoint_of (d : dataset) (ir : Z * list Q) : tpoint :=
    let r := snd ir in
    mkTP (fst ir) (map show (firstn 3 r))
         (match r with [_; _; _; cr; cg; cb] => [Qtrunc cr; Qtrunc cg; Qtrunc cb] | _ => [0; 0; 0]%Z end)
         (map (fun nk => (id_of d (fst nk), snd nk)) (obs_of d (fst ir))).
  Definition export_tpoints (d : dataset) : list tpoint := map (tpoint_of d) (number_from 0%Z (d_points d)).

  Definition export_txt (d : dataset) : ctxt := mkTX (export_tcameras d) (export_timages d) (export_tpoints d).

  (* does any step of the export raise? *)
  Definition known_image (d : dataset) (name : string) : bool := mem name (image_ids d).
  Definition feats_known (d : dataset) (f : option feats) : bool :=
    match f with Some f => forallb (fun nr => known_image d (fst nr)) (f_files f) | None => true end.
  Definition export_ok (d : dataset) : bool :=
    match world_traj d with Some _ => true | None => false end
    && negb (rigs_still_used d)
    && forallb (fun c => match colmap_camera (fst (snd c)) (snd (snd c)) with Some _ => true | None => false end) (cam_list d)
    && forallb (fun e => mem (icam e) (cam_ids d)) (images_of d)
    && feats_known d (d_kp d) && feats_known d (d_desc d)
    && match d_matches d with
       | Some m => forallb (fun e => known_image d (fst (fst e)) && known_image d (snd (fst e))) m
       | None => true
       end
    && forallb (fun ir => forallb (fun nk => known_image d (fst nk)) (obs_of d (fst ir))) (number_from 0%Z (d_points d)).

  Definition export (d : dataset) : option colmap := if export_ok d then Some (export_db d, export_txt d) else None.

  (* ---------------------------------------------------------------- import *)
  Definition name_of_id (R : map2 Z string string) (i : Z) : option string :=
    match lookup i R with Some ((_, n) :: _) => Some n | _ => None end.

  Definition import_sensors_db (db : cdb) : al string sensor :=
    from_pairs (map (fun c => (cam_name (cc_id c),
                               Cam (dflt "" (lookup (if mem (cc_model c) model_names then cc_model c else 0%Z) model_names))
                                   (cc_w c :: cc_h c :: cc_params c))) (db_cameras db)).
  Definition import_records_db (db : cdb) : map2 Z string string :=
    fold_left (fun R ci => set2 (ci_id ci) (cam_name (ci_cam ci)) (ci_name ci) R) (db_images db) [].

  (* get_keypoints_from_database / get_descriptors_from_database: non-empty arrays in table order, then the empty
     ones; dsize = columns of the first non-empty array, else the default *)
  Definition import_feats (R : map2 Z string string) (default_cols : Z) (es : list (Z * Z * rows)) : option feats :=
    let named := map (fun e => (dflt "" (name_of_id R (fst (fst e))), snd (fst e), snd e)) es in
    let ne := List.filter (fun e => nonempty (snd e)) named in
    let em := List.filter (fun e => negb (nonempty (snd e))) named in
    match named with
    | [] => None
    | _ => Some (mkF (match ne with e :: _ => snd (fst e) | [] => default_cols end)
                     (from_pairs (map (fun e => (fst (fst e), snd e)) (ne ++ em))))
    end.

  Definition import_match (R : map2 Z string string) (e : Z * mrows) : list ((string * string) * mrows) :=
    let ii := pair_ids M (fst e) in
    match name_of_id R (fst ii), name_of_id R (snd ii) with
    | Some f1, Some f2 => if out_of_order f1 f2 then [((f2, f1), swap (snd e))] else [((f1, f2), snd e)]
    | _, _ => []                                   (* 'inconsistent image ID': continue *)
    end.
  Definition import_matches (R : map2 Z string string) (es : list (Z * mrows)) : al (string * string) mrows :=
    from_pairs (flat_map (import_match R) es).

  Definition import_sensors_txt (cs : list tcamera) : list (string * sensor) :=
    map (fun c => (cam_name (tc_id c), Cam (tc_model c) (inject_Z (tc_w c) :: inject_Z (tc_h c) :: map read (tc_params c)))) cs.
  Definition import_records_txt (is : list timage) : map2 Z string string :=
    fold_left (fun R ti => set2 (ti_id ti) (cam_name (ti_cam ti)) (ti_name ti) R) is [].
  Definition pose_of_timage (ti : timage) : pose :=
    let '(a, b, c, e) := ti_q ti in let '(x, y, z) := ti_t ti in
    mkP (mkQ (read a) (read b) (read c) (read e)) (mkV (read x) (read y) (read z)).
  Definition import_traj_txt (is : list timage) : traj pose :=
    fold_left (fun T ti => set2 (ti_id ti) (cam_name (ti_cam ti)) (pose_of_timage ti) T) is [].
  (* keypoints of images.txt: read only when the database gave none *)
  Definition import_kp_txt (is : list timage) : option feats :=
    let files := flat_map (fun ti => if nonempty (ti_p2d ti)
                                     then [(ti_name ti, map (fun xy => [read (fst xy); read (snd xy)]) (ti_p2d ti))]
                                     else []) is in
    if nonempty files then Some (mkF 2%Z (from_pairs files)) else None.

  (* {timestamp: name}; unique timestamps in everything an import produces *)
  Definition id_names (R : map2 Z string string) : list (Z * string) := map (fun e => (its e, iname e)) (flat2 R).
  Definition import_points (ps : list tpoint) : rows :=
    map (fun p => map read (tp_xyz p) ++ map inject_Z (tp_rgb p)) ps.
  Definition import_obs (names : al Z string) (ps : list tpoint) : al Z (list (string * Z)) :=
    flat_map (fun ip => if nonempty (tp_track (snd ip)) && nonempty names
                        then [(fst ip, map (fun ik => (dflt "unknown" (lookup (fst ik) names), snd ik)) (tp_track (snd ip)))]
                        else []) (number_from 0%Z ps).

  Definition import_ok (c : colmap) : bool :=
    (* legacy: `assert kapture_data.records_camera is not None` when points3D.txt exists (always) and images.txt does not *)
    match tx_images (snd c) with None => negb legacy | Some _ => true end.

  Definition import_data (c : colmap) : dataset :=
    let db := fst c in let tx := snd c in
    let R := import_records_db db in
    let kp_db := import_feats R 6%Z (db_kp db) in
    let Rt := match tx_images tx with Some is => import_records_txt is | None => [] end in
    let names := if legacy then from_pairs (id_names Rt) else update (from_pairs (id_names R)) (id_names Rt) in
    mkD (update (import_sensors_db db) (import_sensors_txt (tx_cameras tx)))
        None
        (match tx_images tx with Some is => Some (import_traj_txt is) | None => None end)
        R
        (match kp_db with
         | Some f => Some f
         | None => match tx_images tx with Some is => import_kp_txt is | None => None end
         end)
        (import_feats R 128%Z (db_desc db))
        (Some (import_matches R (db_matches db)))
        (import_points (tx_points tx))
        (import_obs names (tx_points tx)).

  Definition import (c : colmap) : option dataset := if import_ok c then Some (import_data c) else None.

  Definition roundtrip (d : dataset) : result dataset :=
    match export d with
    | None => RExport
    | Some c => match import c with Some d' => ROk d' | None => RImport end
    end.

  (* ---------------------------------------------------------------- import_colmap with its other options
     (import_colmap.py:166-285).  [import_data] above is the call the property is about (database + reconstruction,
     nothing skipped); [import_mode] is the same function for every combination of
       - artefacts: database only / reconstruction text only / both,
       - skip_reconstruction: the database part stops after cameras, images and prior poses; the text part skips
         keypoints, points and observations,
       - no_geometric_filtering: matches are read from two_view_geometries only when that table is not empty;
         export_colmap never fills it, so the flag has no effect on exported artefacts.
     PoseTransform priors of the database: export writes zeros for an image without pose, so a database-only import
     gives such an image the all-zero pose (import_colmap_database.py:78-84 tests for NULL, never written).
     The result is a function of the artefacts and the options ONLY: nothing is remembered from one call to the
     next (Props/C13.v, C13_history_independent; the correspondence runs histories of calls in one process). *)
  Definition import_traj_db (db : cdb) : option (traj pose) :=
    match db_images db with
    | [] => None                                   (* `if len(kapture_trajectories) == 0` *)
    | is => Some (fold_left (fun T ci => set2 (ci_id ci) (cam_name (ci_cam ci)) (ci_prior ci) T) is [])
    end.

  Definition import_mode (o : iopts) (c : colmap) : dataset :=
    let db := fst c in let tx := snd c in
    let use_db := match io_src o with STxt => false | _ => true end in
    let R := if use_db then import_records_db db else [] in
    let feats_db := use_db && negb (io_skip o) in
    let kp_db := if feats_db then import_feats R 6%Z (db_kp db) else None in
    (* what_to_skip_during_import_txt: a fresh set on every call *)
    let skip_kp := io_skip o || match kp_db with Some _ => true | None => false end in
    let Rt := match tx_images tx with Some is => import_records_txt is | None => [] end in
    let names := if legacy then from_pairs (id_names Rt) else update (from_pairs (id_names R)) (id_names Rt) in
    let traj_tx := match tx_images tx with Some is => Some (import_traj_txt is) | None => None end in
    let kp_tx := if skip_kp then None else match tx_images tx with Some is => import_kp_txt is | None => None end in
    let points := if io_skip o then [] else import_points (tx_points tx) in
    let obs := if io_skip o then [] else import_obs names (tx_points tx) in
    let desc_db := if feats_db then import_feats R 128%Z (db_desc db) else None in
    let matches_db := if feats_db then Some (import_matches R (db_matches db)) else None in
    match io_src o with
    | SDb => mkD (import_sensors_db db) None (import_traj_db db) R kp_db desc_db matches_db [] []
    | STxt => mkD (from_pairs (import_sensors_txt (tx_cameras tx))) None traj_tx Rt kp_tx None None points obs
    | SBoth => mkD (update (import_sensors_db db) (import_sensors_txt (tx_cameras tx))) None traj_tx R
                   (match kp_db with Some f => Some f | None => kp_tx end) desc_db matches_db points obs
    end.

  Definition import_ok_mode (o : iopts) (c : colmap) : bool :=
    match io_src o with
    | SDb => true
    | _ => io_skip o || import_ok c
    end.

  Definition roundtrip_mode (o : iopts) (d : dataset) : result dataset :=
    match export d with
    | None => RExport
    | Some c => if import_ok_mode o c then ROk (import_mode o c) else RImport
    end.

  (* a history of calls in one process: each result depends on its own dataset and options only *)
  Definition run_history (h : list (iopts * dataset)) : list (result dataset) :=
    map (fun s => roundtrip_mode (fst s) (snd s)) h.

  (* the export TARGET (database path + reconstruction directory) as a store: export_colmap with
     force_overwrite_existing REPLACES what the target held -- the database is removed and rebuilt, cameras.txt and
     points3D.txt are rewritten, images.txt is rewritten or, when the dataset has no trajectories, removed
     (fixes/C13-export-removes-stale-images-txt.patch; before it the images.txt of an earlier export stayed).  So the
     artefacts after an export are a function of the exported dataset only; None = the export raised. *)
  Definition store := option colmap.
  Definition export_to (before : store) (d : dataset) : store := export d.
  (* before the repair: no images.txt written when there are no trajectories, and the one already there stayed *)
  Definition export_to_legacy (before : store) (d : dataset) : store :=
    match export d with
    | Some c => Some (fst c, mkTX (tx_cameras (snd c))
                                  (match tx_images (snd c), before with
                                   | None, Some b => tx_images (snd b)
                                   | i, _ => i
                                   end) (tx_points (snd c)))
    | None => None
    end.
  Definition step_on (s : store) (od : iopts * dataset) : store * result dataset :=
    let s' := export_to s (snd od) in
    (s', match s' with
         | None => RExport
         | Some c => if import_ok_mode (fst od) c then ROk (import_mode (fst od) c) else RImport
         end).
  (* calls that re-use one target, starting from any content *)
  Fixpoint run_on (s : store) (h : list (iopts * dataset)) : list (result dataset) :=
    match h with
    | [] => []
    | od :: h' => let r := step_on s od in snd r :: run_on (fst r) h'
    end.

  (* ---------------------------------------------------------------- COLMAP's expressive range, as a boolean *)
  Definition is_int (q : Q) : bool := Pos.eqb (Qden q) 1.
  Definition camera_in_range (s : sensor) : bool :=
    match s with
    | Cam m (w :: h :: _) => negb (eqb m unknown) && mem m model_ids && is_int w && is_int h
    | _ => false
    end.
  Definition feats_in_range (d : dataset) (kp : bool) (f : option feats) : bool :=
    match f with
    | Some f => nodupb (keys (f_files f)) && forallb (fun n => memb n (image_names d)) (keys (f_files f))
                && (negb kp || colmap_cols (f_cols f))
    | None => true
    end.
  Definition in_range (d : dataset) : bool :=
    (* real dicts *)
    nodupb (keys (d_sensors d)) && nodupb (keys (d_images d)) && forallb (fun ti => nodupb (keys (snd ti))) (d_images d)
    (* unique image names, fewer than MAX_IMAGE_ID of them *)
    && nodupb (image_names d) && (Z.of_nat (List.length (images_of d)) <? M - 1)%Z
    (* every image is taken by a camera of a model COLMAP knows, with an integral image size *)
    && forallb (fun e => match lookup (icam e) (d_sensors d) with Some s => camera_in_range s | None => false end) (images_of d)
    && forallb (fun c => match colmap_camera (fst (snd c)) (snd (snd c)) with Some _ => true | None => false end) (cam_list d)
    (* rigs flatten within max_depth *)
    && match world_traj d with Some _ => true | None => false end && negb (rigs_still_used d)
    (* one keypoints type on 2 / 4 / 6 columns, descriptors, both for known images *)
    && feats_in_range d true (d_kp d) && feats_in_range d false (d_desc d)
    (* matches between known images, each pair once and in lexical order *)
    && match d_matches d with
       | Some m => nodupb (keys m)
                   && forallb (fun p => memb (fst p) (image_names d) && memb (snd p) (image_names d) && sleb (fst p) (snd p)) (keys m)
       | None => true
       end
    (* points on 3 or 6 columns (what Points3d accepts); observations: of existing points, in known images *)
    && forallb (fun r => (Nat.eqb (List.length r) 3) || (Nat.eqb (List.length r) 6)) (d_points d)
    && nodupb (keys (d_obs d))
    && forallb (fun il => (0 <=? fst il)%Z && (fst il <? Z.of_nat (List.length (d_points d)))%Z
                          && forallb (fun nk => memb (fst nk) (image_names d)) (snd il)) (d_obs d).
End Colmap.

(* ------------------------------------------------------------------ instances *)
From KV.Gen Require Import Tcolmap.

(* an injective naming of COLMAP camera ids, standing for f'cam_{id:05d}' in executions (the name of a sensor is not
   observable by image name) *)
Fixpoint pos_name (p : positive) : string :=
  match p with xH => "" | xO p => String "0"%char (pos_name p) | xI p => String "1"%char (pos_name p) end.
Definition cam_name_x (i : Z) : string :=
  match i with Z0 => "z" | Zpos p => String "p"%char (pos_name p) | Zneg p => String "n"%char (pos_name p) end.

(* the tree under test: tables of Gen/Tcolmap.v, text tokens = the numbers themselves *)
Definition roundtrip_with (comp : pose -> pose -> pose) (legacy : bool) : dataset -> result dataset :=
  roundtrip comp Q (fun x => x) (fun x => x) cam_name_x
            Tcolmap.camera_model_ids Tcolmap.camera_model_names Tcolmap.unknown_camera
            Tcolmap.unknown_camera_exported_as Tcolmap.default_focal_length_factor Tcolmap.max_image_id legacy.
Definition roundtrip_mode_with (comp : pose -> pose -> pose) (legacy : bool) : iopts -> dataset -> result dataset :=
  roundtrip_mode comp Q (fun x => x) (fun x => x) cam_name_x
                 Tcolmap.camera_model_ids Tcolmap.camera_model_names Tcolmap.unknown_camera
                 Tcolmap.unknown_camera_exported_as Tcolmap.default_focal_length_factor Tcolmap.max_image_id legacy.
Definition roundtrip_mode_x := roundtrip_mode_with MRigs.comp_x false.
(* two exports to one target then a full import, with the pre-fix exporter (stale images.txt) *)
Definition reexport_legacy (a b : dataset) : option dataset :=
  let ex := export MPose.compose2 Q (fun x => x) Tcolmap.camera_model_ids Tcolmap.camera_model_names Tcolmap.unknown_camera
                   Tcolmap.unknown_camera_exported_as Tcolmap.default_focal_length_factor Tcolmap.max_image_id false in
  match export_to_legacy MPose.compose2 Q (fun x => x) Tcolmap.camera_model_ids Tcolmap.camera_model_names Tcolmap.unknown_camera
                         Tcolmap.unknown_camera_exported_as Tcolmap.default_focal_length_factor Tcolmap.max_image_id false (ex a) b with
  | Some c => Some (import_data Q (fun x => x) cam_name_x Tcolmap.camera_model_names Tcolmap.max_image_id false c)
  | None => None
  end.
Definition roundtrip_spec := roundtrip_with MPose.compose2 false.
Definition roundtrip_x := roundtrip_with MRigs.comp_x false.
Definition roundtrip_legacy_x := roundtrip_with MRigs.comp_x true.
Definition in_range_repo (comp : pose -> pose -> pose) : dataset -> bool :=
  in_range comp Tcolmap.camera_model_ids Tcolmap.unknown_camera Tcolmap.unknown_camera_exported_as
           Tcolmap.default_focal_length_factor Tcolmap.max_image_id false.

(* ------------------------------------------------------------------ the lexing of images.txt, character level
   (import_colmap_reconstruction.py: split_colmap_image_line, colmap_images_line_pattern).  The first line of an image is
       IMAGE_ID QW QX QY QZ TX TY TZ CAMERA_ID NAME
   written by export_to_colmap_images_txt as ' '.join('{}'.format(f) ...).  The importer strips the blanks at the end
   of the line (str.rstrip), then reads 9 fields separated by runs of blanks and / or commas (regex [^,\s]+ / [,\s]+),
   and NAME is THE REST OF THE LINE, as written (leading separators skipped): an image name may contain blanks, several
   in a row, tabs, commas.  REPAIR (E) (fixes/C13-import-image-names-verbatim.patch): before it, the whole line was
   cut into fields and NAME re-assembled as ' '.join(fields[9:]) -- "a  x.jpg" came back as "a x.jpg"
   ([parse_image_line_legacy]).  Strings are UTF-8 bytes; the blanks are the ASCII ones of Python's \s / str.isspace
   (9-13, 28-32); the non-ASCII blanks (U+0085, U+00A0, U+2000.. ) are outside the model (never generated).
   None = fewer than 9 fields (the code then raises IndexError / ValueError at int(fields[..])). *)
Definition is_ws (c : ascii) : bool :=
  let n := N_of_ascii c in ((9 <=? n)%N && (n <=? 13)%N) || ((28 <=? n)%N && (n <=? 32)%N).
Definition is_sep (c : ascii) : bool := is_ws c || (N_of_ascii c =? 44)%N.
Fixpoint skip_seps (s : string) : string :=
  match s with String c s' => if is_sep c then skip_seps s' else s | EmptyString => s end.
(* the longest prefix free of separators, and what follows *)
Fixpoint take_tok (s : string) : string * string :=
  match s with
  | String c s' => if is_sep c then (EmptyString, s) else let tr := take_tok s' in (String c (fst tr), snd tr)
  | EmptyString => (EmptyString, EmptyString)
  end.
Fixpoint rstrip (s : string) : string :=
  match s with
  | EmptyString => EmptyString
  | String c s' => match rstrip s' with
                   | EmptyString => if is_ws c then EmptyString else String c EmptyString
                   | r => String c r
                   end
  end.
(* n fields, then the rest with its leading separators skipped *)
Fixpoint fields_n (n : nat) (s : string) : option (list string * string) :=
  match n with
  | O => Some ([], s)
  | S n' => let tr := take_tok s in
            match fst tr with
            | EmptyString => None
            | t => match fields_n n' (skip_seps (snd tr)) with
                   | Some (l, rest) => Some (t :: l, rest)
                   | None => None
                   end
            end
  end.
Definition parse_image_line (line : string) : option (list string * string) :=
  fields_n 9 (skip_seps (rstrip line)).
(* re.findall('[^,\s]+', s); fuel = length s + 1 *)
Fixpoint all_fields (fuel : nat) (s : string) : list string :=
  match fuel with
  | O => []
  | S f => let tr := take_tok (skip_seps s) in
           match fst tr with EmptyString => [] | t => t :: all_fields f (snd tr) end
  end.
Fixpoint join_sp (l : list string) : string :=
  match l with [] => EmptyString | [x] => x | x :: l' => (x ++ String " "%char (join_sp l'))%string end.
Definition squeeze (name : string) : string := join_sp (all_fields (S (String.length name)) name).
Definition parse_image_line_legacy (line : string) : option (list string * string) :=
  match parse_image_line line with Some (l, name) => Some (l, squeeze name) | None => None end.
(* export_to_colmap_images_txt: ' '.join(fields) *)
Definition emit_image_line (fields : list string) (name : string) : string := join_sp (fields ++ [name]).
(* the file: comment lines (starting with #) are dropped, then the lines go by two -- the first of an image, then its
   2-D points (possibly an empty line); import_from_colmap_images_txt keeps `i % 2 == 0` for images / poses *)
Definition is_comment (line : string) : bool := match line with String c _ => (N_of_ascii c =? 35)%N | EmptyString => false end.
Fixpoint evens {A} (l : list A) : list A :=
  match l with [] => [] | x :: l' => x :: match l' with [] => [] | _ :: l'' => evens l'' end end.
Fixpoint all_some {A} (l : list (option A)) : option (list A) :=
  match l with
  | [] => Some []
  | Some a :: l' => match all_some l' with Some r => Some (a :: r) | None => None end
  | None :: _ => None
  end.
Definition parse_images_txt (lines : list string) : option (list (list string * string)) :=
  all_some (map parse_image_line (evens (List.filter (fun l => negb (is_comment l)) lines))).
(* export_to_colmap_images_txt: header, then two lines per image *)
Definition emit_images_txt (header : list string) (recs : list (list string * string * string)) : list string :=
  header ++ flat_map (fun r => [emit_image_line (fst (fst r)) (snd (fst r)); snd r]) recs.

(* a field as '{}'.format writes one: not empty, no blank, no comma *)
Fixpoint clean_tok (s : string) : bool :=
  match s with EmptyString => true | String c s' => negb (is_sep c) && clean_tok s' end.
Definition field_ok (s : string) : bool := match s with EmptyString => false | _ => clean_tok s end.
(* an image name as kapture's csv files can hold one: it does not begin with a blank or a comma and does not end
   with a blank (records_camera.txt is split on \s*,\s* and stripped) *)
Definition name_ok (s : string) : bool :=
  match s with EmptyString => false | String c _ => negb (is_sep c) end && eqb (rstrip s) s.

(* images.txt as TEXT for the records of [export_timages] (tokens = strings): export_to_colmap_images_txt writes
   ' '.join('{}'.format(f)) of [id] + r_raw + t_raw + [camera id, name], then the 2-D points X Y POINT3D_ID *)
Section ImagesTxt.
  Variable show : Q -> string.                    (* '{}'.format(float) *)
  Variable show_z : Z -> string.                  (* '{}'.format(int) *)
  Definition fields_of_timage (ti : timage string) : list string :=
    let '(a, b, c, e) := ti_q string ti in let '(x, y, z) := ti_t string ti in
    [show_z (ti_id string ti); a; b; c; e; x; y; z; show_z (ti_cam string ti)].
  Definition p2d_line (ti : timage string) : string :=
    join_sp (flat_map (fun xy => [fst xy; snd xy; show_z (-1)%Z]) (ti_p2d string ti)).   (* POINT3D_ID is never read back *)
  Definition images_txt_of (header : list string) (is : list (timage string)) : list string :=
    emit_images_txt header (map (fun ti => (fields_of_timage ti, ti_name string ti, p2d_line ti)) is).
End ImagesTxt.

(* the import before repair (E) at the level of datasets: every name read from images.txt is squeezed *)
Definition squeeze_names {tok} (tx : ctxt tok) : ctxt tok :=
  mkTX tok (tx_cameras tok tx)
       (match tx_images tok tx with
        | Some is => Some (map (fun ti => mkTI tok (ti_id tok ti) (ti_q tok ti) (ti_t tok ti) (ti_cam tok ti)
                                               (squeeze (ti_name tok ti)) (ti_p2d tok ti)) is)
        | None => None
        end) (tx_points tok tx).
Definition roundtrip_squeezed (d : dataset) : option dataset :=
  match export MPose.compose2 Q (fun x => x) Tcolmap.camera_model_ids Tcolmap.camera_model_names Tcolmap.unknown_camera
               Tcolmap.unknown_camera_exported_as Tcolmap.default_focal_length_factor Tcolmap.max_image_id false d with
  | Some c => Some (import_data Q (fun x => x) cam_name_x Tcolmap.camera_model_names Tcolmap.max_image_id false
                                (fst c, squeeze_names (snd c)))
  | None => None
  end.

(* ------------------------------------------------------------------ correspondence
   One case = the dataset export_colmap loaded (kapture_from_dir), what export_colmap + import_colmap did on it,
   observed BY IMAGE NAME on the re-imported dataset, and a batch of (a, b) fed to the real
   image_ids_to_pair_id / pair_id_to_image_ids. *)
Inductive oclass := OOk | OExportRaises | OImportRaises.
Record oimage := mkOI { oi_name : string; oi_model : string; oi_params : list Q; oi_pose : option pose;
                        oi_kp : option rows; oi_desc : option rows }.
Record observed := mkO {
  o_class : oclass;
  o_images : list oimage;
  o_matches : list ((string * string) * mrows);
  o_points : rows;
  o_obs : list (Z * list (string * Z)) }.
(* one export + import of one dataset with one set of import options; a case is a HISTORY of such steps run one
   after the other in one python process (a single step for the plain round trips) *)
Record step := mkStep { s_data : dataset; s_opts : iopts; s_obs : observed }.
(* c_lines: images.txt files (their lines) given to the real import_from_colmap_images_txt, with the ten fields it read
   for every image (numbers re-printed canonically by the harness; None = it raised) *)
Record case := mkCase { c_steps : list step; c_pairs : list (Z * Z * Z * Z * Z);
                        c_lines : list (list string * option (list (list string * string))) }.

Definition Qs_eqb (a b : list Q) : bool :=
  (fix go a b := match a, b with [] , [] => true | x :: a', y :: b' => Qeq_bool x y && go a' b' | _, _ => false end) a b.
(* camera parameters: exact, except that the focal length made up for UNKNOWN_CAMERA is a float product *)
Definition Qs_close (m o : list Q) : bool :=
  (fix go a b := match a, b with
                 | [] , [] => true
                 | x :: a', y :: b' => close_abs MRigs.tol (Qmax 1 (Qabs x)) y x && go a' b'
                 | _, _ => false
                 end) m o.
Definition rows_eqb (a b : rows) : bool :=
  (fix go a b := match a, b with [] , [] => true | x :: a', y :: b' => Qs_eqb x y && go a' b' | _, _ => false end) a b.
Definition opt_agree {A} (f : A -> A -> bool) (a b : option A) : bool :=
  match a, b with Some x, Some y => f x y | None, None => true | _, _ => false end.

(* domain of the model: real dicts, no zero quaternion where a rig composition happens, matches stored in lexical
   order (the layout kapture_format.adoc prescribes) *)
Definition dom_ok (d : dataset) : bool :=
  nodupb (keys (d_sensors d)) && nodupb (keys (d_images d)) && forallb (fun ti => nodupb (keys (snd ti))) (d_images d)
  && match d_rigs d with Some R => wf2b R && all_poses nonzero R | None => true end
  && match d_traj d with Some T => wf2b T && all_poses nonzero T | None => true end
  && match d_kp d with Some f => nodupb (keys (f_files f)) | None => true end
  && match d_desc d with Some f => nodupb (keys (f_files f)) | None => true end
  && match d_matches d with Some m => nodupb (keys m) && forallb (fun p => sleb (fst p) (snd p)) (keys m) | None => true end
  && nodupb (keys (d_obs d)).

Definition image_agrees (d' : dataset) (o : oimage) : bool :=
  match camera_of d' (oi_name o) with
  | Some (Cam m ps) => eqb m (oi_model o) && Qs_close ps (oi_params o)
  | _ => false
  end
  && opt_agree MRigs.pose_close (pose_of d' (oi_name o)) (oi_pose o)
  && opt_agree rows_eqb (feats_of (d_kp d') (oi_name o)) (oi_kp o)
  && opt_agree rows_eqb (feats_of (d_desc d') (oi_name o)) (oi_desc o).

(* the same observations of a point, in any order *)
Definition same_set (a b : list (string * Z)) : bool :=
  eqb (List.length a) (List.length b) && forallb (fun x => memb x b) a && forallb (fun x => memb x a) b.

Definition check_pairs (ps : list (Z * Z * Z * Z * Z)) : bool :=
  forallb (fun t => match t with (a, b, p, x, y) =>
     eqb (pair_id Tcolmap.max_image_id a b) p && eqb (pair_ids Tcolmap.max_image_id p) (x, y) end) ps.

Definition check_step (c : step) : bool :=
  let d := s_data c in let o := s_obs c in
  dom_ok d &&
  match roundtrip_mode_x (s_opts c) d with
  | RExport => match o_class o with OExportRaises => true | _ => false end
  | RImport => match o_class o with OImportRaises => true | _ => false end
  | ROk d' =>
      match o_class o with OOk => true | _ => false end
      && eqb (ssort (image_names d')) (ssort (map oi_name (o_images o)))
      && forallb (image_agrees d') (o_images o)
      && (let m := dflt [] (d_matches d') in
          eqb (List.length m) (List.length (o_matches o)) && nodupb (keys (o_matches o))
          && forallb (fun e => eqb (lookup (fst e) m) (Some (snd e))) (o_matches o))
      && rows_eqb (d_points d') (o_points o)
      && eqb (List.length (d_obs d')) (List.length (o_obs o)) && nodupb (keys (o_obs o))
      && forallb (fun e => match lookup (fst e) (d_obs d') with
                           | Some l => same_set l (snd e)
                           | None => false
                           end) (o_obs o)
  end.

(* every step is compared with the model evaluated on that step alone *)
Definition check_lines (ls : list (list string * option (list (list string * string)))) : bool :=
  forallb (fun lo => eqb (parse_images_txt (fst lo)) (snd lo)) ls.
Definition check_case (c : case) : bool :=
  check_pairs (c_pairs c) && check_lines (c_lines c) && forallb check_step (c_steps c).
