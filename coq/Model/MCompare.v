(* Model/MCompare.v — executable model of kapture.algo.compare.equal_kapture and its helpers
   (property C08).  Definitions only (plus the two decidable-equality instances the definitions
   need); all proofs are in Proofs/PCompare.v.

   Modelled (after the repairs fixes/C08-*.patch):
   - equal_kapture walks the parts of a dataset; a part that is None on one side only makes the
     datasets differ, None on both sides is equal;
   - sensors, rigs, trajectories, the nine record kinds and observations are compared by
     flattening the nested dicts into rows, SORTING the rows by their key tuple and comparing the
     two row lists pairwise (same length, same keys, leaves related);
   - keypoints, descriptors, global_features and matches are collections {type: set}: the key
     sets are compared with equal_sets, then for every type of the first argument the descriptor
     fields are compared exactly and the members with equal_sets;
   - points3d: same shape, then element-wise closeness;
   - leaves: sensor (name with None ~ '', type, camera model + params by numeric closeness or raw
     params exactly), pose (pose_close), record fields / paths (exact), observation lists (as
     multisets: the flattened list is sorted).
   The leaf closeness relations are Section parameters.  Keys of a flattened row are tuples of
   atoms ordered like Python tuples (ints numerically, str by code point).
   NOT modelled: logging; TypeError of equal_nested_dict_or_set on a part of the wrong class
   (excluded by the typed setters of kapture.Kapture); NaN (reflexivity fails for NaN in the code). *)
From Coq Require Import List Bool String ZArith QArith Qabs Qreduction.
From KV Require Import Eqb AL Str.
Import ListNotations.
Local Open Scope string_scope.
Local Open Scope list_scope.

(* ---- atoms, keys *)
Inductive atom :=
| AZ (z : Z)          (* Python int *)
| AS (s : string)     (* Python str *)
| AF (s : string).    (* Python float compared with ==: token = float.hex(), -0.0 as 0.0 *)

Definition atom_eqb (a b : atom) : bool :=
  match a, b with
  | AZ x, AZ y => Z.eqb x y
  | AS x, AS y => String.eqb x y
  | AF x, AF y => String.eqb x y
  | _, _ => false
  end.
Lemma atom_eqb_spec a b : reflect (a = b) (atom_eqb a b).
Proof.
  destruct a, b; cbn; try (constructor; congruence).
  - destruct (Z.eqb_spec z z0); constructor; congruence.
  - destruct (String.eqb_spec s s0); constructor; congruence.
  - destruct (String.eqb_spec s s0); constructor; congruence.
Qed.
#[global] Instance EqDec_atom : EqDec atom := {| eqb := atom_eqb; eqb_spec := atom_eqb_spec |}.

Definition key := list atom.

(* Python's <= on tuples of int / str; across kinds (never compared by the code): int < str < float *)
Definition atom_rank (a : atom) : Z := match a with AZ _ => 0 | AS _ => 1 | AF _ => 2 end.
Definition atom_leb (a b : atom) : bool :=
  match a, b with
  | AZ x, AZ y => Z.leb x y
  | AS x, AS y => sleb x y
  | AF x, AF y => sleb x y
  | _, _ => Z.leb (atom_rank a) (atom_rank b)
  end.
Fixpoint key_leb (a b : key) : bool :=
  match a, b with
  | [], _ => true
  | _ :: _, [] => false
  | x :: a', y :: b' => if eqb x y then key_leb a' b' else atom_leb x y
  end.

(* sorted(...) *)
Section Sort.
  Context {A : Type}.
  Variable leb : A -> A -> bool.
  Fixpoint insert_sorted (x : A) (l : list A) : list A :=
    match l with
    | [] => [x]
    | y :: l' => if leb x y then x :: l else y :: insert_sorted x l'
    end.
  Definition isort (l : list A) : list A := fold_right insert_sorted [] l.
End Sort.

Fixpoint forall2b {A} (f : A -> A -> bool) (l m : list A) : bool :=
  match l, m with
  | [], [] => true
  | x :: l', y :: m' => f x y && forall2b f l' m'
  | _, _ => false
  end.

(* ---- leaves *)
Record sensor := {
  s_name : option string;       (* None or the name *)
  s_type : string;              (* sensor_type *)
  s_model : string;             (* camera_type name; "" when not a camera *)
  s_cparams : list Q;           (* camera_params as floats; [] when not a camera *)
  s_params : list string;       (* raw sensor_params (for a camera: model name followed by the parameter texts) *)
}.

Record pose := {
  p_r : option (Q * Q * Q * Q);    (* quaternion w x y z, None when absent *)
  p_t : option (Q * Q * Q);
}.

Inductive val :=
| VSensor (s : sensor)
| VPose (p : pose)
| VLeaf (fields : list atom)                       (* record path / record fields: compared with == *)
| VFeat (fields : list atom) (members : list key)  (* feature set: descriptor fields + set of images *)
| VSet (members : list key)                        (* matches of one type: set of pairs *)
| VBag (rows : list key).                          (* observations of one (point, type): list, order-free *)

Inductive part :=
| PMap (m : list (key * val))                      (* flattened nested dict, in iteration order *)
| PPts (cols : Z) (rows : list (list Q)).          (* Points3d: shape (len rows, cols) *)

Inductive part_id :=
| Sensors | Rigs | Trajectories
| RecordsCamera | RecordsDepth | RecordsLidar | RecordsWifi | RecordsBluetooth | RecordsGnss
| RecordsAccelerometer | RecordsGyroscope | RecordsMagnetic
| Keypoints | Descriptors | GlobalFeatures | Matches | Observations | Points3d.

Definition part_name (p : part_id) : string :=
  match p with
  | Sensors => "sensors" | Rigs => "rigs" | Trajectories => "trajectories"
  | RecordsCamera => "records_camera" | RecordsDepth => "records_depth" | RecordsLidar => "records_lidar"
  | RecordsWifi => "records_wifi" | RecordsBluetooth => "records_bluetooth" | RecordsGnss => "records_gnss"
  | RecordsAccelerometer => "records_accelerometer" | RecordsGyroscope => "records_gyroscope"
  | RecordsMagnetic => "records_magnetic"
  | Keypoints => "keypoints" | Descriptors => "descriptors" | GlobalFeatures => "global_features"
  | Matches => "matches" | Observations => "observations" | Points3d => "points3d"
  end.
Definition part_eqb (a b : part_id) : bool := String.eqb (part_name a) (part_name b).
Lemma part_eqb_spec a b : reflect (a = b) (part_eqb a b).
Proof. destruct a, b; cbn; constructor; congruence. Qed.
#[global] Instance EqDec_part_id : EqDec part_id := {| eqb := part_eqb; eqb_spec := part_eqb_spec |}.

(* a dataset: the parts that are not None *)
Definition dataset := list (part_id * part).
Definition get (p : part_id) (d : dataset) : option part := lookup p d.

(* the order of the walk in equal_kapture (after fixes/C08-compare-records-depth.patch) *)
Definition walk : list part_id :=
  [Sensors; Rigs; Trajectories;
   RecordsCamera; RecordsDepth; RecordsLidar; RecordsWifi; RecordsBluetooth; RecordsGnss;
   RecordsAccelerometer; RecordsGyroscope; RecordsMagnetic;
   Keypoints; Descriptors; GlobalFeatures; Matches; Observations; Points3d].
(* before the repair the loop over record kinds had no 'depth' *)
Definition walk_legacy : list part_id :=
  List.filter (fun p => negb (eqb p RecordsDepth)) walk.

(* collections {type: set} are compared through equal_sets *)
Definition uses_sets (p : part_id) : bool :=
  match p with Keypoints | Descriptors | GlobalFeatures | Matches => true | _ => false end.

(* ALL_CAMERA_SENSOR_TYPES *)
Definition camera_sensor_types : list string := ["camera"; "depth"].

(* equal_sets: repaired = symmetric difference empty; legacy = a.difference(b) empty *)
Definition subsetb (a b : list key) : bool := forallb (fun x => memb x b) a.
Definition set_equal (a b : list key) : bool := subsetb a b && subsetb b a.

Definition name_empty (n : option string) : bool :=
  match n with None => true | Some s => eqb s "" end.

Section Compare.
  Variable pose_close : pose -> pose -> bool.          (* equal_poses *)
  Variable num_close : Q -> Q -> bool.                 (* one element of the np.isclose-based test *)
  Variable seteq : list key -> list key -> bool.       (* equal_sets *)
  Variable the_walk : list part_id.

  Definition sensor_rel (a b : sensor) : bool :=
    ((name_empty (s_name a) && name_empty (s_name b)) || eqb (s_name a) (s_name b))
    && eqb (s_type a) (s_type b)
    && (if memb (s_type a) camera_sensor_types
        then eqb (s_model a) (s_model b) && forall2b num_close (s_cparams a) (s_cparams b)
        else eqb (s_params a) (s_params b)).

  Definition val_rel (v w : val) : bool :=
    match v, w with
    | VSensor a, VSensor b => sensor_rel a b
    | VPose p, VPose q => pose_close p q
    | VLeaf a, VLeaf b => eqb a b
    | VFeat f m, VFeat f' m' => eqb f f' && seteq m m'
    | VSet m, VSet m' => seteq m m'
    | VBag r, VBag r' => eqb (isort key_leb r) (isort key_leb r')
    | _, _ => false
    end.

  (* zip over the two sorted row lists: same length, same keys, related leaves *)
  Fixpoint zip_rel (a b : list (key * val)) : bool :=
    match a, b with
    | [], [] => true
    | (k, v) :: a', (k', v') :: b' => eqb k k' && val_rel v v' && zip_rel a' b'
    | _, _ => false
    end.
  Definition row_leb (x y : key * val) : bool := key_leb (fst x) (fst y).
  Definition flat_equal (m m' : list (key * val)) : bool :=
    zip_rel (isort row_leb m) (isort row_leb m').

  (* equal_*_collections: key sets, then every type of the FIRST argument *)
  Definition coll_equal (m m' : list (key * val)) : bool :=
    seteq (map fst m) (map fst m')
    && forallb (fun kv => match lookup (fst kv) m' with
                          | Some v' => val_rel (snd kv) v'
                          | None => false
                          end) m.

  Definition pts_equal (c : Z) (r : list (list Q)) (c' : Z) (r' : list (list Q)) : bool :=
    Z.eqb c c' && Nat.eqb (List.length r) (List.length r') && forall2b (forall2b num_close) r r'.

  Definition part_equal (p : part_id) (x y : part) : bool :=
    match x, y with
    | PMap m, PMap m' => if uses_sets p then coll_equal m m' else flat_equal m m'
    | PPts c r, PPts c' r' => pts_equal c r c' r'
    | _, _ => false
    end.

  Definition opt_equal {A} (f : A -> A -> bool) (x y : option A) : bool :=
    match x, y with
    | None, None => true
    | Some a, Some b => f a b
    | _, _ => false
    end.

  Definition equal_with (a b : dataset) : bool :=
    forallb (fun p => opt_equal (part_equal p) (get p a) (get p b)) the_walk.
End Compare.

(* ---- the closeness relations of the code, over the exact rationals the floats denote *)
(* np.isclose(a, b, rtol=1e-05, atol=1e-08):  |a - b| <= atol + rtol * |b|   (note: |b| only) *)
Definition rtol : Q := 1 # 100000.
Definition atol : Q := 1 # 100000000.
Definition np_isclose (a b : Q) : bool := Qle_bool (Qabs (a - b)) (atol + rtol * Qabs b).
(* repaired (fixes/C08-symmetric-isclose.patch): isclose(a, b) and isclose(b, a) *)
Definition isclose_sym (a b : Q) : bool := np_isclose a b && np_isclose b a.

(* equal_poses: same None pattern; translation distance and rotation distance both within 1e-5
   (math.isclose(d, 0, rel_tol=thr, abs_tol=thr)  <=>  d <= thr  for d >= 0).
   Over Q, for UNIT quaternions: the rotation distance 2*angle(qa, +-qb) <= thr is decided on the
   chord:  min(|qa-qb|, |qa+qb|) <= thr/2  (exact up to a relative 1e-12 at thr = 1e-5; the
   correspondence generator stays a factor 2 away from the threshold). *)
Definition pose_thr : Q := 1 # 100000.
(* Qred keeps the numbers small; it does not change the value (Qred q == q) *)
Definition sq (x : Q) : Q := Qred (x * x).
Definition rsub (a b : Q) : Q := Qred (a - b).
Definition radd (a b : Q) : Q := Qred (a + b).
Definition dist2_3 (a b : Q * Q * Q) : Q :=
  let '(x, y, z) := a in let '(x', y', z') := b in
  radd (radd (sq (rsub x x')) (sq (rsub y y'))) (sq (rsub z z')).
Definition dist2_4 (a b : Q * Q * Q * Q) : Q :=
  let '(w, x, y, z) := a in let '(w', x', y', z') := b in
  radd (radd (radd (sq (rsub w w')) (sq (rsub x x'))) (sq (rsub y y'))) (sq (rsub z z')).
Definition sum2_4 (a b : Q * Q * Q * Q) : Q :=
  let '(w, x, y, z) := a in let '(w', x', y', z') := b in
  radd (radd (radd (sq (radd w w')) (sq (radd x x'))) (sq (radd y y'))) (sq (radd z z')).
Definition trans_close (a b : Q * Q * Q) : bool := Qle_bool (dist2_3 a b) (sq pose_thr).
Definition rot_close (a b : Q * Q * Q * Q) : bool :=
  Qle_bool (dist2_4 a b) (sq (pose_thr / 2)) || Qle_bool (sum2_4 a b) (sq (pose_thr / 2)).
Definition pose_close_q (a b : pose) : bool :=
  match p_r a, p_r b with
  | None, None => true
  | Some ra, Some rb => rot_close ra rb
  | _, _ => false
  end &&
  match p_t a, p_t b with
  | None, None => true
  | Some ta, Some tb => trans_close ta tb
  | _, _ => false
  end.

(* the comparison of the tree under test (repaired), and the one before the repairs *)
Definition equal : dataset -> dataset -> bool := equal_with pose_close_q isclose_sym set_equal walk.
Definition equal_legacy : dataset -> dataset -> bool := equal_with pose_close_q np_isclose subsetb walk_legacy.

(* ---- the 18 helpers one by one: what equal_<part>(a.<part>, b.<part>) answers, in the order of the walk;
   equal_kapture is their conjunction (Proofs/PCompare.v: equal_is_conjunction) *)
Definition answer_with pc nc se (p : part_id) (a b : dataset) : bool :=
  opt_equal (part_equal pc nc se p) (get p a) (get p b).
Definition answer : part_id -> dataset -> dataset -> bool := answer_with pose_close_q isclose_sym set_equal.
Definition answers (a b : dataset) : list bool := map (fun p => answer p a b) walk.

(* ---- the error branch.  The ten helpers built on equal_nested_dict_or_set (the nine record kinds and
   observations) are given an expected class: BEFORE anything else (before the None tests, first argument first)
   an argument that is not None and not an instance of that class raises TypeError.  No part class derives from
   another one (Gen/Tcompare.instance_pairs, read from the code), so "instance of" is "same class".
   An argument of a helper is None or an object: its class (named by the part it is the class of) and its content.
   For the eight other helpers (sensors, rigs, trajectories, the four collections, points3d) a foreign class is
   NOT modelled (AssertionError / AttributeError by accident of the code): the model ignores the class there and
   the correspondence only passes the own class. *)
Inductive outcome := Ans (b : bool) | TypeErr | OtherErr.   (* OtherErr: observed only, the model never answers it *)
Definition outcome_eqb (x y : outcome) : bool :=
  match x, y with
  | Ans a, Ans b => Bool.eqb a b
  | TypeErr, TypeErr => true
  | OtherErr, OtherErr => true
  | _, _ => false
  end.
Definition typed_helper (h : part_id) : bool :=
  match h with
  | RecordsCamera | RecordsDepth | RecordsLidar | RecordsWifi | RecordsBluetooth | RecordsGnss
  | RecordsAccelerometer | RecordsGyroscope | RecordsMagnetic | Observations => true
  | _ => false
  end.
Definition obj := (part_id * part)%type.            (* class, content *)
Definition foreign (h : part_id) (x : option obj) : bool :=
  match x with Some (cls, _) => negb (eqb cls h) | None => false end.
Definition helper_call_with pc nc se (h : part_id) (x y : option obj) : outcome :=
  if typed_helper h && (foreign h x || foreign h y) then TypeErr
  else Ans (opt_equal (part_equal pc nc se h) (option_map snd x) (option_map snd y)).
Definition helper_call : part_id -> option obj -> option obj -> outcome :=
  helper_call_with pose_close_q isclose_sym set_equal.

(* equal_kapture as the code runs it: the helpers one after the other, the first answer that is not True is
   the outcome (a False before a foreign class hides the TypeError, a foreign class before a False hides it) *)
Definition tdataset := list (part_id * obj).        (* attribute -> object (class, content) *)
Definition untag (d : tdataset) : dataset := map (fun e => (fst e, snd (snd e))) d.
Fixpoint walk_outcome (w : list part_id) (a b : tdataset) : outcome :=
  match w with
  | [] => Ans true
  | p :: w' => match helper_call p (lookup p a) (lookup p b) with
               | Ans true => walk_outcome w' a b
               | r => r
               end
  end.
Definition equal_outcome : tdataset -> tdataset -> outcome := walk_outcome walk.
(* what the typed setters of kapture.Kapture guarantee (Gen/Tcompare.setter_rejects: observed on the code) *)
Definition own_class (d : tdataset) : Prop := forall p c x, lookup p d = Some (c, x) -> c = p.

(* ---- correspondence: two datasets given as a shared base plus per-side overrides, the two
   booleans equal_kapture(a, b), equal_kapture(b, a) observed on the real objects, the answers of the 18 helpers
   called one by one on the parts of the two objects (both orders), and direct helper calls with arguments taken
   from the two objects: (helper, attribute of a passed first or None, attribute of b passed second or None, outcome) *)
Record hcall := {
  h_fn : part_id;
  h_a : option part_id;
  h_b : option part_id;
  h_out : outcome;
}.
Fixpoint override (d : dataset) (ch : list (part_id * option part)) : dataset :=
  match ch with
  | [] => d
  | (p, Some x) :: ch' => override (insert p x d) ch'
  | (p, None) :: ch' => override (remove p d) ch'
  end.

Record case := {
  c_base : dataset;
  c_da : list (part_id * option part);
  c_db : list (part_id * option part);
  o_ab : bool;
  o_ba : bool;
  o_parts_ab : list bool;
  o_parts_ba : list bool;
  o_calls : list hcall;
}.

Definition arg_of (d : dataset) (cls : option part_id) : option obj :=
  match cls with
  | None => None
  | Some c => match get c d with Some x => Some (c, x) | None => None end
  end.
Definition check_call (a b : dataset) (h : hcall) : bool :=
  outcome_eqb (helper_call (h_fn h) (arg_of a (h_a h)) (arg_of b (h_b h))) (h_out h).

(* the model's 18 answers are computed once per order; equal a b is their conjunction (equal_is_conjunction) *)
Definition check_case (c : case) : bool :=
  let a := override (c_base c) (c_da c) in
  let b := override (c_base c) (c_db c) in
  let ab := answers a b in
  let ba := answers b a in
  eqb ab (o_parts_ab c) && eqb ba (o_parts_ba c)
  && Bool.eqb (forallb (fun x => x) ab) (o_ab c) && Bool.eqb (forallb (fun x => x) ba) (o_ba c)
  && forallb (check_call a b) (o_calls c).

(* a comparison HISTORY: the same two dataset objects compared several times, with mutations (through
   any method the containers offer) and cache-filling queries in between.  Each element is the content of
   both objects as read back at the moment of one comparison, with the two observed answers: the model's
   answer is a function of that content only. *)
Definition check_history (h : list case) : bool := forallb check_case h.
