(* Model/MDlUpgrade.v — property C20, downloader route: tools/kapture_download_dataset.py, Dataset.install -> Dataset.upgrade.
   An install directory holds any number of dataset directories; every install (and the `upgrade` command) ends with a
   pass over the WHOLE install directory as it is at that moment: every directory that holds sensors/sensors.txt with
   version 1.0 / no version line is upgraded in place with all type names defaulted and both metrics 'L2', the others
   are left alone.  A raise of the in-place upgrade is not caught by Dataset.upgrade: the pass stops there.
   Definitions only; proofs in Proofs/PDlUpgrade.v. *)
From Coq Require Import List Bool String ZArith.
From KV Require Import Eqb Str AL.
From KV.Gen Require Import Tupgrade.
From KV.Model Require Import MUpgrade.
Import ListNotations.
Local Open Scope string_scope.
Local Open Scope list_scope.

(* upgrade_1_0_to_1_1_inplace(kapture_path, None, None, None, 'L2', 'L2') *)
Definition dl_args : args := mkArgs None None None "L2" "L2".

(* the install directory: dataset directory (path below the install root) -> its tree, in the order of the walk *)
Definition root := list (string * tree).

(* `version is None or version == '1.0'` on the first line of <dir>/sensors/sensors.txt; a directory without that file
   is not found by the walk *)
Definition wants_upgrade (t : tree) : bool :=
  match lookup sensors_file (t_top t) with
  | Some (Txt segs) => version_ok_lenient (version_of_file segs)
  | _ => false
  end.

(* one pass of Dataset.upgrade over the install directory; true = the pass raised (at the first directory whose
   in-place upgrade raises: that one is left half-way, the ones after it are not reached) *)
Fixpoint upgrade_pass (r : root) : root * bool :=
  match r with
  | [] => ([], false)
  | (n, t) :: r' =>
    if wants_upgrade t then
      match upgrade_inplace dl_args t with
      | Done st => let (r'', b) := upgrade_pass r' in ((n, fst st) :: r'', b)
      | Failed _ st => ((n, fst st) :: r', true)
      end
    else let (r'', b) := upgrade_pass r' in ((n, t) :: r'', b)
  end.

(* what a user does with the tool: install one more dataset (deflate, then the pass), or run the `upgrade` command *)
Inductive step := Install (n : string) (t : tree) | Again.

Definition step_run (r : root) (s : step) : root * bool :=
  match s with
  | Install n t => upgrade_pass (r ++ [(n, t)])
  | Again => upgrade_pass r
  end.

(* a whole history; stops at the first step that raises *)
Fixpoint session (r : root) (ss : list step) : root * bool :=
  match ss with
  | [] => (r, false)
  | s :: ss' => let (r', b) := step_run r s in if b then (r', true) else session r' ss'
  end.

Definition installs (ss : list step) : root :=
  flat_map (fun s => match s with Install n t => [(n, t)] | Again => [] end) ss.

(* what a directory must have become, whatever was installed before or after it *)
Definition settled (t : tree) : tree :=
  if wants_upgrade t then
    match upgrade_inplace dl_args t with Done st => fst st | Failed _ st => fst st end
  else t.

(* --- a downloader that lists the dataset directories once and keeps the list (the list is not refreshed by later
       installs; used only to state what must NOT happen) *)
Fixpoint pass_listed (listed : list string) (r : root) : root * bool :=
  match r with
  | [] => ([], false)
  | (n, t) :: r' =>
    if memb n listed && wants_upgrade t then
      match upgrade_inplace dl_args t with
      | Done st => let (r'', b) := pass_listed listed r' in ((n, fst st) :: r'', b)
      | Failed _ st => ((n, fst st) :: r', true)
      end
    else let (r'', b) := pass_listed listed r' in ((n, t) :: r'', b)
  end.

Fixpoint session_listed (listed : option (list string)) (r : root) (ss : list step) : root * bool :=
  match ss with
  | [] => (r, false)
  | s :: ss' =>
    let r0 := match s with Install n t => r ++ [(n, t)] | Again => r end in
    let l := match listed with Some l => l | None => map fst r0 end in
    let (r', b) := pass_listed l r0 in
    if b then (r', true) else session_listed (Some l) r' ss'
  end.

(* ------------------------------------------------------------------ correspondence *)
Record step_obs := mkStepObs {
  so_step : step;
  so_raised : bool;                       (* Dataset.install / Dataset.upgrade raised *)
  so_root : list (string * tree)          (* every dataset directory installed so far, as it is after the step *)
}.

Record sess_case := mkSess {
  s_steps : list step_obs;
  s_views : list (string * option (option view))   (* kapture_from_dir on every dataset directory at the end
                                                      (None: not compared — the directory was no 1.0 dataset) *)
}.

Fixpoint root_eqv (x y : root) : bool :=
  match x, y with
  | [], [] => true
  | (n, t) :: x', (m, u) :: y' => eqb n m && tree_eqv t u && root_eqv x' y'
  | _, _ => false
  end.

(* after a raise the order of the walk (not modelled) decides which directories were reached:
   each one is as before the step, or as the pass leaves it *)
Fixpoint root_between (before : root) (obs : root) : bool :=
  match before, obs with
  | [], [] => true
  | (n, t) :: x', (m, u) :: y' => eqb n m && (tree_eqv t u || tree_eqv (settled t) u) && root_between x' y'
  | _, _ => false
  end.

Fixpoint check_steps (r : root) (l : list step_obs) : option root :=
  match l with
  | [] => Some r
  | o :: l' =>
    let r0 := match so_step o with Install n t => r ++ [(n, t)] | Again => r end in
    let (r', b) := upgrade_pass r0 in
    if b then (if so_raised o && root_between r0 (so_root o) then check_steps (so_root o) l' else None)
    else (if negb (so_raised o) && root_eqv r' (so_root o) then check_steps r' l' else None)
  end.

Fixpoint check_views (r : root) (vs : list (string * option (option view))) : bool :=
  match r, vs with
  | [], [] => true
  | (n, t) :: r', (m, v) :: vs' =>
    eqb n m && match v with Some ov => oview_eqv (load11 t) ov | None => true end && check_views r' vs'
  | _, _ => false
  end.

Definition check_session (c : sess_case) : bool :=
  match check_steps [] (s_steps c) with
  | Some r => check_views r (s_views c)
  | None => false
  end.

(* one correspondence case: a single directory through both routes (MUpgrade.case), or a downloader history *)
Inductive xcase := Single (c : case) | Session (c : sess_case).
Definition check_xcase (x : xcase) : bool :=
  match x with Single c => check_case c | Session c => check_session c end.
