(* Model/MDownload.v — executable model of the dataset installer (property C17):
     tools/kapture_download_dataset.py   Dataset.prob_status / download / install, InstallDir index
     kapture/converter/downloader/download.py   get_remote_file_size / download_file / download_file_resume
     kapture/converter/downloader/archives.py   compute_sha256sum (abstract), untar_file (abstract, logged)
   Definitions only; proofs are in Proofs/PDownload.v.

   The server is an ADVERSARY: a function from the history of requests made so far (most recent
   first) to a response.  Nothing at all is assumed about it.  The client is deterministic, so
   "every function of the request history" covers every adaptive server behaviour (truncation,
   corruption, ignoring Range, lying or silent about sizes, different content per attempt, exceptions
   at any point).  SHA-256 is a section variable [sha] with no contract.

   Local state: archive file content (if the file exists), set of names in the installed index,
   requests made, log of extraction / upgrade calls.  Exceptions are outcomes ([Raise]). *)
From Coq Require Import List Bool String Ascii ZArith NArith.
From KV Require Import Eqb Str.
Import ListNotations.
Local Open Scope string_scope.

Definition bytes := string.                 (* a file content / response body: Coq string of bytes *)
Definition blen (b : bytes) : Z := Z.of_nat (String.length b).

(* ---- what the client can ask, what the server can answer *)
Inductive request :=
| RProbe                      (* get_remote_file_size: GET with  Range: bytes=0-10 *)
| RGet (from : option Z)      (* download: GET, without Range header / with  Range: bytes=<from>- *)
| RBad.                       (* anything else (never produced by the model; lets the harness encode surprises) *)

Inductive probe_ans :=
| PErr                        (* Content-Range present with '/', but int() of the total raises ValueError *)
| PNone                       (* no Content-Range header, or no '/' in it: size unknown *)
| PSize (z : Z).              (* int(total) *)

Record response := mkResp {
  r_conn_err : bool;          (* requests.get raises *)
  r_probe : probe_ans;        (* how get_remote_file_size reads the headers of this response *)
  r_body : bytes;             (* what iter_content yields in total *)
  r_stream_err : bool         (* iter_content raises after yielding r_body *)
}.

Definition server := list request -> response.    (* argument: all requests so far, most recent first *)

Inductive event :=
| EExtract (b : bytes) (marked : bool)   (* untar_file called on an archive file holding b; was the name in the index then? *)
| EUpgrade (marked : bool).              (* the 1.0 -> 1.1 upgrade ran; was the name in the index then? *)

Inductive status := SInstalled | SNotInstalled | SIncomplete | SCorrupted | SDownloaded.
Inductive exn := XConn | XParse | XNoSize | XZeroDiv | XStream | XUntar | XInternal.

Record lstate := mkSt {
  archive : option bytes;     (* <install>/<name>.tar.gz *)
  index : list string;        (* kapture_dataset_installed.yaml, as a set *)
  reqs : list request;        (* most recent first *)
  log : list event            (* most recent first *)
}.

Inductive outcome (A : Type) :=
| Ret (a : A) (s : lstate)
| Raise (x : exn) (s : lstate).
Arguments Ret {A}. Arguments Raise {A}.

Definition bind {A B} (m : outcome A) (f : A -> lstate -> outcome B) : outcome B :=
  match m with Ret a s => f a s | Raise x s => Raise x s end.

Definition final {A} (m : outcome A) : lstate := match m with Ret _ s => s | Raise _ s => s end.

Definition set_archive (a : option bytes) (s : lstate) := mkSt a (index s) (reqs s) (log s).
Definition set_index (i : list string) (s : lstate) := mkSt (archive s) i (reqs s) (log s).
Definition add_event (e : event) (s : lstate) := mkSt (archive s) (index s) (reqs s) (e :: log s).

(* the installed index is a Python set *)
Definition idx_remove (n : string) (l : list string) : list string := List.filter (fun m => negb (eqb m n)) l.
Definition idx_add (n : string) (l : list string) : list string := if memb n l then l else (l ++ [n])%list.

Definition status_eqb (a b : status) : bool :=
  match a, b with
  | SInstalled, SInstalled | SNotInstalled, SNotInstalled | SIncomplete, SIncomplete
  | SCorrupted, SCorrupted | SDownloaded, SDownloaded => true
  | _, _ => false
  end.

Section Download.
  Variable sha : bytes -> string.        (* compute_sha256sum of a file with that content: hex digest. No contract. *)
  Variable srv : server.                 (* the adversary *)
  Variable name : string.                (* dataset name *)
  Variable expected : string.            (* sha256sum published in the dataset index *)
  Variable untar_fails : bytes -> bool.  (* does untar_file raise on that archive (local environment) *)

  Definition ask (q : request) (s : lstate) : response * lstate :=
    let rs := q :: reqs s in (srv rs, mkSt (archive s) (index s) rs (log s)).

  (* download.get_remote_file_size *)
  Definition remote_size (s : lstate) : outcome (option Z) :=
    let (r, s') := ask RProbe s in
    if r_conn_err r then Raise XConn s'
    else match r_probe r with
         | PErr => Raise XParse s'
         | PNone => Ret None s'
         | PSize z => Ret (Some z) s'
         end.

  Definition is_installed (s : lstate) : bool := memb name (index s).

  (* Dataset.prob_status(check_online=False) *)
  Definition prob_status (s : lstate) : outcome status :=
    if is_installed s then Ret SInstalled s
    else match archive s with
         | None => Ret SNotInstalled s
         | Some b =>
           bind (remote_size s) (fun online s =>
             match online with
             | None => Ret SCorrupted s
             | Some z =>
               if (z <? blen b)%Z then Ret SCorrupted s
               else if (blen b <? z)%Z then Ret SIncomplete s
               else if eqb (sha b) expected then Ret SDownloaded s
               else Ret SCorrupted s
             end)
         end.

  (* download.download_file_resume: a second size probe (for the progress bar only, but its exceptions
     propagate), then the GET; the body is appended when resuming, else replaces the file.  The file is
     opened only after requests.get returned, so a connection error leaves it untouched; an exception
     while streaming leaves what was written. *)
  Definition download_resume (pos : option Z) (s : lstate) : outcome unit :=
    bind (remote_size s) (fun _ s =>
      let (r, s') := ask (RGet pos) s in
      if r_conn_err r then Raise XConn s'
      else
        let content := match pos, archive s' with
                       | Some _, Some old => old ++ r_body r
                       | _, _ => r_body r
                       end in
        let s'' := set_archive (Some content) s' in
        if r_stream_err r then Raise XStream s'' else Ret tt s'').

  (* download.download_file.  The debug message divides local by online size (evaluated eagerly):
     online size 0 with a non-empty local file raises ZeroDivisionError.  A local size of 0 gives
     resume position 0, which the code treats as "no resume". *)
  Definition download_file (s : lstate) : outcome unit :=
    match archive s with
    | None => download_resume None s
    | Some b =>
      bind (remote_size s) (fun online s =>
        match online with
        | None => Raise XNoSize s
        | Some z =>
          if (z =? blen b)%Z then Ret tt s
          else if (z =? 0)%Z then Raise XZeroDiv s
          else download_resume (if (blen b =? 0)%Z then None else Some (blen b)) s
        end)
    end.

  (* the loop of Dataset.download: remove when corrupted, (re)start or resume, probe again *)
  Fixpoint attempts (n : nat) (st : status) (s : lstate) : outcome status :=
    match n with
    | O => Ret st s
    | S n' =>
      if status_eqb st SDownloaded then Ret st s
      else
        let s1 := if status_eqb st SCorrupted then set_archive None s else s in
        bind (download_file s1) (fun _ s2 =>
        bind (prob_status s2) (fun st' s3 => attempts n' st' s3))
    end.

  (* Dataset.download(previous_status=st); force_overwrite is never passed by install *)
  Definition download (n : nat) (st : status) (s : lstate) : outcome status :=
    if status_eqb st SDownloaded then Ret st s else attempts n st s.

  (* Dataset.install(force_overwrite, no_cleaning) with nb_attempt = n (the code uses 2);
     install_script_filename = None *)
  Definition install_n (n : nat) (force no_cleaning : bool) (s0 : lstate) : outcome status :=
    let s := if force then set_index (idx_remove name (index s0)) s0 else s0 in
    bind (prob_status s) (fun st s =>
      if status_eqb st SInstalled then Ret SInstalled s
      else
        bind (download n st s) (fun st s =>
          if negb (status_eqb st SDownloaded) then Ret st s
          else match archive s with
               | None => Raise XInternal s              (* proved unreachable *)
               | Some b =>
                 let s := add_event (EExtract b (is_installed s)) s in
                 if untar_fails b then Raise XUntar s
                 else
                   let s := if no_cleaning then s else set_archive None s in
                   let s := set_index (idx_add name (index s)) s in          (* mark_as_installed() *)
                   let s := add_event (EUpgrade (is_installed s)) s in       (* self.upgrade() *)
                   prob_status s
               end)).

  Definition install := install_n 2.

  (* the `download` command: Dataset.download(force_overwrite=force) called on its own (no previous status).
     With force an existing archive file is deleted first and the status probed again.  Note that on a
     dataset that is marked installed the loop downloads the archive anyway (status stays "installed");
     nothing is ever extracted or marked by this command. *)
  Definition download_cmd (n : nat) (force : bool) (s : lstate) : outcome status :=
    bind (prob_status s) (fun st s =>
      bind (match archive s with
            | Some _ => if force then prob_status (set_archive None s) else Ret st s
            | None => Ret st s
            end) (fun st s => download n st s)).

  (* ---- a variant with the weaker gate  `if status == 'corrupted'` (a typical regression); used only
     to show that the property theorem is able to fail *)
  Definition install_weak_gate (s0 : lstate) : outcome status :=
    bind (prob_status s0) (fun st s =>
      if status_eqb st SInstalled then Ret SInstalled s
      else
        bind (download 2 st s) (fun st s =>
          if status_eqb st SCorrupted then Ret st s
          else match archive s with
               | None => Raise XInternal s
               | Some b =>
                 let s := add_event (EExtract b (is_installed s)) s in
                 let s := set_index (idx_add name (index s)) (set_archive None s) in
                 prob_status (add_event (EUpgrade (is_installed s)) s)
               end)).
End Download.

(* ---- a history: any number of `install` / `download` calls one after the other on the same install
   directory, each with its own server behaviour, untar behaviour, attempt count and flags.  Only the
   archive file and the installed index persist from one call to the next. *)
Inductive call_kind := KInstall | KDownload | KList.   (* KList: `list` = Dataset.prob_status() on its own *)
Record call := mkCall { k_kind : call_kind; k_srv : server; k_untar : bytes -> bool; k_attempts : nat;
                        k_force : bool; k_noclean : bool }.

Definition run_call (sha : bytes -> string) (name expected : string) (c : call) (s : lstate) : outcome status :=
  match k_kind c with
  | KInstall => install_n sha (k_srv c) name expected (k_untar c) (k_attempts c) (k_force c) (k_noclean c) s
  | KDownload => download_cmd sha (k_srv c) name expected (k_attempts c) (k_force c) s
  | KList => prob_status sha (k_srv c) name expected s
  end.

Fixpoint run_calls (sha : bytes -> string) (name expected : string) (cs : list call) (s : lstate) : lstate :=
  match cs with
  | [] => s
  | c :: cs' => run_calls sha name expected cs' (final (run_call sha name expected c s))
  end.

(* ---- a history during which the dataset index is RE-PUBLISHED (the `update` command, or anything else that
   rewrites kapture_dataset_index.yaml): every call comes with the checksum the index file publishes at the moment
   of that call.  InstallDir.load_datasets_from_file reads the file on every call, so nothing but the archive file
   and the installed index is carried over — in particular no checksum of an earlier publication. *)
Fixpoint run_pub (sha : bytes -> string) (name : string) (cs : list (string * call)) (s : lstate) : lstate :=
  match cs with
  | [] => s
  | (e, c) :: cs' => run_pub sha name cs' (final (run_call sha name e c s))
  end.

(* a typical regression: the parsed index is cached in the InstallDir object, every later call of the session
   verifies against the checksum of the FIRST publication.  Used only to show that the theorem is able to fail. *)
Definition run_pub_cached (sha : bytes -> string) (name : string) (cs : list (string * call)) (s : lstate) : lstate :=
  match cs with
  | [] => s
  | (e, _) :: _ => run_calls sha name e (List.map snd cs) s
  end.

(* ---- an honest server for an archive [good]: tells the true size, honours Range *)
Fixpoint sskip (n : nat) (s : string) : string :=
  match n, s with
  | O, _ => s
  | S n', String _ s' => sskip n' s'
  | S _, EmptyString => EmptyString
  end.

Definition honest (good : bytes) : server := fun rs =>
  mkResp false (PSize (blen good))
         (match rs with
          | RGet (Some p) :: _ => sskip (Z.to_nat p) good
          | _ => good
          end) false.

(* ---- correspondence *)
(* non-printable byte strings are written in hexadecimal in the generated shards *)
Definition hexval (c : Ascii.ascii) : N :=
  let n := Ascii.N_of_ascii c in
  if (n <? 58)%N then (n - 48)%N else (n - 87)%N.        (* '0'..'9', 'a'..'f' *)
Fixpoint unhex (s : string) : string :=
  match s with
  | String a (String b s') => String (Ascii.ascii_of_N (hexval a * 16 + hexval b)) (unhex s')
  | _ => EmptyString
  end.

Definition status_str (st : status) : string :=
  match st with
  | SInstalled => "installed" | SNotInstalled => "not installed" | SIncomplete => "incomplete"
  | SCorrupted => "corrupted" | SDownloaded => "downloaded"
  end.

(* the fake server of the harness answered the i-th request with the i-th element; past the end of the
   script it refuses the connection *)
Definition refused : response := mkResp true PNone "" false.
Definition srv_of_script (sc : list response) : server :=
  fun rs => nth (List.length rs - 1) sc refused.

(* sha256 as a finite table computed by the harness with hashlib (not with kapture's code) *)
Definition sha_of_table (t : list (bytes * string)) : bytes -> string :=
  fun b => match List.find (fun p => eqb (fst p) b) t with Some p => snd p | None => "" end.

Definition request_eqb (a b : request) : bool :=
  match a, b with
  | RProbe, RProbe => true
  | RGet x, RGet y => eqb x y
  | _, _ => false
  end.
Definition event_eqb (a b : event) : bool :=
  match a, b with
  | EExtract x m, EExtract y k => eqb x y && eqb m k
  | EUpgrade m, EUpgrade k => eqb m k
  | _, _ => false
  end.
Fixpoint all2 {A} (f : A -> A -> bool) (l m : list A) : bool :=
  match l, m with
  | [], [] => true
  | x :: l', y :: m' => f x y && all2 f l' m'
  | _, _ => false
  end.

Inductive obs_outcome :=
| OStatus (s : string)     (* Dataset.install returned this status string *)
| OReturned                (* the install command returned (status not observable at that level) *)
| ORaised.                 (* an exception escaped *)

(* one call of a history and what the implementation was observed to do in it *)
Record step := {
  t_expected : string;              (* sha256sum the index file publishes when this call is made *)
  t_kind : call_kind; t_force : bool; t_noclean : bool; t_untar_fails : bool;
  t_script : list response;         (* the concrete responses the fake server gave during this call *)
  o_outcome : obs_outcome;
  o_archive : option bytes;         (* archive file after the call *)
  o_index : list string;            (* installed index after the call, sorted *)
  o_requests : list request;        (* requests the implementation made during the call, in order *)
  o_log : list event                (* extraction / upgrade calls during the call, in order *)
}.

(* a case = a prior local state and a history of calls on the same install directory *)
Record case := {
  c_name : string; c_sha : list (bytes * string);
  c_archive : option bytes; c_index : list string;
  c_steps : list step
}.

Definition check_step (sha : bytes -> string) (name : string) (a : option bytes) (idx : list string)
           (t : step) : bool * lstate :=
  let expected := t_expected t in
  let s0 := mkSt a idx [] [] in
  let c := mkCall (t_kind t) (srv_of_script (t_script t)) (fun _ => t_untar_fails t) 2 (t_force t) (t_noclean t) in
  let r := run_call sha name expected c s0 in
  let sf := final r in
  (match r, o_outcome t with
   | Ret st _, OStatus s => eqb (status_str st) s
   | Ret _ _, OReturned => true
   | Raise _ _, ORaised => true
   | _, _ => false
   end
   && eqb (archive sf) (o_archive t)
   && eqb (ssort (dedup (index sf))) (o_index t)
   && all2 request_eqb (rev (reqs sf)) (o_requests t)
   && all2 event_eqb (rev (log sf)) (o_log t), sf).

(* the model is iterated over the history: what it carries from one call to the next is its own archive
   content and index, nothing else — a file the implementation leaves behind, or anything an InstallDir object
   that lives across calls remembers (e.g. an earlier publication of the index), that changes a later call's
   behaviour shows up as a mismatch in that later step *)
Fixpoint check_steps (sha : bytes -> string) (name : string) (a : option bytes) (idx : list string)
         (ts : list step) : bool :=
  match ts with
  | [] => true
  | t :: ts' =>
    let (ok, sf) := check_step sha name a idx t in
    ok && check_steps sha name (archive sf) (index sf) ts'
  end.

Definition check_case (c : case) : bool :=
  check_steps (sha_of_table (c_sha c)) (c_name c) (c_archive c) (c_index c) (c_steps c).

(* the model run of a case IS a re-published history in the sense of [run_pub] (see PDownload.check_steps_run_pub) *)
Definition call_of_step (t : step) : string * call :=
  (t_expected t, mkCall (t_kind t) (srv_of_script (t_script t)) (fun _ => t_untar_fails t) 2 (t_force t) (t_noclean t)).
