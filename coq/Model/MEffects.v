(* Model/MEffects.v — effect-annotated model of the load path (kapture.io.csv.kapture_from_dir) and of the
   in-place 1.0 -> 1.1 upgrade (kapture.utils.upgrade.upgrade_1_0_to_1_1_inplace)   (property C16).
   Definitions only; proofs are in Proofs/PEffects.v.

   What is modelled
   - the CONTROL SKELETON of both paths: which file is opened when (existence gates, version gate, the
     "records_camera is not None" style assertions, first error aborts), which rows reach which converter
     (arity checks, device-id filters, the keypoints filter of observations), and every path that is opened,
     written, renamed or removed, as a list of path components relative to the dataset root;
   - the element-type field of keypoints.txt / descriptors.txt / global_features.txt (and of the 1.0 files
     during the upgrade): [parse_dtype], a whitelist lookup, and the feature-type name taken from a 1.0 file
     by the upgrade: [safe_name];
   - the behaviour before the repair ([load_legacy_e], [upgrade_legacy_e]): the element type is evaluated
     (effect [Eval]) and the name is used as a folder name unchecked.
   What is abstract: the leaf converters (int(), float(), create_sensor, PoseTransform, the Record*
   constructors, numpy.loadtxt, the lexer and the version regular expression) are FUNCTIONS given in a
   record [leaves] (resp. already applied: a file is given as its version class and its rows of fields).
   Being Gallina functions they can only compute; that they are pure in the implementation too is checked
   by the harness on every case (each leaf is called directly under the audit hook). *)
From Coq Require Import List Bool String Ascii Arith.
From KV Require Import Eqb Str AL.
Import ListNotations.
Local Open Scope string_scope.
Local Open Scope list_scope.

(* ------------------------------------------------------------------------------------------------ effects *)
Definition path := list string.          (* components below the dataset root; ".." first = outside *)

Inductive effect :=
| Read (p : path) | Write (p : path) | Delete (p : path)
| Spawn | Import | Eval | Net.

Definition effect_eqb (a b : effect) : bool :=
  match a, b with
  | Read p, Read q | Write p, Write q | Delete p, Delete q => eqb p q
  | Spawn, Spawn | Import, Import | Eval, Eval | Net, Net => true
  | _, _ => false
  end.
Fixpoint eff_memb (e : effect) (l : list effect) : bool :=
  match l with [] => false | x :: l' => effect_eqb e x || eff_memb e l' end.
Fixpoint eff_list_eqb (l m : list effect) : bool :=
  match l, m with
  | [], [] => true
  | x :: l', y :: m' => effect_eqb x y && eff_list_eqb l' m'
  | _, _ => false
  end.
Definition eff_set_eqb (l m : list effect) : bool :=
  forallb (fun e => eff_memb e m) l && forallb (fun e => eff_memb e l) m.

(* a name that can only denote an entry of the folder it is joined to *)
Fixpoint has_char (c : ascii) (s : string) : bool :=
  match s with EmptyString => false | String d s' => Ascii.eqb c d || has_char c s' end.
Definition safe_name (n : string) : bool :=
  negb (eqb n "") && negb (eqb n ".") && negb (eqb n "..")
  && negb (has_char "/"%char n) && negb (has_char "\"%char n) && negb (has_char "000"%char n).
Definition inside (p : path) : bool :=
  match p with [] => false | _ => forallb safe_name p end.

Definition is_access (e : effect) : bool :=
  match e with Read _ | Write _ | Delete _ => true | _ => false end.
Definition effect_inside (e : effect) : bool :=
  match e with Read p | Write p | Delete p => inside p | _ => false end.
Definition is_read_inside (e : effect) : bool :=
  match e with Read p => inside p | _ => false end.

(* ------------------------------------------------------------------------------------- element types *)
Inductive dtype := F16 | F32 | F64 | I8 | I16 | I32 | I64 | U8 | U16 | U32 | U64 | PyFloat | PyInt.
Definition all_dtypes := [F16; F32; F64; I8; I16; I32; I64; U8; U16; U32; U64; PyFloat; PyInt].

(* what the writers put in the file: str(numpy.dtype) / type.__name__ *)
Definition show_dtype (d : dtype) : string :=
  match d with
  | F16 => "float16" | F32 => "float32" | F64 => "float64"
  | I8 => "int8" | I16 => "int16" | I32 => "int32" | I64 => "int64"
  | U8 => "uint8" | U16 => "uint16" | U32 => "uint32" | U64 => "uint64"
  | PyFloat => "float" | PyInt => "int"
  end.

Fixpoint drop (n : nat) (s : string) : string :=
  match n, s with
  | O, _ => s
  | S n', String _ s' => drop n' s'
  | S _, EmptyString => EmptyString
  end.
(* for prefix in ('numpy.', 'np.'): if name.startswith(prefix): name = name[len(prefix):]; break *)
Definition strip_prefix (s : string) : string :=
  if prefixb "numpy." s then drop 6 s else if prefixb "np." s then drop 3 s else s.
Fixpoint lookup_dtype (s : string) (l : list dtype) : option dtype :=
  match l with
  | [] => None
  | d :: l' => if eqb s (show_dtype d) then Some d else lookup_dtype s l'
  end.
Definition parse_dtype (s : string) : option dtype := lookup_dtype (strip_prefix s) all_dtypes.

(* ------------------------------------------------------------------------------- files, trees, leaves *)
Definition table := list (list string).
(* class of the first line of a file w.r.t. the version regular expression and the current version *)
Inductive vclass := VNone | VNewer | VCur | V10 | VOld.
Record file := { f_ver : vclass; f_rows : table }.

Record tree := {
  t_files : list (path * file);          (* the text files present, lexed *)
  t_dirs : list (path * list string);    (* the feature folders present, entries in listing order *)
  t_p3d_ok : bool;                       (* numpy.loadtxt based reader accepts reconstruction/points3d.txt *)
  t_kpt : list (string * string);        (* (keypoints type, image) whose keypoints file exists *)
  t_moves : list (path * list path);     (* upgrade: feature files below each 1.0 feature folder *)
  t_json : list path;                    (* upgrade: the json side files present *)
}.

Record leaves := {
  is_int : string -> bool;                     (* int(s) succeeds *)
  is_float : string -> bool;                   (* float(s) succeeds *)
  sensor_ok : list string -> bool;             (* create_sensor(type, params, name) succeeds; argument = name :: type :: params *)
  pose_ok : list string -> bool;               (* PoseTransform(float_array_or_none(4), float_array_or_none(3)) succeeds *)
  rec_ok : string -> list string -> bool;      (* the record constructor of that kind accepts these fields *)
}.

Inductive err :=
| EMissingSensors            (* assert path.isfile(sensors.txt) *)
| EVersion (p : path)        (* no / newer / unexpected version line *)
| EBadRow (p : path)         (* arity or a leaf converter refused a field *)
| EBadDtype (p : path) (field : string)   (* element type not in the whitelist *)
| EBadName (p : path) (field : string)    (* upgrade: name not usable as feature type *)
| EAssert (what : string).   (* a part that is required by another is missing *)
Inductive outcome := Value | Error (e : err).
Definition is_error (o : outcome) : bool := match o with Value => false | Error _ => true end.

Fixpoint find_file (fs : list (path * file)) (p : path) : option file :=
  match fs with
  | [] => None
  | (q, f) :: fs' => if eqb p q then Some f else find_file fs' p
  end.
Fixpoint find_dir {A} (ds : list (path * A)) (p : path) : option A :=
  match ds with
  | [] => None
  | (q, l) :: ds' => if eqb p q then Some l else find_dir ds' p
  end.

Definition nth_s (n : nat) (r : list string) : string := nth n r "".

(* fixed names *)
Definition p_sensors : path := ["sensors"; "sensors.txt"].
Definition p_rigs : path := ["sensors"; "rigs.txt"].
Definition p_traj : path := ["sensors"; "trajectories.txt"].
Definition p_rec (k : string) : path := ["sensors"; String.append "records_" (String.append k ".txt")].
Definition p_p3d : path := ["reconstruction"; "points3d.txt"].
Definition p_obs : path := ["reconstruction"; "observations.txt"].
Definition d_feat (k : string) : path := ["reconstruction"; k].
Definition cfg_name (k : string) : string := String.append k ".txt".
Definition p_cfg (k name : string) : path := d_feat k ++ [name; cfg_name k].
Definition ncols (k : string) : nat :=
  if eqb k "keypoints" then 3 else if eqb k "descriptors" then 5 else 4.

(* ---------------------------------------------------------------------------------------------- load *)
Record ctx := {
  c_ver : vclass;
  c_sensors : list (string * string);    (* sensor id -> sensor type (dict: a later row overwrites) *)
  c_devs : list string;                  (* sensor ids, then rig ids *)
  c_cam : bool;                          (* records_camera is not None *)
  c_images : list string;                (* image paths of the camera records that were kept *)
  c_kp : option (list (string * list string));   (* keypoints part: type -> images that have a keypoints file *)
  c_p3d : bool;                          (* points3d is not None *)
}.
Definition ctx0 := {| c_ver := VNone; c_sensors := []; c_devs := []; c_cam := false; c_images := [];
                      c_kp := None; c_p3d := false |}.

Inductive res := Ok (c : ctx) | Fail (e : err).
(* what a stage does: nothing, stop before opening anything, or open its file and then continue / stop *)
Inductive sres := Skip | Abort (e : err) | Opened (r : res).
(* [st_kind = Some kind] marks the stages that read a descriptor file with an element-type field *)
Record stage := { st_path : path; st_kind : option string; st_run : tree -> ctx -> sres }.

Fixpoint run (stages : list stage) (t : tree) (c : ctx) : outcome * list effect :=
  match stages with
  | [] => (Value, [])
  | s :: rest =>
      match st_run s t c with
      | Skip => run rest t c
      | Abort e => (Error e, [])
      | Opened (Fail e) => (Error e, [Read (st_path s)])
      | Opened (Ok c') => let '(o, es) := run rest t c' in (o, Read (st_path s) :: es)
      end
  end.

Section Load.
  Variable L : leaves.

  Definition ids_of_type (c : ctx) (ty : string) : list string :=
    map fst (List.filter (fun e => eqb (snd e) ty) (c_sensors c)).

  (* --- sensors.txt (always first; its version line gates everything) *)
  Definition sensor_row_ok (r : list string) : bool := (Nat.leb 3 (List.length r)) && sensor_ok L (tl r).
  Definition add_sensor (m : list (string * string)) (r : list string) : list (string * string) :=
    AL.insert (nth_s 0 r) (nth_s 2 r) m.
  Definition st_sensors : stage := {| st_path := p_sensors; st_kind := None; st_run := fun t c =>
    match find_file (t_files t) p_sensors with
    | None => Abort EMissingSensors
    | Some f =>
        match f_ver f with
        | VNone | VNewer => Opened (Fail (EVersion p_sensors))
        | v =>
            if forallb sensor_row_ok (f_rows f) then
              let m := fold_left add_sensor (f_rows f) [] in
              Opened (Ok {| c_ver := v; c_sensors := m; c_devs := map fst m; c_cam := false; c_images := [];
                            c_kp := None; c_p3d := false |})
            else Opened (Fail (EBadRow p_sensors))
        end
    end |}.

  Definition with_devs (c : ctx) (d : list string) : ctx :=
    {| c_ver := c_ver c; c_sensors := c_sensors c; c_devs := d; c_cam := c_cam c; c_images := c_images c;
       c_kp := c_kp c; c_p3d := c_p3d c |}.
  Definition with_cam (c : ctx) (ims : list string) : ctx :=
    {| c_ver := c_ver c; c_sensors := c_sensors c; c_devs := c_devs c; c_cam := true; c_images := ims;
       c_kp := c_kp c; c_p3d := c_p3d c |}.
  Definition with_kp (c : ctx) (k : list (string * list string)) : ctx :=
    {| c_ver := c_ver c; c_sensors := c_sensors c; c_devs := c_devs c; c_cam := c_cam c; c_images := c_images c;
       c_kp := Some k; c_p3d := c_p3d c |}.
  Definition with_p3d (c : ctx) : ctx :=
    {| c_ver := c_ver c; c_sensors := c_sensors c; c_devs := c_devs c; c_cam := c_cam c; c_images := c_images c;
       c_kp := c_kp c; c_p3d := true |}.

  (* a stage that reads one optional csv file with a per-row validity and a context update *)
  Definition csv_stage (p : path) (gate : ctx -> bool) (row_ok : ctx -> list string -> bool)
             (upd : ctx -> table -> ctx) : stage :=
    {| st_path := p; st_kind := None; st_run := fun t c =>
       match find_file (t_files t) p with
       | None => Skip
       | Some f => if gate c then
                     if forallb (row_ok c) (f_rows f) then Opened (Ok (upd c (f_rows f))) else Opened (Fail (EBadRow p))
                   else Skip
       end |}.
  Definition always (c : ctx) := true.
  Definition keep (c : ctx) (_ : table) := c.

  (* --- rigs.txt: exactly 9 fields, the rig id must not be a sensor id, the pose must build *)
  Definition rig_row_ok (c : ctx) (r : list string) : bool :=
    (Nat.eqb (List.length r) (9)) && negb (memb (nth_s 0 r) (map fst (c_sensors c))) && pose_ok L (skipn 2 r).
  Definition st_rigs := csv_stage p_rigs always rig_row_ok
    (fun c rows => with_devs c (c_devs c ++ map (nth_s 0) rows)).

  (* --- trajectories.txt: rows of unknown devices are skipped before any conversion *)
  Definition all_nonempty (l : list string) : bool := forallb (fun s => negb (eqb s "")) l.
  Definition floats_if_given (l : list string) : bool :=
    if all_nonempty l then forallb (is_float L) l else true.
  Definition traj_row_ok (c : ctx) (r : list string) : bool :=
    (Nat.eqb (List.length r) (9)) &&
    (if memb (nth_s 1 r) (c_devs c)
     then floats_if_given (firstn 4 (skipn 2 r)) && floats_if_given (skipn 6 r) && is_int L (nth_s 0 r)
     else true).
  Definition st_traj := csv_stage p_traj always traj_row_ok keep.

  (* --- records_camera / depth / lidar: timestamp, device, path *)
  Definition recpath_row_ok (ty : string) (c : ctx) (r : list string) : bool :=
    (Nat.eqb (List.length r) (3)) && (if memb (nth_s 1 r) (ids_of_type c ty) then is_int L (nth_s 0 r) else true).
  Definition kept_images (c : ctx) (rows : table) : list string :=
    map (nth_s 2) (List.filter (fun r => memb (nth_s 1 r) (ids_of_type c "camera")) rows).
  Definition st_camera := csv_stage (p_rec "camera") always (recpath_row_ok "camera")
    (fun c rows => with_cam c (kept_images c rows)).
  Definition st_depth := csv_stage (p_rec "depth") always (recpath_row_ok "depth") keep.
  Definition st_lidar := csv_stage (p_rec "lidar") always (recpath_row_ok "lidar") keep.

  (* --- wifi / bluetooth: the timestamp is converted BEFORE the device filter *)
  Definition sig_row_ok (ty : string) (n skip : nat) (c : ctx) (r : list string) : bool :=
    (Nat.eqb (List.length r) (n)) && is_int L (nth_s 0 r) &&
    (if memb (nth_s 1 r) (ids_of_type c ty) then rec_ok L ty (skipn skip r) else true).
  Definition st_wifi := csv_stage (p_rec "wifi") always (sig_row_ok "wifi" 8 3) keep.
  Definition st_bt := csv_stage (p_rec "bluetooth") always (sig_row_ok "bluetooth" 5 3) keep.

  (* --- gnss / accelerometer / gyroscope / magnetic: timestamp, device, data*.
         (records_gnss.txt is read like the others, also when no gnss sensor is declared: its rows are then
          all filtered out, after the timestamp conversion) *)
  Definition gen_row_ok (ty : string) (c : ctx) (r : list string) : bool :=
    (Nat.leb 2 (List.length r)) && is_int L (nth_s 0 r) &&
    (if memb (nth_s 1 r) (ids_of_type c ty) then rec_ok L ty (skipn 2 r) else true).
  Definition st_gnss := csv_stage (p_rec "gnss") always (gen_row_ok "gnss") keep.
  Definition st_generic (ty : string) := csv_stage (p_rec ty) always (gen_row_ok ty) keep.

  (* --- reconstruction, only when the version line says "current" *)
  Definition is_cur (c : ctx) : bool := match c_ver c with VCur => true | _ => false end.

  (* `assert kapture_data.records_camera is not None` in front of each feature folder that exists *)
  Definition st_guard (k : string) : stage := {| st_path := d_feat k; st_kind := None; st_run := fun t c =>
    if is_cur c then
      match find_dir (t_dirs t) (d_feat k) with
      | Some _ => if c_cam c then Skip else Abort (EAssert "records_camera")
      | None => Skip
      end
    else Skip |}.

  (* one descriptor file  reconstruction/<kind>/<name>/<kind>.txt : first row only *)
  Definition cfg_check (k : string) (p : path) (rows : table) : option err :=
    match rows with
    | [] => Some (EBadRow p)
    | r :: _ =>
        if (Nat.eqb (List.length r) (ncols k)) && is_int L (nth_s 2 r) then
          match parse_dtype (nth_s 1 r) with
          | Some _ => None
          | None => Some (EBadDtype p (nth_s 1 r))
          end
        else Some (EBadRow p)
    end.
  Definition kp_images (t : tree) (c : ctx) (name : string) : list string :=
    List.filter (fun im => memb (name, im) (t_kpt t)) (c_images c).
  Definition st_cfg (k name : string) : stage := {| st_path := p_cfg k name; st_kind := Some k; st_run := fun t c =>
    if is_cur c then
      match find_file (t_files t) (p_cfg k name) with
      | None => Skip
      | Some f =>
          match cfg_check k (p_cfg k name) (f_rows f) with
          | Some e => Opened (Fail e)
          | None =>
              if eqb k "keypoints"
              then Opened (Ok (with_kp c (match c_kp c with Some m => m | None => [] end ++ [(name, kp_images t c name)])))
              else Opened (Ok c)
          end
      end
    else Skip |}.

  Definition st_p3d : stage := {| st_path := p_p3d; st_kind := None; st_run := fun t c =>
    if is_cur c then
      match find_file (t_files t) p_p3d with
      | None => Skip
      | Some _ => if t_p3d_ok t then Opened (Ok (with_p3d c)) else Opened (Fail (EBadRow p_p3d))
      end
    else Skip |}.

  (* observations: point3d_id, keypoints_type, [image_path, feature_id]*  ; rows of keypoints types that are
     not loaded (or have no image) are skipped before any conversion; so are images without keypoints *)
  Fixpoint pairs_ok (ims : list string) (l : list string) : bool :=
    match l with
    | im :: kid :: l' => (if memb im ims then is_int L kid else true) && pairs_ok ims l'
    | _ => true
    end.
  Definition obs_row_ok (kp : list (string * list string)) (r : list string) : bool :=
    (Nat.leb 2 (List.length r)) &&
    match AL.lookup (nth_s 1 r) kp with
    | None | Some [] => true
    | Some ims => is_int L (nth_s 0 r) && (if Nat.ltb 1 (List.length (skipn 2 r)) then pairs_ok ims (skipn 2 r) else true)
    end.
  Definition st_obs : stage := {| st_path := p_obs; st_kind := None; st_run := fun t c =>
    if is_cur c then
      match find_file (t_files t) p_obs with
      | None => Skip
      | Some f =>
          match c_kp c with
          | None => Abort (EAssert "keypoints")
          | Some kp =>
              if c_p3d c then
                if forallb (obs_row_ok kp) (f_rows f) then Opened (Ok c) else Opened (Fail (EBadRow p_obs))
              else Abort (EAssert "points3d")
          end
      end
    else Skip |}.

  (* the stages, in the order of the code.  Which descriptor files exist is decided by the SHAPE of the
     directory (entries of the feature folder that contain a descriptor file), never by file contents. *)
  Definition feat_stages (t : tree) (k : string) : list stage :=
    st_guard k ::
    match find_dir (t_dirs t) (d_feat k) with
    | None => []
    | Some names => map (st_cfg k) (List.filter (fun n => match find_file (t_files t) (p_cfg k n) with
                                                           Some _ => true | None => false end) names)
    end.
  Definition stages_of (t : tree) : list stage :=
    [st_sensors; st_rigs; st_traj; st_camera; st_depth; st_lidar; st_wifi; st_bt; st_gnss;
     st_generic "accelerometer"; st_generic "gyroscope"; st_generic "magnetic"]
    ++ feat_stages t "keypoints" ++ feat_stages t "descriptors" ++ feat_stages t "global_features"
    ++ [st_guard "matches"; st_p3d; st_obs].

  Definition load_e (t : tree) : outcome * list effect := run (stages_of t) t ctx0.

  (* ---- before the repair: the element type went through eval(): whatever the field contains is executed.
          (What the evaluated text then does is arbitrary; the model only records that evaluation happens.) *)
  Fixpoint run_legacy (stages : list stage) (t : tree) (c : ctx) : outcome * list effect :=
    match stages with
    | [] => (Value, [])
    | s :: rest =>
        let evals :=
          match st_kind s, find_file (t_files t) (st_path s) with
          | Some k, Some f => match f_rows f with
                              | r :: _ => if (Nat.eqb (List.length r) (ncols k)) && is_int L (nth_s 2 r) then [Eval] else []
                              | [] => []
                              end
          | _, _ => []
          end in
        match st_run s t c with
        | Skip => run_legacy rest t c
        | Abort e => (Error e, [])
        | Opened (Fail e) => (Error e, Read (st_path s) :: evals)
        | Opened (Ok c') => let '(o, es) := run_legacy rest t c' in (o, Read (st_path s) :: evals ++ es)
        end
    end.
  Definition load_legacy_e (t : tree) : outcome * list effect := run_legacy (stages_of t) t ctx0.

  (* ------------------------------------------------------------------------------------------- upgrade *)
  (* state threaded through the upgrade: the keypoints type chosen so far *)
  Definition ures := (option err * list effect)%type.      (* None = went through *)

  Definition csv_1_0 : list path :=
    [p_sensors; p_traj; p_rigs; p_rec "camera"; p_rec "depth"; p_rec "lidar"; p_rec "wifi"; p_rec "bluetooth";
     p_rec "gnss"; p_rec "accelerometer"; p_rec "gyroscope"; p_rec "magnetic"; p_p3d].

  Definition old_version_ok (v : vclass) : bool := match v with VNone | V10 => true | _ => false end.

  (* header rewrite of one file: version line checked, file read, file rewritten *)
  Definition up_header (t : tree) (p : path) : ures :=
    match find_file (t_files t) p with
    | None => (None, [])
    | Some f => if old_version_ok (f_ver f) then (None, [Read p; Write p]) else (Some (EVersion p), [Read p])
    end.

  Definition p_old_cfg (k : string) : path := d_feat k ++ [cfg_name k].
  Definition moves_of (t : tree) (d : path) : list path := match find_dir (t_moves t) d with Some l => l | None => [] end.
  Definition move_effects (src dst : path) : list effect := [Delete src; Write dst].
  Definition json_name (k : string) : string :=
    if eqb k "keypoints" then "extract_local_features.json"
    else if eqb k "matches" then "run_matching.json" else "extract_global_features.json".
  Definition json_effects (t : tree) (k ty : string) : list effect :=
    if eqb k "descriptors" then []
    else if memb (d_feat k ++ [json_name k]) (t_json t)
         then move_effects (d_feat k ++ [json_name k]) (d_feat k ++ [ty; json_name k]) else [].
  Definition files_effects (t : tree) (k ty : string) : list effect :=
    flat_map (fun rel => move_effects (d_feat k ++ rel) (d_feat k ++ [ty] ++ rel)) (moves_of t (d_feat k)).

  (* the feature type: the caller's, or the name field of the 1.0 file, which must be a plain folder name.
     [checked = false] is the behaviour before the repair. *)
  Definition choose_type (checked : bool) (p : path) (given : option string) (name : string) : string + err :=
    match given with
    | Some ty => inl ty
    | None => if eqb name "" then inr (EAssert "name")
              else if checked && negb (safe_name name) then inr (EBadName p name) else inl name
    end.

  (* one 1.0 feature folder (keypoints / descriptors / global_features) *)
  Definition up_feature (checked : bool) (t : tree) (k : string) (needs_kp : bool) (kp_type : option string)
             (given : option string) : option string * ures :=
    let p := p_old_cfg k in
    match find_dir (t_dirs t) (d_feat k), find_file (t_files t) p with
    | Some _, Some f =>
        if negb (old_version_ok (f_ver f)) then (None, (Some (EVersion p), [Read p]))
        else if needs_kp && match kp_type with None => true | Some _ => false end
        then (None, (Some (EAssert "keypoints_type"), [Read p]))
        else
          let evals := match f_rows f with
                       | r :: _ => if (Nat.eqb (List.length r) (3)) && is_int L (nth_s 2 r) && negb checked then [Eval] else []
                       | [] => [] end in
          match cfg_check "keypoints" p (f_rows f) with
          | Some e => (None, (Some e, Read p :: evals))
          | None =>
              let name := nth_s 0 (hd [] (f_rows f)) in
              match choose_type checked p given name with
              | inr e => (None, (Some e, Read p :: evals ++ [Delete p]))
              | inl ty => (Some ty, (None, Read p :: evals ++ [Delete p; Write (p_cfg k ty)]
                                           ++ json_effects t k ty ++ files_effects t k ty))
              end
          end
    | _, _ => (kp_type, (None, []))      (* nothing to do; keeps what was known *)
    end.

  Definition up_matches (t : tree) (kp_type : option string) : ures :=
    match find_dir (t_dirs t) (d_feat "matches") with
    | None => (None, [])
    | Some _ => match kp_type with
                | None => (Some (EAssert "keypoints_type"), [])
                | Some ty => (None, json_effects t "matches" ty ++ files_effects t "matches" ty)
                end
    end.

  (* 1.0 observations: point3d_id, [image_path, feature_id]* *)
  Fixpoint pairs10_ok (l : list string) : bool :=
    match l with
    | _ :: kid :: l' => is_int L kid && pairs10_ok l'
    | _ => true
    end.
  Definition obs10_row_ok (r : list string) : bool :=
    is_int L (nth_s 0 r) && (if Nat.ltb 1 (List.length (tl r)) then pairs10_ok (tl r) else true).
  Definition up_obs (t : tree) (kp_type : option string) : ures :=
    match find_file (t_files t) p_obs with
    | None => (None, [])
    | Some f =>
        if negb (old_version_ok (f_ver f)) then (Some (EVersion p_obs), [Read p_obs])
        else match kp_type with
             | None => (Some (EAssert "keypoints_type"), [Read p_obs])
             | Some _ => if forallb obs10_row_ok (f_rows f) then (None, [Read p_obs; Write p_obs])
                         else (Some (EBadRow p_obs), [Read p_obs])
             end
    end.

  Fixpoint up_headers (t : tree) (ps : list path) : ures :=
    match ps with
    | [] => (None, [])
    | p :: ps' => match up_header t p with
                  | (Some e, es) => (Some e, es)
                  | (None, es) => let '(o, es') := up_headers t ps' in (o, es ++ es')
                  end
    end.

  Definition then_ (a : ures) (b : ures) : ures :=
    match a with (Some e, es) => (Some e, es) | (None, es) => (fst b, es ++ snd b) end.

  Definition upgrade_gen (checked : bool) (t : tree) (kt dt gt : option string) : outcome * list effect :=
    let r :=
      match up_headers t csv_1_0 with
      | (Some e, es) => (Some e, es)
      | (None, es0) =>
          let '(kp1, r1) := up_feature checked t "keypoints" false kt kt in
          (* kp1: the keypoints type from now on (given, or taken from the file) *)
          let kp := match kp1 with Some ty => Some ty | None => kt end in
          then_ (None, es0) (then_ r1
            (let '(_, r2) := up_feature checked t "descriptors" true kp dt in
             then_ r2 (then_ (up_matches t kp)
               (let '(_, r3) := up_feature checked t "global_features" false kp gt in
                then_ r3 (up_obs t kp)))))
      end in
    (match fst r with None => Value | Some e => Error e end, snd r).

  Definition upgrade_e := upgrade_gen true.
  Definition upgrade_legacy_e := upgrade_gen false.
End Load.

(* ------------------------------------------------------------------------------------ correspondence *)
Inductive op := OLoad | OUpgrade (kt dt gt : option string).

Record case := {
  c_op : op;
  c_tree : tree;
  c_int : list string;                 (* the fields of this tree that int() accepts *)
  c_float : list string;               (* ... that float() accepts *)
  c_sensor : list (list string);       (* the name :: type :: params rows that create_sensor accepts *)
  c_pose : list (list string);
  c_rec : list (string * list string);
  o_error : bool;                      (* the implementation raised *)
  o_effects : list effect;             (* file-level effects observed (first occurrence order, no duplicates) *)
}.

Definition leaves_of (c : case) : leaves :=
  {| is_int := fun s => memb s (c_int c);
     is_float := fun s => memb s (c_float c);
     sensor_ok := fun r => memb r (c_sensor c);
     pose_ok := fun r => memb r (c_pose c);
     rec_ok := fun k r => memb (k, r) (c_rec c) |}.

Definition model_of (c : case) : outcome * list effect :=
  match c_op c with
  | OLoad => load_e (leaves_of c) (c_tree c)
  | OUpgrade kt dt gt => upgrade_e (leaves_of c) (c_tree c) kt dt gt
  end.

(* load: same files opened in the same order; upgrade: same set of file-level effects; same outcome class *)
Definition check_case (c : case) : bool :=
  let '(o, es) := model_of c in
  Bool.eqb (is_error o) (o_error c) &&
  match c_op c with
  | OLoad => eff_list_eqb es (o_effects c)
  | OUpgrade _ _ _ => eff_set_eqb es (o_effects c)
  end.
