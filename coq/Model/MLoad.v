(* Model/MLoad.v — executable model of kapture.io.csv.kapture_from_dir (property C04).
   Definitions only; proofs are in Proofs/PLoad.v.

   The model works on PARSED tables (the text codec is the business of C01/C02): a raw directory is
   the version text of the first line of sensors.txt plus, for each file / folder that exists, its rows
   in file order, and for each feature kind and type the names of the images whose data file EXISTS:
   folder storage: os.path.exists(<type folder>/<image><extension>) — symbolic links are followed, a link that
   leads nowhere is not a data file, a file below a linked folder is; tar storage with a handler: a regular
   member named <image><extension>.  [load_dir] mirrors the loader: version gate,
   sensors (last row of an id wins), rig/sensor collision check and one-pass member expunge, trajectory
   filter over sensors + rigs, one sensor-kind filter per records file (dict semantics: last row of a key
   wins), feature sets = listed files restricted to the images of the loaded camera records, matches
   restricted to known images (and to the pairs file when one is given), observations restricted to the
   loaded keypoints; the loader's assertions and exceptions are outcomes. *)
From Coq Require Import List Bool String Ascii ZArith NArith QArith.
From KV Require Import Eqb AL Str.
From KV.Gen Require Import Tload.
Import ListNotations.
Local Open Scope string_scope.
Local Open Scope list_scope.

(* ------------------------------------------------------------------ record kinds *)
Inductive rkind := RCamera | RDepth | RLidar | RWifi | RBluetooth | RGnss | RAccelerometer | RGyroscope | RMagnetic.
Definition all_rkinds : list rkind :=
  [RCamera; RDepth; RLidar; RWifi; RBluetooth; RGnss; RAccelerometer; RGyroscope; RMagnetic].

(* the dataset part a records file loads into *)
Definition part_name (k : rkind) : string :=
  match k with
  | RCamera => "records_camera" | RDepth => "records_depth" | RLidar => "records_lidar"
  | RWifi => "records_wifi" | RBluetooth => "records_bluetooth" | RGnss => "records_gnss"
  | RAccelerometer => "records_accelerometer" | RGyroscope => "records_gyroscope" | RMagnetic => "records_magnetic"
  end.

(* THE SPECIFICATION's notion of "matching kind": the sensor type a record of each kind must come from *)
Definition sensor_kind_of (k : rkind) : string :=
  match k with
  | RCamera => "camera" | RDepth => "depth" | RLidar => "lidar"
  | RWifi => "wifi" | RBluetooth => "bluetooth" | RGnss => "gnss"
  | RAccelerometer => "accelerometer" | RGyroscope => "gyroscope" | RMagnetic => "magnetic"
  end.

(* wifi / bluetooth records are keyed (timestamp, sensor, BSSID / address); the others (timestamp, sensor) *)
Definition subkeyed (k : rkind) : bool := match k with RWifi | RBluetooth => true | _ => false end.

(* feature kinds stored per image *)
Inductive fkind := FKeypoints | FDescriptors | FGlobal.
Definition all_fkinds : list fkind := [FKeypoints; FDescriptors; FGlobal].

(* ------------------------------------------------------------------ rows *)
(* a record row: timestamp, sensor id, and the third column (file path for camera / depth / lidar, BSSID or
   address for wifi / bluetooth, "" for the array-valued kinds) *)
Definition row := (Z * string * string)%type.
Definition rts (r : row) : Z := fst (fst r).
Definition rsensor (r : row) : string := snd (fst r).
Definition rextra (r : row) : string := snd r.
Definition rkey (k : rkind) (r : row) : Z * string * string :=
  (rts r, rsensor r, if subkeyed k then rextra r else "").

Definition obsrow := (Z * string * string * Z)%type.        (* point id, keypoints type, image, keypoint index *)
Definition otype (o : obsrow) : string := snd (fst (fst o)).
Definition oimage (o : obsrow) : string := snd (fst o).

Definition ftable := list (string * list string).              (* type -> image names *)
Definition mtable := list (string * list (string * string)).   (* type -> image pairs *)

Record rawdir := {
  r_has_sensors : bool;                           (* sensors/sensors.txt exists *)
  r_version : option string;                      (* text matched by  # kapture format:\s*(\d+\.\d+)  on its first line *)
  r_sensors : list (string * string);             (* sensor id, sensor type *)
  r_rigs : option (list (string * string));       (* rig id, member id *)
  r_traj : option (list (Z * string));            (* timestamp, device id *)
  r_records : rkind -> option (list row);
  r_feat : fkind -> option ftable;                (* folder exists: types having a descriptor file, images whose data file exists (see above) *)
  r_matches : option mtable;                      (* folder exists: type sub-folders, pairs having a matches file *)
  r_pairs : option (list (string * string));      (* the optional pairs file handed to the loader *)
  r_points : option N;                            (* points3d.txt: number of points *)
  r_obs : option (list obsrow);                   (* observations.txt, one entry per (image, index) pair *)
}.

Record dataset := {
  d_version : string;
  d_sensors : list (string * string);
  d_rigs : option (list string * list (string * string));   (* rig ids ; (rig, member) *)
  d_traj : option (list (Z * string));
  d_records : rkind -> option (list row);
  d_feat : fkind -> option ftable;
  d_matches : option mtable;
  d_points : option N;
  d_obs : option (list obsrow);
}.

Inductive error :=
| EAssert       (* AssertionError: sensors.txt missing; a feature folder without records_camera.txt;
                   observations.txt without loaded keypoints or without points3d.txt *)
| ENoVersion    (* TypeError: the first line of sensors.txt carries no version *)
| ENewer        (* FileNotFoundError "unable to load version over ..." *)
| ECollision.   (* ValueError "collision between a sensor ID and rig ID" *)
Inductive outcome := Ok (d : dataset) | Err (e : error).

(* ------------------------------------------------------------------ version gate *)
Definition digit_of (c : ascii) : option Z :=
  let n := N_of_ascii c in
  if (N.leb 48 n && N.leb n 57)%bool then Some (Z.of_N (n - 48)) else None.
Fixpoint digits_val (acc : Z) (s : string) : option Z :=
  match s with
  | EmptyString => Some acc
  | String c s' => match digit_of c with Some d => digits_val (10 * acc + d) s' | None => None end
  end.
Fixpoint split_dot (s : string) : option (string * string) :=
  match s with
  | EmptyString => None
  | String c s' =>
      if Ascii.eqb c "."%char then Some (EmptyString, s')
      else match split_dot s' with Some (a, b) => Some (String c a, b) | None => None end
  end.
Definition nonemptys (s : string) : bool := match s with EmptyString => false | _ => true end.

(* the exact rational a version text  <digits>.<digits>  denotes *)
Definition ver_q (v : string) : option Q :=
  match split_dot v with
  | Some (a, b) =>
      if (nonemptys a && nonemptys b)%bool then
        match digits_val 0 a, digits_val 0 b with
        | Some x, Some y =>
            let p := (10 ^ Z.of_nat (String.length b))%Z in
            Some (Qmake (x * p + y) (Z.to_pos p))
        | _, _ => None
        end
      else None
  | None => None
  end.

(* float(version) > float(current)  on the exact value (see harness/tables/load.py) *)
Definition newer (q : Q) : bool :=
  if Tload.ver_thr_incl then Qle_bool Tload.ver_thr q else negb (Qle_bool q Tload.ver_thr).

(* ------------------------------------------------------------------ dict semantics *)
(* the rows that survive when each one is assigned to a dict under [key]: a row is overwritten by any later
   row with the same key *)
Fixpoint live {A K} `{EqDec K} (key : A -> K) (l : list A) : list A :=
  match l with
  | [] => []
  | x :: l' => if existsb (fun y => eqb (key y) (key x)) l' then live key l' else x :: live key l'
  end.

(* ------------------------------------------------------------------ the loader *)
(* rigs_from_file: None = collision *)
Definition load_rigs (sids : list string) (rows : list (string * string))
  : option (list string * list (string * string)) :=
  if existsb (fun p => memb (fst p) sids) rows then None
  else let rids := dedup (map fst rows) in
       Some (rids, List.filter (fun p => memb (snd p) sids || memb (snd p) rids) rows).

Definition load_traj (devs : list string) (rows : list (Z * string)) : list (Z * string) :=
  List.filter (fun p => memb (snd p) devs) rows.

Definition load_records (sensors : list (string * string)) (k : rkind) (raw : option (list row))
  : option (list row) :=
  match raw with
  | None => None
  | Some rows => Some (live (rkey k) (List.filter (fun r => memb (rsensor r, sensor_kind_of k) sensors) rows))
  end.

Definition load_feat (images : list string) (raw : option ftable) : option ftable :=
  match raw with
  | None | Some [] => None
  | Some l => Some (map (fun tf => (fst tf, List.filter (fun i => memb i images) (snd tf))) l)
  end.

Definition norm_pair (p : string * string) : string * string :=
  if sltb (fst p) (snd p) then p else (snd p, fst p).
Definition pair_allowed (pairs : option (list (string * string))) (p : string * string) : bool :=
  match pairs with None => true | Some ps => memb p (map norm_pair ps) end.

Definition load_matches (images : list string) (pairs : option (list (string * string))) (raw : option mtable)
  : option mtable :=
  match raw with
  | None | Some [] => None
  | Some l => Some (map (fun tf => (fst tf,
                      List.filter (fun p => memb (fst p) images && memb (snd p) images && pair_allowed pairs p)
                                  (snd tf))) l)
  end.

Definition obs_ok (kps : ftable) (o : obsrow) : bool :=
  match lookup (otype o) kps with Some imgs => memb (oimage o) imgs | None => false end.

Definition is_some {A} (o : option A) : bool := match o with Some _ => true | None => false end.

Definition no_feat : fkind -> option ftable := fun _ => None.

Definition load_dir (r : rawdir) : outcome :=
  if negb (r_has_sensors r) then Err EAssert else
  match r_version r with
  | None => Err ENoVersion
  | Some v =>
    match ver_q v with
    | None => Err ENewer                          (* float() raising ValueError is turned into the same refusal *)
    | Some q =>
      if newer q then Err ENewer else
      let sensors := live fst (r_sensors r) in
      let sids := map fst sensors in
      match (match r_rigs r with
             | None => Some None
             | Some rows => match load_rigs sids rows with None => None | Some g => Some (Some g) end
             end) with
      | None => Err ECollision
      | Some rigs =>
        let rids := match rigs with Some g => fst g | None => [] end in
        let traj := option_map (load_traj (sids ++ rids)) (r_traj r) in
        let recs := fun k => load_records sensors k (r_records r k) in
        if eqb v Tload.current_version then
          let cam := recs RCamera in
          let images := match cam with Some rows => map rextra rows | None => [] end in
          if (is_some (r_feat r FKeypoints) || is_some (r_feat r FDescriptors) || is_some (r_feat r FGlobal)
              || is_some (r_matches r)) && negb (is_some cam) then Err EAssert else
          let feats := fun fk => load_feat images (r_feat r fk) in
          let matches := load_matches images (r_pairs r) (r_matches r) in
          match r_obs r with
          | None =>
              Ok {| d_version := v; d_sensors := sensors; d_rigs := rigs; d_traj := traj; d_records := recs;
                    d_feat := feats; d_matches := matches; d_points := r_points r; d_obs := None |}
          | Some orows =>
              match feats FKeypoints, r_points r with
              | Some kps, Some _ =>
                  Ok {| d_version := v; d_sensors := sensors; d_rigs := rigs; d_traj := traj; d_records := recs;
                        d_feat := feats; d_matches := matches; d_points := r_points r;
                        d_obs := Some (List.filter (obs_ok kps) orows) |}
              | _, _ => Err EAssert
              end
          end
        else
          (* "unsupported version: skip loading reconstruction part" *)
          Ok {| d_version := v; d_sensors := sensors; d_rigs := rigs; d_traj := traj; d_records := recs;
                d_feat := no_feat; d_matches := None; d_points := None; d_obs := None |}
      end
    end
  end.

(* ------------------------------------------------------------------ skip_list *)
(* kapture_from_dir(..., skip_list=[types]) : "Skip the load of specified parts".  The loader computes once
     kapture_loadable_data = {type in KAPTURE_LOADABLE_TYPES | type not in skip_list and path.exists(its file / folder)}
   and every later step asks only  `type in kapture_loadable_data`  (sensors.txt is read unconditionally: naming
   kapture.Sensors in the list has no effect).  So a skipped part is treated exactly like a part whose file or
   folder does not exist — including by the loader's assertions (features while records_camera is skipped,
   observations while keypoints or points3d are skipped) and by the trajectory filter (rigs skipped: rig ids are
   not devices any more). *)
Record skipset := {
  sk_rigs : bool; sk_traj : bool; sk_rec : rkind -> bool; sk_feat : fkind -> bool;
  sk_matches : bool; sk_points : bool; sk_obs : bool;
}.
Definition skip_none : skipset :=
  {| sk_rigs := false; sk_traj := false; sk_rec := fun _ => false; sk_feat := fun _ => false;
     sk_matches := false; sk_points := false; sk_obs := false |}.

(* the class names the skippable parts go by in the code (kapture.<name>) *)
Definition rec_class (k : rkind) : string :=
  match k with
  | RCamera => "RecordsCamera" | RDepth => "RecordsDepth" | RLidar => "RecordsLidar"
  | RWifi => "RecordsWifi" | RBluetooth => "RecordsBluetooth" | RGnss => "RecordsGnss"
  | RAccelerometer => "RecordsAccelerometer" | RGyroscope => "RecordsGyroscope" | RMagnetic => "RecordsMagnetic"
  end.
Definition feat_class (fk : fkind) : string :=
  match fk with FKeypoints => "Keypoints" | FDescriptors => "Descriptors" | FGlobal => "GlobalFeatures" end.
Definition skippable_classes : list string :=
  ["Rigs"; "Trajectories"] ++ map rec_class all_rkinds ++ map feat_class all_fkinds
  ++ ["Matches"; "Points3d"; "Observations"].

Definition opt_skip {A} (b : bool) (o : option A) : option A := if b then None else o.

Definition skip_raw (s : skipset) (r : rawdir) : rawdir :=
  {| r_has_sensors := r_has_sensors r; r_version := r_version r; r_sensors := r_sensors r;
     r_rigs := opt_skip (sk_rigs s) (r_rigs r);
     r_traj := opt_skip (sk_traj s) (r_traj r);
     r_records := fun k => opt_skip (sk_rec s k) (r_records r k);
     r_feat := fun fk => opt_skip (sk_feat s fk) (r_feat r fk);
     r_matches := opt_skip (sk_matches s) (r_matches r);
     r_pairs := r_pairs r;
     r_points := opt_skip (sk_points s) (r_points r);
     r_obs := opt_skip (sk_obs s) (r_obs r) |}.

Definition load_dir_skip (s : skipset) (r : rawdir) : outcome := load_dir (skip_raw s r).

(* ------------------------------------------------------------------ declarative vocabulary of the theorems *)
Definition sensor_ids (d : dataset) : list string := map fst (d_sensors d).
Definition rig_ids (d : dataset) : list string := match d_rigs d with Some g => fst g | None => [] end.
Definition rig_pairs (d : dataset) : list (string * string) := match d_rigs d with Some g => snd g | None => [] end.
Definition images_of (d : dataset) : list string :=
  match d_records d RCamera with Some rows => map rextra rows | None => [] end.
(* image [i] has a visible data file of kind [fk] and type [t] in the raw directory *)
Definition file_exists (r : rawdir) (fk : fkind) (t i : string) : Prop :=
  exists l files, r_feat r fk = Some l /\ In (t, files) l /\ In i files.
Definition match_file_exists (r : rawdir) (t : string) (p : string * string) : Prop :=
  exists l files, r_matches r = Some l /\ In (t, files) l /\ In p files.
(* image [i] is in the loaded feature set of kind [fk], type [t] *)
Definition feat_loaded (d : dataset) (fk : fkind) (t i : string) : Prop :=
  exists l imgs, d_feat d fk = Some l /\ In (t, imgs) l /\ In i imgs.

(* ------------------------------------------------------------------ correspondence *)
Definition subsetb {A} `{EqDec A} (a b : list A) : bool := forallb (fun x => memb x b) a.
Definition seteqb {A} `{EqDec A} (a b : list A) : bool := subsetb a b && subsetb b a.

Fixpoint remove1 {A} `{EqDec A} (x : A) (l : list A) : option (list A) :=
  match l with
  | [] => None
  | y :: l' => if eqb x y then Some l' else match remove1 x l' with Some m => Some (y :: m) | None => None end
  end.
(* equality of multisets *)
Fixpoint mseteqb {A} `{EqDec A} (a b : list A) : bool :=
  match a with
  | [] => match b with [] => true | _ => false end
  | x :: a' => match remove1 x b with Some b' => mseteqb a' b' | None => false end
  end.

Definition opt_eqb {A} (f : A -> A -> bool) (a b : option A) : bool :=
  match a, b with
  | None, None => true
  | Some x, Some y => f x y
  | _, _ => false
  end.

(* same types, and the same set of entries under each type *)
Definition table_eqb {A} `{EqDec A} (a b : list (string * list A)) : bool :=
  seteqb (map fst a) (map fst b)
  && forallb (fun tf => match lookup (fst tf) b with Some y => seteqb (snd tf) y | None => false end) a.

Definition dataset_eqb (m o : dataset) : bool :=
  eqb (d_version m) (d_version o)
  && seteqb (d_sensors m) (d_sensors o)
  && opt_eqb (fun a b => seteqb (fst a) (fst b) && seteqb (snd a) (snd b)) (d_rigs m) (d_rigs o)
  && opt_eqb seteqb (d_traj m) (d_traj o)
  && forallb (fun k => opt_eqb seteqb (d_records m k) (d_records o k)) all_rkinds
  && forallb (fun fk => opt_eqb table_eqb (d_feat m fk) (d_feat o fk)) all_fkinds
  && opt_eqb table_eqb (d_matches m) (d_matches o)
  && opt_eqb N.eqb (d_points m) (d_points o)
  && opt_eqb mseteqb (d_obs m) (d_obs o).

Definition exc_name (e : error) : string :=
  match e with
  | EAssert => "AssertionError" | ENoVersion => "TypeError"
  | ENewer => "FileNotFoundError" | ECollision => "ValueError"
  end.

(* one case = the raw directory as the harness read it (ALL parts, skipped or not) + the skip list + what
   kapture_from_dir did with it:
   the class of the exception it raised, or the canonicalised loaded dataset *)
Record case := {
  c_raw : rawdir;
  c_skip : skipset;               (* the skip_list handed to the loader (skip_none when the argument is left out) *)
  o_exc : option string;
  o_data : dataset;
}.

Definition check_case (c : case) : bool :=
  match load_dir_skip (c_skip c) (c_raw c) with
  | Ok d => match o_exc c with None => dataset_eqb d (o_data c) | Some _ => false end
  | Err e => match o_exc c with Some n => eqb n (exc_name e) | None => false end
  end.
