(* Model/MMergeKeep.v — executable model of kapture.algo.merge_keep_ids.merge_keep_ids (property C09)
   together with the parts of merge_reconstruction.py (feature-set / matches union and file copy) and
   merge_records_data.py (record file transfer) that it drives.  Definitions only; proofs are in
   Proofs/PMergeKeep.v.

   Modelled
   - a dataset = record of optional parts.  Values (sensors, poses, radio / gnss / imu records, feature
     metadata, file contents) are opaque tokens: the merge never looks inside them.
   - merge_table_key1 / key2 : fold over the inputs in order, `if key in merged: continue`   (merge_tab)
   - merge_table_key3        : nested dict, `merged[t,d].setdefault(signal, entry)`          (merge_tab3)
   - feature sets per type   : union of image names, metadata of the first holder, assertion error when a
                               later holder has different metadata                          (merge_gcoll)
   - matches per type        : union of ordered image pairs                                   (merge_gcoll)
   - skip list, unskippable sensors/rigs, `get_new_if_not_empty` (an empty merged part stays None)
   - files: record files transferred per record kind by merge_records_data (first lister of a name wins),
     feature / matches files copied from the first holder of each image / pair, whatever the storage of
     the source (directory or tar: both are a map name -> bytes).
   - outcomes: Ok, or the exception kinds the code raises (never hidden by totalisation).
   Not modelled: points3d / observations (property C11), the text codec used by the tool entry point. *)
From Coq Require Import List Bool String ZArith.
From KV Require Import Eqb AL Str.
Import ListNotations.
Local Open Scope string_scope.
Local Open Scope list_scope.

Notation tok := string (only parsing).

(* ------------------------------------------------------------------ small helpers *)
Fixpoint first_some {A} (l : list (option A)) : option A :=
  match l with
  | [] => None
  | Some a :: _ => Some a
  | None :: l' => first_some l'
  end.

Fixpoint somes {A} (l : list (option A)) : list A :=
  match l with
  | [] => []
  | Some a :: l' => a :: somes l'
  | None :: l' => somes l'
  end.

Definition lookup_o {K V} `{EqDec K} (k : K) (o : option (al K V)) : option V :=
  match o with Some m => lookup k m | None => None end.

Definition is_some {A} (o : option A) : bool := match o with Some _ => true | None => false end.

(* kapture.utils.Collections.get_new_if_not_empty(new, None): an empty container is falsy *)
Definition nonempty_opt {A} (l : list A) : option (list A) := match l with [] => None | _ => Some l end.

Inductive error :=
| EAssert      (* AssertionError: no input at all, or feature metadata differ between inputs *)
| ERootLink    (* OSError / AssertionError out of import_record_data_from_dir_link_dir *)
| EMissing     (* FileNotFoundError / KeyError: a listed file does not exist in its source *)
| EExists.     (* FileExistsError: os.symlink onto an existing path *)
Inductive result (A : Type) := Ok (a : A) | Err (e : error).
Arguments Ok {A} a.
Arguments Err {A} e.

Definition error_eqb (a b : error) : bool :=
  match a, b with
  | EAssert, EAssert | ERootLink, ERootLink | EMissing, EMissing | EExists, EExists => true
  | _, _ => false
  end.

(* ------------------------------------------------------------------ the three generic merges *)
Section Tab.
  Context {K V : Type} `{EqDec K}.

  (* merge_table_key1 / merge_table_key2:
       for table in tables: for key, entry in flatten(table):
           if key in merged: continue
           merged[key] = entry                                                     *)
  Definition add_table (acc t : al K V) : al K V :=
    fold_left (fun m kv => insert_new (fst kv) (snd kv) m) t acc.
  Definition merge_tab (ts : list (al K V)) : al K V := fold_left add_table ts [].

  (* what merge_rigs did before the repair: Rigs had no membership test for (rig, sensor) pairs, dict's
     own test never finds a tuple among str keys, so every entry was assigned: the last input wins *)
  Definition add_table_over (acc t : al K V) : al K V :=
    fold_left (fun m kv => insert (fst kv) (snd kv) m) t acc.
  Definition merge_tab_legacy (ts : list (al K V)) : al K V := fold_left add_table_over ts [].

  (* union of sets (ImageFeatures / Matches are Python sets): `if name in merged: warn else: merged.add(name)` *)
  Definition add_set (acc s : list K) : list K :=
    fold_left (fun m k => if memb k m then m else m ++ [k]) s acc.
  Definition merge_set (ss : list (list K)) : list K := fold_left add_set ss [].
End Tab.

Section Tab3.
  Context {K1 K2 V : Type} `{EqDec K1} `{EqDec K2}.
  Definition nested := al K1 (al K2 V).

  (* merge_table_key3:
       for k1, k2, k3, entry in flatten(table):       (here K1 = (k1,k2), K2 = k3)
           if (k1,k2) not in merged: merged[k1,k2] = subdict()
           merged[k1,k2].setdefault(k3, entry)                                      *)
  Definition setdefault3 (a : K1) (b : K2) (v : V) (m : nested) : nested :=
    let sub := match lookup a m with Some s => s | None => [] end in
    insert a (insert_new b v sub) m.
  Definition flatten3 (t : nested) : list (K1 * K2 * V) :=
    flat_map (fun e => map (fun kv => (fst e, fst kv, snd kv)) (snd e)) t.
  Definition add_table3 (acc t : nested) : nested :=
    fold_left (fun m e => setdefault3 (fst (fst e)) (snd (fst e)) (snd e) m) (flatten3 t) acc.
  Definition merge_tab3 (ts : list nested) : nested := fold_left add_table3 ts [].
  Definition lookup3 (a : K1) (b : K2) (m : nested) : option V :=
    match lookup a m with Some sub => lookup b sub | None => None end.
  Definition lookup3_o (a : K1) (b : K2) (o : option nested) : option V :=
    match o with Some m => lookup3 a b m | None => None end.
End Tab3.

(* ------------------------------------------------------------------ feature sets and matches *)
(* One generic definition serves the three image-feature kinds (member = image name, with metadata) and
   matches (member = ordered image pair; merge_matches has no metadata: the token is constant there). *)
Section Feat.
  Context {N : Type} `{EqDec N}.
  Definition gcoll := al string (tok * list N).                 (* type -> (metadata token, members) *)
  Definition gstore := al (string * N) tok.                     (* (type, member) -> file content *)

  Definition lookup_gc (ty : string) (c : option gcoll) : option (tok * list N) :=
    match c with Some m => lookup ty m | None => None end.

  (* _merge_image_features / merge_matches for one type over the inputs that hold it, in input order:
     metadata must agree with the first holder (assert); members already merged are skipped (warning);
     the file of every new member is copied from this holder *)
  Fixpoint merge_feat1 (copy : bool) (ty : string) (m0 : tok) (acc : list N) (out : gstore)
           (l : list (tok * list N * gstore)) : result (list N * gstore) :=
    match l with
    | [] => Ok (acc, out)
    | (m, mem, src) :: l' =>
        if negb (eqb m m0) then Err EAssert else
        let fresh := add_set [] (List.filter (fun n => negb (memb n acc)) mem) in
        let files := map (fun n => (n, lookup (ty, n) src)) fresh in
        if copy && negb (forallb (fun kv => is_some (snd kv)) files) then Err EMissing else
        let out' := if copy
                    then fold_left (fun o kv => match snd kv with Some c => insert (ty, fst kv) c o | None => o end) files out
                    else out in
        merge_feat1 copy ty m0 (acc ++ fresh) out' l'
    end.

  Definition holders (ty : string) (cs : list (option gcoll * gstore)) : list (tok * list N * gstore) :=
    somes (map (fun e => match lookup_gc ty (fst e) with Some v => Some (fst v, snd v, snd e) | None => None end) cs).

  Fixpoint merge_types (copy : bool) (cs : list (option gcoll * gstore)) (tys : list string)
           (accc : gcoll) (out : gstore) : result (gcoll * gstore) :=
    match tys with
    | [] => Ok (accc, out)
    | ty :: tys' =>
        match holders ty cs with
        | [] => Err EAssert                                     (* assert len(val) > 0 *)
        | ((m0, _, _) :: _) as hs =>
            match merge_feat1 copy ty m0 [] out hs with
            | Ok (names, out') => merge_types copy cs tys' (accc ++ [(ty, (m0, names))]) out'
            | Err e => Err e
            end
        end
    end.

  (* merge_keypoints_collections & co. / merge_matches_collections as called by merge_keep_ids *)
  Definition merge_gcoll (skp copy : bool) (cs : list (option gcoll * gstore)) : result (option gcoll * gstore) :=
    if skp then Ok (None, []) else
    match somes (map fst cs) with
    | [] => Ok (None, [])
    | colls =>
        match merge_types copy cs (merge_set (map keys colls)) [] [] with
        | Ok (c, out) => Ok (nonempty_opt c, out)
        | Err e => Err e
        end
    end.
End Feat.

Definition fcoll := @gcoll string.                              (* type -> (metadata, images) *)
Definition mcoll := al string (list (string * string)).        (* keypoints type -> ordered image pairs *)
Definition mc_to_g (m : mcoll) : @gcoll (string * string) := map (fun e => (fst e, (""%string, snd e))) m.
Definition g_to_mc (g : @gcoll (string * string)) : mcoll := map (fun e => (fst e, snd (snd e))) g.

(* ------------------------------------------------------------------ datasets *)
(* the 18 attributes of kapture.Kapture, in the order of its constructor *)
Inductive part :=
| PSensors | PRigs | PTraj | PRCam | PRDepth | PRLidar | PWifi | PBt | PGnss | PAccel | PGyro | PMag
| PKp | PDesc | PGf | PMatches | PObs | PPoints.

Definition part_idx (p : part) : nat :=
  match p with
  | PSensors => 0 | PRigs => 1 | PTraj => 2 | PRCam => 3 | PRDepth => 4 | PRLidar => 5 | PWifi => 6 | PBt => 7
  | PGnss => 8 | PAccel => 9 | PGyro => 10 | PMag => 11 | PKp => 12 | PDesc => 13 | PGf => 14 | PMatches => 15
  | PObs => 16 | PPoints => 17
  end.
Definition part_eqb (a b : part) : bool := Nat.eqb (part_idx a) (part_idx b).
Lemma part_eqb_spec a b : reflect (a = b) (part_eqb a b).
Proof. destruct a, b; cbn; constructor; congruence. Qed.
#[global] Instance EqDec_part : EqDec part := {| eqb := part_eqb; eqb_spec := part_eqb_spec |}.

(* parts grouped by the shape of their container *)
Inductive tpart := TTraj | TGnss | TAccel | TGyro | TMag.      (* [timestamp, device] -> value *)
Inductive rpart := RCam | RDepth | RLidar.                     (* [timestamp, device] -> file name *)
Inductive npart := NWifi | NBt.                                (* [timestamp, device][signal id] -> value *)
Inductive ipart := IKp | IDesc | IGf.                          (* [feature type] -> metadata, {image} *)

Definition part_of_t (p : tpart) : part :=
  match p with TTraj => PTraj | TGnss => PGnss | TAccel => PAccel | TGyro => PGyro | TMag => PMag end.
Definition part_of_r (p : rpart) : part := match p with RCam => PRCam | RDepth => PRDepth | RLidar => PRLidar end.
Definition part_of_n (p : npart) : part := match p with NWifi => PWifi | NBt => PBt end.
Definition part_of_i (p : ipart) : part := match p with IKp => PKp | IDesc => PDesc | IGf => PGf end.

Notation tkey := (Z * string)%type (only parsing).

Record kdata := {
  k_sensors : option (al string tok);
  k_rigs    : option (al (string * string) tok);
  k_tab     : tpart -> option (al tkey tok);
  k_rec     : rpart -> option (al tkey string);
  k_sig     : npart -> option (al tkey (al string tok));
  k_feat    : ipart -> option fcoll;
  k_matches : option mcoll;
}.

(* the files of an input directory that the merge may read: name -> content token.  A feature store is
   the same map whether the files sit in a folder or in a tar archive. *)
Record store := {
  s_rec   : al string tok;                                     (* sensors/records_data/<name> *)
  s_feat  : ipart -> al (string * string) tok;                 (* (type, image) -> <image>.<ext> *)
  s_match : al (string * (string * string)) tok;               (* (type, (img1, img2)) *)
}.

(* what the merge wrote under the output directory.  A record file is [Some c] (content c reachable
   through the copy or the link) or [None] (a dangling link: the source did not exist) *)
Record ostore := {
  o_rec   : al string (option tok);
  o_feat  : ipart -> al (string * string) tok;
  o_match : al (string * (string * string)) tok;
}.

Inductive strategy := SSkip | SRootLink | SCopy | SMove | SLinkAbs | SLinkRel.

(* sensors and rigs are never skipped ("sensors and rigs are unskippable") *)
Definition skipped (skip : list part) (p : part) : bool := memb p skip.

(* ------------------------------------------------------------------ tables *)
Definition merge_part {K V} `{EqDec K} (skp : bool) (ps : list (option (al K V))) : option (al K V) :=
  if skp then None else nonempty_opt (merge_tab (somes ps)).
Definition merge_part3 {K1 K2 V} `{EqDec K1} `{EqDec K2} (skp : bool) (ps : list (option (@nested K1 K2 V)))
  : option (@nested K1 K2 V) :=
  if skp then None else nonempty_opt (merge_tab3 (somes ps)).

(* ------------------------------------------------------------------ record files: merge_records_data *)
Definition rec_names (t : option (al tkey string)) : list string :=
  match t with Some m => map snd m | None => [] end.
(* the names an input lists, each with what its records_data folder holds under that name *)
Definition rec_entries (names : list string) (src : al string tok) : al string (option tok) :=
  map (fun n => (n, lookup n src)) names.
Definition put_all {K V} `{EqDec K} (m out : al K V) : al K V :=
  fold_left (fun o kv => insert (fst kv) (snd kv) o) m out.

(* one call of merge_records_data(names per input, records_data per input, output, strategy) *)
Definition transfer (st : strategy) (per_input : list (list string * al string tok))
           (out : al string (option tok)) : result (al string (option tok)) :=
  let firsts := merge_tab (map (fun e => rec_entries (fst e) (snd e)) per_input) in
  match st with
  | SSkip => Ok out
  | SRootLink =>
      (* links the whole folder once per input and per record kind: the first os.symlink already fails on
         a freshly created output directory (no sensors/ folder yet), a second one always would *)
      match per_input with [] => Ok out | _ => Err ERootLink end
  | SCopy | SMove =>
      if forallb (fun kv => is_some (snd kv)) firsts then Ok (put_all firsts out) else Err EMissing
  | SLinkAbs | SLinkRel =>
      if existsb (fun kv => mem (fst kv) out) firsts then Err EExists else Ok (put_all firsts out)
  end.

(* ------------------------------------------------------------------ merge_keep_ids *)
Definition input := (kdata * store)%type.

Definition transfer_kind (lidar : bool) (skip : list part) (st : strategy) (ins : list input) (r : rpart)
           (out : al string (option tok)) : result (al string (option tok)) :=
  if skipped skip (part_of_r r) then Ok out
  else match r, lidar with
       | RLidar, false => Ok out        (* before the repair lidar files were never transferred *)
       | _, _ => transfer st (map (fun i => (rec_names (k_rec (fst i) r), s_rec (snd i))) ins) out
       end.

Section Gen.
  (* the two repaired spots are parameters so that the pre-repair behaviour stays expressible *)
  Variable rigs_merge : list (al (string * string) tok) -> al (string * string) tok.
  Variable lidar : bool.

  Definition merge_keep_gen (skip : list part) (st : strategy) (has_out : bool) (ins : list input)
    : result (kdata * ostore) :=
    match ins with
    | [] => Err EAssert                                      (* assert len(table_list) > 0 *)
    | _ =>
      let ds := map fst ins in
      let sk p := skipped skip p in
      match transfer_kind true skip st ins RCam [] with Err e => Err e | Ok f1 =>
      match transfer_kind true skip st ins RDepth f1 with Err e => Err e | Ok f2 =>
      match transfer_kind lidar skip st ins RLidar f2 with Err e => Err e | Ok f3 =>
      let feat p := merge_gcoll (sk (part_of_i p)) has_out (map (fun i => (k_feat (fst i) p, s_feat (snd i) p)) ins) in
      match feat IKp with Err e => Err e | Ok (ckp, fkp) =>
      match feat IDesc with Err e => Err e | Ok (cde, fde) =>
      match feat IGf with Err e => Err e | Ok (cgf, fgf) =>
      match merge_gcoll (sk PMatches) has_out (map (fun i => (option_map mc_to_g (k_matches (fst i)), s_match (snd i))) ins) with
      | Err e => Err e
      | Ok (cm, fm) =>
        Ok ({| k_sensors := merge_part false (map k_sensors ds);
               k_rigs := nonempty_opt (rigs_merge (somes (map k_rigs ds)));
               k_tab := fun p => merge_part (sk (part_of_t p)) (map (fun d => k_tab d p) ds);
               k_rec := fun p => merge_part (sk (part_of_r p)) (map (fun d => k_rec d p) ds);
               k_sig := fun p => merge_part3 (sk (part_of_n p)) (map (fun d => k_sig d p) ds);
               k_feat := fun p => match p with IKp => ckp | IDesc => cde | IGf => cgf end;
               k_matches := option_map g_to_mc cm |},
            {| o_rec := f3;
               o_feat := fun p => match p with IKp => fkp | IDesc => fde | IGf => fgf end;
               o_match := fm |})
      end end end end end end end
    end.
End Gen.

(* the code as repaired (fixes/C09-*.patch) *)
Definition merge_keep := merge_keep_gen merge_tab true.
(* the code before the repairs: rigs last-wins, lidar files never transferred *)
Definition merge_keep_legacy := merge_keep_gen merge_tab_legacy false.

(* third pre-repair behaviour: _merge_image_features used the first holder's set object as the merged set,
   so after the call the first holder of every type contained the union.  State of one input collection list
   after the legacy call, given the merged collection: *)
Fixpoint alias_first (ty : string) (v : tok * list string) (cs : list (option fcoll)) : list (option fcoll) :=
  match cs with
  | [] => []
  | Some c :: cs' => if mem ty c then Some (insert ty v c) :: cs' else Some c :: alias_first ty v cs'
  | None :: cs' => None :: alias_first ty v cs'
  end.
Definition inputs_after_legacy (merged : option fcoll) (cs : list (option fcoll)) : list (option fcoll) :=
  match merged with
  | None => cs
  | Some m => fold_left (fun acc e => alias_first (fst e) (snd e) acc) m cs
  end.

(* ------------------------------------------------------------------ correspondence *)
(* order-insensitive comparisons: the implementation's containers are dicts and sets *)
Definition sub_al {K V} `{EqDec K} `{EqDec V} (a b : al K V) : bool :=
  forallb (fun kv => eqb (lookup (fst kv) b) (Some (snd kv))) a.
Definition al_same {K V} `{EqDec K} `{EqDec V} (a b : al K V) : bool :=
  sub_al a b && sub_al b a && Nat.eqb (List.length a) (List.length b).
Definition set_same {K} `{EqDec K} (a b : list K) : bool :=
  forallb (fun x => memb x b) a && forallb (fun x => memb x a) b.
Definition opt_same {A} (f : A -> A -> bool) (a b : option A) : bool :=
  match a, b with Some x, Some y => f x y | None, None => true | _, _ => false end.

Definition sub_nested (a b : @nested tkey string tok) : bool :=
  forallb (fun e => match lookup (fst e) b with Some s => al_same (snd e) s | None => false end) a.
Definition nested_same (a b : @nested tkey string tok) : bool :=
  sub_nested a b && sub_nested b a && Nat.eqb (List.length a) (List.length b).

Definition sub_fcoll (a b : fcoll) : bool :=
  forallb (fun e => match lookup (fst e) b with
                    | Some v => eqb (fst (snd e)) (fst v) && set_same (snd (snd e)) (snd v)
                    | None => false end) a.
Definition fcoll_same (a b : fcoll) : bool := sub_fcoll a b && sub_fcoll b a && Nat.eqb (List.length a) (List.length b).
Definition sub_mcoll (a b : mcoll) : bool :=
  forallb (fun e => match lookup (fst e) b with Some v => set_same (snd e) v | None => false end) a.
Definition mcoll_same (a b : mcoll) : bool := sub_mcoll a b && sub_mcoll b a && Nat.eqb (List.length a) (List.length b).

Definition all_t (f : tpart -> bool) : bool := f TTraj && f TGnss && f TAccel && f TGyro && f TMag.
Definition all_r (f : rpart -> bool) : bool := f RCam && f RDepth && f RLidar.
Definition all_n (f : npart -> bool) : bool := f NWifi && f NBt.
Definition all_i (f : ipart -> bool) : bool := f IKp && f IDesc && f IGf.

Definition kdata_same (a b : kdata) : bool :=
  opt_same al_same (k_sensors a) (k_sensors b) && opt_same al_same (k_rigs a) (k_rigs b)
  && all_t (fun p => opt_same al_same (k_tab a p) (k_tab b p))
  && all_r (fun p => opt_same al_same (k_rec a p) (k_rec b p))
  && all_n (fun p => opt_same nested_same (k_sig a p) (k_sig b p))
  && all_i (fun p => opt_same fcoll_same (k_feat a p) (k_feat b p))
  && opt_same mcoll_same (k_matches a) (k_matches b).

Definition ostore_same (a b : ostore) : bool :=
  al_same (o_rec a) (o_rec b) && all_i (fun p => al_same (o_feat a p) (o_feat b p)) && al_same (o_match a) (o_match b).

Inductive observed :=
| ORet (d : kdata) (files : ostore)          (* returned dataset (canonicalised) and the output directory *)
| ORaise (e : error).

Record case := {
  c_skip : list part;
  c_strategy : strategy;
  c_has_out : bool;                 (* an output directory was given (kapture_path is not '') *)
  c_inputs : list input;
  c_obs : observed;
  c_inputs_unchanged : bool;        (* deep snapshot of the input datasets before = after *)
}.

(* inputs the harness may encode: python dicts have unique keys *)
Definition nodup_keys {K V} `{EqDec K} (m : al K V) : bool := Nat.eqb (List.length (dedup (keys m))) (List.length m).
Definition input_ok (i : input) : bool :=
  all_n (fun p => match k_sig (fst i) p with
                  | Some m => nodup_keys m && forallb (fun e => nodup_keys (snd e)) m
                  | None => true end).

(* record kinds share one folder (sensors/records_data); the model does not follow a file name that is
   listed by two different kinds (camera image = depth map), which no real dataset does *)
Definition kind_names (ins : list input) (r : rpart) : list string :=
  flat_map (fun i => rec_names (k_rec (fst i) r)) ins.
Definition disjointb (a b : list string) : bool := forallb (fun x => negb (memb x b)) a.
Definition kinds_disjoint (ins : list input) : bool :=
  disjointb (kind_names ins RCam) (kind_names ins RDepth)
  && disjointb (kind_names ins RCam) (kind_names ins RLidar)
  && disjointb (kind_names ins RDepth) (kind_names ins RLidar).

Definition check_case (c : case) : bool :=
  forallb input_ok (c_inputs c) && kinds_disjoint (c_inputs c) &&
  (* without an output directory the record transfer would write relative to the working directory:
     only the skip strategy is inside the modelled domain then *)
  (c_has_out c || match c_strategy c with SSkip => true | _ => false end) &&
  match merge_keep (c_skip c) (c_strategy c) (c_has_out c) (c_inputs c), c_obs c with
  | Ok (d, f), ORet d' f' => kdata_same d d' && ostore_same f f' && c_inputs_unchanged c
  | Err e, ORaise e' => error_eqb e e' && c_inputs_unchanged c
  | _, _ => false
  end.
