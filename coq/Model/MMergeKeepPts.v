(* Model/MMergeKeepPts.v — property C09, the last block of merge_keep_ids: 3-D points and observations.
   Definitions only; proofs are in Proofs/PMergeKeepPts.v.

       if Points3d not in skip_list and Observations not in skip_list:
           new_points, new_observations = merge_points3d_and_observations([(k.points3d, k.observations) ...])
           merged.points3d = get_new_if_not_empty(new_points, None); merged.observations = get_new_if_not_empty(...)
       elif Points3d not in skip_list:
           merged.points3d = get_new_if_not_empty(merge_points3d([k.points3d ...]), None)

   together with merge_reconstruction._append_points3d / merge_points3d_and_observations / merge_points3d.
   - a cloud (kapture.Points3d) is its column count (3 = xyz, 6 = xyz+rgb) and its rows, a row being an opaque
     token: the merge never computes on coordinates.  An empty cloud still has a column count (shape (0, w)).
   - kapture.Observations only groups (point, keypoints type) -> [(image, keypoint)]; it is modelled by the list
     kapture.flatten() yields, and compared as a multiset.
   - the ValueError raised when two non-empty clouds differ in column count is the outcome [PErrShape].
   [merge_keep_x] is the whole of merge_keep_ids: MMergeKeep.merge_keep, then this block (it runs last). *)
From Coq Require Import List Bool String ZArith.
From KV Require Import Eqb AL Str.
From KV.Model Require Import MMergeKeep.
Import ListNotations.
Local Open Scope Z_scope.

Record cloud := mkCloud { width : Z; rows : list tok }.
Definition otuple : Type := Z * string * string * Z.      (* point index, keypoints type, image, keypoint index *)
Definition olist := list otuple.                            (* kapture.flatten(observations) *)
Definition pinput : Type := option cloud * option olist.   (* (kapture.points3d, kapture.observations) *)

Inductive presult (A : Type) := POk (a : A) | PErrShape.
Arguments POk {A} a.
Arguments PErrShape {A}.

Definition isnil {A} (l : list A) : bool := match l with [] => true | _ => false end.

Definition shift (off : Z) (x : otuple) : otuple :=
  match x with (k, t, img, f) => (k + off, t, img, f) end.

(* _append_points3d: None = nothing merged yet; an empty cloud does not impose its column count and is not
   looked at further; otherwise the column counts must agree *)
Definition append_points (acc : option cloud) (c : cloud) : presult cloud :=
  match acc with
  | None => POk c
  | Some m =>
      if isnil (rows m) && negb (isnil (rows c)) then POk c
      else if isnil (rows c) then POk m
      else if negb (width m =? width c) then PErrShape
      else POk (mkCloud (width m) (rows m ++ rows c))
  end.

(* what the code would do without the `if points3d.shape[0] == 0: return merged` shortcut (np.vstack insists
   on equal column counts even for 0 rows) *)
Definition append_points_strict (acc : option cloud) (c : cloud) : presult cloud :=
  match acc with
  | None => POk c
  | Some m =>
      if isnil (rows m) && negb (isnil (rows c)) then POk c
      else if negb (width m =? width c) then PErrShape
      else POk (mkCloud (width m) (rows m ++ rows c))
  end.

Definition rows_of (acc : option cloud) : list tok := match acc with None => [] | Some m => rows m end.
Definition npoints (acc : option cloud) : Z := Z.of_nat (List.length (rows_of acc)).

(* kapture.Points3d() : shape (0, 6) *)
Definition default_cloud := mkCloud 6 [].
Definition finish (acc : option cloud) : cloud := match acc with None => default_cloud | Some m => m end.

Section Append.
  Variable app : option cloud -> cloud -> presult cloud.

  (* merge_points3d_and_observations: an input without points is skipped altogether (its observations designate
     no coordinates; it contributes no offset); offset = number of points merged before this input *)
  Fixpoint merge_po_from (acc : option cloud) (mo : olist) (ins : list pinput) : presult (option cloud * olist) :=
    match ins with
    | [] => POk (acc, mo)
    | (None, _) :: rest => merge_po_from acc mo rest
    | (Some c, oo) :: rest =>
        match app acc c with
        | PErrShape => PErrShape
        | POk m => merge_po_from (Some m)
                     (match oo with None => mo | Some o => mo ++ map (shift (npoints acc)) o end) rest
        end
    end.

  (* merge_points3d *)
  Fixpoint merge_p_from (acc : option cloud) (cs : list (option cloud)) : presult (option cloud) :=
    match cs with
    | [] => POk acc
    | None :: rest => merge_p_from acc rest
    | Some c :: rest =>
        match app acc c with
        | PErrShape => PErrShape
        | POk m => merge_p_from (Some m) rest
        end
    end.

  (* get_new_if_not_empty: Points3d.__bool__ is shape[0] > 0, an empty Observations dict is falsy *)
  Definition some_if_rows (c : cloud) : option cloud := if isnil (rows c) then None else Some c.
  Definition some_if_obs (o : olist) : option olist := if isnil o then None else Some o.

  Definition pdriver_gen (skip_points skip_obs : bool) (ins : list pinput) : presult (option cloud * option olist) :=
    if negb skip_points && negb skip_obs then
      match merge_po_from None [] ins with
      | POk (acc, mo) => POk (some_if_rows (finish acc), some_if_obs mo)
      | PErrShape => PErrShape
      end
    else if negb skip_points then
      match merge_p_from None (map fst ins) with
      | POk acc => POk (some_if_rows (finish acc), None)
      | PErrShape => PErrShape
      end
    else POk (None, None).
End Append.

Definition pdriver := pdriver_gen append_points.
Definition pdriver_strict := pdriver_gen append_points_strict.

(* ------------------------------------------------------------------ specification side *)
Definition count_in (x : pinput) : Z := match fst x with Some c => Z.of_nat (List.length (rows c)) | None => 0 end.
Definition all_rows (ins : list pinput) : list tok :=
  flat_map (fun x => match fst x with Some c => rows c | None => [] end) ins.
(* the observations of the inputs that have points, re-indexed by the number of points of the earlier inputs *)
Fixpoint spec_obs (off : Z) (ins : list pinput) : olist :=
  match ins with
  | [] => []
  | x :: rest =>
      (match x with (Some _, Some o) => map (shift off) o | _ => [] end) ++ spec_obs (off + count_in x) rest
  end.
Definition nonempty_clouds (ins : list pinput) : list cloud :=
  flat_map (fun x => match fst x with Some c => if isnil (rows c) then [] else [c] | None => [] end) ins.
(* an input whose points3d part is present but holds no point (any column count), without observations *)
Definition empty_input (w : Z) : pinput := (Some (mkCloud w []), None).

(* ------------------------------------------------------------------ the whole of merge_keep_ids *)
Inductive xerror := XBase (e : error) | XShape.
Inductive xresult := XOk (d : kdata) (f : ostore) (pc : option cloud) (po : option olist) | XErr (e : xerror).

Definition merge_keep_x (skip : list part) (st : strategy) (has_out : bool) (ins : list input) (pins : list pinput)
  : xresult :=
  match merge_keep skip st has_out ins with
  | Err e => XErr (XBase e)
  | Ok (d, f) =>
      match pdriver (skipped skip PPoints) (skipped skip PObs) pins with
      | PErrShape => XErr XShape
      | POk (pc, po) => XOk d f pc po
      end
  end.

(* ------------------------------------------------------------------ correspondence *)
Fixpoint remove_one {A} `{EqDec A} (x : A) (l : list A) : option (list A) :=
  match l with
  | [] => None
  | y :: l' => if eqb x y then Some l' else match remove_one x l' with Some r => Some (y :: r) | None => None end
  end.
Fixpoint perm_eqb {A} `{EqDec A} (l m : list A) : bool :=
  match l with
  | [] => isnil m
  | x :: l' => match remove_one x m with Some m' => perm_eqb l' m' | None => false end
  end.

(* rows in order (observations refer to row numbers), observations as a multiset *)
Definition cloud_same (a b : cloud) : bool := (width a =? width b) && eqb (rows a) (rows b).

Inductive pobserved :=
| PRet (pc : option cloud) (po : option olist)    (* points3d / observations of the returned dataset *)
| PNotReached                                     (* the merge raised before this block *)
| PRaiseShape.                                    (* ValueError out of _append_points3d *)

Record casex := {
  x_base : case;                      (* everything MMergeKeep models; c_obs is ignored when PRaiseShape *)
  x_points : list pinput;             (* one per input, same order as c_inputs *)
  x_pobs : pobserved;
}.

Definition guards (c : case) : bool :=
  forallb input_ok (c_inputs c) && kinds_disjoint (c_inputs c) &&
  (c_has_out c || match c_strategy c with SSkip => true | _ => false end).

Definition check_casex (x : casex) : bool :=
  let c := x_base x in
  Nat.eqb (List.length (x_points x)) (List.length (c_inputs c)) &&
  match merge_keep_x (c_skip c) (c_strategy c) (c_has_out c) (c_inputs c) (x_points x), x_pobs x with
  | XOk _ _ pc po, PRet pc' po' =>
      check_case c && opt_same cloud_same pc pc' && opt_same perm_eqb po po'
  | XErr (XBase _), PNotReached => check_case c
  | XErr XShape, PRaiseShape => guards c && c_inputs_unchanged c
  | _, _ => false
  end.
