(* Model/MMergeRecon.v — executable model of kapture.algo.merge_reconstruction (property C11):
   merge_points3d_and_observations, merge_points3d, the reconstruction part of the merge drivers
   (merge_remap / merge_keep_ids: skip list, "keep None when empty") and the transfer of feature and
   match files (copy from a directory, re-serialise from a tar archive).  Definitions only; the proofs
   are in Proofs/PMergeRecon.v.

   Modelling choices
   - a coordinate is an opaque token (the 64 bits of the float64 as a Z): merging never computes on
     coordinates, only bit-identity matters;
   - a cloud is its column count (3 = xyz, 6 = xyz+rgb) and its rows; an empty cloud still has a
     column count (numpy shape (0, w));
   - Observations is the nested insertion-ordered dict  point -> keypoints type -> [(image, feature)]
     with [obs_add] = setdefault(..).setdefault(..).append(..);  [flatten] is kapture.flatten;
   - the ValueError raised on clouds of different column counts is the outcome [ErrShape]. *)
From Coq Require Import List Bool String ZArith.
From KV Require Import Eqb AL Str.
Import ListNotations.
Local Open Scope Z_scope.

Definition row := list Z.
Record cloud := mkCloud { width : Z; rows : list row }.

Definition otuple : Type := Z * string * string * Z.      (* point index, keypoints type, image, feature index *)
Definition inner := al string (list (string * Z)).
Definition obs := al Z inner.
Definition input : Type := option cloud * option obs.

Inductive result (A : Type) := Ok (a : A) | ErrShape.
Arguments Ok {A} a.
Arguments ErrShape {A}.

Definition isnil {A} (l : list A) : bool := match l with [] => true | _ => false end.
Definition get_or {K V} `{EqDec K} (k : K) (m : al K V) (d : V) : V :=
  match lookup k m with Some v => v | None => d end.

(* Observations.add *)
Definition obs_add (k : Z) (t : string) (e : string * Z) (m : obs) : obs :=
  let inn := get_or k m [] in
  insert k (insert t (get_or t inn [] ++ [e]) inn) m.

(* kapture.flatten(observations), in dict order *)
Definition flat_inner (k : Z) (inn : inner) : list otuple :=
  flat_map (fun tl => map (fun e => (k, fst tl, fst e, snd e)) (snd tl)) inn.
Definition flatten (m : obs) : list otuple := flat_map (fun ki => flat_inner (fst ki) (snd ki)) m.

Definition shift (off : Z) (x : otuple) : otuple :=
  match x with (k, t, img, f) => (k + off, t, img, f) end.

(* for ... in kapture.flatten(observations): merged.add(idx + offset, type, image, feature) *)
Definition add_all (off : Z) (l : list otuple) (acc : obs) : obs :=
  fold_left (fun a x => match x with (k, t, img, f) => obs_add (k + off) t (img, f) a end) l acc.
Definition shift_add (off : Z) (o : obs) (acc : obs) : obs := add_all off (flatten o) acc.

(* _append_points3d (repaired code): None = nothing merged yet; an empty cloud does not impose its
   column count; otherwise the column counts must agree *)
Definition append_points (acc : option cloud) (c : cloud) : result cloud :=
  match acc with
  | None => Ok c
  | Some m =>
      if isnil (rows m) && negb (isnil (rows c)) then Ok c
      else if isnil (rows c) then Ok m
      else if negb (width m =? width c) then ErrShape
      else Ok (mkCloud (width m) (rows m ++ rows c))
  end.

Definition rows_of (acc : option cloud) : list row := match acc with None => [] | Some m => rows m end.
Definition npoints (acc : option cloud) : Z := Z.of_nat (List.length (rows_of acc)).

(* kapture.Points3d() : shape (0, 6) *)
Definition default_cloud := mkCloud 6 [].
Definition finish (acc : option cloud) : cloud := match acc with None => default_cloud | Some m => m end.

(* merge_points3d_and_observations: an input without points is skipped altogether (its observations,
   if any, designate no coordinates and are dropped; it contributes no offset) *)
Fixpoint merge_po_from (acc : option cloud) (mo : obs) (ins : list input) : result (option cloud * obs) :=
  match ins with
  | [] => Ok (acc, mo)
  | (None, _) :: rest => merge_po_from acc mo rest
  | (Some c, oo) :: rest =>
      match append_points acc c with
      | ErrShape => ErrShape
      | Ok m => merge_po_from (Some m)
                  (match oo with None => mo | Some o => shift_add (npoints acc) o mo end) rest
      end
  end.
Definition merge_po (ins : list input) : result (cloud * obs) :=
  match merge_po_from None [] ins with
  | Ok (acc, mo) => Ok (finish acc, mo)
  | ErrShape => ErrShape
  end.

(* merge_points3d *)
Fixpoint merge_p_from (acc : option cloud) (cs : list (option cloud)) : result (option cloud) :=
  match cs with
  | [] => Ok acc
  | None :: rest => merge_p_from acc rest
  | Some c :: rest =>
      match append_points acc c with
      | ErrShape => ErrShape
      | Ok m => merge_p_from (Some m) rest
      end
  end.
Definition merge_p (cs : list (option cloud)) : result cloud :=
  match merge_p_from None cs with Ok acc => Ok (finish acc) | ErrShape => ErrShape end.

(* ---- the code before the repair: the accumulator started as the 0x6 default cloud and every input
        was stacked on it with np.vstack, which insists on equal column counts (even for 0 rows) *)
Definition append_points_legacy (m c : cloud) : result cloud :=
  if negb (width m =? width c) then ErrShape else Ok (mkCloud (width m) (rows m ++ rows c)).
Fixpoint merge_p_from_legacy (m : cloud) (cs : list (option cloud)) : result cloud :=
  match cs with
  | [] => Ok m
  | None :: rest => merge_p_from_legacy m rest
  | Some c :: rest =>
      match append_points_legacy m c with
      | ErrShape => ErrShape
      | Ok m' => merge_p_from_legacy m' rest
      end
  end.
Definition merge_p_legacy (cs : list (option cloud)) : result cloud := merge_p_from_legacy default_cloud cs.
Fixpoint merge_po_from_legacy (m : cloud) (mo : obs) (ins : list input) : result (cloud * obs) :=
  match ins with
  | [] => Ok (m, mo)
  | (None, _) :: rest => merge_po_from_legacy m mo rest
  | (Some c, oo) :: rest =>
      match append_points_legacy m c with
      | ErrShape => ErrShape
      | Ok m' => merge_po_from_legacy m'
                   (match oo with None => mo | Some o => shift_add (Z.of_nat (List.length (rows m))) o mo end) rest
      end
  end.
Definition merge_po_legacy (ins : list input) : result (cloud * obs) := merge_po_from_legacy default_cloud [] ins.

(* ---- reconstruction part of the drivers merge_remap / merge_keep_ids (identical text in both):
        skip list, and get_new_if_not_empty (an empty result leaves the part at None) *)
Definition some_if_rows (c : cloud) : option cloud := if isnil (rows c) then None else Some c.
Definition some_if_obs (o : obs) : option obs := if isnil o then None else Some o.
Definition driver (skip_points skip_obs : bool) (ins : list input) : result (option cloud * option obs) :=
  if negb skip_points && negb skip_obs then
    match merge_po ins with
    | Ok (c, o) => Ok (some_if_rows c, some_if_obs o)
    | ErrShape => ErrShape
    end
  else if negb skip_points then
    match merge_p (map fst ins) with
    | Ok c => Ok (some_if_rows c, None)
    | ErrShape => ErrShape
    end
  else Ok (None, None).

(* ---- specification side (used by the theorems and by nothing executable above) *)
Definition count_in (x : input) : nat := match fst x with Some c => List.length (rows c) | None => 0%nat end.
(* number of points contributed by the inputs before position i *)
Definition offset (ins : list input) (i : nat) : nat := fold_right Nat.add 0%nat (map count_in (firstn i ins)).
Definition all_rows (ins : list input) : list row :=
  flat_map (fun x => match fst x with Some c => rows c | None => [] end) ins.
Fixpoint spec_obs (off : nat) (ins : list input) : list otuple :=
  match ins with
  | [] => []
  | x :: rest =>
      (match x with (Some _, Some o) => map (shift (Z.of_nat off)) (flatten o) | _ => [] end)
      ++ spec_obs (off + count_in x) rest
  end.
(* the observations of one (point, keypoints type), in order *)
Definition obs_at (k : Z) (t : string) (l : list otuple) : list (string * Z) :=
  map (fun x => (snd (fst x), snd x))
      (List.filter (fun x => eqb (fst (fst (fst x))) k && eqb (snd (fst (fst x))) t) l).
Definition nonempty_clouds (ins : list input) : list cloud :=
  flat_map (fun x => match fst x with Some c => if isnil (rows c) then [] else [c] | None => [] end) ins.
Definition clouds (ins : list input) : list cloud :=
  flat_map (fun x => match fst x with Some c => [c] | None => [] end) ins.

(* ---- transfer of feature / match files.  One entry = one file of one input, named by its path
        relative to the dataset root (the same path in input and output); [f_tar] says the input keeps
        that feature type in a tar archive; [f_unit] = itemsize * dsize, the bytes of one row. *)
Record fentry := mkF { f_path : string; f_tar : bool; f_unit : Z; f_data : string }.

(* [f_data] is the content a reader gets through the input path (a feature file may be a symbolic link, relative
   or absolute, to a store elsewhere; its directory may be a link): shutil.copy follows links, so the merged
   file holds that content whatever the depth of the output directory.
   directory source: shutil.copy.  tar source: np.frombuffer(member, dtype).reshape((-1, dsize)) then
   ndarray.tofile: identical bytes when the member holds whole rows, ValueError otherwise *)
Definition transfer (e : fentry) : option string :=
  if f_tar e then
    if (0 <? f_unit e) && (Z.of_nat (String.length (f_data e)) mod f_unit e =? 0) then Some (f_data e) else None
  else Some (f_data e).

Fixpoint merge_input_files (out : al string string) (es : list fentry) : option (al string string) :=
  match es with
  | [] => Some out
  | e :: es' =>
      if mem (f_path e) out then merge_input_files out es'          (* "was found multiple times": first wins *)
      else match transfer e with
           | Some b => merge_input_files (insert (f_path e) b out) es'
           | None => None
           end
  end.
Fixpoint merge_files_from (out : al string string) (ins : list (list fentry)) : option (al string string) :=
  match ins with
  | [] => Some out
  | es :: rest =>
      match merge_input_files out es with
      | Some out' => merge_files_from out' rest
      | None => None
      end
  end.
Definition merge_files (ins : list (list fentry)) : option (al string string) := merge_files_from [] ins.

(* ---- the same transfer, seen on the destination directory.  [fs] is the feature tree of the destination
        BEFORE the merge (left there by an earlier merge, an interrupted copy, ...); [seen] the names merged so
        far (the merged Keypoints / Descriptors / GlobalFeatures / Matches set, which starts empty whatever the
        destination holds).  shutil.copy and ndarray.tofile both replace an existing file: [insert] overwrites. *)
Fixpoint merge_input_onto (seen : list string) (fs : al string string) (es : list fentry)
  : option (list string * al string string) :=
  match es with
  | [] => Some (seen, fs)
  | e :: es' =>
      if memb (f_path e) seen then merge_input_onto seen fs es'
      else match transfer e with
           | Some b => merge_input_onto (f_path e :: seen) (insert (f_path e) b fs) es'
           | None => None
           end
  end.
Fixpoint merge_onto_from (seen : list string) (fs : al string string) (ins : list (list fentry))
  : option (list string * al string string) :=
  match ins with
  | [] => Some (seen, fs)
  | es :: rest =>
      match merge_input_onto seen fs es with
      | Some (seen', fs') => merge_onto_from seen' fs' rest
      | None => None
      end
  end.
Definition merge_files_onto (dest : al string string) (ins : list (list fentry)) : option (al string string) :=
  match merge_onto_from [] dest ins with Some (_, fs) => Some fs | None => None end.

(* ---- tar archives (kapture.io.tar.TarHandler).  An archive is the list of its members in archive order; a member is
        its name (after path_secure: "./a.kpt" and "a.kpt" are one name) and its bytes when it is a regular file,
        None for any other entry (an archive made with the tar command also holds the directories).  kapture archives
        are append-only: re-computed features are written again under the same name (add_array_to_tar = [tar_append]),
        "the last occurrence is the most up to date one".
        [tar_index] is  {path_secure(c.name): c for c in getmembers()}  : a later member replaces the value kept for
        its name (and keeps the position of the first one: Python dict);  [tar_read] is get_array_from_tar's lookup
        followed by extractfile(info).read() (a directory entry has nothing to read). *)
Definition tmember : Type := string * option string.
Definition archive := list tmember.
Definition tar_index (a : archive) : al string (option string) :=
  fold_left (fun m e => insert (fst e) (snd e) m) a [].
Definition tar_read (a : archive) (n : string) : option string :=
  match lookup n (tar_index a) with Some (Some d) => Some d | _ => None end.
Definition tar_names (a : archive) : list string := keys (tar_index a).
Definition tar_append (a : archive) (n d : string) : archive := a ++ [(n, Some d)].

(* the index a reader must NOT build: keep the first member of a name (the oldest, superseded version) *)
Definition tar_index_first (a : archive) : al string (option string) :=
  fold_left (fun m e => insert_new (fst e) (snd e) m) a [].
Definition tar_read_first (a : archive) (n : string) : option string :=
  match lookup n (tar_index_first a) with Some (Some d) => Some d | _ => None end.

(* where a feature / match file of an input comes from: a file below the dataset directory (content as read through
   the path), or member [m] of the k-th archive of that input *)
Inductive fsource :=
| InDir (p : string) (u : Z) (d : string)
| InTar (p : string) (u : Z) (k : nat) (m : string).
Definition src_path (s : fsource) : string := match s with InDir p _ _ => p | InTar p _ _ _ => p end.

Definition resolve (ar : list archive) (s : fsource) : option fentry :=
  match s with
  | InDir p u d => Some (mkF p false u d)
  | InTar p u k m =>
      match nth_error ar k with
      | Some a => match tar_read a m with Some d => Some (mkF p true u d) | None => None end
      | None => None
      end
  end.
Fixpoint resolve_list (ar : list archive) (ss : list fsource) : option (list fentry) :=
  match ss with
  | [] => Some []
  | s :: ss' => match resolve ar s, resolve_list ar ss' with
                | Some e, Some es => Some (e :: es)
                | _, _ => None
                end
  end.
Fixpoint resolve_inputs (archs : list (list archive)) (srcs : list (list fsource)) : option (list (list fentry)) :=
  match archs, srcs with
  | [], [] => Some []
  | ar :: archs', ss :: srcs' => match resolve_list ar ss, resolve_inputs archs' srcs' with
                                 | Some es, Some r => Some (es :: r)
                                 | _, _ => None
                                 end
  | _, _ => None
  end.
(* the merge of feature / match files, from what the inputs hold on disk (directories and raw archives) *)
Definition merge_sources (archs : list (list archive)) (srcs : list (list fsource)) : option (al string string) :=
  match resolve_inputs archs srcs with Some fs => merge_files fs | None => None end.
Definition merge_sources_onto (dest : al string string) (archs : list (list archive)) (srcs : list (list fsource))
  : option (al string string) :=
  match resolve_inputs archs srcs with Some fs => merge_files_onto dest fs | None => None end.

(* ---- correspondence *)
Fixpoint remove_one {A} `{EqDec A} (x : A) (l : list A) : option (list A) :=
  match l with
  | [] => None
  | y :: l' => if eqb x y then Some l' else
                 match remove_one x l' with Some r => Some (y :: r) | None => None end
  end.
Fixpoint perm_eqb {A} `{EqDec A} (l m : list A) : bool :=
  match l with
  | [] => isnil m
  | x :: l' => match remove_one x m with Some m' => perm_eqb l' m' | None => false end
  end.

Fixpoint nodupb (l : list string) : bool :=
  match l with [] => true | x :: l' => negb (memb x l') && nodupb l' end.

Definition cloud_eqb (c : cloud) (w : Z) (rs : list row) : bool := (width c =? w) && eqb (rows c) rs.

(* what the library functions were observed to do: None = ValueError *)
Definition obs_po := option (Z * list row * list otuple).
Definition obs_p := option (Z * list row).

Definition check_po (ins : list input) (o : obs_po) : bool :=
  match merge_po ins, o with
  | Ok (c, mo), Some (w, rs, tuples) => cloud_eqb c w rs && perm_eqb (flatten mo) tuples
  | ErrShape, None => true
  | _, _ => false
  end.
Definition check_p (ins : list input) (o : obs_p) : bool :=
  match merge_p (map fst ins), o with
  | Ok c, Some (w, rs) => cloud_eqb c w rs
  | ErrShape, None => true
  | _, _ => false
  end.

(* what the tool (tools/kapture_merge.py merge_kaptures) left in the output directory:
   None = it raised; otherwise (points3d file, observations file, feature/match files) *)
Definition obs_tool := option (option (Z * list row) * option (list otuple) * list (string * string)).

Fixpoint files_agree (model : al string string) (seen : list (string * string)) : bool :=
  match seen with
  | [] => true
  | (p, b) :: rest => eqb (lookup p model) (Some b) && negb (memb p (map fst rest)) && files_agree model rest
  end.

Definition check_tool (skip_points skip_obs : bool) (ins : list input) (archs : list (list archive))
           (srcs : list (list fsource)) (o : obs_tool) : bool :=
  match driver skip_points skip_obs ins, merge_sources archs srcs, o with
  | Ok (oc, oo), Some fs, Some (pts, tuples, seen) =>
      (match oc, pts with
       | Some c, Some (w, rs) => cloud_eqb c w rs
       | None, None => true
       | _, _ => false
       end)
      && (match oo, tuples with
          | Some mo, Some l => perm_eqb (flatten mo) l
          | None, None => true
          | _, _ => false
          end)
      && files_agree fs seen && (Nat.eqb (List.length fs) (List.length seen))
  | Ok _, Some _, None => false
  | _, _, None => true          (* a shape error or a truncated tar member: the tool raises *)
  | _, _, Some _ => false
  end.

(* a merge of feature / match files (library functions) into a destination that already holds [dest];
   observed: the whole feature tree of the destination afterwards, or None = it raised *)
Definition check_remerge (dest : list (string * string)) (archs : list (list archive)) (srcs : list (list fsource))
           (o : option (list (string * string))) : bool :=
  match merge_sources_onto dest archs srcs, o with
  | Some fs, Some seen => files_agree fs seen && Nat.eqb (List.length fs) (List.length seen)
  | None, None => true
  | _, _ => false
  end.

(* what kapture's own TarHandler, opened for reading, lists for an archive (list_files_in_tar) and returns for each listed
   name (get_array_from_tar): the (name, bytes) of the regular files, compared as a set with the index of the raw members *)
Definition regular (m : al string (option string)) : list (string * string) :=
  flat_map (fun e => match snd e with Some d => [(fst e, d)] | None => [] end) m.
Definition index_agrees (a : archive) (seen : list (string * string)) : bool := perm_eqb (regular (tar_index a)) seen.
Fixpoint all2 {A B} (f : A -> B -> bool) (l : list A) (m : list B) : bool :=
  match l, m with
  | [], [] => true
  | x :: l', y :: m' => f x y && all2 f l' m'
  | _, _ => false
  end.
Definition tar_listing := list (list (list (string * string))).

Inductive case :=
| CaseLib (ins : list input) (o_po : obs_po) (o_p : obs_p)
| CaseTool (skip_points skip_obs : bool) (ins : list input) (archs : list (list archive)) (idx : tar_listing)
           (srcs : list (list fsource)) (o : obs_tool)
| CaseRemerge (dest : list (string * string)) (archs : list (list archive)) (idx : tar_listing) (srcs : list (list fsource))
              (o : option (list (string * string))).

(* every source of a case must be there (a member named by the case exists in its archive as a regular file):
   otherwise the case itself is malformed and is rejected *)
Definition sources_ok (archs : list (list archive)) (srcs : list (list fsource)) : bool :=
  match resolve_inputs archs srcs with Some _ => true | None => false end.

Definition check_case (c : case) : bool :=
  match c with
  | CaseLib ins o1 o2 => check_po ins o1 && check_p ins o2
  | CaseTool sp so ins archs idx srcs o =>
      sources_ok archs srcs && all2 (all2 index_agrees) archs idx && check_tool sp so ins archs srcs o
  | CaseRemerge dest archs idx srcs o =>
      sources_ok archs srcs && all2 (all2 index_agrees) archs idx && nodupb (map fst dest) && check_remerge dest archs srcs o
  end.
