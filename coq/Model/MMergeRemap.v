(* Model/MMergeRemap.v — executable model of kapture.algo.merge_remap.merge_remap (property C10):
   fresh identifier generation (_compute_new_ids, get_sensors_mapping, get_rigs_mapping), the table
   merges (merge_table_key1/2/3 as repaired: every table is paired with the mapping of ITS OWN input,
   then missing tables are left out), merge_rigs, merge_trajectories (rig mapping first, then sensor
   mapping), the driver with its skip list and "an empty result stays None".
   Definitions only; proofs are in Proofs/PMergeRemap.v.

   Modelling choices
   - a table is an insertion-ordered association list from its composite key to an opaque value token:
       sensors       sensor id                      -> sensor
       rigs          (rig id, member id)            -> pose
       trajectories  (timestamp, device id)         -> pose
       records       (timestamp, sensor id)         -> record           (camera depth lidar gnss accel gyro magnetic)
       wifi/bt       (timestamp, sensor id, address)-> signal
     kapture nests dicts (timestamp -> sensor -> ...): nesting only changes the iteration order of the result,
     which the property does not constrain; the order that IS observable — the order of the sensors (and rigs)
     of an input, which numbers the fresh identifiers — is kept;
   - values are tokens: the merge never looks inside a sensor, pose or record;
   - mapping[id] on an unknown id is the outcome [ErrKey] (KeyError). *)
From Coq Require Import List Bool String ZArith NArith DecimalString DecimalN Decimal.
From KV Require Import Eqb AL Str.
Import ListNotations.
Local Open Scope string_scope.
Local Open Scope list_scope.

Inductive result (A : Type) := Ok (a : A) | ErrKey.
Arguments Ok {A} a.
Arguments ErrKey {A}.

Definition smap := al string string.

(* f'{n}' for a non-negative int *)
Definition dec (n : N) : string := NilEmpty.string_of_uint (N.to_uint n).
Definition fresh (prefix : string) (n : N) : string := (prefix ++ dec n)%string.

(* {k: f'sensor{v}' for k, v in zip(keys, range(offset, offset + len(keys)))} *)
Fixpoint mk_mapping (prefix : string) (ks : list string) (off : N) : smap :=
  match ks with
  | [] => []
  | k :: ks' => (k, fresh prefix off) :: mk_mapping prefix ks' (N.succ off)
  end.

Definition sensors_t := al string Z.
Definition rigs_t := al (string * string) Z.
Definition tab2 := al (Z * string) Z.
Definition tab3 := al (Z * string * string) Z.

(* rigs.keys(): the rig identifiers in the order they were first inserted *)
Definition rig_ids (r : rigs_t) : list string := dedup (map (fun e => fst (fst e)) r).

Inductive kind2 := KCamera | KDepth | KLidar | KGnss | KAccel | KGyro | KMag.
Inductive kind3 := KWifi | KBluetooth.
Definition all_kind2 := [KCamera; KDepth; KLidar; KGnss; KAccel; KGyro; KMag].
Definition all_kind3 := [KWifi; KBluetooth].

Record dataset := mkD {
  d_sensors : option sensors_t;
  d_rigs : option rigs_t;
  d_traj : option tab2;
  d_rec2 : kind2 -> option tab2;
  d_rec3 : kind3 -> option tab3
}.

(* _compute_new_ids: running offsets; an input without sensors (rigs) gets the empty mapping *)
Fixpoint new_ids (ds : list dataset) (soff roff : N) : list (smap * smap) :=
  match ds with
  | [] => []
  | d :: rest =>
      let sk := match d_sensors d with Some s => keys s | None => [] end in
      let rk := match d_rigs d with Some r => rig_ids r | None => [] end in
      (mk_mapping "rig" rk roff, mk_mapping "sensor" sk soff)
        :: new_ids rest (soff + N.of_nat (List.length sk)) (roff + N.of_nat (List.length rk))
  end.

(* ---- renaming of one key; None = KeyError.  First component of a mapping pair = rig mapping. *)
Definition rn1 (m : smap * smap) (s : string) : option string := lookup s (snd m).
Definition rn2 (m : smap * smap) (k : Z * string) : option (Z * string) :=
  match lookup (snd k) (snd m) with Some s' => Some (fst k, s') | None => None end.
Definition rn3 (m : smap * smap) (k : Z * string * string) : option (Z * string * string) :=
  match k with (ts, s, a) => match lookup s (snd m) with Some s' => Some (ts, s', a) | None => None end end.
(* merge_rigs: rig_mapping[rig_id] then sensor_mapping[sensor_id] *)
Definition rn_rig (m : smap * smap) (k : string * string) : option (string * string) :=
  match lookup (fst k) (fst m) with
  | Some r' => match lookup (snd k) (snd m) with Some s' => Some (r', s') | None => None end
  | None => None
  end.
(* merge_trajectories: the rig mapping is consulted first *)
Definition rn_traj (m : smap * smap) (k : Z * string) : option (Z * string) :=
  match lookup (snd k) (fst m) with
  | Some r' => Some (fst k, r')
  | None => match lookup (snd k) (snd m) with Some s' => Some (fst k, s') | None => None end
  end.

Section Tab.
  Context {K : Type} `{EqDec K}.
  Variable rn : smap * smap -> K -> option K.
  (* table_merged[key] = entry   (insert)   or   .setdefault(key3, entry)   (insert_new) *)
  Variable put : K -> Z -> al K Z -> al K Z.

  Fixpoint add_entries (m : smap * smap) (es : al K Z) (acc : al K Z) : result (al K Z) :=
    match es with
    | [] => Ok acc
    | (k, v) :: es' =>
        match rn m k with
        | None => ErrKey
        | Some k' => add_entries m es' (put k' v acc)
        end
    end.

  (* for table, mapping in zip(table_list, mappings): if table is None: continue; ... *)
  Fixpoint merge_tab (tabs : list (option (al K Z))) (maps : list (smap * smap)) (acc : al K Z) : result (al K Z) :=
    match tabs, maps with
    | ot :: tabs', m :: maps' =>
        match ot with
        | None => merge_tab tabs' maps' acc
        | Some t => match add_entries m t acc with
                    | ErrKey => ErrKey
                    | Ok acc' => merge_tab tabs' maps' acc'
                    end
        end
    | _, _ => Ok acc
    end.

  (* the code before the repair: the missing tables were removed BEFORE zipping with the mappings, so
     the j-th present table was renamed with the mapping of input j *)
  Definition present (tabs : list (option (al K Z))) : list (option (al K Z)) :=
    flat_map (fun ot => match ot with Some t => [Some t] | None => [] end) tabs.
  Definition merge_tab_legacy (tabs : list (option (al K Z))) (maps : list (smap * smap)) (acc : al K Z) :=
    merge_tab (present tabs) maps acc.

  (* specification side: what input i contributes *)
  Definition renamed (m : smap * smap) (t : al K Z) : list (option K * Z) := map (fun e => (rn m (fst e), snd e)) t.
End Tab.

Definition none_if_empty {A} (l : list A) : option (list A) := match l with [] => None | _ => Some l end.

Record skipset := mkSkip { sk_traj : bool; sk_rec2 : kind2 -> bool; sk_rec3 : kind3 -> bool }.

Record merged := mkM {
  m_sensors : option sensors_t;
  m_rigs : option rigs_t;
  m_traj : option tab2;
  m_rec2 : kind2 -> option tab2;
  m_rec3 : kind3 -> option tab3
}.

Definition ids_of (ds : list dataset) := new_ids ds 0 0.

Definition merge_sensors (ds : list dataset) : result sensors_t :=
  merge_tab rn1 insert (map d_sensors ds) (ids_of ds) [].
Definition merge_rigs (ds : list dataset) : result rigs_t :=
  merge_tab rn_rig insert (map d_rigs ds) (ids_of ds) [].
Definition merge_traj (ds : list dataset) : result tab2 :=
  merge_tab rn_traj insert (map d_traj ds) (ids_of ds) [].
Definition merge_rec2 (k : kind2) (ds : list dataset) : result tab2 :=
  merge_tab rn2 insert (map (fun d => d_rec2 d k) ds) (ids_of ds) [].
Definition merge_rec3 (k : kind3) (ds : list dataset) : result tab3 :=
  merge_tab rn3 insert_new (map (fun d => d_rec3 d k) ds) (ids_of ds) [].

Definition is_ok {A} (r : result A) : bool := match r with Ok _ => true | ErrKey => false end.
Definition part {A} (skipped : bool) (r : result (list A)) : option (list A) :=
  if skipped then None else match r with Ok t => none_if_empty t | ErrKey => None end.

(* merge_remap: sensors and rigs cannot be skipped; a KeyError in any merged part aborts the merge *)
Definition merge_remap (skip : skipset) (ds : list dataset) : result merged :=
  let ok :=
    is_ok (merge_sensors ds) && is_ok (merge_rigs ds)
    && (sk_traj skip || is_ok (merge_traj ds))
    && forallb (fun k => sk_rec2 skip k || is_ok (merge_rec2 k ds)) all_kind2
    && forallb (fun k => sk_rec3 skip k || is_ok (merge_rec3 k ds)) all_kind3 in
  if ok then
    Ok (mkM (part false (merge_sensors ds)) (part false (merge_rigs ds))
            (part (sk_traj skip) (merge_traj ds))
            (fun k => part (sk_rec2 skip k) (merge_rec2 k ds))
            (fun k => part (sk_rec3 skip k) (merge_rec3 k ds)))
  else ErrKey.

(* the unrepaired table merges (rigs and trajectories were not affected) *)
Definition merge_sensors_legacy (ds : list dataset) : result sensors_t :=
  merge_tab_legacy rn1 insert (map d_sensors ds) (ids_of ds) [].
Definition merge_rec2_legacy (k : kind2) (ds : list dataset) : result tab2 :=
  merge_tab_legacy rn2 insert (map (fun d => d_rec2 d k) ds) (ids_of ds) [].
Definition merge_rec3_legacy (k : kind3) (ds : list dataset) : result tab3 :=
  merge_tab_legacy rn3 insert_new (map (fun d => d_rec3 d k) ds) (ids_of ds) [].

(* ---- correspondence *)
Fixpoint remove_one {A} `{EqDec A} (x : A) (l : list A) : option (list A) :=
  match l with
  | [] => None
  | y :: l' => if eqb x y then Some l' else
                 match remove_one x l' with Some r => Some (y :: r) | None => None end
  end.
Fixpoint perm_eqb {A} `{EqDec A} (l m : list A) : bool :=
  match l with
  | [] => match m with [] => true | _ => false end
  | x :: l' => match remove_one x m with Some m' => perm_eqb l' m' | None => false end
  end.
Definition opt_perm_eqb {A} `{EqDec A} (a b : option (list A)) : bool :=
  match a, b with
  | Some l, Some m => perm_eqb l m
  | None, None => true
  | _, _ => false
  end.

(* every part is compared as a multiset of (key, value) entries: dict orders are not part of the property *)
Definition merged_eqb (a b : merged) : bool :=
  opt_perm_eqb (m_sensors a) (m_sensors b)
  && opt_perm_eqb (m_rigs a) (m_rigs b)
  && opt_perm_eqb (m_traj a) (m_traj b)
  && forallb (fun k => opt_perm_eqb (m_rec2 a k) (m_rec2 b k)) all_kind2
  && forallb (fun k => opt_perm_eqb (m_rec3 a k) (m_rec3 b k)) all_kind3.

Fixpoint nodupb {A} `{EqDec A} (l : list A) : bool :=
  match l with [] => true | x :: l' => negb (memb x l') && nodupb l' end.

(* ---- the caller's skip list as the object it is: a Python list of types handed to merge_remap by reference
   (tools/kapture_merge.py: a list of type names, then of types).  The code only READS it (`X not in skip_list`),
   so one call returns the merged dataset and leaves the list as it was; a caller may hand the same list to any
   number of merges.  [SkOther] = a type (name) the record merges never look at (Keypoints, ..., or anything). *)
Inductive skipname := SkTraj | SkRec2 (k : kind2) | SkRec3 (k : kind3) | SkOther (name : string).

Definition kind2_code (k : kind2) : N :=
  match k with KCamera => 1 | KDepth => 2 | KLidar => 3 | KGnss => 4 | KAccel => 5 | KGyro => 6 | KMag => 7 end%N.
Definition kind3_code (k : kind3) : N := match k with KWifi => 8 | KBluetooth => 9 end%N.
Definition skipname_code (x : skipname) : N * string :=
  match x with
  | SkTraj => (0%N, "")
  | SkRec2 k => (kind2_code k, "")
  | SkRec3 k => (kind3_code k, "")
  | SkOther s => (10%N, s)
  end.
Definition skipname_eqb (a b : skipname) : bool :=
  N.eqb (fst (skipname_code a)) (fst (skipname_code b)) && String.eqb (snd (skipname_code a)) (snd (skipname_code b)).
Definition sl_has (x : skipname) (sl : list skipname) : bool := existsb (skipname_eqb x) sl.
Fixpoint sl_eqb (a b : list skipname) : bool :=
  match a, b with
  | [], [] => true
  | x :: a', y :: b' => skipname_eqb x y && sl_eqb a' b'
  | _, _ => false
  end.

(* `kapture.X not in skip_list` for each of the ten skippable parts *)
Definition skipset_of (sl : list skipname) : skipset :=
  mkSkip (sl_has SkTraj sl) (fun k => sl_has (SkRec2 k) sl) (fun k => sl_has (SkRec3 k) sl).

(* one call: the result, and the caller's list after the call *)
Definition merge_remap_call (sl : list skipname) (ds : list dataset) : result merged * list skipname :=
  (merge_remap (skipset_of sl) ds, sl).

(* a session: successive merges of one process that are handed the SAME list object *)
Fixpoint session (sl : list skipname) (steps : list (list dataset)) : list (result merged * list skipname) :=
  match steps with
  | [] => []
  | ds :: rest => let r := merge_remap_call sl ds in r :: session (snd r) rest
  end.

(* a behaviour the code does NOT have, kept to show what the session cases are for: a call that "treats as
   skipped" the parts no input has, by appending them to the list it was handed *)
Definition all_none {A} (f : dataset -> option A) (ds : list dataset) : bool :=
  forallb (fun d => match f d with None => true | Some _ => false end) ds.
Definition parts_list (ct : bool) (c2 : kind2 -> bool) (c3 : kind3 -> bool) : list skipname :=
  (if ct then [SkTraj] else [])
  ++ flat_map (fun k => if c2 k then [SkRec2 k] else []) all_kind2
  ++ flat_map (fun k => if c3 k then [SkRec3 k] else []) all_kind3.
Definition absent_parts (ds : list dataset) : list skipname :=
  parts_list (all_none d_traj ds) (fun k => all_none (fun d => d_rec2 d k) ds) (fun k => all_none (fun d => d_rec3 d k) ds).
Fixpoint append_new (sl extra : list skipname) : list skipname :=
  match extra with
  | [] => sl
  | x :: extra' => append_new (if sl_has x sl then sl else sl ++ [x]) extra'
  end.
Definition mark_absent (sl : list skipname) (ds : list dataset) : list skipname := append_new sl (absent_parts ds).
Definition merge_remap_call_marking (sl : list skipname) (ds : list dataset) : result merged * list skipname :=
  (merge_remap (skipset_of (mark_absent sl ds)) ds, mark_absent sl ds).
Fixpoint session_marking (sl : list skipname) (steps : list (list dataset)) : list (result merged * list skipname) :=
  match steps with
  | [] => []
  | ds :: rest => let r := merge_remap_call_marking sl ds in r :: session_marking (snd r) rest
  end.

(* one observed call of a session *)
Record call_obs := mkCall {
  k_inputs : list dataset;
  k_observed : option merged;      (* None = the implementation raised KeyError *)
  k_skip_after : list skipname     (* the caller's skip list, read after the call *)
}.

(* a case = the skip list the caller built + the calls made with that same list object, in order (the last one is
   the merge the generator aimed at; every call is compared) *)
Record case := mkCase {
  c_skip : list skipname;
  c_calls : list call_obs
}.

Definition check_result (r : result merged) (o : option merged) : bool :=
  match r, o with
  | Ok m, Some o => merged_eqb m o
  | ErrKey, None => true
  | _, _ => false
  end.

Fixpoint check_calls (sl : list skipname) (calls : list call_obs) : bool :=
  match calls with
  | [] => true
  | c :: rest =>
      let r := merge_remap_call sl (k_inputs c) in
      check_result (fst r) (k_observed c) && sl_eqb (snd r) (k_skip_after c) && check_calls (snd r) rest
  end.

Definition check_case (c : case) : bool :=
  match c_calls c with [] => false | _ => check_calls (c_skip c) (c_calls c) end.
