(* Model/MOpenmvg.v — executable model of kapture.converter.openmvg.{export_openmvg,import_openmvg}
   (property C14).  Definitions only; proofs are in Proofs/POpenmvg.v.

   Modelled (conversion LOGIC between a kapture dataset and OpenMVG's sfm_data / regions / matches):
     export  view / pose / intrinsic ids by first occurrence in records_camera; image path of a view =
             name relative to the directory shared by all images, optionally flattened ('/' -> '_');
             intrinsics mapping of every kapture camera model (both JSON layouts: value0 / flat);
             centre = inverse(pose).t, rotation = matrix(r), written in views AND extrinsics;
             structure (key = point index, X, observations (view id, feature id)); regions file names;
             matches file (view id pairs + index pairs).
     import  cameras from intrinsics (both layouts); records (timestamp := view id, device := intrinsic id,
             name := basename(root_path)/local_path/filename); trajectories t = -R c, r = from_rotation_matrix R
             looked up through pose ids; regions found by the stem of the image basename; matches with the pair
             put in lexical order and the index columns swapped accordingly; structure with holes filled.
     the re-imported dataset is the one a user reads back with kapture_from_dir: observations of images
             without keypoints are dropped by the loader.
   Python dicts are association lists with overwrite ([al_of_list]); exceptions are outcomes (None).
   Image names are lists of path components (the harness splits on '/'); flattening, file stems and the
   lexical comparison of names work on the byte strings.
   Not modelled: JSON / cereal pointer bookkeeping, the "x" (2-D position) of an observation which the
   importer ignores, descriptor file contents (a token says whose keypoints / descriptors they are; keypoint ROWS are modelled
   separately: export_feat / import_feat), point colours
   (not written to sfm_data), image file transfer, rigs (removed by rigs_remove_inplace first: C06),
   IEEE rounding (floats are the exact rationals they denote, compared to 1e-9).
   The regions file naming is the REPAIRED one (fixes/C14-regions-named-after-view-path.patch); the
   behaviour before the repair is [region_name_legacy] / [export_legacy]. *)
From Coq Require Import QArith Qabs Qminmax Qround ZArith Bool List String Ascii.
From KV Require Import Eqb Str AL.
From KV.Model Require Import MQV MPose.
Import ListNotations.
Local Open Scope string_scope.
Local Open Scope list_scope.

(* ------------------------------------------------------------------ generic helpers *)
Fixpoint mapM {A B} (f : A -> option B) (l : list A) : option (list B) :=
  match l with
  | [] => Some []
  | x :: l' => match f x, mapM f l' with Some y, Some ys => Some (y :: ys) | _, _ => None end
  end.

Fixpoint filter_map {A B} (f : A -> option B) (l : list A) : list B :=
  match l with
  | [] => []
  | x :: l' => match f x with Some y => y :: filter_map f l' | None => filter_map f l' end
  end.

(* position of the first occurrence (length of the list when absent) *)
Fixpoint idxn {A} `{EqDec A} (x : A) (l : list A) : nat :=
  match l with [] => O | y :: l' => if eqb x y then O else S (idxn x l') end.
Definition idx {A} `{EqDec A} (x : A) (l : list A) : Z := Z.of_nat (idxn x l).

(* a Python dict filled by successive d[k] = v *)
Definition al_of_list {K V} `{EqDec K} (l : list (K * V)) : list (K * V) :=
  fold_left (fun m e => AL.insert (fst e) (snd e) m) l [].

Fixpoint nodupb {A} `{EqDec A} (l : list A) : bool :=
  match l with [] => true | x :: l' => negb (memb x l') && nodupb l' end.

Definition Qtrunc (q : Q) : Z := Z.quot (Qnum q) (Zpos (Qden q)).      (* Python int(float) *)
Definition qnth (l : list Q) (i : nat) : Q := nth i l 0%Q.

(* ------------------------------------------------------------------ paths *)
Definition path := list string.                 (* components of a relative path *)

Fixpoint sjoin (sep : string) (l : list string) : string :=
  match l with
  | [] => ""
  | [x] => x
  | x :: l' => x ++ sep ++ sjoin sep l'
  end.
Definition pstr (p : path) : string := sjoin "/" p.
Definition dirname (p : path) : path := removelast p.

Fixpoint lcp2 (a b : path) : path :=
  match a, b with
  | x :: a', y :: b' => if eqb x y then x :: lcp2 a' b' else []
  | _, _ => []
  end.
(* path.commonpath of the image directories (the directory itself when there is only one) *)
Definition lcp_all (ds : list path) : path :=
  match ds with [] => [] | d :: ds' => fold_left lcp2 ds' d end.

(* os.path.splitext(basename)[0] *)
Fixpoint after_dot_rev (r : list ascii) : option (list ascii) :=
  match r with
  | [] => None
  | c :: r' => if Ascii.eqb c "."%char then Some r' else after_dot_rev r'
  end.
Definition stem (s : string) : string :=
  match after_dot_rev (rev (list_ascii_of_string s)) with
  | Some st => if existsb (fun c => negb (Ascii.eqb c "."%char)) st
               then string_of_list_ascii (rev st) else s
  | None => s
  end.

(* ------------------------------------------------------------------ cameras *)
Inductive ctype := SIMPLE_PINHOLE | PINHOLE | SIMPLE_RADIAL | RADIAL | OPENCV | OPENCV_FISHEYE | FULL_OPENCV
                 | FOV | SIMPLE_RADIAL_FISHEYE | RADIAL_FISHEYE | THIN_PRISM_FISHEYE | UNKNOWN_CAMERA.
Record camera := mkCam { c_type : ctype; c_params : list Q }.       (* w, h, then the model's parameters *)

Inductive mvg_model := Mpinhole | Mradial_k1 | Mradial_k3 | Mbrown_t2 | Mfisheye.
Inductive layout := Flat | Value0.
Record intrinsic := mkIntr { in_model : mvg_model; in_layout : layout; in_w : Z; in_h : Z;
                             in_f : Q; in_cx : Q; in_cy : Q; in_disto : list Q }.

Definition ctype_eqb (a b : ctype) : bool :=
  match a, b with
  | SIMPLE_PINHOLE, SIMPLE_PINHOLE | PINHOLE, PINHOLE | SIMPLE_RADIAL, SIMPLE_RADIAL | RADIAL, RADIAL
  | OPENCV, OPENCV | OPENCV_FISHEYE, OPENCV_FISHEYE | FULL_OPENCV, FULL_OPENCV | FOV, FOV
  | SIMPLE_RADIAL_FISHEYE, SIMPLE_RADIAL_FISHEYE | RADIAL_FISHEYE, RADIAL_FISHEYE
  | THIN_PRISM_FISHEYE, THIN_PRISM_FISHEYE | UNKNOWN_CAMERA, UNKNOWN_CAMERA => true
  | _, _ => false
  end.
Definition model_eqb (a b : mvg_model) : bool :=
  match a, b with
  | Mpinhole, Mpinhole | Mradial_k1, Mradial_k1 | Mradial_k3, Mradial_k3 | Mbrown_t2, Mbrown_t2
  | Mfisheye, Mfisheye => true
  | _, _ => false
  end.
Definition layout_eqb (a b : layout) : bool :=
  match a, b with Flat, Flat | Value0, Value0 => true | _, _ => false end.

(* CAMERA_TYPE_PARAMS_COUNT (the Camera constructor asserts it) *)
Definition param_count (t : ctype) : nat :=
  match t with
  | SIMPLE_PINHOLE => 5 | PINHOLE => 6 | SIMPLE_RADIAL => 6 | RADIAL => 7 | OPENCV => 10 | OPENCV_FISHEYE => 10
  | FULL_OPENCV => 14 | FOV => 7 | SIMPLE_RADIAL_FISHEYE => 6 | RADIAL_FISHEYE => 7 | THIN_PRISM_FISHEYE => 14
  | UNKNOWN_CAMERA => 2
  end%nat.

(* names as kapture / OpenMVG spell them; Props/C14.v checks [param_count], [model_name] and [focal_factor]
   against Gen/Topenmvg.v, i.e. against the tree under test *)
Definition all_ctypes : list ctype :=
  [SIMPLE_PINHOLE; PINHOLE; SIMPLE_RADIAL; RADIAL; OPENCV; OPENCV_FISHEYE; FULL_OPENCV; FOV; SIMPLE_RADIAL_FISHEYE;
   RADIAL_FISHEYE; THIN_PRISM_FISHEYE; UNKNOWN_CAMERA].
Definition ctype_name (t : ctype) : string :=
  match t with
  | SIMPLE_PINHOLE => "SIMPLE_PINHOLE" | PINHOLE => "PINHOLE" | SIMPLE_RADIAL => "SIMPLE_RADIAL" | RADIAL => "RADIAL"
  | OPENCV => "OPENCV" | OPENCV_FISHEYE => "OPENCV_FISHEYE" | FULL_OPENCV => "FULL_OPENCV" | FOV => "FOV"
  | SIMPLE_RADIAL_FISHEYE => "SIMPLE_RADIAL_FISHEYE" | RADIAL_FISHEYE => "RADIAL_FISHEYE"
  | THIN_PRISM_FISHEYE => "THIN_PRISM_FISHEYE" | UNKNOWN_CAMERA => "UNKNOWN_CAMERA"
  end.
Definition model_name (m : mvg_model) : string :=
  match m with
  | Mpinhole => "pinhole" | Mradial_k1 => "pinhole_radial_k1" | Mradial_k3 => "pinhole_radial_k3"
  | Mbrown_t2 => "pinhole_brown_t2" | Mfisheye => "fisheye"
  end.

Definition focal_factor : Q := 5404319552844595 # 4503599627370496.     (* the double 1.2 *)

(* _export_openmvg_intrinsics: None = ValueError 'Camera model ... not supported' *)
Definition export_cam (v2 : bool) (c : camera) : option intrinsic :=
  let p := qnth (c_params c) in
  let w := Qtrunc (p 0%nat) in let h := Qtrunc (p 1%nat) in
  let lay := if v2 then Flat else Value0 in
  let mean := ((p 2%nat + p 3%nat) / 2)%Q in
  match c_type c with
  | SIMPLE_PINHOLE => Some (mkIntr Mpinhole Flat w h (p 2%nat) (p 3%nat) (p 4%nat) [])
  | PINHOLE => Some (mkIntr Mpinhole Flat w h mean (p 4%nat) (p 5%nat) [])
  | SIMPLE_RADIAL => Some (mkIntr Mradial_k1 Flat w h (p 2%nat) (p 3%nat) (p 4%nat) [p 5%nat])
  | RADIAL => Some (mkIntr Mradial_k3 Flat w h (p 2%nat) (p 3%nat) (p 4%nat) [p 5%nat; p 6%nat; 0%Q])
  | OPENCV => Some (mkIntr Mbrown_t2 lay w h mean (p 4%nat) (p 5%nat)
                           [p 6%nat; p 7%nat; 0%Q; p 8%nat; p 9%nat])
  | FULL_OPENCV => Some (mkIntr Mbrown_t2 lay w h mean (p 4%nat) (p 5%nat)
                                [p 6%nat; p 7%nat; p 10%nat; p 8%nat; p 9%nat])
  | OPENCV_FISHEYE => Some (mkIntr Mfisheye lay w h mean (p 4%nat) (p 5%nat) [0%Q; 0%Q; 0%Q; 0%Q])
  | RADIAL_FISHEYE | SIMPLE_RADIAL_FISHEYE =>
      Some (mkIntr Mfisheye lay w h (p 2%nat) (p 3%nat) (p 4%nat) [0%Q; 0%Q; 0%Q; 0%Q])
  | UNKNOWN_CAMERA =>
      Some (mkIntr Mradial_k1 Flat w h (Qmax (p 0%nat) (p 1%nat) * focal_factor)%Q
                   (inject_Z (Qtrunc (p 0%nat / 2)%Q)) (inject_Z (Qtrunc (p 1%nat / 2)%Q)) [0%Q])
  | FOV | THIN_PRISM_FISHEYE => None
  end.

(* _import_openmvg_cameras: None = KeyError / IndexError (a layout or a list the importer does not accept) *)
Definition import_cam (i : intrinsic) : option camera :=
  let w := inject_Z (in_w i) in let h := inject_Z (in_h i) in
  let d := qnth (in_disto i) in
  let len := List.length (in_disto i) in
  match in_model i, in_layout i with
  | Mpinhole, Flat => Some (mkCam SIMPLE_PINHOLE [w; h; in_f i; in_cx i; in_cy i])
  | Mradial_k1, Flat =>
      if Nat.leb 1 len then Some (mkCam SIMPLE_RADIAL [w; h; in_f i; in_cx i; in_cy i; d 0%nat]) else None
  | Mradial_k3, Flat =>
      if Nat.leb 2 len then Some (mkCam RADIAL [w; h; in_f i; in_cx i; in_cy i; d 0%nat; d 1%nat]) else None
  | Mbrown_t2, _ =>
      if Nat.leb 5 len then
        if Qeq_bool (d 2%nat) 0
        then Some (mkCam OPENCV [w; h; in_f i; in_f i; in_cx i; in_cy i; d 0%nat; d 1%nat; d 3%nat; d 4%nat])
        else Some (mkCam FULL_OPENCV [w; h; in_f i; in_f i; in_cx i; in_cy i; d 0%nat; d 1%nat; d 3%nat; d 4%nat;
                                      d 2%nat; 0%Q; 0%Q; 0%Q])
      else None
  | Mfisheye, _ => Some (mkCam SIMPLE_RADIAL_FISHEYE [w; h; in_f i; in_cx i; in_cy i; 0%Q])
  | _, Value0 => None
  end.

(* the projection function of a camera as a FULL_OPENCV parameter vector
   (w, h, fx, fy, cx, cy, k1, k2, p1, p2, k3, k4, k5, k6): every model OpenMVG can express is a special case *)
Definition canon (c : camera) : option (list Q) :=
  let p := qnth (c_params c) in
  let z := 0%Q in
  if negb (Nat.eqb (List.length (c_params c)) (param_count (c_type c))) then None else
  match c_type c with
  | SIMPLE_PINHOLE => Some [p 0; p 1; p 2; p 2; p 3; p 4; z; z; z; z; z; z; z; z]
  | PINHOLE => Some [p 0; p 1; p 2; p 3; p 4; p 5; z; z; z; z; z; z; z; z]
  | SIMPLE_RADIAL => Some [p 0; p 1; p 2; p 2; p 3; p 4; p 5; z; z; z; z; z; z; z]
  | RADIAL => Some [p 0; p 1; p 2; p 2; p 3; p 4; p 5; p 6; z; z; z; z; z; z]
  | OPENCV => Some [p 0; p 1; p 2; p 3; p 4; p 5; p 6; p 7; p 8; p 9; z; z; z; z]
  | FULL_OPENCV => Some (c_params c)
  | _ => None
  end%nat.

Fixpoint qlist_eqb (a b : list Q) : bool :=
  match a, b with
  | [], [] => true
  | x :: a', y :: b' => Qeq_bool x y && qlist_eqb a' b'
  | _, _ => false
  end.
Definition cam_equiv (a b : camera) : bool :=
  match canon a, canon b with Some x, Some y => qlist_eqb x y | _, _ => false end.

(* OpenMVG can express it: a pinhole with one focal length, radial k1..k3 and tangential t1, t2 distortion,
   integral image size *)
Definition representable (c : camera) : bool :=
  match canon c with
  | Some l => Qeq_bool (qnth l 2) (qnth l 3) && Qeq_bool (qnth l 11) 0 && Qeq_bool (qnth l 12) 0
              && Qeq_bool (qnth l 13) 0
              && Qeq_bool (inject_Z (Qtrunc (qnth l 0))) (qnth l 0) && Qeq_bool (inject_Z (Qtrunc (qnth l 1))) (qnth l 1)
  | None => false
  end.

(* ------------------------------------------------------------------ the kapture side *)
Record image := mkImg { i_ts : Z; i_cam : string; i_name : path }.
Record dataset := mkData {
  d_cams : list (string * camera);               (* sensors that are cameras *)
  d_images : list image;                         (* records_camera, in iteration order *)
  d_poses : list ((Z * string) * pose);          (* trajectories (no rigs) *)
  d_points : option (list vec);                  (* points3d: X, Y, Z *)
  d_obs : list (Z * list (path * Z));            (* observations of the keypoints type: point -> [(image, feature)] *)
  d_kp : list (path * Z);                        (* images with keypoints and descriptors; a token for the content *)
  d_matches : list ((path * path) * list (Z * Z)) (* matches: (image1, image2) -> [(feature1, feature2)] *)
}.
Record config := mkCfg { flatten : bool; v2 : bool; root_base : string }.
(* root_base = basename of the openMVG image root given to the exporter ('records_data' when images are not
   transferred); the importer prefixes every image with basename(root_path) *)

Definition names (d : dataset) : list path := map i_name (d_images d).
Definition sub_root (d : dataset) : path := lcp_all (map dirname (names d)).

(* _get_openmvg_image_path (repaired signature): relative to the shared directory, optionally flattened *)
Definition mvg_path (fl : bool) (sub : path) (n : path) : path :=
  let rel := skipn (List.length sub) n in
  if fl then [sjoin "_" rel] else rel.
Definition images_dir (cfg : config) (d : dataset) : string :=
  match sub_root d with [] => root_base cfg | s => last s "" end.

(* ------------------------------------------------------------------ the OpenMVG side *)
Record view := mkView { v_key : Z; v_id_view : Z; v_id_intrinsic : Z; v_id_pose : Z;
                        v_local : path; v_file : string; v_w : Z; v_h : Z;
                        v_prior : option (vec * mat) }.              (* centre, rotation *)
Record landmark := mkLm { l_key : Z; l_X : vec; l_obs : list (Z * Z) }.   (* (view id, feature id) *)
Record sfm := mkSfm {
  s_root_base : string;
  s_intrinsics : list (Z * intrinsic);
  s_views : list view;
  s_extrinsics : list (Z * (vec * mat));
  s_structure : option (list landmark);
  s_regions : list (string * Z);                 (* <stem>.feat / .desc -> token of the keypoints written there *)
  s_matches : list ((Z * Z) * list (Z * Z)) }.

(* ------------------------------------------------------------------ export *)
Definition vid (d : dataset) (n : path) : Z := idx n (dedup (names d)).
Definition cid (d : dataset) (c : string) : Z := idx c (dedup (map i_cam (d_images d))).

Definition ts_in (ts : Z) (ps : list ((Z * string) * pose)) : bool :=
  existsb (fun e => Z.eqb (fst (fst e)) ts) ps.
(* centre = pose.inverse().t ; rotation = as_rotation_matrix(pose.r) *)
(* computed with the reduced-fraction operations of MQV (== the plain ones, PQV.*_r_eq) so that vm_compute
   stays fast; POpenmvg.centre_inverse: centre p =v= pt (MPose.inverse p) *)
Definition centre (p : pose) : vec := mvmul_r (rot_r (qinv_r (pr p))) (vneg (pt p)).
Definition rotation (p : pose) : mat := rot_r (pr p).
(* None = AssertionError (the timestamp has poses but not for this camera) *)
Definition prior_of (d : dataset) (i : image) : option (option (vec * mat)) :=
  if ts_in (i_ts i) (d_poses d) then
    match AL.lookup (i_ts i, i_cam i) (d_poses d) with
    | Some p => Some (Some (centre p, rotation p))
    | None => None
    end
  else Some None.

Definition export_view (cfg : config) (d : dataset) (i : image) : option view :=
  match AL.lookup (i_cam i) (d_cams d), prior_of d i with
  | Some c, Some pr =>
      let op := mvg_path (flatten cfg) (sub_root d) (i_name i) in
      Some (mkView (vid d (i_name i)) (vid d (i_name i)) (cid d (i_cam i)) (vid d (i_name i))
                   (removelast op) (last op "")
                   (Qtrunc (qnth (c_params c) 0)) (Qtrunc (qnth (c_params c) 1)) pr)
  | _, _ => None
  end.

Definition used (d : dataset) (e : string * camera) : bool := memb (fst e) (map i_cam (d_images d)).
Definition export_intrinsics (cfg : config) (d : dataset) : option (list (Z * intrinsic)) :=
  mapM (fun e => match export_cam (v2 cfg) (snd e) with Some i => Some (cid d (fst e), i) | None => None end)
       (List.filter (used d) (d_cams d)).

Definition extrinsic_of (v : view) : option (Z * (vec * mat)) :=
  match v_prior v with Some cr => Some (v_id_pose v, cr) | None => None end.

Definition obs_at {N} `{EqDec N} (o : list (Z * list (N * Z))) (k : Z) : list (N * Z) :=
  match AL.lookup k o with Some l => l | None => [] end.

(* KeyError when an observation names an image that has no view *)
Definition export_obs (d : dataset) (l : list (path * Z)) : option (list (Z * Z)) :=
  mapM (fun o => if memb (fst o) (names d) then Some (vid d (fst o), snd o) else None) l.
Fixpoint structure_from (d : dataset) (k : Z) (pts : list vec) : option (list landmark) :=
  match pts with
  | [] => Some []
  | x :: pts' =>
      match export_obs d (obs_at (d_obs d) k), structure_from d (k + 1) pts' with
      | Some o, Some ls => Some (mkLm k x o :: ls)
      | _, _ => None
      end
  end.
Definition export_structure (d : dataset) : option (option (list landmark)) :=
  match d_points d with
  | None => Some None
  | Some pts => match structure_from d 0 pts with Some ls => Some (Some ls) | None => None end
  end.

(* regions files are named after the file name of the view (repaired) *)
Definition region_name (cfg : config) (d : dataset) (n : path) : string :=
  stem (last (mvg_path (flatten cfg) (sub_root d) n) "").
(* before the repair: after the whole kapture name, the shared directory included *)
Definition region_name_legacy (cfg : config) (d : dataset) (n : path) : string :=
  stem (last (mvg_path (flatten cfg) [] n) "").

Definition export_matches (d : dataset) : option (list ((Z * Z) * list (Z * Z))) :=
  mapM (fun e => let a := fst (fst e) in let b := snd (fst e) in
                 if memb a (names d) && memb b (names d) then Some ((vid d a, vid d b), snd e) else None)
       (d_matches d).

Definition export_with (rn : config -> dataset -> path -> string) (cfg : config) (d : dataset) : option sfm :=
  match mapM (export_view cfg d) (d_images d), export_intrinsics cfg d, export_structure d, export_matches d with
  | Some vs, Some ins, Some st, Some ms =>
      Some (mkSfm (images_dir cfg d) ins vs (filter_map extrinsic_of vs) st
                  (map (fun e => (rn cfg d (fst e), snd e)) (d_kp d)) ms)
  | _, _, _, _ => None
  end.
Definition export := export_with region_name.
Definition export_legacy := export_with region_name_legacy.

(* ------------------------------------------------------------------ import *)
(* P = representation of a pose: (rotation matrix, translation) before from_rotation_matrix is applied *)
Record kdata (P : Type) := mkK {
  r_cams : list (Z * camera);                    (* sensor id = str(intrinsic key) *)
  r_images : list ((Z * Z) * path);              (* (timestamp, sensor) -> image name *)
  r_poses : list ((Z * Z) * P);
  r_points : option (list vec);
  r_obs : list (Z * list (path * Z));
  r_kp : list (path * Z);
  r_matches : list ((path * path) * list (Z * Z)) }.
Arguments mkK {P}. Arguments r_cams {P}. Arguments r_images {P}. Arguments r_poses {P}. Arguments r_points {P}.
Arguments r_obs {P}. Arguments r_kp {P}. Arguments r_matches {P}.

Definition view_name (base : string) (v : view) : path := base :: v_local v ++ [v_file v].

Definition import_cams (ins : list (Z * intrinsic)) : option (list (Z * camera)) :=
  option_map al_of_list
    (mapM (fun e => match import_cam (snd e) with Some c => Some (fst e, c) | None => None end) ins).

Definition import_images (base : string) (vs : list view) : list ((Z * Z) * path) :=
  al_of_list (map (fun v => ((v_id_view v, v_id_intrinsic v), view_name base v)) vs).

(* t = -R c ; the quaternion is from_rotation_matrix(R), applied by [finish] *)
Definition import_pose (cr : vec * mat) : mat * vec := (snd cr, vneg (mvmul_r (snd cr) (fst cr))).
Definition import_poses (vs : list view) (ext : list (Z * (vec * mat))) : list ((Z * Z) * (mat * vec)) :=
  let ts_for := al_of_list (map (fun v => (v_id_pose v, v_id_view v)) vs) in
  let dev_for := al_of_list (map (fun v => (v_id_pose v, v_id_intrinsic v)) vs) in
  al_of_list (filter_map (fun e => match AL.lookup (fst e) ts_for, AL.lookup (fst e) dev_for with
                                   | Some ts, Some dv => Some ((ts, dv), import_pose (snd e))
                                   | _, _ => None
                                   end) ext).

(* keypoints / descriptors: for every image, <stem of its basename>.feat if present *)
Definition import_kp (imgs : list ((Z * Z) * path)) (regions : list (string * Z)) : list (path * Z) :=
  al_of_list (filter_map (fun e => match AL.lookup (stem (last (snd e) "")) regions with
                       | Some tok => Some (snd e, tok)
                       | None => None
                       end) imgs).

(* matches: the image of a view id is records_camera[view id]; the pair is stored in lexical order *)
Definition name_of_ts (imgs : list ((Z * Z) * path)) (ts : Z) : option path :=
  option_map snd (find (fun e => Z.eqb (fst (fst e)) ts) imgs).
Definition swap (p : Z * Z) : Z * Z := (snd p, fst p).
Definition import_match (imgs : list ((Z * Z) * path)) (e : (Z * Z) * list (Z * Z))
  : option ((path * path) * list (Z * Z)) :=
  match name_of_ts imgs (fst (fst e)), name_of_ts imgs (snd (fst e)) with
  | Some n1, Some n2 => if sltb (pstr n2) (pstr n1) then Some ((n2, n1), map swap (snd e))
                        else Some ((n1, n2), snd e)
  | _, _ => None
  end.
Definition import_matches (imgs : list ((Z * Z) * path)) (ms : list ((Z * Z) * list (Z * Z)))
  : option (list ((path * path) * list (Z * Z))) :=
  option_map al_of_list (mapM (import_match imgs) ms).

(* structure.  Points: a list indexed 0..max key, holes filled with zeros. *)
Definition zrange (n : Z) : list Z := map Z.of_nat (seq 0 (Z.to_nat n)).
Definition import_points (ls : list landmark) : list vec :=
  let tbl := al_of_list (map (fun l => (l_key l, l_X l)) ls) in
  let mx := fold_left Z.max (map l_key ls) 0%Z in
  map (fun k => match AL.lookup k tbl with Some x => x | None => vzero end) (zrange (mx + 1)).
(* observations: view id -> image name through view_ids_to_filename (ValueError when unknown); an observation
   survives the loader only if its image has keypoints; a point without surviving observation has no entry *)
Definition import_lm_obs (names_of : list (Z * path)) (kp : list (path * Z)) (l : landmark)
  : option (list (path * Z)) :=
  option_map (List.filter (fun o => memb (fst o) (map fst kp)))
    (mapM (fun o => match AL.lookup (fst o) names_of with Some n => Some (n, snd o) | None => None end) (l_obs l)).
Definition add_obs (acc : option (list (Z * list (path * Z)))) (kl : Z * option (list (path * Z))) :=
  match acc, snd kl with
  | Some m, Some [] => Some m
  | Some m, Some o => Some (AL.insert (fst kl) (obs_at m (fst kl) ++ o) m)
  | _, _ => None
  end.
Definition import_obs (names_of : list (Z * path)) (kp : list (path * Z)) (ls : list landmark)
  : option (list (Z * list (path * Z))) :=
  fold_left add_obs (map (fun l => (l_key l, import_lm_obs names_of kp l)) ls) (Some []).

Definition import_core (s : sfm) : option (kdata (mat * vec)) :=
  let imgs := import_images (s_root_base s) (s_views s) in
  let kp := import_kp imgs (s_regions s) in
  let names_of := al_of_list (map (fun v => (v_id_view v, view_name (s_root_base s) v)) (s_views s)) in
  match import_cams (s_intrinsics s), import_matches imgs (s_matches s) with
  | Some cams, Some ms =>
      let poses := import_poses (s_views s) (s_extrinsics s) in
      match s_structure s with
      | None | Some [] => Some (mkK cams imgs poses None [] kp ms)
      | Some ls =>
          match import_obs names_of kp ls with
          | Some o => Some (mkK cams imgs poses (Some (import_points ls)) o kp ms)
          | None => None
          end
      end
  | _, _ => None
  end.

Definition finish (fm : mat -> quat) (k : kdata (mat * vec)) : kdata pose :=
  mkK (r_cams k) (r_images k) (map (fun e => (fst e, mkP (fm (fst (snd e))) (snd (snd e)))) (r_poses k))
      (r_points k) (r_obs k) (r_kp k) (r_matches k).
Definition import (fm : mat -> quat) (s : sfm) : option (kdata pose) := option_map (finish fm) (import_core s).

(* ------------------------------------------------------------------ reading a dataset by image name *)
Definition rename (cfg : config) (d : dataset) (n : path) : path :=
  let op := mvg_path (flatten cfg) (sub_root d) n in images_dir cfg d :: removelast op ++ [last op ""].

Definition d_image_of (d : dataset) (n : path) : option image :=
  find (fun i => eqb (i_name i) n) (d_images d).
Definition d_pose_of (d : dataset) (n : path) : option pose :=
  match d_image_of d n with Some i => AL.lookup (i_ts i, i_cam i) (d_poses d) | None => None end.
Definition d_cam_of (d : dataset) (n : path) : option camera :=
  match d_image_of d n with Some i => AL.lookup (i_cam i) (d_cams d) | None => None end.

Definition r_key_of {P} (r : kdata P) (n : path) : option (Z * Z) :=
  option_map fst (find (fun e => eqb (snd e) n) (r_images r)).
Definition r_pose_of {P} (r : kdata P) (n : path) : option P :=
  match r_key_of r n with Some k => AL.lookup k (r_poses r) | None => None end.
Definition r_cam_of {P} (r : kdata P) (n : path) : option camera :=
  match r_key_of r n with Some k => AL.lookup (snd k) (r_cams r) | None => None end.

Definition points_list (o : option (list vec)) : list vec := match o with Some l => l | None => [] end.

(* the matching relation between images x and y, whatever the orientation the pair is stored in:
   [(feature of x, feature of y)] *)
Definition same_pair (p q : path * path) : bool :=
  (eqb (fst p) (fst q) && eqb (snd p) (snd q)) || (eqb (fst p) (snd q) && eqb (snd p) (fst q)).
Definition match_rel (ms : list ((path * path) * list (Z * Z))) (x y : path) : option (list (Z * Z)) :=
  match find (fun e => same_pair (fst e) (x, y)) ms with
  | Some e => Some (if eqb (fst (fst e)) x then snd e else map swap (snd e))
  | None => None
  end.

(* ------------------------------------------------------------------ OpenMVG's range, decided on the input *)
Definition image_ok (d : dataset) (i : image) : bool :=
  match AL.lookup (i_cam i) (d_cams d), AL.lookup (i_ts i, i_cam i) (d_poses d) with
  | Some c, Some p => representable c && negb (Qeq_bool (n2 (pr p)) 0)
  | _, _ => false
  end.
Definition obs_ok (d : dataset) (e : Z * list (path * Z)) : bool :=
  forallb (fun o => memb (fst o) (names d) && memb (fst o) (map fst (d_kp d))) (snd e).
Definition match_ok (d : dataset) (e : (path * path) * list (Z * Z)) : bool :=
  memb (fst (fst e)) (names d) && memb (snd (fst e)) (names d) && negb (eqb (fst (fst e)) (snd (fst e))).
Fixpoint pairs_distinct (l : list (path * path)) : bool :=
  match l with [] => true | p :: l' => negb (existsb (same_pair p) l') && pairs_distinct l' end.

Definition in_range (cfg : config) (d : dataset) : bool :=
  nodupb (map fst (d_cams d)) &&
  forallb (fun n => negb (eqb n [])) (names d) &&
  nodupb (names d) &&
  nodupb (map (rename cfg d) (names d)) &&                       (* flattening merges no two images *)
  nodupb (map (region_name cfg d) (names d)) &&                  (* no two images share a regions file *)
  forallb (image_ok d) (d_images d) &&
  forallb (obs_ok d) (d_obs d) &&
  forallb (fun e => memb (fst e) (names d)) (d_kp d) &&
  forallb (match_ok d) (d_matches d) && pairs_distinct (map fst (d_matches d)).

(* ------------------------------------------------------------------ correspondence
   One case = a dataset and a configuration, what the exporter wrote (read back from sfm_data.json, the
   regions directory and the matches file) and the dataset read back after import.  Integers, strings and
   structure are compared exactly, floats to 1e-9 (relative to max(1, |value|) for intrinsics and
   translations / centres, absolute for rotation entries and point coordinates are exact).
   from_rotation_matrix is sampled here: for every imported pose, rot(observed quaternion) must be the
   exported rotation matrix (model) to 1e-9 and the quaternion must not be zero. *)
Definition tol : Q := 1 # 1000000000.
Definition qclose (a b : Q) : bool := close_abs tol (Qmax 1 (Qabs a)) a b.
Fixpoint qlist_close (a b : list Q) : bool :=
  match a, b with
  | [], [] => true
  | x :: a', y :: b' => qclose x y && qlist_close a' b'
  | _, _ => false
  end.
Definition vclose (a b : vec) : bool := close_vec tol (Qmax 1 (vmaxabs a)) a b.
Definition mclose (a b : mat) : bool := close_mat tol 1 a b.
Definition veqb (a b : vec) : bool := Qeq_bool (vx a) (vx b) && Qeq_bool (vy a) (vy b) && Qeq_bool (vz a) (vz b).

Definition intr_close (a b : intrinsic) : bool :=
  model_eqb (in_model a) (in_model b) && layout_eqb (in_layout a) (in_layout b) &&
  Z.eqb (in_w a) (in_w b) && Z.eqb (in_h a) (in_h b) &&
  qclose (in_f a) (in_f b) && qclose (in_cx a) (in_cx b) && qclose (in_cy a) (in_cy b) &&
  qlist_close (in_disto a) (in_disto b).
Definition cam_close (a b : camera) : bool :=
  ctype_eqb (c_type a) (c_type b) && qlist_close (c_params a) (c_params b).
Definition prior_close (a b : option (vec * mat)) : bool :=
  match a, b with
  | None, None => true
  | Some (c, r), Some (c', r') => vclose c c' && mclose r r'
  | _, _ => false
  end.
Definition view_close (a b : view) : bool :=
  Z.eqb (v_key a) (v_key b) && Z.eqb (v_id_view a) (v_id_view b) && Z.eqb (v_id_intrinsic a) (v_id_intrinsic b) &&
  Z.eqb (v_id_pose a) (v_id_pose b) && eqb (v_local a) (v_local b) && eqb (v_file a) (v_file b) &&
  Z.eqb (v_w a) (v_w b) && Z.eqb (v_h a) (v_h b) && prior_close (v_prior a) (v_prior b).

Fixpoint all2 {A B} (f : A -> B -> bool) (a : list A) (b : list B) : bool :=
  match a, b with
  | [], [] => true
  | x :: a', y :: b' => f x y && all2 f a' b'
  | _, _ => false
  end.
(* same association, whatever the order of the entries *)
Definition same_map {K V W} `{EqDec K} (f : V -> W -> bool) (a : list (K * V)) (b : list (K * W)) : bool :=
  Nat.eqb (List.length a) (List.length b) && nodupb (map fst b) &&
  forallb (fun e => match AL.lookup (fst e) b with Some w => f (snd e) w | None => false end) a.
(* same multiset *)
Definition count_of {A} `{EqDec A} (x : A) (l : list A) : nat := List.length (List.filter (eqb x) l).
Definition same_set {A} `{EqDec A} (a b : list A) : bool :=
  Nat.eqb (List.length a) (List.length b) && forallb (fun x => Nat.eqb (count_of x a) (count_of x b)) a.

Definition lm_close (a b : landmark) : bool :=
  Z.eqb (l_key a) (l_key b) && veqb (l_X a) (l_X b) && eqb (l_obs a) (l_obs b).
Definition structure_close (a b : option (list landmark)) : bool :=
  match a, b with
  | None, None => true
  | Some x, Some y => all2 lm_close x y
  | _, _ => false
  end.
(* every regions file holds the keypoints of one of the images that map to its name *)
Definition regions_close (m o : list (string * Z)) : bool :=
  forallb (fun e => memb e m) o && forallb (fun e => memb (fst e) (map fst o)) m && nodupb (map fst o).

Definition sfm_close (m o : sfm) : bool :=
  eqb (s_root_base m) (s_root_base o) &&
  same_map intr_close (s_intrinsics m) (s_intrinsics o) &&
  all2 view_close (s_views m) (s_views o) &&
  all2 (fun a b => Z.eqb (fst a) (fst b) && prior_close (Some (snd a)) (Some (snd b))) (s_extrinsics m) (s_extrinsics o) &&
  structure_close (s_structure m) (s_structure o) &&
  regions_close (s_regions m) (s_regions o) &&
  same_map (fun a b : list (Z * Z) => eqb a b) (s_matches m) (s_matches o).

Definition pose_sample (m : mat * vec) (o : pose) : bool :=
  negb (Qeq_bool (n2 (pr o)) 0) && mclose (fst m) (rot_r (pr o)) && vclose (snd m) (pt o).
Definition points_close (a b : option (list vec)) : bool :=
  match a, b with
  | None, None => true
  | Some x, Some y => all2 veqb x y
  | _, _ => false
  end.
Definition kp_close (regions : list (string * Z)) (m o : list (path * Z)) : bool :=
  same_set (map fst m) (map fst o) &&
  forallb (fun e => memb (stem (last (fst e) ""), snd e) regions) o.
Definition kdata_close (regions : list (string * Z)) (m : kdata (mat * vec)) (o : kdata pose) : bool :=
  same_map cam_close (r_cams m) (r_cams o) &&
  same_map (fun a b : path => eqb a b) (r_images m) (r_images o) &&
  same_map pose_sample (r_poses m) (r_poses o) &&
  points_close (r_points m) (r_points o) &&
  same_map (fun a b : list (path * Z) => same_set a b) (r_obs m) (r_obs o) &&
  kp_close regions (r_kp m) (r_kp o) &&
  same_map (fun a b : list (Z * Z) => eqb a b) (r_matches m) (r_matches o).

(* ------------------------------------------------------------------ keypoint rows (regions .feat files)
   _export_openmvg_regions: the first four columns (x, y, scale, orientation) of every keypoint, one line per
   keypoint, written with '%10.5f' (round half even of the exact binary value to 5 decimals).
   _import_openmvg_regions: the lines read back as an (n, 4) array, AssertionError unless 4 columns.
   REPAIRED reader (fixes/C14-import-keypoints-single-or-no-row.patch): any number of lines; before the repair
   a file of one line (a vector for np.loadtxt) or of no line raised IndexError: [import_feat_legacy]. *)
Definition kprows := list (list Q).
Definition Qround_half_even (q : Q) : Z :=
  let f := Qfloor q in
  let r := (q - inject_Z f)%Q in
  if Qle_bool r (1 # 2) then (if Qle_bool (1 # 2) r then (if Z.even f then f else f + 1)%Z else f) else (f + 1)%Z.
Definition round5 (q : Q) : Q := (inject_Z (Qround_half_even (q * 100000)) / 100000)%Q.
Definition export_feat (rows : kprows) : kprows := map (fun r => map round5 (firstn 4 r)) rows.
Definition import_feat (rows : kprows) : option kprows :=
  if forallb (fun r => Nat.eqb (List.length r) 4) rows then Some rows else None.
Definition import_feat_legacy (rows : kprows) : option kprows :=
  match rows with [] | [_] => None | _ => import_feat rows end.
(* SIFT-like: at least x, y, scale, orientation *)
Definition feat_ok (rows : kprows) : bool := forallb (fun r => Nat.leb 4 (List.length r)) rows.
Definition half_1e5 : Q := 1 # 200000.

Fixpoint rows_rel (f : Q -> Q -> bool) (a b : kprows) : bool :=
  match a, b with
  | [], [] => true
  | x :: a', y :: b' => all2 f x y && rows_rel f a' b'
  | _, _ => false
  end.
(* what the exporter wrote in the regions directory vs the model: every file is the export of the keypoints
   of an image that maps to its name, and every image with keypoints has its file *)
Definition feats_close (rn : path -> string) (orig : list (path * kprows)) (o : list (string * kprows)) : bool :=
  forallb (fun e => existsb (fun k => eqb (rn (fst k)) (fst e) && rows_rel qclose (export_feat (snd k)) (snd e)) orig) o &&
  forallb (fun k => memb (rn (fst k)) (map fst o)) orig.
(* the keypoints read back after import are, value for value, the numbers of the regions file of the image *)
Definition kps_close (feats : list (string * kprows)) (o : list (path * kprows)) : bool :=
  forallb (fun e => match AL.lookup (stem (last (fst e) "")) feats with
                    | Some rows => match import_feat rows with
                                   | Some rows' => rows_rel Qeq_bool rows' (snd e)
                                   | None => false
                                   end
                    | None => false
                    end) o.

Record case := mkCase {
  k_cfg : config; k_data : dataset;
  k_feats : list (path * kprows);          (* the keypoints of every image that has some (kapture name) *)
  k_in_range : bool;                       (* the quantifier as decided by the harness' oracle *)
  o_export : option sfm;                   (* None: export_openmvg raised *)
  o_feats : list (string * kprows);        (* the .feat files the exporter wrote: stem -> lines *)
  o_import : option (kdata pose);          (* None: import_openmvg raised (or was not run) *)
  o_kps : list (path * kprows) }.          (* keypoints of the re-imported dataset (new image name) *)

Definition feats_importable (fs : list (path * kprows)) : bool :=
  forallb (fun e => match import_feat (export_feat (snd e)) with Some _ => true | None => false end) fs.

Definition check_case (c : case) : bool :=
  Bool.eqb (in_range (k_cfg c) (k_data c) && forallb (fun e => feat_ok (snd e)) (k_feats c)) (k_in_range c) &&
  match export (k_cfg c) (k_data c), o_export c with
  | None, None => match o_import c with None => true | Some _ => false end
  | Some s, Some so =>
      sfm_close s so &&
      feats_close (region_name (k_cfg c) (k_data c)) (k_feats c) (o_feats c) &&
      match (if feats_importable (k_feats c) then import_core s else None), o_import c with
      | None, None => true
      | Some k, Some ko => kdata_close (s_regions s) k ko && kps_close (o_feats c) (o_kps c) &&
                           Nat.eqb (List.length (o_kps c)) (List.length (r_kp k))
      | _, _ => false
      end
  | _, _ => false
  end.
