(* Model/MOpensfm.v — executable model of the kapture <-> OpenSfM converters (property C15)
     kapture/converter/opensfm/export_opensfm.py : export_opensfm, export_opensfm_camera,
                                                   _export_opensfm_features_and_matches
     kapture/converter/opensfm/import_opensfm.py : import_opensfm, import_camera,
                                                   _import_features_and_matches
   Definitions only; every proof is in Proofs/POpensfm.v.

   LEVEL.  Behavioural: a kapture dataset (as kapture_from_dir hands it to the exporter) is mapped to
   an abstract OpenSfM project (the *content* of reconstruction.json, camera_models.json,
   features/<image>.features.npz, matches/<image>_matches.pkl.gz) and back.  JSON / npz / pickle / CSV
   layers, file copying of the images and the EXIF/GNSS import (the exporter writes no exif folder) are
   not modelled; they are exercised by the correspondence run.

   MODELLED AS IT IS IN THE TREE (four of the five repairs of fixes/C15-*.patch are committed):
     cameras   every kapture camera -> {perspective, int(w), int(h), f / max(w,h), k1, k2}; a camera type
               other than SIMPLE_PINHOLE / SIMPLE_RADIAL / RADIAL makes the export fail (ValueError);
               import: RADIAL [w, h, focal * max(w,h), w/2, h/2, k1, k2]
     shots     dict keyed by image name, in kapture.flatten(records_camera) order, camera id verbatim,
               rotation = as_rotation_vector(q), translation verbatim, only when (timestamp, camera) has a
               trajectory entry (rigs are NOT flattened by the exporter); import: timestamp = position in
               the shots dict, KeyError when a shot has no pose
     points    export: dict keyed by the row index (JSON turns the int keys into decimal strings);
               import: rows in the STRING order of the keys — the code as it is, a known finding:
               [import_points]; the numeric order of the unapplied repair is [import_points_repaired]
     features  one file per image holding 'points' and/or 'descriptors'; import takes whichever is there
     matches   one file per image a: { b : int index pairs } for every pair (a, b) of the matches set,
               orientation of the pair kept; import: pair (a, b), columns (i, j, 1.0)
   Exceptions are outcomes ([Err]); nothing is hidden by totalisation.

   LIBRARY FUNCTIONS.  quaternion.as_rotation_vector / from_rotation_vector are the Section variables
   [to_rotvec] / [of_rotvec]; their contract is a Hypothesis of the sections of Proofs/POpensfm.v:
       n2 q <> 0  ->  rot (of_rotvec (to_rotvec q)) =m= rot q.
   For the correspondence run [of_rotvec] is instantiated by [exp_series] (the power series of
   exp(v/2), a power series in |v|^2 with rational coefficients: 16 terms in 80-bit fixed point, error
   < 1e-19 for |v| <= 2 pi) and [to_rotvec] by the
   table of values the library returned on this run, so the contract is sampled to 1e-9 on every pose. *)
From Coq Require Import List Bool String Ascii ZArith NArith QArith Qabs Qreduction Arith.
From Coq Require Import Decimal DecimalString DecimalNat.
From KV Require Import Eqb AL Str.
From KV.Model Require Import MQV.
Import ListNotations.
Local Open Scope string_scope.
Local Open Scope Q_scope.
Local Open Scope list_scope.

(* ------------------------------------------------------------------ outcomes *)
Inductive err :=
| EBadCameraType      (* export: ValueError 'Unable to export camera of type ...' *)
| EZeroSide           (* export: ZeroDivisionError, max(w,h) = 0 *)
| EPointWidth         (* export: ValueError 'not enough values to unpack' (a points row is not x,y,z,r,g,b) *)
| ENpInt              (* export, legacy only: AttributeError np.int (numpy >= 1.24) when a match file is written *)
| EBadProjection      (* import: ValueError 'unable to convert camera of type ...' *)
| ENoPose             (* import: KeyError 'rotation' (shot without pose) *)
| EBadPointId         (* import: ValueError from int(point_id) *)
| EPointsShape        (* import: ValueError '3D points are expected to be Nx3 or Nx6' *)
| EMissingArray.      (* import, legacy only: KeyError 'points'/'descriptors' is not a file in the archive *)

Inductive result (A : Type) := Ok (a : A) | Err (e : err).
Arguments Ok {A} a.
Arguments Err {A} e.

Definition bind {A B} (r : result A) (f : A -> result B) : result B :=
  match r with Ok a => f a | Err e => Err e end.

Fixpoint mapM {A B} (f : A -> result B) (l : list A) : result (list B) :=
  match l with
  | [] => Ok []
  | x :: l' => bind (f x) (fun y => bind (mapM f l') (fun ys => Ok (y :: ys)))
  end.

(* ------------------------------------------------------------------ kapture side *)
Inductive camtype := SimplePinhole | SimpleRadial | Radial | OtherCam (name : string).

(* camera_params as floats: w h f cx cy [k1 [k2]]   (kapture.Camera asserts the count per type) *)
Record camera := mkCam { c_type : camtype; c_params : list Q }.
Record pose := mkPose { p_r : quat; p_t : vec }.
Record image := mkImg { i_ts : Z; i_cam : string; i_name : string }.

(* a feature array as stored on disk: element type name, columns, elements as bit patterns (row major) *)
Record arr := mkArr { a_dtype : string; a_cols : N; a_elems : list N }.
Definition arr_eqb (a b : arr) : bool :=
  eqb (a_dtype a) (a_dtype b) && eqb (a_cols a) (a_cols b) && eqb (a_elems a) (a_elems b).

(* one row of a kapture matches file: keypoint index in image 1, in image 2, score *)
Definition mrow := (Z * Z * Q)%type.
Definition mrow_idx (r : mrow) : Z * Z := fst r.

Record dataset := mkD {
  d_cameras : list (string * camera);              (* kapture_data.cameras, dict order *)
  d_images : list image;                           (* kapture.flatten(records_camera) *)
  d_traj : list ((Z * string) * pose);             (* trajectories, keyed (timestamp, sensor id) *)
  d_points : option (list (list Q));               (* points3d rows; None = no points3d *)
  d_keypoints : list (string * arr);               (* image name -> keypoints file (the single keypoints type) *)
  d_descriptors : list (string * arr);             (* image name -> descriptors file *)
  d_matches : list ((string * string) * list mrow) (* (image a, image b) -> rows; [] = no matches *)
}.

(* ------------------------------------------------------------------ OpenSfM side *)
Record ocamera := mkOC { oc_proj : string; oc_w : Z; oc_h : Z; oc_focal : Q; oc_k1 : Q; oc_k2 : Q }.
(* rotation (angle-axis vector) and translation are present together or not at all *)
Record shot := mkShot { s_cam : string; s_pose : option (vec * vec) }.
Record opoint := mkOP { op_coord : list Q; op_color : list Q }.

Record project := mkP {
  o_cameras : list (string * ocamera);             (* reconstruction.json [0]['cameras'] *)
  o_shots : list (string * shot);                  (* ... ['shots'], dict order *)
  o_points : option (list (string * opoint));      (* ... ['points'], keys as JSON strings; None = key absent *)
  o_camera_models : list (string * ocamera);       (* camera_models.json *)
  o_features : list (string * (option arr * option arr));   (* image -> ('points', 'descriptors') of its npz *)
  o_matches : list (string * list (string * list (Z * Z)))  (* image a -> { image b : index pairs } *)
}.

(* ------------------------------------------------------------------ numbers *)
Definition qmax (a b : Q) : Q := if Qle_bool a b then b else a.
(* Python int(float): truncation toward zero *)
Definition qtrunc (q : Q) : Z := Z.quot (Qnum q) (Zpos (Qden q)).
Definition nthq (l : list Q) (i : nat) : Q := nth i l 0.
Definition is_zero (q : Q) : bool := Qeq_bool q 0.

(* str(i) for a non-negative int, and int(s) restricted to plain digit strings (the only keys the
   exporter produces; Python's int() also accepts blanks, a sign and '_' separators: not modelled) *)
Definition show_nat (n : nat) : string := NilZero.string_of_uint (Nat.to_uint n).
Definition parse_nat (s : string) : option nat := option_map Nat.of_uint (NilZero.uint_of_string s).

(* ------------------------------------------------------------------ export *)
Definition export_camera (c : camera) : result ocamera :=
  let p := c_params c in
  let m := qmax (nthq p 0) (nthq p 1) in
  match c_type c with
  | OtherCam _ => Err EBadCameraType
  | t =>
    if is_zero m then Err EZeroSide else
    Ok {| oc_proj := "perspective";
          oc_w := qtrunc (nthq p 0); oc_h := qtrunc (nthq p 1);
          oc_focal := nthq p 2 / m;
          oc_k1 := match t with SimpleRadial | Radial => nthq p 5 | _ => 0 end;
          oc_k2 := match t with Radial => nthq p 6 | _ => 0 end |}
  end.

Definition export_cameras (cams : list (string * camera)) : result (list (string * ocamera)) :=
  mapM (fun ic => bind (export_camera (snd ic)) (fun oc => Ok (fst ic, oc))) cams.

(* enumerate(points3d): row i -> key i *)
Fixpoint export_points_from (i : nat) (rows : list (list Q)) : result (list (string * opoint)) :=
  match rows with
  | [] => Ok []
  | [x; y; z; r; g; b] :: rest =>
      bind (export_points_from (S i) rest) (fun ps => Ok ((show_nat i, mkOP [x; y; z] [r; g; b]) :: ps))
  | _ :: _ => Err EPointWidth
  end.

Definition export_points (pts : option (list (list Q))) : result (option (list (string * opoint))) :=
  match pts with
  | None => Ok None
  | Some rows => bind (export_points_from 0 rows) (fun ps => Ok (Some ps))
  end.

Definition feature_entry (d : dataset) (name : string) : option (option arr * option arr) :=
  match lookup name (d_keypoints d), lookup name (d_descriptors d) with
  | None, None => None                       (* len(opensfm_features) == 0: no file *)
  | k, ds => Some (k, ds)
  end.

Definition export_features (d : dataset) : list (string * (option arr * option arr)) :=
  fold_left (fun m im => match feature_entry d (i_name im) with
                         | Some e => insert (i_name im) e m
                         | None => m end) (d_images d) [].

(* the dict written to matches/<a>_matches.pkl.gz *)
Definition matches_of (d : dataset) (a : string) : list (string * list (Z * Z)) :=
  flat_map (fun e => if eqb (fst (fst e)) a then [(snd (fst e), map mrow_idx (snd e))] else []) (d_matches d).

Definition export_matches (d : dataset) : list (string * list (string * list (Z * Z))) :=
  match d_matches d with
  | [] => []                                 (* no matches of the keypoints type: no matches folder *)
  | _ => fold_left (fun m im => insert (i_name im) (matches_of d (i_name im)) m) (d_images d) []
  end.

(* ---- a re-used export target.  export_opensfm never empties the directory it writes into (force_overwrite_existing
   only reaches the copy of the image files): reconstruction.json and camera_models.json are rewritten, a features file
   is written over for every image of the dataset that has keypoints or descriptors, a matches file is written over for
   every image of the dataset when the dataset has matches; every other file of an earlier export stays where it is
   and is picked up by the importer, which walks the features / matches folders.  [prev] = what is there before. *)
Definition export_features_onto (prev : list (string * (option arr * option arr))) (d : dataset)
  : list (string * (option arr * option arr)) :=
  fold_left (fun m im => match feature_entry d (i_name im) with
                         | Some e => insert (i_name im) e m
                         | None => m end) (d_images d) prev.

Definition export_matches_onto (prev : list (string * list (string * list (Z * Z)))) (d : dataset)
  : list (string * list (string * list (Z * Z))) :=
  match d_matches d with
  | [] => prev
  | _ => fold_left (fun m im => insert (i_name im) (matches_of d (i_name im)) m) (d_images d) prev
  end.

Section Convert.
  Variable to_rotvec : quat -> vec.          (* quaternion.as_rotation_vector *)
  Variable of_rotvec : vec -> quat.          (* quaternion.from_rotation_vector *)

  Definition export_shot (d : dataset) (im : image) : shot :=
    mkShot (i_cam im)
           (match lookup (i_ts im, i_cam im) (d_traj d) with
            | Some p => Some (to_rotvec (p_r p), p_t p)
            | None => None
            end).

  Definition export_shots (d : dataset) : list (string * shot) :=
    fold_left (fun m im => insert (i_name im) (export_shot d im) m) (d_images d) [].

  Definition export (d : dataset) : result project :=
    bind (export_cameras (d_cameras d)) (fun cams =>
    bind (export_points (d_points d)) (fun pts =>
    Ok {| o_cameras := cams; o_shots := export_shots d; o_points := pts; o_camera_models := cams;
          o_features := export_features d; o_matches := export_matches d |})).

  (* export into a directory that already holds the project [prev] (an empty directory: [empty_project]) *)
  Definition export_onto (prev : project) (d : dataset) : result project :=
    bind (export_cameras (d_cameras d)) (fun cams =>
    bind (export_points (d_points d)) (fun pts =>
    Ok {| o_cameras := cams; o_shots := export_shots d; o_points := pts; o_camera_models := cams;
          o_features := export_features_onto (o_features prev) d;
          o_matches := export_matches_onto (o_matches prev) d |})).

  (* ---------------------------------------------------------------- import *)
  Definition import_camera (oc : ocamera) : result camera :=
    if eqb (oc_proj oc) "perspective" then
      let m := inject_Z (Z.max (oc_w oc) (oc_h oc)) in
      Ok (mkCam Radial [inject_Z (oc_w oc); inject_Z (oc_h oc); oc_focal oc * m;
                        inject_Z (oc_w oc) / 2; inject_Z (oc_h oc) / 2; oc_k1 oc; oc_k2 oc])
    else Err EBadProjection.

  Definition import_cameras (cams : list (string * ocamera)) : result (list (string * camera)) :=
    mapM (fun ic => bind (import_camera (snd ic)) (fun c => Ok (fst ic, c))) cams.

  (* for timestamp, (image_filename, shot) in enumerate(shots.items()) *)
  Fixpoint import_shots (ts : Z) (shots : list (string * shot))
    : result (list image * list ((Z * string) * pose)) :=
    match shots with
    | [] => Ok ([], [])
    | (name, s) :: rest =>
        match s_pose s with
        | None => Err ENoPose
        | Some (rv, t) =>
            bind (import_shots (ts + 1) rest) (fun r =>
              Ok (mkImg ts (s_cam s) name :: fst r,
                  ((ts, s_cam s), mkPose (of_rotvec rv) t) :: snd r))   (* timestamps are distinct: a new key *)
        end
    end.

  (* sorted(opensfm_points, key=int): stable insertion sort on the integer value of the key *)
  Fixpoint ninsert {V} (x : nat * V) (l : list (nat * V)) : list (nat * V) :=
    match l with
    | [] => [x]
    | y :: l' => if Nat.leb (fst x) (fst y) then x :: l else y :: ninsert x l'
    end.
  Fixpoint nsort {V} (l : list (nat * V)) : list (nat * V) :=
    match l with [] => [] | x :: l' => ninsert x (nsort l') end.
  (* sorted(opensfm_points), as the code does today: the same on the key as a string *)
  Fixpoint kinsert {V} (x : string * V) (l : list (string * V)) : list (string * V) :=
    match l with
    | [] => [x]
    | y :: l' => if sleb (fst x) (fst y) then x :: l else y :: kinsert x l'
    end.
  Fixpoint ksort {V} (l : list (string * V)) : list (string * V) :=
    match l with [] => [] | x :: l' => kinsert x (ksort l') end.

  Definition parse_keys {V} (l : list (string * V)) : result (list (nat * V)) :=
    mapM (fun kv => match parse_nat (fst kv) with Some n => Ok (n, snd kv) | None => Err EBadPointId end) l.

  Definition row_of (p : opoint) : list Q := op_coord p ++ op_color p.
  Definition has_len (n : nat) (r : list Q) : bool := Nat.eqb (List.length r) n.
  (* kapture.Points3d(list of rows): Nx3 or Nx6 (an empty list is handled apart, see below) *)
  Definition shape_ok (rows : list (list Q)) : bool := forallb (has_len 6) rows || forallb (has_len 3) rows.

  (* THE CODE AS IT IS (import_opensfm.py:350, `for point_id in sorted(opensfm_points)`): the ids are
     ordered as STRINGS ("10" < "2"); known finding, not repaired in the tree (see docs/C15.md).
     An empty dict gives an empty cloud (commit 6848012). *)
  Definition import_points (pts : option (list (string * opoint))) : result (option (list (list Q))) :=
    match pts with
    | None => Ok None
    | Some l =>
        let rows := map (fun kp => row_of (snd kp)) (ksort l) in
        match rows with
        | [] => Ok (Some [])
        | _ => if shape_ok rows then Ok (Some rows) else Err EPointsShape
        end
    end.

  (* NOT in the tree: the repair `sorted(opensfm_points, key=int)` (fixes/not-applied/) — numeric id order *)
  Definition import_points_repaired (pts : option (list (string * opoint))) : result (option (list (list Q))) :=
    match pts with
    | None => Ok None
    | Some l =>
        bind (parse_keys l) (fun kl =>
          let rows := map (fun kp => row_of (snd kp)) (nsort kl) in
          match rows with
          | [] => Ok (Some [])
          | _ => if shape_ok rows then Ok (Some rows) else Err EPointsShape
          end)
    end.

  Definition import_keypoints (fs : list (string * (option arr * option arr))) : list (string * arr) :=
    flat_map (fun e => match fst (snd e) with Some a => [(fst e, a)] | None => [] end) fs.
  Definition import_descriptors (fs : list (string * (option arr * option arr))) : list (string * arr) :=
    flat_map (fun e => match snd (snd e) with Some a => [(fst e, a)] | None => [] end) fs.

  Definition one_score (ij : Z * Z) : mrow := (ij, 1).
  Definition import_matches (ms : list (string * list (string * list (Z * Z))))
    : list ((string * string) * list mrow) :=
    flat_map (fun f => map (fun e => ((fst f, fst e), map one_score (snd e))) (snd f)) ms.

  (* the importer, parametric in how the points dict is read *)
  Definition import_gen (ipts : option (list (string * opoint)) -> result (option (list (list Q))))
             (p : project) : result dataset :=
    bind (import_cameras (o_cameras p)) (fun cams =>
    bind (import_shots 0 (o_shots p)) (fun st =>
    bind (ipts (o_points p)) (fun pts =>
    Ok {| d_cameras := cams; d_images := fst st; d_traj := snd st; d_points := pts;
          d_keypoints := import_keypoints (o_features p);
          d_descriptors := import_descriptors (o_features p);
          d_matches := import_matches (o_matches p) |}))).

  (* [import_] / [roundtrip] MODEL THE CODE AS IT IS and are what the correspondence run checks;
     [import_repaired] / [roundtrip_repaired] model the tree with the numeric-order repair applied. *)
  Definition import_ : project -> result dataset := import_gen import_points.
  Definition import_repaired : project -> result dataset := import_gen import_points_repaired.

  Definition roundtrip (d : dataset) : result dataset := bind (export d) import_.
  Definition roundtrip_repaired (d : dataset) : result dataset := bind (export d) import_repaired.
  (* the round trip through a re-used directory *)
  Definition roundtrip_onto (prev : project) (d : dataset) : result dataset := bind (export_onto prev d) import_.

  (* ---------------------------------------------------------------- the tree before the four committed repairs
     (3642976 features npz, 066b9d5 np.int, 6848012 empty cloud, 5fdd6d1 optional arrays) *)
  (* (5) Points3d([]) raises for an empty dict (ids in string order then as now) *)
  Definition import_points_legacy (pts : option (list (string * opoint))) : result (option (list (list Q))) :=
    match pts with
    | None => Ok None
    | Some l =>
        let rows := map (fun kp => row_of (snd kp)) (ksort l) in
        match rows with
        | [] => Err EPointsShape
        | _ => if shape_ok rows then Ok (Some rows) else Err EPointsShape
        end
    end.
  (* (4) a features file lacking 'points' or 'descriptors' raises KeyError *)
  Definition features_complete (fs : list (string * (option arr * option arr))) : bool :=
    forallb (fun e => match snd e with (Some _, Some _) => true | _ => false end) fs.

  Definition import_legacy (p : project) : result dataset :=
    bind (import_cameras (o_cameras p)) (fun cams =>
    bind (import_shots 0 (o_shots p)) (fun st =>
    if features_complete (o_features p) then
    bind (import_points_legacy (o_points p)) (fun pts =>
    Ok {| d_cameras := cams; d_images := fst st; d_traj := snd st; d_points := pts;
          d_keypoints := import_keypoints (o_features p);
          d_descriptors := import_descriptors (o_features p);
          d_matches := import_matches (o_matches p) |})
    else Err EMissingArray)).

  (* (2) np.save wrote <image>.features.npz.npy, which the importer's suffix filter never sees: for the
         round trip the features folder is empty; (3) .astype(np.int) raised as soon as one pair was written *)
  Definition export_legacy (d : dataset) : result project :=
    bind (export_cameras (d_cameras d)) (fun cams =>
    bind (export_points (d_points d)) (fun pts =>
    if existsb (fun im => match matches_of d (i_name im) with [] => false | _ => true end) (d_images d)
    then Err ENpInt else
    Ok {| o_cameras := cams; o_shots := export_shots d; o_points := pts; o_camera_models := cams;
          o_features := []; o_matches := export_matches d |})).

  Definition roundtrip_legacy (d : dataset) : result dataset := bind (export_legacy d) import_legacy.
End Convert.

Definition empty_project : project := mkP [] [] None [] [] [].
(* a project / a dataset with other features and matches *)
Definition with_fm (p : project) (f : list (string * (option arr * option arr)))
           (m : list (string * list (string * list (Z * Z)))) : project :=
  {| o_cameras := o_cameras p; o_shots := o_shots p; o_points := o_points p; o_camera_models := o_camera_models p;
     o_features := f; o_matches := m |}.
Definition set_fm (d : dataset) (k ds : list (string * arr)) (m : list ((string * string) * list mrow)) : dataset :=
  {| d_cameras := d_cameras d; d_images := d_images d; d_traj := d_traj d; d_points := d_points d;
     d_keypoints := k; d_descriptors := ds; d_matches := m |}.

(* what kapture_from_dir hands back of a dataset directory (the harness reads the re-imported dataset with it): the features
   of recorded images only and the match pairs between recorded images only.  The identity on what the importer makes of a
   fresh export; it only matters for the leftovers of an earlier export about images that are not in the new one. *)
Definition loaded_view (d : dataset) : dataset :=
  let ns := map i_name (d_images d) in
  set_fm d (filter (fun e => memb (fst e) ns) (d_keypoints d))
           (filter (fun e => memb (fst e) ns) (d_descriptors d))
           (filter (fun e => memb (fst (fst e)) ns && memb (snd (fst e)) ns) (d_matches d)).

(* every features / matches file of the earlier project is one the export of [d] writes again *)
Definition covered_by (prev : project) (d : dataset) : Prop :=
  (forall n, lookup n (o_features prev) <> None -> memb n (map i_name (d_images d)) = true /\ feature_entry d n <> None)
  /\ (forall a, lookup a (o_matches prev) <> None -> d_matches d <> [] /\ memb a (map i_name (d_images d)) = true).

(* ------------------------------------------------------------------ the range of OpenSfM's perspective model *)
Definition is_int (q : Q) : bool := Qeq_bool (inject_Z (qtrunc q)) q.
Definition pos (q : Q) : bool := negb (Qle_bool q 0).

Definition cam_in_range (c : camera) : bool :=
  let p := c_params c in
  match c_type c with
  | SimplePinhole => Nat.eqb (List.length p) 5
  | SimpleRadial => Nat.eqb (List.length p) 6
  | Radial => Nat.eqb (List.length p) 7
  | OtherCam _ => false
  end
  && is_int (nthq p 0) && is_int (nthq p 1) && pos (nthq p 0) && pos (nthq p 1)
  && Qeq_bool (nthq p 3) (nthq p 0 / 2) && Qeq_bool (nthq p 4) (nthq p 1 / 2).

Fixpoint nodupb {A} `{EqDec A} (l : list A) : bool :=
  match l with [] => true | x :: l' => negb (memb x l') && nodupb l' end.

Definition posed (d : dataset) (im : image) : bool :=
  match lookup (i_ts im, i_cam im) (d_traj d) with
  | Some p => negb (is_zero (n2 (p_r p)))
  | None => false
  end.

Definition names (d : dataset) : list string := map i_name (d_images d).

Definition in_range (d : dataset) : bool :=
  forallb (fun ic => cam_in_range (snd ic)) (d_cameras d)
  && nodupb (map fst (d_cameras d))
  && nodupb (names d)
  && forallb (posed d) (d_images d)
  && match d_points d with Some rows => forallb (fun r => Nat.eqb (List.length r) 6) rows | None => true end
  && nodupb (map fst (d_keypoints d)) && forallb (fun e => memb (fst e) (names d)) (d_keypoints d)
  && nodupb (map fst (d_descriptors d)) && forallb (fun e => memb (fst e) (names d)) (d_descriptors d)
  && nodupb (map fst (d_matches d)) && forallb (fun e => memb (fst (fst e)) (names d)) (d_matches d).

(* the perspective parameters the property speaks of: (w, h, f, k1, k2) *)
Definition persp (c : camera) : list Q :=
  let p := c_params c in
  [nthq p 0; nthq p 1; nthq p 2;
   match c_type c with SimpleRadial | Radial => nthq p 5 | _ => 0 end;
   match c_type c with Radial => nthq p 6 | _ => 0 end].

Fixpoint qlist_eq (a b : list Q) : Prop :=
  match a, b with
  | [], [] => True
  | x :: a', y :: b' => x == y /\ qlist_eq a' b'
  | _, _ => False
  end.

(* ------------------------------------------------------------------ from_rotation_vector as a power series
   exp(v/2) = cos(y) + (v/2) sin(y)/y  with y = |v|/2;  both factors are power series in x = y^2 = |v|^2/4:
     cos y     = sum (-1)^k x^k / (2k)!      sin y / y = sum (-1)^k x^k / (2k+1)!
   evaluated by Horner's rule with 16 terms in fixed-point arithmetic with 80 fractional bits (integers
   scaled by 2^80, truncating): for |v| <= 2 pi the truncation of the series is below 1e-19 and the
   rounding below 1e-22 — far inside the 1e-9 of the property — and every number stays the size of a double,
   which keeps vm_compute fast (reducing exact 3000-bit fractions made one pose cost half a minute). *)
Definition fx_bits : Z := 80.
Definition fx_one : Z := 2 ^ fx_bits.
Definition to_fx (q : Q) : Z := Z.div (Qnum q * fx_one) (Zpos (Qden q)).
Definition of_fx (z : Z) : Q := Qmake z (Z.to_pos fx_one).
Definition fx_mul (a b : Z) : Z := Z.shiftr (a * b) fx_bits.
Fixpoint cos_fx (fuel : nat) (k : Z) (x : Z) : Z :=
  match fuel with
  | O => fx_one
  | S f => (fx_one - Z.div (fx_mul x (cos_fx f (k + 1) x)) ((2 * k - 1) * (2 * k)))%Z
  end.
Fixpoint sinc_fx (fuel : nat) (k : Z) (x : Z) : Z :=
  match fuel with
  | O => fx_one
  | S f => (fx_one - Z.div (fx_mul x (sinc_fx f (k + 1) x)) ((2 * k) * (2 * k + 1)))%Z
  end.
Definition exp_series (v : vec) : quat :=
  let x := to_fx (vn2 v / 4) in
  let c := cos_fx 16 1 x in
  let s := sinc_fx 16 1 x in
  let part (a : Q) : Q := of_fx (Z.div (fx_mul (to_fx a) s) 2) in
  mkQ (of_fx c) (part (vx v)) (part (vy v)) (part (vz v)).

(* ------------------------------------------------------------------ correspondence
   One case = the dataset the exporter read (kapture_from_dir of the input directory, exact rationals),
   the rotation vectors the library returned for its quaternions, and what the implementation was
   observed to do: the project it wrote (None = export raised) and the dataset read back from the
   directory the importer wrote (None = import raised).  For a history (the export directory was used
   before) [k_prior] is the project read from that directory just before the export under test. *)
Definition quat_eqb (a b : quat) : bool :=
  Qeq_bool (qw a) (qw b) && Qeq_bool (qx a) (qx b) && Qeq_bool (qy a) (qy b) && Qeq_bool (qz a) (qz b).
Definition vec_eqb (a b : vec) : bool :=
  Qeq_bool (vx a) (vx b) && Qeq_bool (vy a) (vy b) && Qeq_bool (vz a) (vz b).

Fixpoint table_rotvec (tbl : list (quat * vec)) (q : quat) : vec :=
  match tbl with
  | [] => vzero
  | (q', v) :: tbl' => if quat_eqb q q' then v else table_rotvec tbl' q
  end.

Record case := mkCase {
  k_d : dataset;
  k_rotvec : list (quat * vec);
  k_prior : option project;       (* what the export directory held before (None = a fresh directory) *)
  k_project : option project;
  k_back : option dataset
}.

Definition tol9 : Q := 1 # 1000000000.
Definition tol12 : Q := 1 # 1000000000000.
Definition qscale1 (a : Q) : Q := qmax 1 (Qabs a).
Definition qclose (tol a b : Q) : bool := close_abs tol (qscale1 a) a b.
Fixpoint qlist_close (tol : Q) (a b : list Q) : bool :=
  match a, b with
  | [], [] => true
  | x :: a', y :: b' => qclose tol x y && qlist_close tol a' b'
  | _, _ => false
  end.
Fixpoint qlist_eqb (a b : list Q) : bool :=
  match a, b with
  | [], [] => true
  | x :: a', y :: b' => Qeq_bool x y && qlist_eqb a' b'
  | _, _ => false
  end.

(* generic: two association lists agree as maps (same keys, values related), whatever their order *)
Definition al_agree {K V W} `{EqDec K} (rel : V -> W -> bool) (m : list (K * V)) (o : list (K * W)) : bool :=
  Nat.eqb (List.length m) (List.length o)
  && forallb (fun kv => match lookup (fst kv) o with Some w => rel (snd kv) w | None => false end) m.

Definition camtype_eqb (a b : camtype) : bool :=
  match a, b with
  | SimplePinhole, SimplePinhole | SimpleRadial, SimpleRadial | Radial, Radial => true
  | OtherCam x, OtherCam y => eqb x y
  | _, _ => false
  end.

Definition ocamera_agree (m o : ocamera) : bool :=
  eqb (oc_proj m) (oc_proj o) && eqb (oc_w m) (oc_w o) && eqb (oc_h m) (oc_h o)
  && qclose tol12 (oc_focal m) (oc_focal o) && Qeq_bool (oc_k1 m) (oc_k1 o) && Qeq_bool (oc_k2 m) (oc_k2 o).

Definition shot_agree (m o : shot) : bool :=
  eqb (s_cam m) (s_cam o)
  && match s_pose m, s_pose o with
     | None, None => true
     | Some (rv, t), Some (rv', t') => vec_eqb rv rv' && vec_eqb t t'
     | _, _ => false
     end.

Definition opoint_agree (m o : opoint) : bool :=
  qlist_eqb (op_coord m) (op_coord o) && qlist_eqb (op_color m) (op_color o).

Definition oarr_agree (m o : option arr) : bool :=
  match m, o with Some a, Some b => arr_eqb a b | None, None => true | _, _ => false end.

Definition zz_eqb (a b : list (Z * Z)) : bool := eqb a b.

Definition project_agree (m o : project) : bool :=
  al_agree ocamera_agree (o_cameras m) (o_cameras o)
  && al_agree ocamera_agree (o_camera_models m) (o_camera_models o)
  && al_agree shot_agree (o_shots m) (o_shots o)
  && match o_points m, o_points o with
     | None, None => true
     | Some a, Some b =>                                (* a JSON object: integer id -> point, order free *)
         match parse_keys a, parse_keys b with
         | Ok ka, Ok kb => al_agree opoint_agree ka kb
         | _, _ => false
         end
     | _, _ => false
     end
  && al_agree (fun a b => oarr_agree (fst a) (fst b) && oarr_agree (snd a) (snd b)) (o_features m) (o_features o)
  (* match files: compared as the set of (a, b, index pairs); empty per-image files carry nothing *)
  && al_agree zz_eqb (map (fun e => (fst e, map mrow_idx (snd e))) (import_matches (o_matches m)))
                     (map (fun e => (fst e, map mrow_idx (snd e))) (import_matches (o_matches o))).

Definition camera_agree (m o : camera) : bool :=
  camtype_eqb (c_type m) (c_type o) && qlist_close tol9 (c_params m) (c_params o)
  && Qeq_bool (nthq (c_params m) 0) (nthq (c_params o) 0) && Qeq_bool (nthq (c_params m) 1) (nthq (c_params o) 1).

Definition find_image (name : string) (ims : list image) : option image :=
  find (fun im => eqb (i_name im) name) ims.

Definition pose_agree (m o : pose) : bool :=
  close_mat tol9 1 (rot_r (p_r m)) (rot_r (p_r o)) && vec_eqb (p_t m) (p_t o).

(* by image name: same camera id, and the pose stored for (its timestamp, its camera) agrees *)
Definition image_agree (dm dobs : dataset) (im : image) : bool :=
  match find_image (i_name im) (d_images dobs) with
  | None => false
  | Some io =>
      eqb (i_cam im) (i_cam io)
      && match lookup (i_ts im, i_cam im) (d_traj dm), lookup (i_ts io, i_cam io) (d_traj dobs) with
         | Some pm, Some po => pose_agree pm po
         | None, None => true
         | _, _ => false
         end
  end.

Fixpoint rows_close (a b : list (list Q)) : bool :=
  match a, b with
  | [], [] => true
  | x :: a', y :: b' => qlist_close tol9 x y && rows_close a' b'
  | _, _ => false
  end.

Definition mrows_eqb (a b : list mrow) : bool :=
  eqb (map mrow_idx a) (map mrow_idx b) && qlist_eqb (map snd a) (map snd b).

Definition dataset_agree (m o : dataset) : bool :=
  al_agree camera_agree (d_cameras m) (d_cameras o)
  && Nat.eqb (List.length (d_images m)) (List.length (d_images o))
  && forallb (image_agree m o) (d_images m)
  && Nat.eqb (List.length (d_traj m)) (List.length (d_traj o))
  && match d_points m, d_points o with
     | None, None => true
     | Some a, Some b => rows_close a b
     | _, _ => false
     end
  && al_agree arr_eqb (d_keypoints m) (d_keypoints o)
  && al_agree arr_eqb (d_descriptors m) (d_descriptors o)
  && al_agree mrows_eqb (d_matches m) (d_matches o).

(* the library contract, sampled: the exported rotation vector, read back by the series, is the rotation
   of the quaternion it came from *)
Definition contract_ok (tbl : list (quat * vec)) : bool :=
  forallb (fun qv => is_zero (n2 (fst qv))
                     || close_mat tol9 1 (rot_r (exp_series (snd qv))) (rot_r (fst qv))) tbl.

Definition check_case (c : case) : bool :=
  let to_rv := table_rotvec (k_rotvec c) in
  match (match k_prior c with
         | None => export to_rv (k_d c)
         | Some prev => export_onto to_rv prev (k_d c)
         end), k_project c with
  | Err _, None => match k_back c with None => true | Some _ => false end
  | Err _, Some _ => false
  | Ok _, None => false
  | Ok p, Some po =>
      project_agree p po && contract_ok (k_rotvec c)
      && match import_ exp_series p, k_back c with
         | Err _, None => true
         | Ok dm, Some dobs => dataset_agree (loaded_view dm) dobs
         | _, _ => false
         end
  end.
