(* Model/MPose.v — executable model of kapture.core.PoseTransform (property C05): compose, inverse,
   transform_points.  Definitions only; proofs are in Proofs/PPose.v, the algebra in Model/MQV.v.

   Three layers.
   1. SPEC  (compose2, compose_from, compose_list, compose_all, inverse, transform, transform_points):
      poses (q, t) over Q acting as  x |-> rot q * x + t  with rot the rotation of the normalised
      quaternion.  The group laws of C05 are theorems about this layer, for every pose with n2 q <> 0
      and chains of any length.  Other models (rigs, COLMAP, ...) should build on this layer.
   2. CODE, exact arithmetic  (compose2_impl, compose_from_impl, inverse_impl, transform_impl): the same
      with MQV.rot_impl, i.e. with the branch `abs(q_norm-1) < 1e-14` of _as_rotation_matrix_njit.
      PPose shows: equal to the spec when n2 q == 1 or outside the band, and otherwise within
      6e-14 * |t|_inf per coordinate.
   3. API  (compose_api, inverse_api, transform_api): what a call of the Python method does, including
      the cases outside C05's quantifier, as explicit outcomes:
        - r or t None (PoseTransform(r=None) etc.): inverse / transform_points raise AssertionError;
          compose raises TypeError / ValueError as soon as a None part is used, but compose([p]) returns
          p itself whatever it holds, and compose([]) raises IndexError                  -> Raises
        - zero quaternion: the matrix code divides by zero (ZeroDivisionError)            -> Raises
          except inverse(), where numpy-quaternion returns NaNs without raising           -> NonFinite
          and compose([.., p0]) with the zero quaternion last, whose matrix is never taken -> Ok
        - points with a column count other than 3 or 6: numpy matmul raises               -> Raises
      This layer computes with the reduced-fraction operations of MQV (suffix _r), which are equal (==) to the
      plain ones; PPose.compose_api_refines etc. connect it to layer 2.  It is the layer the
      correspondence shards evaluate (check_case).
   Not modelled: IEEE rounding (inputs are the exact rationals of the doubles; the comparison uses the
   property's relative tolerance 1e-9), overflow/underflow, NaN inputs (the constructor maps them to None),
   rescale(), __eq__.  Purity: every function returns a new value; that the implementation does not
   modify its operands is checked by the harness (snapshots), not provable about a pure model. *)
From Coq Require Import QArith Qabs Qminmax Bool List.
From KV.Model Require Import MQV.
Import ListNotations.
Local Open Scope Q_scope.

Record pose := mkP { pr : quat; pt : vec }.
Definition peq (a b : pose) : Prop := pr a =q= pr b /\ pt a =v= pt b.
Infix "=p=" := peq (at level 70, no associativity).
(* the same rigid motion, whatever the scale or sign of the quaternion *)
Definition same_motion (a b : pose) : Prop := rot (pr a) =m= rot (pr b) /\ pt a =v= pt b.
Definition valid (p : pose) : Prop := ~ n2 (pr p) == 0.
Definition pid : pose := mkP qone vzero.

(* ------------------------------------------------------------------ 1. spec *)
(* PoseTransform.compose, one step: r = r1 r2,  t = R(r1) t2 + t1 *)
Definition compose2 (a b : pose) : pose :=
  mkP (qmul (pr a) (pr b)) (vadd (mvmul (rot (pr a)) (pt b)) (pt a)).
(* the loop of compose: pose_list[0] folded with the rest, from the left *)
Definition compose_from (p : pose) (ps : list pose) : pose := fold_left compose2 ps p.
Definition compose_list (ps : list pose) : option pose :=
  match ps with [] => None | p :: ps' => Some (compose_from p ps') end.
(* total variant starting from the identity (== compose_from for non-empty lists, PPose.compose_all_cons) *)
Definition compose_all (ps : list pose) : pose := fold_left compose2 ps pid.
(* PoseTransform.inverse: r' = r^-1,  t' = R(r^-1) (-t) *)
Definition inverse (p : pose) : pose :=
  let ri := qinv (pr p) in mkP ri (mvmul (rot ri) (vneg (pt p))).
(* PoseTransform.transform_points on one point: R x + t *)
Definition transform (p : pose) (x : vec) : vec := vadd (mvmul (rot (pr p)) x) (pt p).
Definition transform_points (p : pose) (xs : list vec) : list vec := map (transform p) xs.

(* PoseTransform.rescale(scale): the ONE method that changes a pose in place: t := t * scale, r untouched
   (used by kapture.trajectory_rescale_inplace).  As a function of the current value: *)
Definition rescale (s : Q) (p : pose) : pose := mkP (pr p) (vscale s (pt p)).

(* ------------------------------------------------------------------ 2. the code, exact arithmetic *)
Definition compose2_impl (a b : pose) : pose :=
  mkP (qmul (pr a) (pr b)) (vadd (mvmul (rot_impl (pr a)) (pt b)) (pt a)).
Definition compose_from_impl (p : pose) (ps : list pose) : pose := fold_left compose2_impl ps p.
Definition inverse_impl (p : pose) : pose :=
  let ri := qinv (pr p) in mkP ri (mvmul (rot_impl ri) (vneg (pt p))).
Definition transform_impl (p : pose) (x : vec) : vec := vadd (mvmul (rot_impl (pr p)) x) (pt p).

(* every quaternion whose matrix is taken is exactly unit or outside the 1e-14 band: the code's matrix is
   then exactly the rotation *)
Definition exact_branch (q : quat) : Prop := n2 q == 1 \/ unit_band q = false.

(* ------------------------------------------------------------------ 3. API with outcomes *)
Record opose := mkO { o_r : option quat; o_t : option vec }.
Definition lift (p : pose) : opose := mkO (Some (pr p)) (Some (pt p)).

Inductive outcome (A : Type) : Type :=
| Ok (a : A)
| Raises        (* the call raised an exception *)
| NonFinite.    (* the call returned a value holding NaN / inf *)
Arguments Ok {A} a.
Arguments Raises {A}.
Arguments NonFinite {A}.

Definition is_zero (q : quat) : bool := Qeq_bool (n2_r q) 0.

Definition compose_step (acc : outcome opose) (cur : opose) : outcome opose :=
  match acc with
  | Ok a =>
      match o_r a, o_r cur, o_t a, o_t cur with
      | Some ra, Some rc, Some ta, Some tc =>
          if is_zero ra then Raises
          else Ok (mkO (Some (qmul_r ra rc)) (Some (vadd (apply_parts_r (rot_parts_r ra) tc) ta)))
      | _, _, _, _ => Raises
      end
  | other => other
  end.
Definition compose_api (ps : list opose) : outcome opose :=
  match ps with
  | [] => Raises
  | p :: ps' => fold_left compose_step ps' (Ok p)
  end.

Definition inverse_api (p : opose) : outcome opose :=
  match o_r p, o_t p with
  | Some r, Some t =>
      if is_zero r then NonFinite
      else Ok (mkO (Some (qinv_n r)) (Some (apply_parts_r (rot_parts_inv_r r) (vneg t))))
  | _, _ => Raises
  end.

(* a row of the points array: 3 columns, or 6 of which the last three (RGB) are dropped *)
Definition row_xyz (row : list Q) : option vec :=
  match row with
  | [a; b; c] => Some (mkV a b c)
  | [a; b; c; _; _; _] => Some (mkV a b c)
  | _ => None
  end.
Fixpoint rows_xyz (rows : list (list Q)) : option (list vec) :=
  match rows with
  | [] => Some []
  | r :: rs => match row_xyz r, rows_xyz rs with Some v, Some vs => Some (v :: vs) | _, _ => None end
  end.
Definition transform_api (p : opose) (rows : list (list Q)) : outcome (list vec) :=
  match o_r p, o_t p with
  | Some r, Some t =>
      match rows_xyz rows with
      | Some xs => if is_zero r then Raises
                   else let R := rot_parts_r r in Ok (map (fun x => vadd (apply_parts_r R x) t) xs)
      | None => Raises
      end
  | _, _ => Raises
  end.

(* rescale on a pose whose t is None does nothing *)
Definition rescale_api (s : Q) (p : opose) : opose :=
  mkO (o_r p) (match o_t p with Some t => Some (vred (vscale s t)) | None => None end).

(* ------------------------------------------------------------------ 4. histories on the same objects
   A PoseTransform object holds nothing but its current (r, t): what inverse / compose / transform_points
   return is a function of the CURRENT values of their operands, whatever was called before.
   Object IDENTITY is part of the store: a program names HANDLES (the initial poses, then one handle per
   inverse / compose call, in order); each handle carries the object it denotes, written as the smallest handle
   denoting the same Python object (its canonical handle), and that object's value.
     inverse(p)                  a FRESH object (canonical handle = its own)
     compose of >= 2 poses       a FRESH object, whatever the operands are (identity poses included)
     compose([p])                p ITSELF (pose_list[0] is returned): the new handle is an alias of p
     rescale(p, s)               changes the object of p, hence every handle that denotes it, and nothing else
   so rescaling the result of inverse / compose(>= 2) can never change an operand (PPose.rescale_result_keeps_operands).
   None = the call raised or produced NaN; such steps are not continued. *)
Inductive hop :=
| HInverse (i : nat)
| HCompose (ids : list nat)
| HRescale (i : nat) (s : Q).

Definition store := list (nat * opose).     (* per handle: canonical handle, value *)

Fixpoint nths {A} (l : list A) (ids : list nat) : option (list A) :=
  match ids with
  | [] => Some []
  | i :: ids' => match nth_error l i, nths l ids' with Some x, Some xs => Some (x :: xs) | _, _ => None end
  end.
Definition hstep (st : store) (op : hop) : option store :=
  match op with
  | HInverse i =>
      match nth_error st i with
      | Some (_, p) => match inverse_api p with Ok m => Some (st ++ [(length st, m)]) | _ => None end
      | None => None
      end
  | HCompose ids =>
      match nths st ids with
      | Some [(c, p)] => Some (st ++ [(c, p)])
      | Some es => match compose_api (map snd es) with Ok m => Some (st ++ [(length st, m)]) | _ => None end
      | None => None
      end
  | HRescale i s =>
      match nth_error st i with
      | Some (c, _) => Some (map (fun e => if Nat.eqb (fst e) c then (fst e, rescale_api s (snd e)) else e) st)
      | None => None
      end
  end.
Definition hrun (st : store) (ops : list hop) : option store :=
  fold_left (fun acc op => match acc with Some s => hstep s op | None => None end) ops (Some st).
(* canonical handles never point forward; initial stores of distinct objects are (k, v_k) *)
Definition wf_store (st : store) : Prop := forall k c p, nth_error st k = Some (c, p) -> (c <= k)%nat.

(* ------------------------------------------------------------------ correspondence
   One case = a list of calls made on the real implementation, each with what it returned.  The model's
   exact result is compared with the observed doubles (as exact rationals) with the property's relative
   tolerance 1e-9:  |obs - model| <= 1e-9 * scale, component-wise, where scale is
     rotations     compared as rotation matrices (MQV.close_rot): every entry of rot(observed quaternion) within
                   1e-9 of the entry of rot(model quaternion) — the property speaks of matrix entries and of "the
                   rotation of the normalised quaternion", so an implementation that returned a rescaled or
                   negated quaternion for the same rotation still corresponds
     translations  the sum of the largest |component| of the input translations (of the chain / the pose)
     points        largest |coordinate| of the point + largest |component| of the translation *)
Definition tol : Q := 1 # 1000000000.

Inductive call :=
| CCompose (ps : list opose) (o : outcome opose)
    (* compose(ps) returned o: the model evaluates the whole chain exactly and compares *)
| CChain (ps : list opose) (os : list (outcome opose))
    (* os = [compose(ps[:1]); compose(ps[:2]); ...; compose(ps)] as observed.  Checked as the left fold it
       must be: the first is ps[0] itself and each next one agrees with ONE model step applied to the
       previous OBSERVED result (PPose.chain_ok_exact: with zero tolerance this is compose_api on every
       prefix).  Exact evaluation of a long chain from its first pose makes numerators of several thousand
       bits whose gcds dominate the shard time; stepping from the observed doubles keeps every number small,
       and a deviation of the implementation at any step still shows at that step. *)
| CInverse (p : opose) (o : outcome opose)
| CTransform (p : opose) (rows : list (list Q)) (o : outcome (list vec))
| CHistory (st : store) (steps : list (list hop * option store)).
    (* a program run on the SAME PoseTransform objects: st = their identities and values at the start, and for
       every step (one call, or the calls one Trajectories-level function makes) the identity (which handles are
       the same Python object or share a mutable part) and value of EVERY handle observed after it
       (None: the step raised / returned NaN).  Each step is checked as hrun applied to the store observed before it (same reason as CChain): the new object must be
       the model's function of the current operand values, every other object must be unchanged, rescale must
       change its target only.  A result that depends on an earlier call (a stale cache) fails here. *)

Definition opt_close {A} (cl : A -> A -> bool) (m o : option A) : bool :=
  match m, o with
  | None, None => true
  | Some a, Some b => cl a b
  | _, _ => false
  end.
Definition tscale (ps : list opose) : Q :=
  fold_left (fun s p => match o_t p with Some t => Qred (s + vmaxabs t) | None => s end) ps 0.
(* rrep: a quaternion with the same rotation as the model's result, cheap to evaluate *)
Definition opose_close_with (rrep : option quat) (scale : Q) (m o : opose) : bool :=
  opt_close (close_rot tol) rrep (o_r o) &&
  opt_close (fun a b => close_vec tol scale b a) (o_t m) (o_t o).
Definition opose_close (scale : Q) (m o : opose) : bool := opose_close_with (o_r m) scale m o.
Definition outcome_close {A} (cl : A -> A -> bool) (m o : outcome A) : bool :=
  match m, o with
  | Ok a, Ok b => cl a b
  | Raises, Raises => true
  | NonFinite, NonFinite => true
  | _, _ => false
  end.
Fixpoint points_close (t : vec) (xs ms os : list vec) : bool :=
  match xs, ms, os with
  | [], [], [] => true
  | x :: xs', m :: ms', o :: os' =>
      close_vec tol (Qred (vmaxabs x + vmaxabs t)) o m && points_close t xs' ms' os'
  | _, _, _ => false
  end.

Fixpoint chain_ok (acc : outcome opose) (ps : list opose) (os : list (outcome opose)) : bool :=
  match ps, os with
  | [], [] => true
  | p :: ps', o :: os' =>
      let scale := match acc with Ok a => tscale [a; p] | _ => 0 end in
      outcome_close (opose_close scale) (compose_step acc p) o && chain_ok o ps' os'
  | _, _ => false
  end.

Definition qeqb (a b : quat) : bool :=
  Qeq_bool (qw a) (qw b) && Qeq_bool (qx a) (qx b) && Qeq_bool (qy a) (qy b) && Qeq_bool (qz a) (qz b).
Definition veqb (a b : vec) : bool := Qeq_bool (vx a) (vx b) && Qeq_bool (vy a) (vy b) && Qeq_bool (vz a) (vz b).
Definition opose_eqb (a b : opose) : bool := opt_close qeqb (o_r a) (o_r b) && opt_close veqb (o_t a) (o_t b).
(* object by object; identical values (the common case: untouched objects) are recognised without arithmetic *)
Fixpoint store_close (ms os : store) : bool :=
  match ms, os with
  | [], [] => true
  | (cm, m) :: ms', (co, o) :: os' =>
      Nat.eqb cm co && (opose_eqb m o || opose_close (tscale [m]) m o) && store_close ms' os'
  | _, _ => false
  end.
(* after one inverse / compose the store is the old one, untouched, plus one handle compared by cl; the identity
   of the new handle (fresh, or alias of an operand for a one-element compose) must be the model's *)
Fixpoint store_close_last (cl : opose -> opose -> bool) (ms os : store) : bool :=
  match ms, os with
  | [(cm, m)], [(co, o)] => Nat.eqb cm co && cl m o
  | (cm, m) :: ms', (co, o) :: os' => Nat.eqb cm co && opose_eqb m o && store_close_last cl ms' os'
  | _, _ => false
  end.
Definition step_close (st : store) (ops : list hop) (ms os : store) : bool :=
  match ops with
  | [HInverse i] =>      (* rotation of conj r_i, translation relative to |t_i| *)
      match nth_error st i with
      | Some (_, p) => store_close_last (fun m o => opose_close_with (option_map qconj (o_r p)) (tscale [p]) m o) ms os
      | None => false
      end
  | [HCompose ids] =>    (* translation relative to the operands' translations (the result may cancel to ~0) *)
      match nths st ids with
      | Some es => store_close_last (opose_close (tscale (map snd es))) ms os
      | None => false
      end
  | _ => store_close ms os
  end.
Fixpoint history_ok (st : store) (steps : list (list hop * option store)) : bool :=
  match steps with
  | [] => true
  | (ops, obs) :: rest =>
      match hrun st ops, obs with
      | Some ms, Some os => step_close st ops ms os && history_ok os rest
      | None, None => history_ok st rest
      | _, _ => false
      end
  end.

Definition check_call (c : call) : bool :=
  match c with
  | CCompose ps o => outcome_close (opose_close (tscale ps)) (compose_api ps) o
  | CChain ps os =>
      match ps, os with
      | p :: ps', o :: os' => outcome_close (opose_close (tscale [p])) (Ok p) o && chain_ok o ps' os'
      | _, _ => false
      end
  | CInverse p o =>
      (* the rotation of q^-1 = conj q / n2 q is the rotation of conj q (PPose.close_rot_inverse): comparing
         with conj q keeps every number dyadic *)
      outcome_close (opose_close_with (option_map qconj (o_r p)) (tscale [p])) (inverse_api p) o
  | CTransform p rows o =>
      match transform_api p rows, o with
      | Ok ms, Ok os =>
          match o_t p, rows_xyz rows with
          | Some t, Some xs => points_close t xs ms os
          | _, _ => false
          end
      | Raises, Raises => true
      | _, _ => false
      end
  | CHistory st steps => history_ok st steps
  end.

Definition case := list call.
Definition check_case (c : case) : bool := forallb check_call c.
