(* Model/MPoseMemo.v — property C05: calls of PoseTransform as a HISTORY within one process, with a possible
   remembered quaternion->matrix conversion in front of _as_rotation_matrix_njit.

   HEAD keeps no state between calls: compose / inverse / transform_points convert the quaternion they need
   every time (PoseTransform.py: np.empty((3,3)) + _as_rotation_matrix_njit at each of the three call sites).
   A realistic refactoring factors the three sites into one helper that remembers the last conversion
   (seeded change C05-rotation-matrix-memo-allclose).  Whether that is visible depends only on the criterion
   `hit last q` under which the remembered matrix is reused for q:
     hit_never     HEAD
     hit_same      reuse only for the identical quaternion                     -> invisible on every history
     hit_allclose  np.allclose(q, last): |q_i - last_i| <= 1e-8 + 1e-5 |last_i| -> a different rotation gets the
                   matrix of the previous call
   The model threads the remembered pair through a list of calls (the three public operations, compose as the
   left fold of the code, one conversion per step, in the order the code makes them) and PPoseMemo proves, for
   ALL histories: the results are those of the stateless code layer (MPose.*_impl) iff the criterion only ever
   identifies quaternions with the same matrix.  Definitions only; proofs in Proofs/PPoseMemo.v. *)
From Coq Require Import QArith Qabs Bool List.
From KV.Model Require Import MQV MPose.
Import ListNotations.
Local Open Scope Q_scope.

(* the last conversion: (quaternion, its matrix) *)
Definition memo := option (quat * mat).

Definition memo_conv (hit : quat -> quat -> bool) (m : memo) (q : quat) : mat * memo :=
  match m with
  | Some (q0, M0) => if hit q0 q then (M0, m) else (rot_impl q, Some (q, rot_impl q))
  | None => (rot_impl q, Some (q, rot_impl q))
  end.

(* what is remembered is the matrix of the remembered quaternion (true initially and kept by every call) *)
Definition memo_ok (m : memo) : Prop :=
  match m with Some (q0, M0) => M0 =m= rot_impl q0 | None => True end.

Inductive mcall :=
| MInverse (p : pose)
| MCompose (p : pose) (ps : list pose)          (* compose(p :: ps) *)
| MTransform (p : pose) (xs : list vec).
Inductive mres :=
| RPose (p : pose)
| RPoints (xs : list vec).

Section WithCriterion.
  Variable hit : quat -> quat -> bool.

  Definition inverse_m (m : memo) (p : pose) : pose * memo :=
    let ri := qinv (pr p) in
    let Mm := memo_conv hit m ri in
    (mkP ri (mvmul (fst Mm) (vneg (pt p))), snd Mm).
  Definition compose2_m (m : memo) (a b : pose) : pose * memo :=
    let Mm := memo_conv hit m (pr a) in
    (mkP (qmul (pr a) (pr b)) (vadd (mvmul (fst Mm) (pt b)) (pt a)), snd Mm).
  Fixpoint compose_from_m (m : memo) (p : pose) (ps : list pose) : pose * memo :=
    match ps with
    | [] => (p, m)
    | b :: ps' => let cm := compose2_m m p b in compose_from_m (snd cm) (fst cm) ps'
    end.
  Definition transform_m (m : memo) (p : pose) (xs : list vec) : list vec * memo :=
    let Mm := memo_conv hit m (pr p) in
    (map (fun x => vadd (mvmul (fst Mm) x) (pt p)) xs, snd Mm).

  Definition call_m (m : memo) (c : mcall) : mres * memo :=
    match c with
    | MInverse p => let r := inverse_m m p in (RPose (fst r), snd r)
    | MCompose p ps => let r := compose_from_m m p ps in (RPose (fst r), snd r)
    | MTransform p xs => let r := transform_m m p xs in (RPoints (fst r), snd r)
    end.
  (* a whole process history: results in call order *)
  Fixpoint run_m (m : memo) (cs : list mcall) : list mres :=
    match cs with
    | [] => []
    | c :: cs' => let r := call_m m c in fst r :: run_m (snd r) cs'
    end.
End WithCriterion.

(* the stateless code layer of MPose: every call is a function of its own arguments *)
Definition call_pure (c : mcall) : mres :=
  match c with
  | MInverse p => RPose (inverse_impl p)
  | MCompose p ps => RPose (compose_from_impl p ps)
  | MTransform p xs => RPoints (map (transform_impl p) xs)
  end.
Definition run_pure (cs : list mcall) : list mres := map call_pure cs.

Definition res_eq (a b : mres) : Prop :=
  match a, b with
  | RPose p, RPose q => p =p= q
  | RPoints xs, RPoints ys => Forall2 veq xs ys
  | _, _ => False
  end.
(* the remembered conversion cannot be observed, on any history, from a state that is itself consistent *)
Definition transparent (hit : quat -> quat -> bool) : Prop :=
  forall m cs, memo_ok m -> Forall2 res_eq (run_m hit m cs) (run_pure cs).

(* the criteria *)
Definition hit_never (_ _ : quat) : bool := false.
Definition hit_same (q0 q : quat) : bool := qeqb q0 q.
Definition atol : Q := 1 # 100000000.     (* numpy.allclose defaults: atol 1e-8, rtol 1e-5 *)
Definition rtol : Q := 1 # 100000.
Definition isclose (last a : Q) : bool := Qle_bool (Qabs (a - last)) (atol + rtol * Qabs last).
Definition hit_allclose (q0 q : quat) : bool :=
  isclose (qw q0) (qw q) && isclose (qx q0) (qx q) && isclose (qy q0) (qy q) && isclose (qz q0) (qz q).

(* a history on which the allclose criterion shows: two poses whose quaternions differ by 5e-6 in one component *)
Definition witness_history : list mcall :=
  [ MTransform (mkP (mkQ 1 1 1 1) vzero) [mkV 1 0 0];
    MTransform (mkP (mkQ 1 1 1 (200001 # 200000)) vzero) [mkV 1 0 0] ].
