(* Model/MQV.v — quaternions, 3-vectors and 3x3 matrices over the rationals Q (QArith), the
   algebra used by kapture.core.PoseTransform and by everything built on it (rigs, COLMAP, OpenMVG,
   OpenSfM converters).  Definitions only; every lemma is in Proofs/PQV.v.

   WHY Q IS ENOUGH.  PoseTransform never normalises a quaternion with a square root: its rotation
   matrix (_as_rotation_matrix_njit, PoseTransform.py:188-211) divides by the squared norm
   q_norm = w^2+x^2+y^2+z^2, numpy-quaternion's inverse() is conj(q)/q_norm and its product is the plain
   Hamilton product.  So every observable of compose / inverse / transform_points is a rational
   function of the inputs; IEEE doubles enter as the exact rationals they denote.

   INTERFACE (use these names and the lemmas of Proofs/PQV.v; do not unfold in client proofs)
     types      quat = {qw;qx;qy;qz} (w first, as kapture stores it)   vec = {vx;vy;vz}
                mat  = {m00..m22} row major
     equality   =q=  =v=  =m=   component-wise Qeq; Equivalence + Proper instances are in PQV, so
                `rewrite` / `setoid_rewrite` / `reflexivity` work with them
     quat       qone qzero qmul qconj qneg qscale qinv n2 (squared norm)
     vec        vzero vadd vsub vneg vscale vdot vn2 (squared length) vmaxabs (inf-norm)
     mat        mid mmul mtrans mvmul (matrix * column vector) mdet
     rotations  rot q        the normalising formula (the `else` branch of the code) — THE rotation of q
                rot_unit q   the formula without division (the `if abs(q_norm-1) < 1e-14` branch)
                unit_band q  the branch condition, decided exactly in Q
                rot_impl q   what the code computes: if unit_band q then rot_unit q else rot q
                             (for n2 q == 0 the code raises ZeroDivisionError; that outcome is modelled
                             where the pose operations are, Model/MPose.v)
     *_r        the same functions with Qred after every arithmetic step: identical values up to ==
                (PQV: qmul_r_eq, rot_impl_r_eq, ...), meant for vm_compute in correspondence shards,
                where un-normalised fractions would otherwise grow exponentially along a chain
     literals   fpp m e = m*2^e, fpn m e = m/2^e, fnp m e = -m*2^e, fnn m e = -m/2^e with m, e primitive
                63-bit integers: how the harness writes an IEEE double exactly (Coq parses primitive integers
                about 10x faster than Z / positive numerals, which dominated the shard time)
     rot_parts_r / rot_parts_inv_r / apply_parts_r   fastest exact evaluation of rot_impl q * v and
                rot_impl (qinv q) * v (common denominator); see the comment at their definition
     rot_n / close_rot   rot with un-reduced quotients; "same rotation matrix within tol" on quaternions
     tolerance  close_abs tol scale a b  :=  |a - b| <= tol * scale   (bool, in Q) and its liftings *)
From Coq Require Import QArith Qabs Qminmax Qreduction Bool List Uint63.
Import ListNotations.
Local Open Scope Q_scope.

Record quat := mkQ { qw : Q; qx : Q; qy : Q; qz : Q }.
Record vec := mkV { vx : Q; vy : Q; vz : Q }.
Record mat := mkM { m00 : Q; m01 : Q; m02 : Q;
                    m10 : Q; m11 : Q; m12 : Q;
                    m20 : Q; m21 : Q; m22 : Q }.

Definition qeq (a b : quat) : Prop :=
  qw a == qw b /\ qx a == qx b /\ qy a == qy b /\ qz a == qz b.
Definition veq (a b : vec) : Prop := vx a == vx b /\ vy a == vy b /\ vz a == vz b.
Definition meq (a b : mat) : Prop :=
  m00 a == m00 b /\ m01 a == m01 b /\ m02 a == m02 b /\
  m10 a == m10 b /\ m11 a == m11 b /\ m12 a == m12 b /\
  m20 a == m20 b /\ m21 a == m21 b /\ m22 a == m22 b.
Infix "=q=" := qeq (at level 70, no associativity).
Infix "=v=" := veq (at level 70, no associativity).
Infix "=m=" := meq (at level 70, no associativity).

(* ------------------------------------------------------------------ quaternions *)
Definition qone : quat := mkQ 1 0 0 0.
Definition qzero : quat := mkQ 0 0 0 0.

(* squared norm: numpy-quaternion calls this norm(); the code calls it q_norm *)
Definition n2 (q : quat) : Q := qw q * qw q + qx q * qx q + qy q * qy q + qz q * qz q.

(* Hamilton product, as numpy-quaternion's quaternion_multiply *)
Definition qmul (a b : quat) : quat :=
  mkQ (qw a * qw b - qx a * qx b - qy a * qy b - qz a * qz b)
      (qw a * qx b + qx a * qw b + qy a * qz b - qz a * qy b)
      (qw a * qy b - qx a * qz b + qy a * qw b + qz a * qx b)
      (qw a * qz b + qx a * qy b - qy a * qx b + qz a * qw b).

Definition qconj (q : quat) : quat := mkQ (qw q) (- qx q) (- qy q) (- qz q).
Definition qneg (q : quat) : quat := mkQ (- qw q) (- qx q) (- qy q) (- qz q).
Definition qscale (k : Q) (q : quat) : quat := mkQ (k * qw q) (k * qx q) (k * qy q) (k * qz q).

(* numpy-quaternion's inverse(): conjugate divided by the squared norm (no root) *)
Definition qinv (q : quat) : quat :=
  mkQ (qw q / n2 q) (- qx q / n2 q) (- qy q / n2 q) (- qz q / n2 q).

(* ------------------------------------------------------------------ vectors *)
Definition vzero : vec := mkV 0 0 0.
Definition vadd (a b : vec) : vec := mkV (vx a + vx b) (vy a + vy b) (vz a + vz b).
Definition vsub (a b : vec) : vec := mkV (vx a - vx b) (vy a - vy b) (vz a - vz b).
Definition vneg (a : vec) : vec := mkV (- vx a) (- vy a) (- vz a).
Definition vscale (k : Q) (a : vec) : vec := mkV (k * vx a) (k * vy a) (k * vz a).
Definition vdot (a b : vec) : Q := vx a * vx b + vy a * vy b + vz a * vz b.
Definition vn2 (a : vec) : Q := vdot a a.
Definition vmaxabs (a : vec) : Q := Qmax (Qabs (vx a)) (Qmax (Qabs (vy a)) (Qabs (vz a))).

(* ------------------------------------------------------------------ matrices *)
Definition mid : mat := mkM 1 0 0  0 1 0  0 0 1.
Definition mtrans (a : mat) : mat :=
  mkM (m00 a) (m10 a) (m20 a)  (m01 a) (m11 a) (m21 a)  (m02 a) (m12 a) (m22 a).
Definition mmul (a b : mat) : mat :=
  mkM (m00 a * m00 b + m01 a * m10 b + m02 a * m20 b)
      (m00 a * m01 b + m01 a * m11 b + m02 a * m21 b)
      (m00 a * m02 b + m01 a * m12 b + m02 a * m22 b)
      (m10 a * m00 b + m11 a * m10 b + m12 a * m20 b)
      (m10 a * m01 b + m11 a * m11 b + m12 a * m21 b)
      (m10 a * m02 b + m11 a * m12 b + m12 a * m22 b)
      (m20 a * m00 b + m21 a * m10 b + m22 a * m20 b)
      (m20 a * m01 b + m21 a * m11 b + m22 a * m21 b)
      (m20 a * m02 b + m21 a * m12 b + m22 a * m22 b).
Definition mvmul (a : mat) (v : vec) : vec :=
  mkV (m00 a * vx v + m01 a * vy v + m02 a * vz v)
      (m10 a * vx v + m11 a * vy v + m12 a * vz v)
      (m20 a * vx v + m21 a * vy v + m22 a * vz v).
Definition mdet (a : mat) : Q :=
  m00 a * (m11 a * m22 a - m12 a * m21 a)
  - m01 a * (m10 a * m22 a - m12 a * m20 a)
  + m02 a * (m10 a * m21 a - m11 a * m20 a).

(* ------------------------------------------------------------------ quaternion -> rotation matrix *)
(* PoseTransform.py:202-210, the normalising branch: this is the rotation of the normalised quaternion *)
Definition rot (q : quat) : mat :=
  let w := qw q in let x := qx q in let y := qy q in let z := qz q in
  let n := n2 q in
  mkM (1 - 2 * (y * y + z * z) / n) (2 * (x * y - z * w) / n)     (2 * (x * z + y * w) / n)
      (2 * (x * y + z * w) / n)     (1 - 2 * (x * x + z * z) / n) (2 * (y * z - x * w) / n)
      (2 * (x * z - y * w) / n)     (2 * (y * z + x * w) / n)     (1 - 2 * (x * x + y * y) / n).

(* PoseTransform.py:192-200, the branch taken when abs(q_norm - 1.0) < 1e-14: no division *)
Definition rot_unit (q : quat) : mat :=
  let w := qw q in let x := qx q in let y := qy q in let z := qz q in
  mkM (1 - 2 * (y * y + z * z)) (2 * (x * y - z * w))     (2 * (x * z + y * w))
      (2 * (x * y + z * w))     (1 - 2 * (x * x + z * z)) (2 * (y * z - x * w))
      (2 * (x * z - y * w))     (2 * (y * z + x * w))     (1 - 2 * (x * x + y * y)).

Definition band : Q := 1 # 100000000000000.        (* 1e-14 *)
Definition Qlt_bool (a b : Q) : bool := negb (Qle_bool b a).
Definition unit_band (q : quat) : bool := Qlt_bool (Qabs (n2 q - 1)) band.

(* what _as_rotation_matrix_njit computes (for n2 q <> 0) *)
Definition rot_impl (q : quat) : mat := if unit_band q then rot_unit q else rot q.

(* ------------------------------------------------------------------ tolerance comparison in Q *)
Definition close_abs (tol scale a b : Q) : bool := Qle_bool (Qabs (a - b)) (tol * scale).
Definition qmaxabs (q : quat) : Q :=
  Qmax (Qabs (qw q)) (Qmax (Qabs (qx q)) (Qmax (Qabs (qy q)) (Qabs (qz q)))).
Definition close_vec (tol scale : Q) (a b : vec) : bool :=
  close_abs tol scale (vx a) (vx b) && close_abs tol scale (vy a) (vy b) && close_abs tol scale (vz a) (vz b).
Definition close_quat (tol scale : Q) (a b : quat) : bool :=
  close_abs tol scale (qw a) (qw b) && close_abs tol scale (qx a) (qx b) &&
  close_abs tol scale (qy a) (qy b) && close_abs tol scale (qz a) (qz b).
Definition close_mat (tol scale : Q) (a b : mat) : bool :=
  close_abs tol scale (m00 a) (m00 b) && close_abs tol scale (m01 a) (m01 b) && close_abs tol scale (m02 a) (m02 b) &&
  close_abs tol scale (m10 a) (m10 b) && close_abs tol scale (m11 a) (m11 b) && close_abs tol scale (m12 a) (m12 b) &&
  close_abs tol scale (m20 a) (m20 b) && close_abs tol scale (m21 a) (m21 b) && close_abs tol scale (m22 a) (m22 b).

(* ------------------------------------------------------------------ reduced-fraction versions
   Same functions, every intermediate result brought to lowest terms (Qred).  Proofs/PQV.v shows
   each equal (==) to its plain counterpart; they exist only so that vm_compute stays fast. *)
Definition radd (a b : Q) : Q := Qred (a + b).
Definition rsub (a b : Q) : Q := Qred (a - b).
Definition rmul (a b : Q) : Q := Qred (a * b).
Definition rdiv (a b : Q) : Q := Qred (a / b).

Definition qred (q : quat) : quat := mkQ (Qred (qw q)) (Qred (qx q)) (Qred (qy q)) (Qred (qz q)).
Definition vred (v : vec) : vec := mkV (Qred (vx v)) (Qred (vy v)) (Qred (vz v)).

Definition n2_r (q : quat) : Q :=
  radd (radd (rmul (qw q) (qw q)) (rmul (qx q) (qx q))) (radd (rmul (qy q) (qy q)) (rmul (qz q) (qz q))).

Definition qmul_r (a b : quat) : quat :=
  mkQ (rsub (rsub (rmul (qw a) (qw b)) (rmul (qx a) (qx b))) (radd (rmul (qy a) (qy b)) (rmul (qz a) (qz b))))
      (radd (radd (rmul (qw a) (qx b)) (rmul (qx a) (qw b))) (rsub (rmul (qy a) (qz b)) (rmul (qz a) (qy b))))
      (radd (rsub (rmul (qw a) (qy b)) (rmul (qx a) (qz b))) (radd (rmul (qy a) (qw b)) (rmul (qz a) (qx b))))
      (radd (radd (rmul (qw a) (qz b)) (rmul (qx a) (qy b))) (rsub (rmul (qz a) (qw b)) (rmul (qy a) (qx b)))).

Definition qinv_r (q : quat) : quat :=
  let n := n2_r q in
  mkQ (rdiv (qw q) n) (rdiv (- qx q) n) (rdiv (- qy q) n) (rdiv (- qz q) n).

Definition rot_unit_r (q : quat) : mat :=
  let w := qw q in let x := qx q in let y := qy q in let z := qz q in
  let xx := rmul x x in let yy := rmul y y in let zz := rmul z z in
  let xy := rmul x y in let xz := rmul x z in let yz := rmul y z in
  let xw := rmul x w in let yw := rmul y w in let zw := rmul z w in
  mkM (rsub 1 (rmul 2 (radd yy zz))) (rmul 2 (rsub xy zw))          (rmul 2 (radd xz yw))
      (rmul 2 (radd xy zw))          (rsub 1 (rmul 2 (radd xx zz))) (rmul 2 (rsub yz xw))
      (rmul 2 (rsub xz yw))          (rmul 2 (radd yz xw))          (rsub 1 (rmul 2 (radd xx yy))).

Definition rot_r (q : quat) : mat :=
  let w := qw q in let x := qx q in let y := qy q in let z := qz q in
  let n := n2_r q in
  let xx := rmul x x in let yy := rmul y y in let zz := rmul z z in
  let xy := rmul x y in let xz := rmul x z in let yz := rmul y z in
  let xw := rmul x w in let yw := rmul y w in let zw := rmul z w in
  mkM (rsub 1 (rdiv (rmul 2 (radd yy zz)) n)) (rdiv (rmul 2 (rsub xy zw)) n)          (rdiv (rmul 2 (radd xz yw)) n)
      (rdiv (rmul 2 (radd xy zw)) n)          (rsub 1 (rdiv (rmul 2 (radd xx zz)) n)) (rdiv (rmul 2 (rsub yz xw)) n)
      (rdiv (rmul 2 (rsub xz yw)) n)          (rdiv (rmul 2 (radd yz xw)) n)          (rsub 1 (rdiv (rmul 2 (radd xx yy)) n)).

Definition unit_band_r (q : quat) : bool := Qlt_bool (Qabs (n2_r q - 1)) band.
Definition rot_impl_r (q : quat) : mat := if unit_band_r q then rot_unit_r q else rot_r q.

Definition vadd_r (a b : vec) : vec := mkV (radd (vx a) (vx b)) (radd (vy a) (vy b)) (radd (vz a) (vz b)).
Definition mvmul_r (a : mat) (v : vec) : vec :=
  mkV (radd (radd (rmul (m00 a) (vx v)) (rmul (m01 a) (vy v))) (rmul (m02 a) (vz v)))
      (radd (radd (rmul (m10 a) (vx v)) (rmul (m11 a) (vy v))) (rmul (m12 a) (vz v)))
      (radd (radd (rmul (m20 a) (vx v)) (rmul (m21 a) (vy v))) (rmul (m22 a) (vz v))).

(* ------------------------------------------------------------------ integer representative
   The rotation of q is unchanged by a positive factor (PQV.rot_scale).  Multiplying by the largest
   denominator turns a quaternion of doubles (denominators are powers of two) into one with integer
   components, on which + and - need no cross-multiplication by 2^k denominators — the dominant cost
   of Q arithmetic on doubles.  Correct for any rational quaternion (PQV.qint_rot), integral for dyadic ones. *)
Definition qint (q : quat) : quat :=
  let w := Qred (qw q) in let x := Qred (qx q) in let y := Qred (qy q) in let z := Qred (qz q) in
  let k := Zpos (Pos.max (Pos.max (Qden w) (Qden x)) (Pos.max (Qden y) (Qden z))) # 1 in
  mkQ (Qred (k * w)) (Qred (k * x)) (Qred (k * y)) (Qred (k * z)).

(* ------------------------------------------------------------------ numerator / denominator form
   Cheapest exact evaluation of  rot_impl q * v : all nine entries of the matrix share one denominator d
   (1 in the unit branch, n2 q otherwise), so  rot_impl q * v = (M * v) / d  with M = rotNd d q free of
   divisions; for doubles M * v stays dyadic (reduction is linear time) and only three real gcds remain.
   PQV.apply_parts_r_eq :  n2 q <> 0 -> apply_parts_r (rot_parts_r q) v =v= mvmul (rot_impl q) v
   PQV.apply_parts_inv_r_eq : the same for rot_impl (qinv q), the matrix taken by inverse(). *)
Definition rotNd (d : Q) (q : quat) : mat :=
  let w := qw q in let x := qx q in let y := qy q in let z := qz q in
  mkM (d - 2 * (y * y + z * z)) (2 * (x * y - z * w))     (2 * (x * z + y * w))
      (2 * (x * y + z * w))     (d - 2 * (x * x + z * z)) (2 * (y * z - x * w))
      (2 * (x * z - y * w))     (2 * (y * z + x * w))     (d - 2 * (x * x + y * y)).
Definition rotNd_r (d : Q) (q : quat) : mat :=
  let w := qw q in let x := qx q in let y := qy q in let z := qz q in
  let xx := rmul x x in let yy := rmul y y in let zz := rmul z z in
  let xy := rmul x y in let xz := rmul x z in let yz := rmul y z in
  let xw := rmul x w in let yw := rmul y w in let zw := rmul z w in
  mkM (rsub d (rmul 2 (radd yy zz))) (rmul 2 (rsub xy zw))          (rmul 2 (radd xz yw))
      (rmul 2 (radd xy zw))          (rsub d (rmul 2 (radd xx zz))) (rmul 2 (rsub yz xw))
      (rmul 2 (rsub xz yw))          (rmul 2 (radd yz xw))          (rsub d (rmul 2 (radd xx yy))).
(* (M, d) with rot_impl q == M / d *)
Definition rot_parts_r (q : quat) : mat * Q :=
  let n := n2_r q in
  if Qlt_bool (Qabs (n - 1)) band then (rotNd_r 1 q, 1)
  else let q' := qint q in let n' := n2_r q' in (rotNd_r n' q', n').
(* (M, d) with rot_impl (qinv q) == M / d : the squared norm of qinv q is 1/n, and its matrix is that of
   conj q with denominator n (normalising branch) or n^2 (unit branch) *)
Definition rot_parts_inv_r (q : quat) : mat * Q :=
  let n := n2_r q in
  if Qlt_bool (Qabs (/ n - 1)) band then let d := rmul n n in (rotNd_r d (qconj q), d)
  else let q' := qint q in let n' := n2_r q' in (rotNd_r n' (qconj q'), n').
(* the quotient is left un-reduced: it is the end result of a call and is only compared *)
Definition apply_parts_r (md : mat * Q) (v : vec) : vec :=
  let u := mvmul_r (fst md) v in
  mkV (vx u / snd md) (vy u / snd md) (vz u / snd md).
(* qinv with the squared norm computed in lowest terms and the quotients left un-reduced *)
Definition qinv_n (q : quat) : quat :=
  let n := n2_r q in mkQ (qw q / n) (- qx q / n) (- qy q / n) (- qz q / n).

(* rot q with one reduction of the squared norm and un-reduced quotients (for comparisons only) *)
Definition rot_n (q : quat) : mat :=
  let n := n2_r q in let M := rotNd_r n q in
  mkM (m00 M / n) (m01 M / n) (m02 M / n) (m10 M / n) (m11 M / n) (m12 M / n) (m20 M / n) (m21 M / n) (m22 M / n).
(* two quaternions denote the same rotation within tol on every matrix entry (entries are <= 1 in size, so
   this is the property's "relative tolerance on matrix entries"); the zero quaternion only matches itself.
   Evaluated without any division: |A_ij/na - B_ij/nb| <= tol  <=>  |A_ij*nb - B_ij*na| <= tol*na*nb
   (PQV.close_rot_spec: equals close_mat tol 1 (rot a) (rot b) for non-zero a, b). *)
Definition close_rot_core (tol : Q) (a b : quat) : bool :=
  let na := n2_r a in let nb := n2_r b in
  if Qeq_bool na 0 then Qeq_bool nb 0
  else negb (Qeq_bool nb 0) &&
       (let A := rotNd_r na a in let B := rotNd_r nb b in
        let bound := tol * (na * nb) in
        let ok := fun x y : Q => Qle_bool (Qabs (rsub (rmul x nb) (rmul y na))) bound in
        ok (m00 A) (m00 B) && ok (m01 A) (m01 B) && ok (m02 A) (m02 B) &&
        ok (m10 A) (m10 B) && ok (m11 A) (m11 B) && ok (m12 A) (m12 B) &&
        ok (m20 A) (m20 B) && ok (m21 A) (m21 B) && ok (m22 A) (m22 B)).
Definition close_rot (tol : Q) (a b : quat) : bool := close_rot_core tol (qint a) (qint b).

(* ------------------------------------------------------------------ exact literals for IEEE doubles
   A finite double is (+/-) m * 2^(+/-)e with m < 2^53; harness/props/c05.py (_cf) writes it with these. *)
Definition pow2 (e : int) : positive := Z.to_pos (Z.shiftl 1 (Uint63.to_Z e)).
Definition fpp (m e : int) : Q := Qmake (Z.shiftl (Uint63.to_Z m) (Uint63.to_Z e)) 1.
Definition fpn (m e : int) : Q := Qmake (Uint63.to_Z m) (pow2 e).
Definition fnp (m e : int) : Q := Qmake (- Z.shiftl (Uint63.to_Z m) (Uint63.to_Z e)) 1.
Definition fnn (m e : int) : Q := Qmake (- Uint63.to_Z m) (pow2 e).
Arguments fpp (_ _)%uint63.
Arguments fpn (_ _)%uint63.
Arguments fnp (_ _)%uint63.
Arguments fnn (_ _)%uint63.
