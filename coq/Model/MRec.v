(* Model/MRec.v — executable model of kapture.core.Records.RecordsBase (property C07), and of the
   dict-of-dict part of kapture.core.Trajectories.Trajectories, which has the same code.
   Definitions only; proofs are in Proofs/PRec.v.

   Concrete side: the container is a Python dict  timestamp -> (dict device -> payload), modelled as
   an insertion-ordered association list of association lists ([nested]).  [m_step] mirrors
   __setitem__ / __delitem__ / __contains__ / __getitem__ / key_pairs / len  of the class, with the
   exceptions they raise as outcomes.
   Abstract side: a plain map keyed by the pair (timestamp, device) ([amap]) and the obvious
   semantics of the same operations on it ([s_step]).
   The payload type P is abstract (poses for Trajectories, file names / record objects for Records). *)
From Coq Require Import List Bool ZArith.
From KV Require Import Eqb AL.
Import ListNotations.
Local Open Scope Z_scope.

Definition is_nil {A} (l : list A) : bool := match l with [] => true | _ => false end.

Section Rec.
  Context {D P : Type} `{EqDec D} `{EqDec P}.

  Definition inner := al D P.
  Definition nested := al Z inner.
  Definition amap := al (Z * D) P.

  (* operations of the property's quantifier that exist on both containers *)
  Inductive mop :=
  | SetPair (t : Z) (d : D) (p : P)          (* c[t, d] = p *)
  | SetTs (t : Z) (m : list (D * P))         (* c[t] = {d: p, ...}   (a fresh dict) *)
  | DelPair (t : Z) (d : D)                  (* del c[t, d] *)
  | DelTs (t : Z)                            (* del c[t] *)
  | HasTs (t : Z)                            (* t in c *)
  | HasPair (t : Z) (d : D)                  (* (t, d) in c *)
  | GetPair (t : Z) (d : D)                  (* c[t, d] *)
  | GetTs (t : Z)                            (* c[t]  (observed as its set of items) *)
  | Pairs                                    (* key_pairs() with the stored values *)
  | Len                                      (* len(c) = number of timestamps *)
  | Bad.                                     (* any call with an ill-typed key or value *)

  Inductive out :=
  | ONone                                    (* returned None *)
  | OBool (b : bool)
  | OVal (p : P)
  | ODict (m : list (D * P))                 (* compared as a set *)
  | OPairs (l : list (Z * D * P))            (* compared as a set *)
  | OInt (z : Z)
  | OList (l : list Z)
  | OKeyErr | OTypeErr | OIndexErr | OOtherErr.

  (* a dict literal / dict argument: later duplicates overwrite *)
  Definition of_list (l : list (D * P)) : inner :=
    fold_left (fun acc e => insert (fst e) (snd e) acc) l [].

  Definition lookup2 (t : Z) (d : D) (x : nested) : option P :=
    match lookup t x with Some m => lookup d m | None => None end.

  Definition flatten (x : nested) : list (Z * D * P) :=
    flat_map (fun tm => map (fun dp => (fst tm, fst dp, snd dp)) (snd tm)) x.

  Definition opt_true {A} (o : option A) : bool := match o with Some _ => true | None => false end.

  (* [store_empty] = true is the code before the repair: c[t] = {} kept an empty timestamp *)
  Definition m_step_gen (store_empty : bool) (x : nested) (o : mop) : out * nested :=
    match o with
    | SetPair t d p =>
        (* self.setdefault(timestamp, {})[device_id] = value *)
        let m := match lookup t x with Some m => m | None => [] end in
        (ONone, insert t (insert d p m) x)
    | SetTs t l =>
        let m := of_list l in
        (ONone, if is_nil m && negb store_empty then remove t x else insert t m x)
    | DelPair t d =>
        match lookup t x with
        | None => (OKeyErr, x)
        | Some m =>
            match lookup d m with
            | None => (OKeyErr, x)
            | Some _ =>
                let m' := remove d m in
                (* "Cleaning upper level" *)
                (ONone, if is_nil m' then remove t x else insert t m' x)
            end
        end
    | DelTs t => if mem t x then (ONone, remove t x) else (OKeyErr, x)
    | HasTs t => (OBool (mem t x), x)
    | HasPair t d => (OBool (opt_true (lookup2 t d x)), x)
    | GetPair t d => (match lookup2 t d x with Some p => OVal p | None => OKeyErr end, x)
    | GetTs t => (match lookup t x with Some m => ODict m | None => OKeyErr end, x)
    | Pairs => (OPairs (flatten x), x)
    | Len => (OInt (Z.of_nat (length x)), x)
    | Bad => (OTypeErr, x)
    end.

  Definition m_step := m_step_gen false.
  Definition m_step_legacy := m_step_gen true.

  Fixpoint m_run_gen (se : bool) (x : nested) (ops : list mop) : list out * nested :=
    match ops with
    | [] => ([], x)
    | o :: ops' => let '(r, x') := m_step_gen se x o in
                   let '(rs, x'') := m_run_gen se x' ops' in (r :: rs, x'')
    end.
  Definition m_run := m_run_gen false.
  Definition m_run_legacy := m_run_gen true.

  (* ---- the plain map *)
  Definition ts_of (a : amap) (t : Z) : amap := List.filter (fun e => eqb (fst (fst e)) t) a.
  Definition drop_ts (a : amap) (t : Z) : amap := List.filter (fun e => negb (eqb (fst (fst e)) t)) a.
  Definition timestamps (a : amap) : list Z := dedup (map (fun e => fst (fst e)) a).

  Definition s_step (a : amap) (o : mop) : out * amap :=
    match o with
    | SetPair t d p => (ONone, insert (t, d) p a)
    | SetTs t l => (ONone, fold_left (fun acc e => insert (t, fst e) (snd e) acc) l (drop_ts a t))
    | DelPair t d => if mem (t, d) a then (ONone, remove (t, d) a) else (OKeyErr, a)
    | DelTs t => if is_nil (ts_of a t) then (OKeyErr, a) else (ONone, drop_ts a t)
    | HasTs t => (OBool (negb (is_nil (ts_of a t))), a)
    | HasPair t d => (OBool (mem (t, d) a), a)
    | GetPair t d => (match lookup (t, d) a with Some p => OVal p | None => OKeyErr end, a)
    | GetTs t => (if is_nil (ts_of a t) then OKeyErr
                  else ODict (map (fun e => (snd (fst e), snd e)) (ts_of a t)), a)
    | Pairs => (OPairs (map (fun e => (fst (fst e), snd (fst e), snd e)) a), a)
    | Len => (OInt (Z.of_nat (length (timestamps a))), a)
    | Bad => (OTypeErr, a)
    end.

  Fixpoint s_run (a : amap) (ops : list mop) : list out * amap :=
    match ops with
    | [] => ([], a)
    | o :: ops' => let '(r, a') := s_step a o in
                   let '(rs, a'') := s_run a' ops' in (r :: rs, a'')
    end.

  (* ---- boolean comparison of outcomes, used by the correspondence (set-valued outcomes are
     compared as sets: equal length, no repetition on the observed side is the harness's business,
     every element of one found in the other) *)
  Definition subset_b {A} `{EqDec A} (l m : list A) : bool := forallb (fun x => memb x m) l.
  Definition seteq_b {A} `{EqDec A} (l m : list A) : bool :=
    Nat.eqb (length l) (length m) && subset_b l m && subset_b m l.

  Definition out_eqb (a b : out) : bool :=
    match a, b with
    | ONone, ONone | OKeyErr, OKeyErr | OTypeErr, OTypeErr | OIndexErr, OIndexErr | OOtherErr, OOtherErr => true
    | OBool x, OBool y => eqb x y
    | OVal p, OVal q => eqb p q
    | ODict m, ODict n => seteq_b m n
    | OPairs l, OPairs k => seteq_b l k
    | OInt x, OInt y => eqb x y
    | OList l, OList k => eqb l k
    | _, _ => false
    end.

  Fixpoint outs_eqb (l m : list out) : bool :=
    match l, m with
    | [], [] => true
    | a :: l', b :: m' => out_eqb a b && outs_eqb l' m'
    | _, _ => false
    end.
End Rec.

Arguments mop : clear implicits.
Arguments out : clear implicits.
Arguments nested : clear implicits.
Arguments inner : clear implicits.
Arguments amap : clear implicits.
