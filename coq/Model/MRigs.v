(* Model/MRigs.v — executable model of kapture.core.Trajectories.rigs_remove(_inplace) and
   rigs_recover(_inplace) (property C06).  Definitions only; proofs are in Proofs/PRigs.v.

   DATA.  Rigs = Python dict rig_id -> dict device_id -> PoseTransform; Trajectories = dict timestamp ->
   dict device_id -> PoseTransform.  Both are insertion-ordered association lists (Base/AL.v) of
   insertion-ordered association lists; device and rig identifiers are strings, timestamps are Z.
   The pose type P and the two pose operations the code uses,
        comp a b = PoseTransform.compose([a, b])        inv a = a.inverse()
   are parameters of the section: the same model text is instantiated (bottom of the file)
     - with the specification-level algebra MPose.compose2 / MPose.inverse  (the theorems), and
     - with the reduced-fraction version of what the code computes (rot_impl, Qred)  (the shards).

   WHAT IS MIRRORED, line by line of Trajectories.py:
   rigs_remove_inplace (270-304)
     * up to max_depth iterations; each collects the job list FROM THE CURRENT STATE: every (timestamp,
       device, pose) in dict order whose device is a key of rigs (the pose is captured in the job);
     * stops early when the job list is empty;
     * every job writes compose([device_from_rig, rig_from_world]) for every member in rig order through
       trajectories.setdefault(timestamp, {})[device] (overwrite keeps the position, new key goes last),
       then deletes trajectories[timestamp][rig] -- the plain inner dict delete, which does NOT drop an
       emptied timestamp;
     * the final loop `for timestamp in trajectories.keys(): if len(...) == 0: del ...` deletes while
       iterating: CPython deletes the first empty timestamp and then raises
       RuntimeError("dictionary changed size during iteration") -- whatever the position of that
       timestamp.  Outcome [RuntimeErr] carries the state left behind.  With no empty timestamp the loop
       does nothing.  (Reached only with zero-member rigs or an input that already has an empty
       timestamp; both outside C06's quantifier, modelled all the same.)
   rigs_recover_inplace (328-382)
     * reverse_rig_dict: device -> (rig, rigs[rig, device].inverse()) over key_pairs() (a device listed in
       two rigs keeps the LAST rig, dict-comprehension semantics);
     * up to max_depth iterations; jobs = (timestamp, device) of flatten(trajectories, is_sorted=True)
       (timestamps ascending, devices in str order) whose device is a key of the reverse dict;
     * each job pops trajectories[timestamp][device] (the CURRENT pose; the emptied timestamp stays), then:
       not a master -> nothing; rig already posed at that timestamp -> nothing; otherwise
       trajectories[timestamp, rig] = compose([rig_from_sensor, sensor_from_world]).
   max_depth is an argument of both in-place functions (range(max_depth)): the fuel of remove_iter / recover_iter; the
   correspondence passes it explicitly (case field c_fuel, 0..14) and PRigsExt shows the result does not depend on it
   once it is at least the nesting depth.
   KeyError (a job whose entry has vanished) is an explicit outcome ([None] of the job functions); PRigs
   shows it cannot happen on well-formed dicts.
   rigs_remove / rigs_recover (253-267, 307-325) are deepcopy + the in-place function: the model is pure, so
   they are the in-place functions applied to [deepcopy_traj T] (see there: the copy loses empty timestamps);
   that the arguments are left alone is checked by the harness (snapshots).

   HISTORIES (bottom half): the functions take the rigs and trajectories as they are at the call.  [edit] / [apply_edit]
   model every dict path that changes a Rigs object, [call] one call as a function of the current arguments, [hrun] a
   sequence of calls, edits and refills on one Rigs / one Trajectories object; [check_steps] compares such a sequence run
   on the real objects, call by call, with [call] on the model's current rigs and the trajectories observed before the call.

   NOT MODELLED: the float rounding of compose/inverse (C05's tolerance applies), PoseTransform objects with
   r or t None and zero quaternions (ZeroDivisionError inside compose; outside the quantifier -- [check_case]
   refuses such cases), logging/tqdm. *)
From Coq Require Import List Bool String ZArith QArith Qabs Qminmax.
From KV Require Import Eqb AL Str.
From KV.Model Require Import MQV MPose.
Import ListNotations.

(* ------------------------------------------------------------------ two-level maps *)
Section Two.
  Context {K1 K2 V : Type} `{EqDec K1} `{EqDec K2}.
  Definition map2 := al K1 (al K2 V).

  Definition lookup2 (a : K1) (b : K2) (m : map2) : option V :=
    match lookup a m with Some i => lookup b i | None => None end.

  (* m.setdefault(a, {})[b] = v *)
  Definition set2 (a : K1) (b : K2) (v : V) (m : map2) : map2 :=
    match lookup a m with
    | Some i => insert a (insert b v i) m
    | None => insert a [(b, v)] m
    end.

  (* [(a, b, v) for a, i in m.items() for b, v in i.items()] *)
  Definition flat2 (m : map2) : list (K1 * K2 * V) :=
    flat_map (fun ai => map (fun bv => (fst ai, fst bv, snd bv)) (snd ai)) m.
End Two.
Arguments map2 : clear implicits.

(* insertion sort of an association list on its keys: sorted(d.items()) when keys are unique *)
Section Sort.
  Context {K V : Type}.
  Variable leb : K -> K -> bool.
  Fixpoint ins_by (x : K * V) (l : list (K * V)) : list (K * V) :=
    match l with
    | [] => [x]
    | y :: l' => if leb (fst x) (fst y) then x :: l else y :: ins_by x l'
    end.
  Fixpoint sort_by (l : list (K * V)) : list (K * V) :=
    match l with [] => [] | x :: l' => ins_by x (sort_by l') end.
End Sort.

Notation dev := string (only parsing).

Inductive outcome (T : Type) :=
| Done (t : T)            (* returned normally; t = the trajectories afterwards *)
| RuntimeErr (t : T)      (* RuntimeError from the final clean-up loop; t = state left behind *)
| KeyErr.                 (* KeyError inside a job *)
Arguments Done {T} t.
Arguments RuntimeErr {T} t.
Arguments KeyErr {T}.

Section Rigs.
  Variable P : Type.
  Variable comp : P -> P -> P.      (* PoseTransform.compose([a, b]) *)
  Variable inv : P -> P.            (* a.inverse() *)

  Definition rigs := map2 string string P.
  Definition traj := map2 Z string P.

  (* `rig_id in rigs` *)
  Definition is_rig (R : rigs) (d : dev) : bool := mem d R.

  (* ---------------------------------------------------------------- rigs_remove_inplace *)
  Definition remove_jobs (R : rigs) (T : traj) : list (Z * dev * P) :=
    List.filter (fun j => is_rig R (snd (fst j))) (flat2 T).

  Definition run_remove_job (R : rigs) (j : Z * dev * P) (T : traj) : option traj :=
    let '(t, r, w) := j in
    match lookup r R with
    | None => None                                   (* rigs[rig_id]: unreachable, r passed the filter *)
    | Some members =>
        let T1 := fold_left (fun T dg => set2 t (fst dg) (comp (snd dg) w) T) members T in
        match lookup t T1 with
        | None => None                               (* trajectories[timestamp] *)
        | Some m => if mem r m then Some (insert t (AL.remove r m) T1) else None   (* del ...[rig_id] *)
        end
    end.

  Fixpoint run_jobs {J} (run : J -> traj -> option traj) (js : list J) (T : traj) : option traj :=
    match js with
    | [] => Some T
    | j :: js' => match run j T with Some T' => run_jobs run js' T' | None => None end
    end.

  Fixpoint remove_iter (fuel : nat) (R : rigs) (T : traj) : option traj :=
    match fuel with
    | O => Some T                                    (* range(max_depth) exhausted *)
    | S f =>
        match remove_jobs R T with
        | [] => Some T                               (* if len(jobs) == 0: break *)
        | js => match run_jobs (run_remove_job R) js T with
                | Some T' => remove_iter f R T'
                | None => None
                end
        end
    end.

  Definition is_nil {A} (l : list A) : bool := match l with [] => true | _ => false end.
  Fixpoint first_empty (T : traj) : option Z :=
    match T with
    | [] => None
    | (t, m) :: T' => if is_nil m then Some t else first_empty T'
    end.

  Definition remove_inplace (fuel : nat) (R : rigs) (T : traj) : outcome traj :=
    match remove_iter fuel R T with
    | None => KeyErr
    | Some T' =>
        match first_empty T' with
        | Some t => RuntimeErr (AL.remove t T')
        | None => Done T'
        end
    end.

  (* ---------------------------------------------------------------- rigs_recover_inplace *)
  Definition reverse_dict (R : rigs) : al string (string * P) :=
    fold_left (fun acc rdg => insert (snd (fst rdg)) (fst (fst rdg), inv (snd rdg)) acc) (flat2 R) [].

  Definition is_master (masters : option (list string)) (s : dev) : bool :=
    match masters with None => true | Some l => memb s l end.

  (* flatten(trajectories, is_sorted=True) filtered on the reverse dict; the pose of the tuple is
     overwritten by the pop, so a job is (timestamp, device) *)
  Definition recover_jobs (rev : al string (string * P)) (T : traj) : list (Z * dev) :=
    flat_map (fun tm => map (fun dp => (fst tm, fst dp))
                            (List.filter (fun dp => mem (fst dp) rev) (sort_by sleb (snd tm))))
             (sort_by Z.leb T).

  Definition run_recover_job (rev : al string (string * P)) (masters : option (list string))
             (j : Z * dev) (T : traj) : option traj :=
    let '(t, s) := j in
    match lookup s rev with
    | None => None                                   (* reverse_rig_dict[sensor_id]: unreachable *)
    | Some (r, gi) =>
        match lookup t T with
        | None => None                               (* trajectories[timestamp] *)
        | Some m =>
            match lookup s m with
            | None => None                           (* .pop(sensor_id) *)
            | Some p =>
                let m1 := AL.remove s m in
                let T1 := insert t m1 T in
                if negb (is_master masters s) then Some T1
                else if mem r m1 then Some T1
                else Some (set2 t r (comp gi p) T1)
            end
        end
    end.

  Fixpoint recover_iter (fuel : nat) (rev : al string (string * P)) (masters : option (list string))
           (T : traj) : option traj :=
    match fuel with
    | O => Some T
    | S f =>
        match recover_jobs rev T with
        | [] => Some T
        | js => match run_jobs (run_recover_job rev masters) js T with
                | Some T' => recover_iter f rev masters T'
                | None => None
                end
        end
    end.

  Definition recover_inplace (fuel : nat) (R : rigs) (masters : option (list string)) (T : traj)
    : outcome traj :=
    match recover_iter fuel (reverse_dict R) masters T with
    | None => KeyErr
    | Some T' => Done T'
    end.

  (* ---------------------------------------------------------------- declarative side (theorems) *)
  (* rigs[r][d] = g : device d is mounted on rig r with pose g (d_from_r) *)
  Definition member (R : rigs) (r d : dev) (g : P) : Prop := lookup2 r d R = Some g.

  (* a path upwards: [path_up R d l top]: l = [(r1,g0); (r2,g1); ...; (rk,g(k-1))] with
     d in r1 (pose g0), r1 in r2 (pose g1), ..., top = rk  (top = d for the empty path) *)
  Inductive path_up (R : rigs) : dev -> list (dev * P) -> dev -> Prop :=
  | path_nil d : path_up R d [] d
  | path_cons d r g l top : member R r d g -> path_up R r l top -> path_up R d ((r, g) :: l) top.

  (* proper ancestor *)
  Definition anc (R : rigs) (a d : dev) : Prop := exists l, l <> [] /\ path_up R d l a.

  (* nesting depth <= n: at most n rigs on any chain rig-in-rig-in-... ; depth 1 = rigs of sensors only.
     (Implies that the membership relation has no cycle.) *)
  Definition depth_le (R : rigs) (n : nat) : Prop :=
    forall d l top, is_rig R d = true -> path_up R d l top -> (List.length l < n)%nat.

  (* each device is mounted on at most one rig *)
  Definition one_parent (R : rigs) : Prop :=
    forall r r' d g g', member R r d g -> member R r' d g' -> r = r'.

  Definition posed (T : traj) (t : Z) (d : dev) : Prop := lookup2 t d T <> None.

  (* no device gets a pose from two sources at one timestamp: a posed device has no posed proper ancestor *)
  Definition single_source (R : rigs) (T : traj) : Prop :=
    forall t a d, anc R a d -> posed T t a -> posed T t d -> False.

  (* every rig has at least one member *)
  Definition rigs_nonempty (R : rigs) : Prop := forall r m, lookup r R = Some m -> m <> [].
  Definition no_empty_timestamp (T : traj) : Prop := forall t m, lookup t T = Some m -> m <> [].

  (* dict well-formedness: keys unique at both levels (always true of a Python dict) *)
  Definition wf2 {K1 K2} `{EqDec K1} `{EqDec K2} (m : map2 K1 K2 P) : Prop :=
    wf m /\ forall a i, lookup a m = Some i -> wf i.

  (* g0 o (g1 o (... o w)) *)
  Definition comp_path (l : list (dev * P)) (w : P) : P := fold_right comp w (map snd l).
  (* PoseTransform.compose(p :: ps): the left fold of the code *)
  Definition comp_list (p : P) (ps : list P) : P := fold_left comp ps p.
End Rigs.

Arguments member {P} R r d g.
Arguments path_up {P} R d l top.
Arguments anc {P} R a d.
Arguments depth_le {P} R n.
Arguments one_parent {P} R.
Arguments posed {P} T t d.
Arguments single_source {P} R T.
Arguments rigs_nonempty {P} R.
Arguments no_empty_timestamp {P} T.
Arguments wf2 {P K1 K2 _ _} m.
Arguments is_rig {P} R d.

(* ------------------------------------------------------------------ instances *)
Definition max_depth : nat := 10.

(* specification level: the algebra of Model/MPose.v (C05's group) *)
Definition remove_spec_inplace := remove_inplace MPose.pose MPose.compose2.
Definition recover_spec_inplace := recover_inplace MPose.pose MPose.compose2 MPose.inverse.

(* what the code computes, in exact arithmetic with fractions kept reduced (for vm_compute): the bodies of
   MPose.compose_step / MPose.inverse_api for poses whose parts are present and whose quaternion is not 0 *)
Definition comp_x (a b : pose) : pose :=
  mkP (qmul_r (pr a) (pr b)) (vadd_r (mvmul_r (rot_impl_r (pr a)) (pt b)) (pt a)).
Definition inv_x (p : pose) : pose :=
  let ri := qinv_r (pr p) in mkP ri (mvmul_r (rot_impl_r ri) (vneg (pt p))).
Definition remove_x := remove_inplace pose comp_x.
Definition recover_x := recover_inplace pose comp_x inv_x.

(* copy.deepcopy(trajectories), the first step of rigs_remove / rigs_recover: the copy is rebuilt through
   Trajectories.__setitem__(timestamp, dict), which does not keep a timestamp without poses (repo commit "assigning
   an empty dict to a timestamp of Trajectories / Records removes the timestamp").  So the copying variants run the
   in-place function on the trajectories WITHOUT its empty timestamps; with none (the quantifier) it is the identity
   (PRigs.deepcopy_traj_id). *)
Definition deepcopy_traj {P} (T : traj P) : traj P := List.filter (fun tm => negb (is_nil (snd tm))) T.

(* ------------------------------------------------------------------ histories *)
(* The four functions take the Rigs object and the Trajectories object AS THEY ARE AT THE CALL.  A history is a
   sequence of calls on ONE Rigs object and ONE Trajectories object interleaved with edits of the rigs through the
   paths the class documents or the library uses, none of which the functions may remember anything about:
     rigs[r, d] = p (Rigs.__setitem__: self.setdefault(r, {})[d] = p)        rigs[r] = {..}
     rigs[r][d] = p, rigs[r].update({..}), del rigs[r][d], rigs[r].pop(d)    (plain inner dict; kapture/io/csv.py)
     del rigs[r], rigs.pop(r), rigs.popitem(), rigs.update(other), rigs |= other, rigs.setdefault(r, {..}),
     rigs.clear()                                                            (inherited dict methods; importers)
   [None] = KeyError (rig or member absent). *)
Inductive edit (P : Type) :=
| ESetPair (r d : string) (p : P)
| ESetRig (r : string) (m : al string P)
| ESetInner (r d : string) (p : P)
| EUpdInner (r : string) (m : al string P)
| EDelInner (r d : string)
| EDelRig (r : string)
| EPopItem
| EUpdate (o : rigs P)
| ESetDefault (r : string) (m : al string P)
| EClear.
Arguments ESetPair {P} r d p.
Arguments ESetRig {P} r m.
Arguments ESetInner {P} r d p.
Arguments EUpdInner {P} r m.
Arguments EDelInner {P} r d.
Arguments EDelRig {P} r.
Arguments EPopItem {P}.
Arguments EUpdate {P} o.
Arguments ESetDefault {P} r m.
Arguments EClear {P}.

(* d.update(o) on insertion-ordered dicts *)
Definition al_update {K V} `{EqDec K} (o m : al K V) : al K V :=
  fold_left (fun acc kv => insert (fst kv) (snd kv) acc) o m.

Definition apply_edit {P} (e : edit P) (R : rigs P) : option (rigs P) :=
  match e with
  | ESetPair r d p => Some (set2 r d p R)
  | ESetRig r m => Some (insert r m R)
  | ESetInner r d p => match lookup r R with Some i => Some (insert r (insert d p i) R) | None => None end
  | EUpdInner r m => match lookup r R with Some i => Some (insert r (al_update m i) R) | None => None end
  | EDelInner r d =>
      match lookup r R with
      | Some i => if mem d i then Some (insert r (AL.remove d i) R) else None
      | None => None
      end
  | EDelRig r => if mem r R then Some (AL.remove r R) else None
  | EPopItem => match R with [] => None | _ => Some (removelast R) end
  | EUpdate o => Some (al_update o R)
  | ESetDefault r m => Some (if mem r R then R else insert r m R)
  | EClear => Some []
  end.

Inductive kind := KRemove | KRemoveIp | KRecover | KRecoverIp.
Definition inplace (k : kind) : bool := match k with KRemoveIp | KRecoverIp => true | _ => false end.

Section History.
  Variable P : Type.
  Variable comp : P -> P -> P.
  Variable inv : P -> P.
  Variable fuel : nat.

  (* one call: a function of the rigs and the trajectories it is given (and the master list), of nothing else *)
  Definition call (k : kind) (masters : option (list string)) (R : rigs P) (T : traj P) : outcome (traj P) :=
    match k with
    | KRemove => remove_inplace P comp fuel R (deepcopy_traj T)
    | KRemoveIp => remove_inplace P comp fuel R T
    | KRecover => recover_inplace P comp inv fuel R masters (deepcopy_traj T)
    | KRecoverIp => recover_inplace P comp inv fuel R masters T
    end.

  (* the Trajectories object after the call: the copying variants leave it alone, the in-place variants leave their
     result (or the state at the RuntimeError; a KeyError is unreachable on real dicts, PRigs) *)
  Definition after_call (k : kind) (T : traj P) (o : outcome (traj P)) : traj P :=
    if inplace k then match o with Done T' | RuntimeErr T' => T' | KeyErr => T end else T.

  Inductive step :=
  | SEdit (e : edit P)                                (* an edit of the Rigs object; a KeyError changes nothing *)
  | STraj (T : traj P)                                (* the Trajectories object is cleared and refilled *)
  | SCall (k : kind) (masters : option (list string)).

  Definition state : Type := rigs P * traj P.
  Definition step_state (st : state) (s : step) : state :=
    match s with
    | SEdit e => match apply_edit e (fst st) with Some R' => (R', snd st) | None => st end
    | STraj T => (fst st, T)
    | SCall k m => (fst st, after_call k (snd st) (call k m (fst st) (snd st)))
    end.
  Definition hstate (h : list step) (st : state) : state := fold_left step_state h st.
  (* the outcomes of the calls of a history, in order *)
  Fixpoint hrun (h : list step) (st : state) : list (outcome (traj P)) :=
    match h with
    | [] => []
    | s :: h' =>
        match s with SCall k m => [call k m (fst st) (snd st)] | _ => [] end ++ hrun h' (step_state st s)
    end.
End History.
Arguments SEdit {P} e.
Arguments STraj {P} T.
Arguments SCall {P} k masters.

Definition call_spec := call pose MPose.compose2 MPose.inverse max_depth.
Definition hstate_spec := hstate pose MPose.compose2 MPose.inverse max_depth.
Definition hrun_spec := hrun pose MPose.compose2 MPose.inverse max_depth.
Definition call_x := call pose comp_x inv_x max_depth.

(* ------------------------------------------------------------------ correspondence *)
Inductive exc := ENone | ERuntime | EKey | EOther.
Definition exc_eqb (a b : exc) : bool :=
  match a, b with ENone, ENone | ERuntime, ERuntime | EKey, EKey | EOther, EOther => true | _, _ => false end.

(* one observed call: the exception class and the trajectories afterwards -- the returned object for the
   copying variants (None when they raised), the mutated argument for the in-place variants *)
Record obs := { o_exc : exc; o_state : option (traj pose) }.

Record case := {
  c_rigs : rigs pose;
  c_traj : traj pose;                    (* input of rigs_remove / rigs_remove_inplace *)
  c_masters : option (list string);
  c_fuel : nat;                          (* the max_depth argument given to the two in-place functions (10 = the default;
                                            the copying variants have no such argument and always run with 10) *)
  c_rec_in : option (traj pose);         (* input of rigs_recover(_inplace): an explicit trajectories, or the
                                            doubles rigs_remove returned, as exact rationals *)
  o_remove : obs; o_remove_ip : obs;
  o_recover : option obs; o_recover_ip : option obs;
  o_pure : bool                          (* snapshots: rigs never changed, trajectories unchanged by the copying variants *)
}.

Definition tol : Q := 1 # 1000000000.
Definition Qmax1 (x : Q) : Q := Qmax 1 x.
(* |obs - model| <= 1e-9 * magnitude, component-wise; magnitude = largest |component| of the model's
   quaternion, resp. max(1, largest |component| of the model's translation) *)
Definition pose_close (m o : pose) : bool :=
  close_quat tol (qmaxabs (pr m)) (pr o) (pr m) && close_vec tol (Qmax1 (vmaxabs (pt m))) (pt o) (pt m).

Definition inner_close (m o : al string pose) : bool :=
  forallb (fun dp => match lookup (fst dp) o with Some q => pose_close (snd dp) q | None => false end) m
  && forallb (fun dq => mem (fst dq) m) o.
(* same timestamps (empty ones included), same devices per timestamp, poses close; order ignored *)
Definition traj_close (m o : traj pose) : bool :=
  forallb (fun ti => match lookup (fst ti) o with Some j => inner_close (snd ti) j | None => false end) m
  && forallb (fun tj => mem (fst tj) m) o.

Definition nodupb {A} `{EqDec A} (l : list A) : bool :=
  (fix go l := match l with [] => true | x :: l' => negb (memb x l') && go l' end) l.
Definition wf2b {K1 K2} `{EqDec K1} `{EqDec K2} (m : map2 K1 K2 pose) : bool :=
  nodupb (keys m) && forallb (fun ai => nodupb (keys (snd ai))) m.
Definition nonzero (p : pose) : bool := negb (Qeq_bool (n2_r (pr p)) 0).
Definition all_poses {K1 K2} (f : pose -> bool) (m : map2 K1 K2 pose) : bool :=
  forallb (fun ai => forallb (fun bv => f (snd bv)) (snd ai)) m.

(* the copying variant: returns the new object or raises *)
Definition agree_copy (m : outcome (traj pose)) (o : obs) : bool :=
  match m, o_exc o, o_state o with
  | Done T, ENone, Some U => traj_close T U
  | RuntimeErr _, ERuntime, None => true
  | KeyErr, EKey, None => true
  | _, _, _ => false
  end.
(* the in-place variant: the argument afterwards *)
Definition agree_inplace (m : outcome (traj pose)) (o : obs) : bool :=
  match m, o_exc o, o_state o with
  | Done T, ENone, Some U => traj_close T U
  | RuntimeErr T, ERuntime, Some U => traj_close T U
  | KeyErr, EKey, _ => true
  | _, _, _ => false
  end.

Definition check_case (c : case) : bool :=
  (* domain of the model: real dicts, no zero quaternion *)
  wf2b (c_rigs c) && wf2b (c_traj c) && all_poses nonzero (c_rigs c) && all_poses nonzero (c_traj c) &&
  o_pure c &&
  agree_copy (remove_x max_depth (c_rigs c) (deepcopy_traj (c_traj c))) (o_remove c) &&
  agree_inplace (remove_x (c_fuel c) (c_rigs c) (c_traj c)) (o_remove_ip c) &&
  match c_rec_in c, o_recover c, o_recover_ip c with
  | Some U, Some oc, Some oi =>
      wf2b U && all_poses nonzero U &&
      agree_copy (recover_x max_depth (c_rigs c) (c_masters c) (deepcopy_traj U)) oc &&
      agree_inplace (recover_x (c_fuel c) (c_rigs c) (c_masters c) U) oi
  | None, None, None => true
  | _, _, _ => false
  end.

(* ---- histories: what was observed at every step of a sequence on ONE Rigs and ONE Trajectories object *)
Fixpoint all2 {A} (f : A -> A -> bool) (l m : list A) : bool :=
  match l, m with
  | [], [] => true
  | x :: l', y :: m' => f x y && all2 f l' m'
  | _, _ => false
  end.
Definition quat_eqb (a b : quat) : bool :=
  Qeq_bool (qw a) (qw b) && Qeq_bool (qx a) (qx b) && Qeq_bool (qy a) (qy b) && Qeq_bool (qz a) (qz b).
Definition vec_eqb (a b : vec) : bool := Qeq_bool (vx a) (vx b) && Qeq_bool (vy a) (vy b) && Qeq_bool (vz a) (vz b).
Definition pose_eqb (a b : pose) : bool := quat_eqb (pr a) (pr b) && vec_eqb (pt a) (pt b).
(* the same dict of dicts: same keys in the same order at both levels, the very same doubles *)
Definition map2_eqb {K} `{EqDec K} (a b : map2 K string pose) : bool :=
  all2 (fun x y => eqb (fst x) (fst y) &&
                   all2 (fun u v => eqb (fst u) (fst v) && pose_eqb (snd u) (snd v)) (snd x) (snd y)) a b.

Inductive hobs :=
| HEdit (e : edit pose) (x : exc) (after : rigs pose)   (* the edit raised x; snapshot of the Rigs object afterwards *)
| HTraj (T : traj pose)                                 (* snapshot of the Trajectories object after the refill *)
| HCall (k : kind) (masters : option (list string))
        (o : obs)                                       (* exception class; returned object / argument afterwards *)
        (pure : bool).                                  (* snapshots: rigs unchanged; copying variant: argument
                                                           unchanged and not returned *)

(* R is the MODEL's rigs (initial rigs through apply_edit); T is the Trajectories object as observed before the
   step (doubles as exact rationals): every call is compared with the model applied to the CURRENT (R, T) *)
Fixpoint check_steps (h : list hobs) (R : rigs pose) (T : traj pose) : bool :=
  match h with
  | [] => true
  | HEdit e x after :: h' =>
      match apply_edit e R with
      | Some R' => exc_eqb x ENone && map2_eqb R' after && wf2b R' && all_poses nonzero R' && check_steps h' R' T
      | None => exc_eqb x EKey && map2_eqb R after && check_steps h' R T
      end
  | HTraj T' :: h' => wf2b T' && all_poses nonzero T' && check_steps h' R T'
  | HCall k m o pure :: h' =>
      pure &&
      (if inplace k then agree_inplace (call_x k m R T) o else agree_copy (call_x k m R T) o) &&
      (if inplace k
       then match o_state o with
            | Some U => wf2b U && all_poses nonzero U && check_steps h' R U
            | None => false
            end
       else check_steps h' R T)
  end.

Record hcase := { h_rigs : rigs pose; h_traj : traj pose; h_steps : list hobs }.
Definition check_hcase (c : hcase) : bool :=
  wf2b (h_rigs c) && wf2b (h_traj c) && all_poses nonzero (h_rigs c) && all_poses nonzero (h_traj c) &&
  check_steps (h_steps c) (h_rigs c) (h_traj c).

Inductive xcase := XOne (c : case) | XHist (c : hcase).
Definition check_xcase (x : xcase) : bool :=
  match x with XOne c => check_case c | XHist c => check_hcase c end.
