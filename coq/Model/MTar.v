(* Model/MTar.v — executable model of kapture's tar-packed feature stores (property C12).
   Definitions only; proofs are in Proofs/PTar.v.

   Modelled (behaviour of the code in the tree under test):
   - kapture.io.tar.TarHandler: an archive is an append-only log of (member name, bytes); the reader's
     member index is {path_secure(name): member} built in archive order, so the LAST member of a name
     wins (tar.py, __init__); add_array_to_tar appends one member named path_secure(filepath), flushes
     the file object, and records the member in the writer's own index.
   - the writer as a two-level state (bytes handed to the OS / bytes still in the process buffer), so that
     "flush after every append" is what makes the k-prefix survive a killed process.
   - tar-or-directory resolution of every feature access (features.py get_features_fullpath /
     retrieve_tar_handler_from_collection, csv.py *_from_dir, get_all_tar_handlers): when an archive
     exists AND the caller passes the opened handlers, the archive is used and loose files are ignored;
     otherwise the loose files are used.
   - listing of the images (or image pairs) that have a feature file, through both routes, and reading
     one array through both routes (np.frombuffer is strict on a trailing partial element,
     np.fromfile drops it).
   path_secure is a parameter [norm] of the model (a Section variable); the theorems need it idempotent. *)
From Coq Require Import List Bool String Ascii NArith ZArith Arith.
From KV Require Import Eqb AL Str.
From KV.Gen Require Import Ttar.
Import ListNotations.
Local Open Scope string_scope.
Local Open Scope list_scope.

Definition name := string.
Definition bytes := string.
Definition entry := (name * bytes)%type.
Definition log := list entry.          (* archive members in file order *)
Definition index := list entry.        (* AL: name -> bytes, insertion ordered (a Python dict) *)

(* A member as it sits in a tar file also carries header fields, and its payload is either the bytes of a regular
   file, a HARD LINK to an earlier member (what tar / tarfile.add store for the 2nd.. name of one inode: size 0,
   linkname = the first name) or a SYMBOLIC LINK (target given here as the archive path obtained by joining the
   member's folder and its linkname).  kapture's index looks at the NAME only and reads through
   tarfile.extractfile, which follows links: [flatten] (below, it needs path_secure) gives every member the bytes
   a reader gets, and every reader-side definition goes through it.  Members packed from real files carry the file's
   mtime / mode / owner; a member appended by add_array_to_tar carries tarfile.TarInfo's defaults (mtime 0). *)
Record hdr := { h_mtime : Z; h_mode : N; h_uid : N; h_pax : list (string * string) }.
Inductive payload := PBytes (b : bytes) | PHard (target : name) | PSym (target : name).
Definition member := (name * hdr * payload)%type.
Definition m_name (m : member) : name := fst (fst m).
Definition m_hdr (m : member) : hdr := snd (fst m).
Definition m_pay (m : member) : payload := snd m.
Definition is_sym (m : member) : bool := match m_pay m with PSym _ => true | _ => false end.
Definition hdr0 : hdr := {| h_mtime := 0; h_mode := 420; h_uid := 0; h_pax := [] |}.   (* TarInfo defaults, 0o644 *)

(* ------------------------------------------------------------------ strings *)
Definition lower_ascii (c : ascii) : ascii :=
  let n := nat_of_ascii c in
  if (65 <=? n)%nat && (n <=? 90)%nat then ascii_of_nat (n + 32) else c.
Fixpoint lower (s : string) : string :=
  match s with EmptyString => EmptyString | String c s' => String (lower_ascii c) (lower s') end.

(* os.path.splitext needs a character other than '.' in the last path component before the extension *)
Fixpoint stem_ok_go (s : string) (acc : bool) : bool :=
  match s with
  | EmptyString => acc
  | String c s' =>
      if Ascii.eqb c "/"%char then stem_ok_go s' false
      else if Ascii.eqb c "."%char then stem_ok_go s' acc
      else stem_ok_go s' true
  end.
Definition stem_ok (s : string) : bool := stem_ok_go s false.

(* path.splitext(n)[1].lower() == ext, for ext = "." followed by characters other than '.' and '/' *)
Definition has_ext (ext n : string) : bool :=
  let ln := String.length n in
  let le := String.length ext in
  (le <=? ln)%nat && String.eqb (lower (substring (ln - le) le n)) ext && stem_ok (substring 0 (ln - le) n).

(* n[:-len(ext)] *)
Definition strip_ext (ext n : string) : string := substring 0 (String.length n - String.length ext) n.

(* str.split(sep) for a non-empty sep *)
Fixpoint split_go (sep : string) (skip : nat) (s : string) (cur : string) : list string :=
  match s with
  | EmptyString => [cur]
  | String c s' =>
      match skip with
      | S k => split_go sep k s' cur
      | O => if prefixb sep s then cur :: split_go sep (String.length sep - 1) s' EmptyString
             else split_go sep 0 s' (cur ++ String c EmptyString)%string
      end
  end.
Definition split_on (sep s : string) : list string := split_go sep 0 s EmptyString.

(* image_ids_from_feature_tar / image_ids_from_feature_dirpath: keep the names with the extension, strip it *)
Definition list_all (ext : string) (names : list name) : list string :=
  map (strip_ext ext) (List.filter (has_ext ext) names).

(* _matches_filenames_remove_extensions_and_cut *)
Definition pair_of (ext sep : string) (n : name) : list (string * string) :=
  match split_on (sep ++ "/")%string (strip_ext ext n) with
  | [a; b] => [(a, b)]
  | _ => []
  end.
Definition pairs_all (ext sep : string) (names : list name) : list (string * string) :=
  flat_map (pair_of ext sep) (List.filter (has_ext ext) names).

(* (q, m) if q < m else (m, q): Python compares str by code point = byte order of the UTF-8 encodings *)
Definition ordered (p : string * string) : string * string :=
  if sltb (fst p) (snd p) then p else (snd p, fst p).

(* ------------------------------------------------------------------ reading one array *)
Inductive rd :=
| RArr (rows : N) (data : bytes)      (* array of that many rows holding exactly these bytes *)
| RBad                                (* ValueError (size does not fit dtype / dsize) *)
| RMissing                            (* KeyError (archive) / FileNotFoundError (directory) *)
| ROther.                             (* anything else: never produced by the model *)

Definition rd_eqb (a b : rd) : bool :=
  match a, b with
  | RArr r d, RArr r' d' => N.eqb r r' && String.eqb d d'
  | RBad, RBad | RMissing, RMissing => true
  | _, _ => false
  end.

Definition blen (b : bytes) : N := N.of_nat (String.length b).

(* np.frombuffer(data, dtype).reshape((-1, dsize)): strict *)
Definition decode_tar (isz dsz : N) (b : bytes) : rd :=
  if N.eqb isz 0 || N.eqb dsz 0 then RBad
  else if negb (N.eqb (N.modulo (blen b) isz) 0) then RBad
  else let n := N.div (blen b) isz in
       if N.eqb (N.modulo n dsz) 0 then RArr (N.div n dsz) b else RBad.

(* np.fromfile(file, dtype).reshape((-1, dsize)): a trailing partial element is dropped silently *)
Definition decode_dir (isz dsz : N) (b : bytes) : rd :=
  if N.eqb isz 0 || N.eqb dsz 0 then RBad
  else let n := N.div (blen b) isz in
       if N.eqb (N.modulo n dsz) 0 then RArr (N.div n dsz) (substring 0 (N.to_nat (n * isz)) b) else RBad.

(* ------------------------------------------------------------------ archive, writer, store *)
Inductive opened := OpenFails | Opened (v : index).

Record writer := { w_disk : option log;      (* what the OS holds; None = absent or zero-length file *)
                   w_buf : log }.            (* members written by tarfile but still in the process buffer *)
Record store := { s_files : index;           (* loose feature files of the sub-folder: relative path -> bytes *)
                  s_tar : option log }.      (* members of <kind>.tar in that sub-folder, if it exists *)

Definition odflt {A} (d : A) (o : option A) : A := match o with Some x => x | None => d end.

Section Norm.
  Variable norm : name -> name.       (* kapture.utils.paths.path_secure *)

  Definition nentry (e : entry) : entry := (norm (fst e), snd e).
  Definition put (m : index) (e : entry) : index := insert (norm (fst e)) (snd e) m.
  (* a handler's member index after it has seen the members [ops], starting from the index [m] *)
  Definition apply_ops (m : index) (ops : log) : index := fold_left put ops m.
  (* TarHandler.__init__ : {path_secure(c.name): c for c in getmembers()} *)
  Definition view (l : log) : index := apply_ops [] l.
  (* add_array_to_tar writes a member called path_secure(filepath) *)
  Definition append (l : log) (n : name) (b : bytes) : log := l ++ [(norm n, b)].
  (* declarative "latest version": the last operation on the name [n], if any *)
  Fixpoint last_write (n : name) (ops : log) : option bytes :=
    match ops with
    | [] => None
    | e :: r => match last_write n r with
                | Some b => Some b
                | None => if eqb n (norm (fst e)) then Some (snd e) else None
                end
    end.

  (* ---- members with headers and links.
     pass 1, left to right: a regular member gives its bytes; a hard link gives the bytes of the LAST EARLIER member
     whose (normalised) name is its target (tarfile._find_link_target searches the members before the link), and is
     dropped when there is none (reading it raises KeyError; the harness never builds one); a symlink stays pending *)
  Fixpoint flat1 (acc : index) (ms : list member) : list (name * (bytes + name)) :=
    match ms with
    | [] => []
    | m :: r =>
        match m_pay m with
        | PBytes b => (m_name m, inl b) :: flat1 (insert (norm (m_name m)) b acc) r
        | PHard t => match lookup (norm t) acc with
                     | Some b => (m_name m, inl b) :: flat1 (insert (norm (m_name m)) b acc) r
                     | None => flat1 acc r
                     end
        | PSym t => (m_name m, inr t) :: flat1 acc r
        end
    end.
  Definition solid (l : list (name * (bytes + name))) : log :=
    flat_map (fun e => match snd e with inl b => [(fst e, b)] | inr _ => [] end) l.
  (* pass 2: a symlink gives the bytes of the last member OF THE WHOLE ARCHIVE under its target name (regular files
     and hard links; chains of symlinks are not modelled and dropped) *)
  Definition flat2 (l : list (name * (bytes + name))) : log :=
    let final := view (solid l) in
    flat_map (fun e => match snd e with
                       | inl b => [(fst e, b)]
                       | inr t => match lookup (norm t) final with Some b => [(fst e, b)] | None => [] end
                       end) l.
  Definition flatten (ms : list member) : log := flat2 (flat1 [] ms).
  Definition mview (ms : list member) : index := view (flatten ms).
  Definition mappend (ms : list member) (n : name) (b : bytes) : list member := ms ++ [(norm n, hdr0, PBytes b)].
  (* NOT what kapture does — a tempting alternative kept to show what goes wrong: among regular members of one name
     keep the one with the greatest modification time (ties: the later one) *)
  Fixpoint put_by_mtime (m : list (name * (hdr * bytes))) (x : name * hdr * bytes) : list (name * (hdr * bytes)) :=
    match m with
    | [] => [(norm (fst (fst x)), (snd (fst x), snd x))]
    | (k, (h, b)) :: m' =>
        if eqb (norm (fst (fst x))) k
        then (if Z.leb (h_mtime h) (h_mtime (snd (fst x))) then (k, (snd (fst x), snd x)) else (k, (h, b))) :: m'
        else (k, (h, b)) :: put_by_mtime m' x
    end.
  Definition view_by_mtime (ms : list (name * hdr * bytes)) : index :=
    map (fun e => (fst e, snd (snd e))) (fold_left put_by_mtime ms []).

  (* the harness (or a user) packs a folder: one member per file, in any order, under any spelling of the
     relative path that path_secure maps back to it (e.g. "./a/b.kpt"); [pack] is the plainest choice *)
  Definition pack (dir : index) : log := dir.

  (* ---- the appending writer *)
  Definition open_append (d : option log) : writer := {| w_disk := d; w_buf := [] |}.
  Definition w_add (flush : bool) (w : writer) (e : entry) : writer :=
    if flush then {| w_disk := Some (odflt [] (w_disk w) ++ w_buf w ++ [nentry e]); w_buf := [] |}
    else {| w_disk := w_disk w; w_buf := w_buf w ++ [nentry e] |}.
  Definition run_appends (flush : bool) (w : writer) (ops : log) : writer := fold_left (w_add flush) ops w.
  (* SIGKILL, or simply never calling close(): the process buffer is lost, the OS keeps what it was given *)
  Definition kill (w : writer) : option log := w_disk w.
  (* close(): buffer written, end-of-archive blocks added *)
  Definition close (w : writer) : option log := Some (odflt [] (w_disk w) ++ w_buf w).
  (* a reader opening the file: TarHandler(path, 'r') *)
  Definition reader (d : option log) : opened :=
    match d with None => OpenFails | Some l => Opened (view l) end.

  (* ---- tar-or-directory resolution *)
  Definition content (handlers : bool) (s : store) : index :=
    match s_tar s with
    | Some l => if handlers then view l else s_files s
    | None => s_files s
    end.
  Definition uses_tar (handlers : bool) (s : store) : bool :=
    match s_tar s with Some _ => handlers | None => false end.

  Definition read (handlers : bool) (s : store) (n : name) (isz dsz : N) : rd :=
    match lookup (norm n) (content handlers s) with
    | Some b => if uses_tar handlers s then decode_tar isz dsz b else decode_dir isz dsz b
    | None => RMissing
    end.

  Section Kind.
    Variable ext : string.     (* FEATURE_FILE_EXTENSION of the kind *)
    Variable sep : string.     (* FEATURE_PAIR_PATH_SEPARATOR (matches) *)

    (* keypoints_from_dir / descriptors_from_dir / global_features_from_dir: the set of images *)
    Definition images (handlers : bool) (known : option (list string)) (s : store) : list string :=
      if uses_tar handlers s then
        let all := list_all ext (keys (content handlers s)) in
        match known with None => all | Some kn => List.filter (fun i => memb i kn) all end
      else
        match known with
        | None => list_all ext (keys (s_files s))
        | Some kn => List.filter (fun i => mem (norm (i ++ ext)%string) (s_files s)) kn
        end.

    (* matches_from_dir.  A pairs file (kapture_from_dir(..., matches_pairs_file_path=...), what kapture_export_colmap
       uses) restricts the load: each line "name1, name2, score" denotes the UNORDERED pair, put in (smaller, larger)
       name order; archive route = keep the stored pairs found among them, directory route = keep those of them whose
       file exists *)
    Definition pair_fname (p : string * string) : name := (fst p ++ sep ++ "/" ++ snd p ++ ext)%string.
    Definition match_pairs (handlers : bool) (known : option (list string)) (pf : option (list (string * string)))
               (s : store) : list (string * string) :=
      let all :=
        match pf with
        | None => pairs_all ext sep (keys (content handlers s))
        | Some lines =>
            let valid := map ordered lines in
            if uses_tar handlers s
            then List.filter (fun p => memb p valid) (pairs_all ext sep (keys (content handlers s)))
            else List.filter (fun p => mem (norm (pair_fname p)) (s_files s)) valid
        end in
      match known with
      | None => all
      | Some kn => List.filter (fun p => memb (fst p) kn && memb (snd p) kn) all
      end.
  End Kind.
End Norm.

(* a folder in which several paths may share one inode (hard links: a de-duplicated dataset), and the archive that
   tar / tarfile.add make of it: the first path of an inode carries the bytes, later ones are hard links to it *)
Definition ldir := list (name * nat * bytes).          (* path, inode, content *)
Definition ldir_entries (ld : ldir) : log := map (fun x => (fst (fst x), snd x)) ld.
Fixpoint pack_hl_go (seen : list (nat * name)) (ld : ldir) : list member :=
  match ld with
  | [] => []
  | (n, i, b) :: r =>
      match lookup i seen with
      | Some t => (n, hdr0, PHard t) :: pack_hl_go seen r
      | None => (n, hdr0, PBytes b) :: pack_hl_go ((i, n) :: seen) r
      end
  end.
Definition pack_hl (ld : ldir) : list member := pack_hl_go [] ld.

(* ------------------------------------------------------------------ correspondence *)
(* path_secure as observed on the names of one case; names not listed are fixed points *)
Definition tnorm (tbl : list (string * string)) (n : name) : name :=
  match lookup n tbl with Some m => m | None => n end.
(* the contract the theorems need, checked on the table *)
Definition tnorm_idem (tbl : list (string * string)) : bool :=
  forallb (fun p => String.eqb (tnorm tbl (snd p)) (snd p)) tbl.

Definition set_eqb {A} `{EqDec A} (l m : list A) : bool :=
  forallb (fun x => memb x m) l && forallb (fun x => memb x l) m.
Fixpoint all2 {A B} (f : A -> B -> bool) (l : list A) (m : list B) : bool :=
  match l, m with
  | [], [] => true
  | x :: l', y :: m' => f x y && all2 f l' m'
  | _, _ => false
  end.

Definition ext_of (kind : string) : string := odflt "" (lookup kind Ttar.feat_ext).

Record store_case := {
  sc_norm : list (string * string);
  sc_kind : string;                          (* "Keypoints" | "Descriptors" | "GlobalFeatures" | "Matches" *)
  sc_files : index;                          (* loose feature files in the sub-folder *)
  sc_tar : option (list member);             (* file / link members of the archive as packed, with their header fields *)
  sc_appends : log;                          (* then appended through kapture's API (mode 'a'), closed *)
  sc_handlers : bool;                        (* the reader passes get_all_tar_handlers(...) *)
  sc_known : option (list string);           (* images of records_camera; None = *_from_dir(images=None) *)
  sc_pairsfile : option (list (string * string));   (* (name1, name2) of the lines of the pairs file, if one is given *)
  sc_reads : list (name * N * N);            (* file asked for, itemsize, dsize *)
  so_images : list string;
  so_pairs : list (string * string);
  so_reads : list rd
}.

Definition sc_store (c : store_case) : store :=
  {| s_files := sc_files c;
     s_tar := option_map (fun l => flatten (tnorm (sc_norm c))
                                     (l ++ map (fun e => (tnorm (sc_norm c) (fst e), hdr0, PBytes (snd e))) (sc_appends c)))
                         (sc_tar c) |}.

Definition check_store (c : store_case) : bool :=
  let nm := tnorm (sc_norm c) in
  let ext := ext_of (sc_kind c) in
  let st := sc_store c in
  tnorm_idem (sc_norm c)
  && (if String.eqb (sc_kind c) "Matches"
      then set_eqb (match_pairs nm ext Ttar.pair_sep (sc_handlers c) (sc_known c) (sc_pairsfile c) st) (so_pairs c)
           && match so_images c with [] => true | _ => false end
      else set_eqb (images nm ext (sc_handlers c) (sc_known c) st) (so_images c)
           && match so_pairs c with [] => true | _ => false end)
  && all2 rd_eqb (map (fun r => read nm (sc_handlers c) st (fst (fst r)) (snd (fst r)) (snd r)) (sc_reads c))
          (so_reads c).

Inductive ending := EKilled | EAlive | EClosed.

Record append_case := {
  ac_norm : list (string * string);
  ac_base : option (list member);              (* file / link members of the archive before the writer opens it *)
  ac_ops : log;                                (* add_array_to_tar calls, in order *)
  ac_obs : list (nat * ending * opened);       (* (appends completed, how the writer ended, what a fresh reader saw) *)
  ac_windex : list (nat * list name)           (* the appending handler's own index after k appends *)
}.

Definition opened_eqb (a b : opened) : bool :=
  match a, b with
  | OpenFails, OpenFails => true
  | Opened v, Opened v' => set_eqb v v'
  | _, _ => false
  end.

(* members on disk after the first k appends of a flushing writer; [None] = nothing a reader can open *)
Definition disk_members (nm : name -> name) (base : option (list member)) (ops : log) : option (list member) :=
  match base, ops with
  | None, [] => None
  | _, _ => Some (odflt [] base ++ map (fun e => (nm (fst e), hdr0, PBytes (snd e))) ops)
  end.

Definition check_append (c : append_case) : bool :=
  let nm := tnorm (ac_norm c) in
  tnorm_idem (ac_norm c)
  && forallb (fun o =>
       let '(k, e, seen) := o in
       let ops := firstn k (ac_ops c) in
       let base := ac_base c in
       if existsb is_sym (odflt [] base) then
         (* a symlink follows whatever is LAST under its target name, appended members included: flatten the whole archive *)
         let d := match e with
                  | EClosed => Some (odflt [] base ++ map (fun x => (nm (fst x), hdr0, PBytes (snd x))) ops)
                  | _ => disk_members nm base ops
                  end in
         opened_eqb (match d with None => OpenFails | Some ms => Opened (mview nm ms) end) seen
       else
         let w := run_appends nm true (open_append (option_map (flatten nm) base)) ops in
         opened_eqb (reader nm (match e with EClosed => close w | _ => kill w end)) seen) (ac_obs c)
  && forallb (fun o =>
       let '(k, ks) := o in
       set_eqb (keys (apply_ops nm (mview nm (odflt [] (ac_base c))) (firstn k (ac_ops c)))) ks) (ac_windex c).

(* ------------------------------------------------------------------ several writer handles on one archive *)
(* A history of TarHandler objects opened in mode 'a' on ONE archive.  Each handle keeps its own write position (here:
   the number of members before it).  What the code does, per event:
   - open: tarfile positions the handle at the end of the last member;
   - add_array_to_tar: header + data written AT THE HANDLE'S POSITION and flushed;
   - close(): tarfile writes the end-of-archive blocks AT THE HANDLE'S POSITION;
   - the handle object is reclaimed without close() (del, scope exit, gc, interpreter exit): TarHandler has no finaliser and
     tarfile.TarFile has none either, so NOTHING is written ([fin = false]); a finaliser that calls close() is [fin = true]:
     a reader then stops at the zero blocks, i.e. sees the members before that position only;
   - the process is killed: every handle disappears, nothing is written.
   A handle whose position is no longer the end of the archive (another handle appended meanwhile) and that is USED again
   (append / close) is two concurrent writers: outside the property and outside this model, [step] answers None. *)
Section Handles.
  Variable A : Type.                  (* what an archive is a list of: entries, or members with headers *)
  Inductive event :=
  | EvOpen (id : nat)
  | EvAppend (id : nat) (x : A)
  | EvClose (id : nat)
  | EvDrop (id : nat)
  | EvKill.
  Record hstate := { hs_disk : option (list A);          (* None = absent or zero-length file *)
                     hs_handles : list (nat * nat) }.    (* live handle -> its write position *)
  Definition dlen (d : option (list A)) : nat := List.length (odflt [] d).
  (* end-of-archive blocks written at position p: what a reader can reach afterwards *)
  Definition end_at (p : nat) (d : option (list A)) : option (list A) := Some (firstn p (odflt [] d)).
  Definition step (fin : bool) (s : hstate) (e : event) : option hstate :=
    match e with
    | EvOpen id =>
        match lookup id (hs_handles s) with
        | Some _ => None
        | None => Some {| hs_disk := hs_disk s; hs_handles := (id, dlen (hs_disk s)) :: hs_handles s |}
        end
    | EvAppend id x =>
        match lookup id (hs_handles s) with
        | Some p => if Nat.eqb p (dlen (hs_disk s))
                    then Some {| hs_disk := Some (odflt [] (hs_disk s) ++ [x]); hs_handles := insert id (S p) (hs_handles s) |}
                    else None
        | None => None
        end
    | EvClose id =>
        match lookup id (hs_handles s) with
        | Some p => if Nat.eqb p (dlen (hs_disk s))
                    then Some {| hs_disk := end_at p (hs_disk s); hs_handles := remove id (hs_handles s) |}
                    else None
        | None => None
        end
    | EvDrop id =>
        match lookup id (hs_handles s) with
        | Some p => Some {| hs_disk := if fin then end_at p (hs_disk s) else hs_disk s; hs_handles := remove id (hs_handles s) |}
        | None => None
        end
    | EvKill => Some {| hs_disk := hs_disk s; hs_handles := [] |}
    end.
  Fixpoint run (fin : bool) (s : hstate) (evs : list event) : option hstate :=
    match evs with
    | [] => Some s
    | e :: r => match step fin s e with Some s' => run fin s' r | None => None end
    end.
  (* the completed appends of a history, in order *)
  Fixpoint appended (evs : list event) : list A :=
    match evs with
    | [] => []
    | EvAppend _ x :: r => x :: appended r
    | _ :: r => appended r
    end.
  Definition hinit (d : option (list A)) : hstate := {| hs_disk := d; hs_handles := [] |}.
End Handles.
Arguments EvOpen {A}. Arguments EvAppend {A}. Arguments EvClose {A}. Arguments EvDrop {A}. Arguments EvKill {A}.
Arguments hs_disk {A}. Arguments hs_handles {A}. Arguments step {A}. Arguments run {A}. Arguments appended {A}.
Arguments hinit {A}. Arguments dlen {A}. Arguments end_at {A}.

(* a history as the harness drives it through kapture's API (handle = writer session number) *)
Inductive hev := HOpen (id : nat) | HAppend (id : nat) (n : name) (b : bytes) | HClose (id : nat) | HDrop (id : nat).
Definition mk_member (nm : name -> name) (n : name) (b : bytes) : member := (nm n, hdr0, PBytes b).
Definition hev_event (nm : name -> name) (e : hev) : event member :=
  match e with
  | HOpen i => EvOpen i
  | HAppend i n b => EvAppend i (mk_member nm n b)
  | HClose i => EvClose i
  | HDrop i => EvDrop i
  end.
(* the add_array_to_tar calls of a history, in order *)
Fixpoint happended (evs : list hev) : log :=
  match evs with
  | [] => []
  | HAppend _ n b :: r => (n, b) :: happended r
  | _ :: r => happended r
  end.
Definition hreader (nm : name -> name) (s : hstate member) : opened :=
  match hs_disk s with None => OpenFails | Some ms => Opened (mview nm ms) end.

Record history_case := {
  hc_norm : list (string * string);
  hc_base : option (list member);              (* the archive before the first handle opens it *)
  hc_events : list hev;                        (* opens, appends, closes and un-closed handles being reclaimed, in order *)
  hc_obs : list (nat * opened)                 (* (events done, what a fresh reader saw then) *)
}.
Definition check_history (c : history_case) : bool :=
  let nm := tnorm (hc_norm c) in
  tnorm_idem (hc_norm c)
  && forallb (fun o =>
       match run false (hinit (hc_base c)) (map (hev_event nm) (firstn (fst o) (hc_events c))) with
       | Some s => opened_eqb (hreader nm s) (snd o)
       | None => false
       end) (hc_obs c).

Inductive case1 := CStore (c : store_case) | CAppend (c : append_case) | CHistory (c : history_case).
Definition case := list case1.
Definition check1 (c : case1) : bool :=
  match c with CStore s => check_store s | CAppend a => check_append a | CHistory h => check_history h end.
Definition check_case (c : case) : bool := forallb check1 c.
