(* Model/MTraj.v — executable model of kapture.core.Trajectories.Trajectories (property C07).
   Definitions only; proofs are in Proofs/PTraj.v.

   The state mirrors the class: the dict of dicts (shared with Records, see MRec.v), the cached sorted
   timestamp list  _timestamps_sorted_list  ([] = "not computed"), and the cached bounds
   _first_timestamp / _last_timestamp.  [t_step] mirrors the methods, including where each of them
   resets or rebuilds the cache.  [s_tstep] is the same operation on a plain map keyed by
   (timestamp, device): it has no cache, so its answers are functions of the content by construction.

   Poses are an abstract type P; compute_intermediate_pose (slerp of the quaternion library + linear
   translation) is the section variable [interp]; the digit counter is the section variable [nd]
   (instantiated below by [nd_float], a model of kapture.utils.computation.num_digits). *)
From Coq Require Import List Bool ZArith.
From KV Require Import Eqb AL.
From KV.Model Require Import MRec.
Import ListNotations.
Local Open Scope Z_scope.

(* ---- sorted(list) on Python ints *)
Fixpoint zinsert (z : Z) (l : list Z) : list Z :=
  match l with
  | [] => [z]
  | y :: l' => if z <=? y then z :: l else y :: zinsert z l'
  end.
Definition zsort (l : list Z) : list Z := fold_right zinsert [] l.

(* ---- kapture.utils.computation.num_digits:
        count = 1;  while int(n / 10) != 0: count += 1; n = int(n / 10)
   n / 10 is CPython's correctly rounded true division (binary64, round half to even), int() truncates.
   [rne_div n d] = n/d rounded half-even to an integer (n >= 0, d > 0);
   [fdiv10 n]    = int(n / 10) for n >= 0: the quotient is rounded to 53 significant bits first. *)
Definition rne_div (n d : Z) : Z :=
  let q := n / d in
  let r := n mod d in
  if 2 * r <? d then q else if d <? 2 * r then q + 1 else if Z.even q then q else q + 1.

Definition fdiv10 (n : Z) : Z :=
  if n <? 10 then 0
  else
    let e := Z.log2 (n / 10) - 52 in
    if e <=? 0 then rne_div (n * 2 ^ (- e)) 10 / 2 ^ (- e)
    else rne_div n (10 * 2 ^ e) * 2 ^ e.

(* out of fuel (cannot happen with the fuel given below: every step at least halves n) returns 0,
   a value num_digits never returns *)
Fixpoint nd_loop (fuel : nat) (n : Z) : Z :=
  match fuel with
  | O => 0
  | S f => let m := fdiv10 n in if m =? 0 then 1 else 1 + nd_loop f m
  end.
(* int(-x) = -int(x) and rounding is symmetric, so the count only depends on |n| *)
Definition nd_float (n : Z) : Z := nd_loop (S (Z.to_nat (Z.log2 (Z.abs n)))) (Z.abs n).

(* the exact number of decimal digits of |n| (1 for 0), for comparison *)
Fixpoint nd_exact_loop (fuel : nat) (n : Z) : Z :=
  match fuel with
  | O => 0
  | S f => if n / 10 =? 0 then 1 else 1 + nd_exact_loop f (n / 10)
  end.
Definition nd_exact (n : Z) : Z := nd_exact_loop (S (Z.to_nat (Z.log2 (Z.abs n)))) (Z.abs n).

Section Traj.
  Context {D P : Type} `{EqDec D} `{EqDec P}.
  Variable interp : Z -> Z -> P -> Z -> P -> P.   (* compute_intermediate_pose(t, low_ts, low_p, up_ts, up_p) *)
  Variable nd : Z -> Z.                            (* computation.num_digits *)
  Variable maxsize : Z.                            (* sys.maxsize *)

  Record cstate := {
    data : nested D P;
    cache : list Z;        (* _timestamps_sorted_list *)
    first : Z;             (* _first_timestamp *)
    last : Z               (* _last_timestamp *)
  }.
  Definition init : cstate := {| data := []; cache := []; first := 0; last := maxsize |}.

  Inductive top :=
  | M (o : mop D P)
  | Sorted                                   (* timestamps_sorted_list() *)
  | TsLen                                    (* timestamp_length() *)
  | Interp (t : Z) (d : D) (mi : Z).         (* intermediate_pose(t, d, max_interval) *)

  (* timestamps_sorted_list(): rebuild when the cached list is empty.
     [legacy] = true is the code before the repair: the upper bound was refreshed only when there
     were at least two timestamps *)
  Definition rebuild_gen (legacy : bool) (c : cstate) : cstate :=
    if is_nil (cache c) then
      let l := zsort (keys (data c)) in
      match l with
      | [] => {| data := data c; cache := []; first := first c; last := last c |}
      | x :: r =>
          {| data := data c; cache := l; first := x;
             last := if legacy && is_nil r then last c else List.last l x |}
      end
    else c.

  (* timestamp_length() on the sorted list *)
  Definition ts_len (l : list Z) : Z :=
    match l with
    | [] => -1
    | x0 :: tl =>
        let n := length l in
        let sample :=
          if Nat.ltb 10 n
          then map (fun i => nth i l 0) [1; 2; 3; 4; 5; n - 1; n - 2; n - 3; n - 4]%nat
          else tl in
        if forallb (fun x => nd x =? nd x0) sample then nd x0 else -1
    end.

  (* one of the two bracket searches of intermediate_pose: walk [l] (nearest timestamp first) while
     the timestamp is within max_interval and has no pose for the device *)
  Inductive sres := SFound (z : Z) | SNone | SKeyErr.
  Fixpoint search (x : nested D P) (d : D) (dist : Z -> Z) (mi : Z) (l : list Z) : sres :=
    match l with
    | [] => SNone                         (* reached the begin / the end of the list *)
    | z :: r =>
        if dist z <=? mi then
          match lookup z x with
          | None => SKeyErr               (* self[ts] on a timestamp that is not there *)
          | Some m => if mem d m then SFound z else search x d dist mi r
          end
        else SNone                        (* too far *)
    end.

  Definition interp_found (x : nested D P) (t : Z) (d : D) (lo hi : Z) : out D P :=
    match lookup2 lo d x, lookup2 hi d x with
    | Some pl, Some ph => OVal (interp t lo pl hi ph)
    | _, _ => OKeyErr
    end.

  (* the part after the bounds test; [before] = timestamps < t, nearest first; [after] = timestamps >= t *)
  Definition interp_search (x : nested D P) (t : Z) (d : D) (mi : Z) (before after : list Z) : out D P :=
    match search x d (fun z => t - z) mi before with
    | SKeyErr => OKeyErr
    | SNone => ONone
    | SFound lo =>
        match search x d (fun z => z - t) mi after with
        | SKeyErr => OKeyErr
        | SNone => ONone
        | SFound hi => interp_found x t d lo hi
        end
    end.

  Definition before_of (t : Z) (l : list Z) : list Z := rev (List.filter (fun z => z <? t) l).
  Definition after_of (t : Z) (l : list Z) : list Z := List.filter (fun z => t <=? z) l.

  (* intermediate_pose, repaired *)
  Definition interp_c (c : cstate) (t : Z) (d : D) (mi : Z) : out D P * cstate :=
    match lookup2 t d (data c) with
    | Some p => (OVal p, c)                         (* the pose already exists *)
    | None =>
        let c' := rebuild_gen false c in
        let l := cache c' in
        if Nat.ltb (length l) 2 then (ONone, c')
        else if (t <=? first c') || (last c' <=? t) then (ONone, c')
        else (interp_search (data c') t d mi (before_of t l) (after_of t l), c')
    end.

  (* intermediate_pose before the repair: no length test; an empty list, or a list with no
     timestamp >= t, raised IndexError; timestamps[-1] wraps around *)
  Definition interp_legacy (c : cstate) (t : Z) (d : D) (mi : Z) : out D P * cstate :=
    match lookup2 t d (data c) with
    | Some p => (OVal p, c)
    | None =>
        let c' := rebuild_gen true c in
        let l := cache c' in
        if (t <=? first c') || (last c' <=? t) then (ONone, c')
        else
          match l, after_of t l with
          | [], _ => (OIndexErr, c')
          | _, [] => (OIndexErr, c')
          | x0 :: _, after =>
              let before := match before_of t l with [] => [List.last l x0] | b => b end in
              (interp_search (data c') t d mi before after, c')
          end
    end.

  (* which map operations empty the cached list *)
  Definition resets (o : mop D P) (r : out D P) (x' : nested D P) : bool :=
    match o, r with
    | SetPair _ _ _, _ => true
    | SetTs _ _, _ => true
    | DelPair t _, ONone => negb (mem t x')
    | DelTs _, ONone => true
    | _, _ => false
    end.

  Definition t_step_gen (legacy : bool) (c : cstate) (o : top) : out D P * cstate :=
    match o with
    | M mo =>
        let '(r, x') := m_step_gen legacy (data c) mo in
        (r, {| data := x'; cache := if resets mo r x' then [] else cache c; first := first c; last := last c |})
    | Sorted => let c' := rebuild_gen legacy c in (OList (cache c'), c')
    | TsLen => let c' := rebuild_gen legacy c in (OInt (ts_len (cache c')), c')
    | Interp t d mi => if legacy then interp_legacy c t d mi else interp_c c t d mi
    end.
  Definition t_step := t_step_gen false.
  Definition t_step_legacy := t_step_gen true.

  Fixpoint t_run_gen (legacy : bool) (c : cstate) (ops : list top) : list (out D P) * cstate :=
    match ops with
    | [] => ([], c)
    | o :: ops' => let '(r, c') := t_step_gen legacy c o in
                   let '(rs, c'') := t_run_gen legacy c' ops' in (r :: rs, c'')
    end.
  Definition t_run := t_run_gen false.
  Definition t_run_legacy := t_run_gen true.

  (* ---- the plain map: no cache, every answer is computed from the content *)
  Definition s_sorted (a : amap D P) : list Z := zsort (timestamps a).

  (* the entries of one device as (timestamp, pose) *)
  Definition dev_entries (a : amap D P) (d : D) : list (Z * P) :=
    map (fun e => (fst (fst e), snd e)) (List.filter (fun e => eqb (snd (fst e)) d) a).

  (* the entry with the greatest timestamp < t / the least timestamp > t *)
  Fixpoint nearest_below (t : Z) (l : list (Z * P)) : option (Z * P) :=
    match l with
    | [] => None
    | e :: r =>
        let b := nearest_below t r in
        if fst e <? t then
          match b with
          | Some e' => if fst e' <? fst e then Some e else b
          | None => Some e
          end
        else b
    end.
  Fixpoint nearest_above (t : Z) (l : list (Z * P)) : option (Z * P) :=
    match l with
    | [] => None
    | e :: r =>
        let b := nearest_above t r in
        if t <? fst e then
          match b with
          | Some e' => if fst e <? fst e' then Some e else b
          | None => Some e
          end
        else b
    end.

  Definition s_interp (a : amap D P) (t : Z) (d : D) (mi : Z) : out D P :=
    match lookup (t, d) a with
    | Some p => OVal p
    | None =>
        match nearest_below t (dev_entries a d), nearest_above t (dev_entries a d) with
        | Some (lo, pl), Some (hi, ph) =>
            if (t - lo <=? mi) && (hi - t <=? mi) then OVal (interp t lo pl hi ph) else ONone
        | _, _ => ONone
        end
    end.

  Definition s_tstep (a : amap D P) (o : top) : out D P * amap D P :=
    match o with
    | M mo => s_step a mo
    | Sorted => (OList (s_sorted a), a)
    | TsLen => (OInt (ts_len (s_sorted a)), a)
    | Interp t d mi => (s_interp a t d mi, a)
    end.

  Fixpoint s_trun (a : amap D P) (ops : list top) : list (out D P) * amap D P :=
    match ops with
    | [] => ([], a)
    | o :: ops' => let '(r, a') := s_tstep a o in
                   let '(rs, a'') := s_trun a' ops' in (r :: rs, a'')
    end.
End Traj.

Arguments cstate : clear implicits.
Arguments top : clear implicits.

(* ================= further pure methods of the two classes =================
   sensors_ids (both classes), RecordsBase.data_list(), Trajectories.inverse().  None of them touches the
   cache of the container it is called on; inverse() builds a NEW Trajectories through the public
   pair assignment:   inv = Trajectories();  for t, d in self.key_pairs(): inv[t, d] = self[t, d].inverse() *)
Section TrajX.
  Context {D P : Type} `{EqDec D} `{EqDec P}.
  Variable interp : Z -> Z -> P -> Z -> P -> P.
  Variable nd : Z -> Z.
  Variable maxsize : Z.
  Variable pinv : P -> P.                          (* PoseTransform.inverse *)

  (* sensors_ids: a Python set (compared as a set) of the devices of every inner dict *)
  Definition sensors_of (x : nested D P) : list D := dedup (map (fun e => snd (fst e)) (flatten x)).
  (* data_list(): the stored values, one per (timestamp, device) entry (compared as a multiset) *)
  Definition data_list_of (x : nested D P) : list P := map snd (flatten x).

  Definition inverse_ops (x : nested D P) : list (top D P) :=
    map (fun e => M (SetPair (fst (fst e)) (snd (fst e)) (pinv (snd e)))) (flatten x).
  Definition inverse_c (c : cstate D P) : cstate D P :=
    snd (t_run interp nd (init maxsize) (inverse_ops (data c))).
End TrajX.

(* ================= correspondence instance =================
   Devices are Python str; a payload is identified by a small integer (the harness keeps the real
   PoseTransform / record object for each id).  An interpolated pose is identified by the bracket it
   was computed from: the harness recovers (low_ts, low_id, up_ts, up_id) from the pose the
   implementation returned by recomputing compute_intermediate_pose on candidate brackets. *)
From Coq Require Import String.

Inductive spose := PId (i : Z) | PMix (t lo ilo hi ihi : Z).
Definition spose_eqb (a b : spose) : bool :=
  match a, b with
  | PId i, PId j => Z.eqb i j
  | PMix t lo ilo hi ihi, PMix t' lo' ilo' hi' ihi' =>
      Z.eqb t t' && Z.eqb lo lo' && Z.eqb ilo ilo' && Z.eqb hi hi' && Z.eqb ihi ihi'
  | _, _ => false
  end.
Lemma spose_eqb_spec a b : reflect (a = b) (spose_eqb a b).
Proof.
  destruct a as [i|t lo ilo hi ihi], b as [j|t' lo' ilo' hi' ihi']; cbn; try (constructor; congruence).
  - destruct (Z.eqb_spec i j); constructor; congruence.
  - destruct (Z.eqb_spec t t'), (Z.eqb_spec lo lo'), (Z.eqb_spec ilo ilo'), (Z.eqb_spec hi hi'),
      (Z.eqb_spec ihi ihi'); cbn; constructor; congruence.
Qed.
#[global] Instance EqDec_spose : EqDec spose := Build_EqDec spose spose_eqb spose_eqb_spec.

Definition pid (p : spose) : Z := match p with PId i => i | PMix _ _ _ _ _ => -1 end.
Definition interp_sym (t lo : Z) (pl : spose) (hi : Z) (ph : spose) : spose := PMix t lo (pid pl) hi (pid ph).

(* the inverse of the pose with id i is identified by i + inv_offset (the harness recognises it by value:
   PoseTransform.inverse() of the stored object, recomputed); interpolated poses are never stored *)
Definition inv_offset : Z := 1000000.
Definition inv_sym (p : spose) : spose := match p with PId i => PId (i + inv_offset) | _ => p end.

(* monomorphic abbreviations used by the generated shards (cheap to parse and type-check) *)
Definition sop := top string spose.
Definition sout := out string spose.
(* operations / answers of a run: the operations of the two machines, plus inverse() (the run goes on
   with the returned container), sensors_ids and data_list() *)
Inductive xop := XO (o : sop) | XInv | XSens | XData.
Inductive xout := YO (o : sout) | YSens (l : list string) | YData (l : list Z).
Definition tag_ids {A} (l : list (A * Z)) : list (A * spose) := map (fun e => (fst e, PId (snd e))) l.
Definition SP (t : Z) (d : string) (i : Z) : xop := XO (M (SetPair t d (PId i))).
Definition ST (t : Z) (l : list (string * Z)) : xop := XO (M (SetTs t (tag_ids l))).
Definition DP (t : Z) (d : string) : xop := XO (M (DelPair t d)).
Definition DT (t : Z) : xop := XO (M (DelTs t)).
Definition HT (t : Z) : xop := XO (M (HasTs t)).
Definition HP (t : Z) (d : string) : xop := XO (M (HasPair t d)).
Definition GP (t : Z) (d : string) : xop := XO (M (GetPair t d)).
Definition GT (t : Z) : xop := XO (M (GetTs t)).
Definition PR : xop := XO (M Pairs).
Definition LN : xop := XO (M Len).
Definition BD : xop := XO (M Bad).
Definition SO : xop := XO Sorted.
Definition TL : xop := XO TsLen.
Definition IP (t : Z) (d : string) (mi : Z) : xop := XO (Interp t d mi).
Definition IV : xop := XInv.
Definition SI : xop := XSens.
Definition DL : xop := XData.
Definition ON : xout := YO ONone.
Definition OB (b : bool) : xout := YO (OBool b).
Definition OV (i : Z) : xout := YO (OVal (PId i)).
Definition OM (t lo ilo hi ihi : Z) : xout := YO (OVal (PMix t lo ilo hi ihi)).
Definition OD (l : list (string * Z)) : xout := YO (ODict (tag_ids l)).
Definition OP (l : list (Z * string * Z)) : xout := YO (OPairs (tag_ids l)).
Definition OI (z : Z) : xout := YO (OInt z).
Definition OL (l : list Z) : xout := YO (OList l).
Definition OS (l : list string) : xout := YSens l.
Definition OZ (l : list Z) : xout := YData l.
Definition EK : xout := YO OKeyErr.
Definition ET : xout := YO OTypeErr.
Definition EI : xout := YO OIndexErr.
Definition EO : xout := YO OOtherErr.

(* one run = a fresh container, a list of operations, and what the implementation answered to each *)
Inductive ckind := KTraj | KRec.
Record run := {
  r_kind : ckind;
  r_ops : list xop;
  r_outs : list xout
}.
Record case := {
  c_maxsize : Z;                 (* sys.maxsize of the interpreter (initial _last_timestamp) *)
  c_runs : list run;
  c_digits : list (Z * Z)        (* (n, computation.num_digits(n)) as observed *)
}.

Definition xout_eqb (a b : xout) : bool :=
  match a, b with
  | YO o1, YO o2 => out_eqb o1 o2
  | YSens l, YSens k => seteq_b l k
  | YData l, YData k => Eqb.eqb (zsort l) (zsort k)
  | _, _ => false
  end.
Fixpoint xouts_eqb (l m : list xout) : bool :=
  match l, m with
  | [], [] => true
  | a :: l', b :: m' => xout_eqb a b && xouts_eqb l' m'
  | _, _ => false
  end.

(* Trajectories: no data_list method (AttributeError) *)
Definition xt_step (maxsize : Z) (c : cstate string spose) (o : xop) : xout * cstate string spose :=
  match o with
  | XO o' => let '(r, c') := t_step interp_sym nd_float c o' in (YO r, c')
  | XInv => (YO ONone, inverse_c interp_sym nd_float maxsize inv_sym c)
  | XSens => (YSens (sensors_of (data c)), c)
  | XData => (YO OOtherErr, c)
  end.
Fixpoint xt_run (maxsize : Z) (c : cstate string spose) (ops : list xop) : list xout :=
  match ops with
  | [] => []
  | o :: r => let '(y, c') := xt_step maxsize c o in y :: xt_run maxsize c' r
  end.

(* Records: only the map operations; no inverse, no cache *)
Definition xr_step (x : nested string spose) (o : xop) : xout * nested string spose :=
  match o with
  | XO (M mo) => let '(r, x') := m_step x mo in (YO r, x')
  | XO _ => (YO OOtherErr, x)
  | XInv => (YO OOtherErr, x)
  | XSens => (YSens (sensors_of x), x)
  | XData => (YData (map pid (data_list_of x)), x)
  end.
Fixpoint xr_run (x : nested string spose) (ops : list xop) : list xout :=
  match ops with
  | [] => []
  | o :: r => let '(y, x') := xr_step x o in y :: xr_run x' r
  end.

Definition check_run (maxsize : Z) (r : run) : bool :=
  match r_kind r with
  | KTraj => xouts_eqb (xt_run maxsize (init maxsize) (r_ops r)) (r_outs r)
  | KRec => xouts_eqb (xr_run [] (r_ops r)) (r_outs r)
  end.

Definition check_case (c : case) : bool :=
  forallb (check_run (c_maxsize c)) (c_runs c)
  && forallb (fun nk => nd_float (fst nk) =? snd nk) (c_digits c).
