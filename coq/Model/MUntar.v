(* Model/MUntar.v — executable model of kapture.converter.downloader.archives.untar_file (property C18).
   Definitions only; proofs are in Proofs/PUntar.v.

   Modelled
   - a POSIX-like file system: finite map from absolute paths to nodes (directory, regular file = inode number,
     symbolic link = its text, special file) plus an inode table (content, owner-rw flag), so that hard links
     alias;
   - path resolution [walk] in four modes: [Strict] (the kernel resolving an existing path), [Create] (the
     kernel resolving the path of open(O_CREAT): the last component may be missing, trailing links followed),
     [NoFollow] (the kernel resolving the parent directory of the last component) and [Lenient] (Python's os.path.realpath(strict=False): missing components and non-directories are
     walked lexically, a link loop returns the unresolved remainder);
   - the system calls tarfile uses (mkdir, open for writing, symlink, unlink, link, mkfifo, exists, lexists)
     and os.makedirs;
   - tarfile's 'data' extraction filter, the extra checks of kapture's own filter and kapture's own creation
     of link members (the repaired code), TarFile.extract with set_attrs=False: creation of upper
     directories, one action per member kind, and — for the code before the repair only — the makelink
     fallbacks of CPython 3.12 (a link that cannot be made is replaced by a copy of the member it points to,
     searched by normalised name; the attributes that this nested extraction sets are not modelled), error
     levels (OSError / FilterError are fatal, ExtractError is swallowed), and the member loop of untar_file,
     which stops at the first fatal error.
   Not modelled: file modes other than owner-rw (set_attrs=False: never applied), owners, times, the tar
   container format and compression, concurrent modification.

   Paths are kept REVERSED (innermost component first): child = cons, parent = tail. *)
From Coq Require Import List Bool String Ascii Arith.
From KV Require Import Eqb Str AL.
Import ListNotations.
Local Open Scope string_scope.
Local Open Scope list_scope.

Definition rpath := list string.         (* reversed absolute path; [] is "/" *)

(* ---------------------------------------------------------------- path text *)
Fixpoint split_slash (s : string) : list string :=
  match s with
  | EmptyString => [EmptyString]
  | String c s' =>
      if Ascii.eqb c "/"%char then EmptyString :: split_slash s'
      else match split_slash s' with
           | [] => [String c EmptyString]
           | x :: xs => String c x :: xs
           end
  end.

Definition keep_comp (c : string) : bool := negb (eqb c "") && negb (eqb c ".").
Definition comps (s : string) : list string := List.filter keep_comp (split_slash s).
Definition is_abs (s : string) : bool := prefixb "/" s.
Definition is_dd (c : string) : bool := eqb c "..".

(* lexical normalisation (os.path.normpath / abspath) of components pushed on a reversed absolute path *)
Fixpoint lexpush (acc : rpath) (cs : list string) : rpath :=
  match cs with
  | [] => acc
  | c :: rest => lexpush (if is_dd c then tl acc else c :: acc) rest
  end.

(* os.path.normpath of a relative or absolute text, as (absolute?, reversed components); leading ".."
   of a relative path are kept *)
Fixpoint normrel (acc : list string) (cs : list string) : list string :=
  match cs with
  | [] => acc
  | c :: rest =>
      if is_dd c then
        match acc with
        | [] => normrel [c] rest
        | t :: acc' => if is_dd t then normrel (c :: acc) rest else normrel acc' rest
        end
      else normrel (c :: acc) rest
  end.
Definition normpath (ab : bool) (cs : list string) : bool * list string :=
  (ab, if ab then lexpush [] cs else normrel [] cs).

(* [R] is a suffix of [p]: p lies at or beneath R *)
Definition underb (R p : rpath) : bool :=
  eqb (skipn (List.length p - List.length R) p) R && (List.length R <=? List.length p)%nat.

(* ---------------------------------------------------------------- file system *)
Inductive node := NDir | NFile (i : nat) | NSym (t : string) | NSpecial.

Record fmeta := { f_data : string; f_orw : bool }.

Record state := {
  nodes : al rpath node;
  files : al nat fmeta;
  next : nat                     (* next unused inode number *)
}.

Definition node_at (s : state) (p : rpath) : option node :=
  match p with [] => Some NDir | _ => lookup p (nodes s) end.

Definition is_dir (s : state) (p : rpath) : bool :=
  match node_at s p with Some NDir => true | _ => false end.

Definition set_node (s : state) (p : rpath) (n : node) : state :=
  {| nodes := insert p n (nodes s); files := files s; next := next s |}.
Definition del_node (s : state) (p : rpath) : state :=
  {| nodes := remove p (nodes s); files := files s; next := next s |}.
(* a new regular file: fresh inode; created with mode 0666 & ~umask, owner rw *)
Definition new_file (s : state) (p : rpath) (data : string) : state :=
  {| nodes := insert p (NFile (next s)) (nodes s);
     files := insert (next s) {| f_data := data; f_orw := true |} (files s);
     next := S (next s) |}.
(* truncate + write an existing inode: content replaced, mode kept *)
Definition write_file (s : state) (i : nat) (data : string) : state :=
  {| nodes := nodes s;
     files := insert i {| f_data := data;
                          f_orw := match lookup i (files s) with Some m => f_orw m | None => true end |} (files s);
     next := next s |}.

(* ---------------------------------------------------------------- path resolution *)
Inductive mode :=
| Strict      (* the kernel resolving a path that must exist, trailing links followed *)
| Create      (* the kernel resolving the path of open(O_CREAT): the last component may be missing *)
| NoFollow    (* the kernel resolving the parent directory; the last component is not looked at (lstat, mkdir,
                 symlink, unlink, link) *)
| Lenient.    (* os.path.realpath(strict=False) *)
Definition lenient (m : mode) : bool := match m with Lenient => true | _ => false end.
Definition sub_mode (m : mode) (rest : list string) : mode :=
  match m, rest with
  | Create, [] => Create
  | Create, _ | NoFollow, _ => Strict
  | m, _ => m
  end.

Inductive wres :=
| WOk (p : rpath)
| WErr                                   (* ENOENT / ENOTDIR / ELOOP *)
| WLoop (p : rpath) (rest : list string) (* realpath met a link loop at p; rest is left unresolved *)
| WFuel.

(* [seen] = the links being expanded (loop detection); one unit of fuel per component *)
Fixpoint walk (m : mode) (s : state) (fuel : nat) (seen : list rpath) (cur : rpath) (cs : list string) : wres :=
  match fuel with
  | O => WFuel
  | S f =>
    match cs with
    | [] => WOk cur
    | c :: rest =>
      if negb (lenient m) && negb (is_dir s cur) then WErr
      else if is_dd c then walk m s f seen (tl cur) rest
      else
        let np := c :: cur in
        match m, rest with
        | NoFollow, [] => walk m s f seen np rest
        | _, _ =>
          match node_at s np with
          | Some (NSym t) =>
              if memb np seen then (if lenient m then WLoop np rest else WErr)
              else match walk (sub_mode m rest) s f (np :: seen) (if is_abs t then [] else cur) (comps t) with
                   | WOk y => walk m s f seen y rest
                   | WLoop p r => WLoop p (r ++ rest)
                   | e => e
                   end
          | Some _ => walk m s f seen np rest
          | None =>
              match m, rest with
              | Lenient, _ | Create, [] => walk m s f seen np rest
              | _, _ => WErr
              end
          end
        end
    end
  end.

Definition FUEL : nat := 2000.

(* os.path.realpath(join(cur, cs)); None = the model ran out of fuel *)
Definition realpath (s : state) (cur : rpath) (cs : list string) : option rpath :=
  match walk Lenient s FUEL [] cur cs with
  | WOk p => Some p
  | WLoop p rest => Some (lexpush p rest)
  | _ => None
  end.

(* ---------------------------------------------------------------- system calls
   a textual path is (cur, cs): an already resolved directory and the components written after it *)
Definition k_exists (s : state) (cur : rpath) (cs : list string) : bool :=
  match walk Strict s FUEL [] cur cs with WOk _ => true | _ => false end.

Definition k_lexists (s : state) (cur : rpath) (cs : list string) : bool :=
  match walk NoFollow s FUEL [] cur cs with
  | WOk x => match node_at s x with Some _ => true | None => false end
  | _ => false
  end.

Inductive kres := KOk (s : state) | KExists | KFail.

(* mkdir / symlink / mkfifo / the destination of link: the name must be free *)
Definition k_create (s : state) (cur : rpath) (cs : list string) (n : node) : kres :=
  match walk NoFollow s FUEL [] cur cs with
  | WOk x => match node_at s x with None => KOk (set_node s x n) | Some _ => KExists end
  | _ => KFail
  end.
Definition k_mkdir s cur cs := k_create s cur cs NDir.
Definition k_symlink s cur cs (t : string) := k_create s cur cs (NSym t).
Definition k_mkfifo s cur cs := k_create s cur cs NSpecial.

Definition k_unlink (s : state) (cur : rpath) (cs : list string) : kres :=
  match walk NoFollow s FUEL [] cur cs with
  | WOk x => match node_at s x with
             | None | Some NDir => KFail
             | Some _ => KOk (del_node s x)
             end
  | _ => KFail
  end.

(* open(path, 'wb'): O_WRONLY|O_CREAT|O_TRUNC, trailing links followed *)
Definition k_open_write (s : state) (cur : rpath) (cs : list string) (data : string) : kres :=
  match walk Create s FUEL [] cur cs with
  | WOk x => match node_at s x with
             | None => KOk (new_file s x data)
             | Some (NFile i) => KOk (write_file s i data)
             | Some _ => KFail
             end
  | _ => KFail
  end.

(* os.link(src, dst): link(2) does not follow a trailing link of src *)
Definition k_link (s : state) (scur : rpath) (scs : list string) (cur : rpath) (cs : list string) : kres :=
  match walk NoFollow s FUEL [] scur scs with
  | WOk x => match node_at s x with
             | None | Some NDir => KFail
             | Some n => k_create s cur cs n
             end
  | _ => KFail
  end.

(* os.makedirs(join(cur, rev rcs), exist_ok=eok) *)
Inductive mstat := MDone | MExists | MFail.
Definition k_isdir (s : state) (cur : rpath) (cs : list string) : bool :=
  match walk Strict s FUEL [] cur cs with WOk x => is_dir s x | _ => false end.
Fixpoint makedirs (eok : bool) (s : state) (cur : rpath) (rcs : list string) : state * mstat :=
  match rcs with
  | [] => (s, if eok && is_dir s cur then MDone else MExists)
  | _ :: rhead =>
      let pre := if k_exists s cur (rev rhead) then (s, MDone)
                 else match makedirs eok s cur rhead with
                      | (s1, MFail) => (s1, MFail)
                      | (s1, _) => (s1, MDone)          (* FileExistsError of the recursive call is swallowed *)
                      end in
      match pre with
      | (s1, MFail) => (s1, MFail)
      | (s1, _) => match k_mkdir s1 cur (rev rcs) with
                   | KOk s2 => (s2, MDone)
                   | KExists => (s1, if eok && k_isdir s1 cur (rev rcs) then MDone else MExists)
                   | KFail => (s1, if eok && k_isdir s1 cur (rev rcs) then MDone else MFail)
                   end
      end
  end.

(* ---------------------------------------------------------------- archive members *)
Inductive member :=
| MReg (name : string) (data : string)
| MDir (name : string)
| MSym (name : string) (target : string)
| MHard (name : string) (target : string)
| MSpecial (name : string).

Definition m_name (m : member) : string :=
  match m with MReg n _ | MDir n | MSym n _ | MHard n _ | MSpecial n => n end.
Definition with_name (m : member) (n : string) : member :=
  match m with
  | MReg _ d => MReg n d | MDir _ => MDir n | MSym _ t => MSym n t | MHard _ t => MHard n t | MSpecial _ => MSpecial n
  end.

Fixpoint lstrip_slash (s : string) : string :=
  match s with
  | String c s' => if Ascii.eqb c "/"%char then lstrip_slash s' else s
  | EmptyString => s
  end.

(* ---------------------------------------------------------------- extraction filters *)
Inductive ferr := FOutside | FLinkOutside | FAbsLink | FSpecial | FLeaves.
Inductive fres := FAcc | FRej (e : ferr) | FFuel.

(* tarfile.data_filter(member, R): the name has its leading slashes stripped; the resolved destination and
   the resolved link target must be R or beneath it *)
Definition data_filter (s : state) (R : rpath) (m : member) : fres :=
  let cs := comps (m_name m) in
  match realpath s R cs with
  | None => FFuel
  | Some tp =>
      if negb (underb R tp) then FRej FOutside else
      match m with
      | MSpecial _ => FRej FSpecial
      | MSym _ t | MHard _ t =>
          if is_abs t then FRej FAbsLink else
          let dir := match m with MSym _ _ => removelast cs | _ => [] end in
          match realpath s R (dir ++ comps t) with
          | None => FFuel
          | Some lp => if underb R lp then FAcc else FRej FLinkOutside
          end
      | _ => FAcc
      end
  end.

(* kapture's additions (the repair): no ".." in the member name, no symbolic link among the strict prefixes
   of the member name *)
Fixpoint no_sym_prefix (s : state) (cur : rpath) (cs : list string) : bool :=
  match cs with
  | [] | [_] => true
  | c :: rest => match node_at s (c :: cur) with
                 | Some (NSym _) => false
                 | _ => no_sym_prefix s (c :: cur) rest
                 end
  end.

Inductive policy := Trusted | DataOnly | Repaired.

Definition check (pol : policy) (s : state) (R : rpath) (m : member) : fres :=
  match pol with
  | Trusted => FAcc
  | DataOnly => data_filter s R m
  | Repaired =>
      let cs := comps (m_name m) in
      if existsb is_dd cs then FRej FOutside
      else if negb (no_sym_prefix s R cs) then FRej FOutside
      else data_filter s R m
  end.

(* ---------------------------------------------------------------- extraction of one member *)
Inductive eres :=
| EOk (s : state)           (* done, or given up silently (ExtractError at errorlevel 1) *)
| EOs (s : state)           (* OSError *)
| EOther (s : state).       (* KeyError, RecursionError *)

(* TarFile._find_link_target: the member a link points to, by normalised name; a symbolic link searches the
   whole archive from the end, a hard link only the members before it.  [i] = position of [m] in [all]. *)
Definition link_key (m : member) : bool * list string :=
  match m with
  | MSym n t =>
      let dcs := removelast (comps n) in
      let has_dir := is_abs n || negb (match dcs with [] => true | _ => false end) in
      normpath (if has_dir then is_abs n else is_abs t) (dcs ++ comps t)
  | MHard _ t => normpath (is_abs t) (comps t)
  | _ => (false, [])
  end.
Definition name_key (m : member) : bool * list string := normpath (is_abs (m_name m)) (comps (m_name m)).

Fixpoint find_last (key : bool * list string) (ms : list member) (i : nat) (acc : option (member * nat))
  : option (member * nat) :=
  match ms with
  | [] => acc
  | m :: ms' => find_last key ms' (S i) (if eqb (name_key m) key then Some (m, i) else acc)
  end.
Definition find_target (all : list member) (m : member) (i : nat) : option (member * nat) :=
  match m with
  | MSym _ _ => find_last (link_key m) all 0 None
  | MHard _ _ => find_last (link_key m) (firstn i all) 0 None
  | _ => None
  end.

(* TarFile._extract_member(m, join(cur, cs)) with set_attrs=False.  [primary]: m is the member being
   extracted (filtered copy, which carries _link_target), not one found by a fallback. *)
Fixpoint extract_at (fuel : nat) (all : list member) (R : rpath) (s : state) (cur : rpath) (cs : list string)
         (m : member) (i : nat) (primary : bool) : eres :=
  match fuel with
  | O => EOther s
  | S f =>
    let up := removelast cs in
    let '(s1, st) := if k_exists s cur up then (s, MDone) else makedirs false s cur (rev up) in
    match st with
    | MExists | MFail => EOs s1
    | MDone =>
      let fallback (sx : state) :=
        match find_target all m i with
        | None => EOk sx
        | Some (m', i') => extract_at f all R sx cur cs m' i' false
        end in
      match m with
      | MReg _ data => match k_open_write s1 cur cs data with KOk s2 => EOk s2 | _ => EOs s1 end
      | MDir _ => match k_mkdir s1 cur cs with KOk s2 => EOk s2 | KExists => EOk s1 | KFail => EOs s1 end
      | MSpecial _ => match k_mkfifo s1 cur cs with KOk s2 => EOk s2 | _ => EOs s1 end
      | MSym _ t =>
          if k_lexists s1 cur cs then
            match k_unlink s1 cur cs with
            | KOk s2 => match k_symlink s2 cur cs t with KOk s3 => EOk s3 | _ => fallback s2 end
            | _ => fallback s1
            end
          else match k_symlink s1 cur cs t with KOk s3 => EOk s3 | _ => fallback s1 end
      | MHard _ t =>
          if primary then
            let lcur := if is_abs t then [] else R in
            if k_exists s1 lcur (comps t) then
              match k_link s1 lcur (comps t) cur cs with KOk s2 => EOk s2 | _ => fallback s1 end
            else match find_target all m i with
                 | None => EOther s1
                 | Some (m', i') =>
                     match extract_at f all R s1 cur cs m' i' false with
                     | EOs s2 => fallback s2
                     | r => r
                     end
                 end
          else fallback s1
      end
    end
  end.

(* kapture's own creation of a link member (the repair): upper directories, removal of what is in the
   way, then symlink / link; any OSError is fatal; no fallback *)
Definition own_link (R : rpath) (s : state) (cs : list string) (m : member) : eres :=
  let '(s1, st) := makedirs true s R (rev (removelast cs)) in
  match st with
  | MExists | MFail => EOs s1
  | MDone =>
      let cleared := if k_lexists s1 R cs
                     then match k_unlink s1 R cs with KOk s2 => Some s2 | _ => None end
                     else Some s1 in
      match cleared with
      | None => EOs s1
      | Some s2 =>
          match m with
          | MSym _ t => match k_symlink s2 R cs t with KOk s3 => EOk s3 | _ => EOs s2 end
          | MHard _ t => match k_link s2 R (comps t) R cs with KOk s3 => EOk s3 | _ => EOs s2 end
          | _ => EOs s2
          end
      end
  end.

(* ---------------------------------------------------------------- the member loop of untar_file *)
Inductive outcome := OOk | OFilter (e : ferr) | OOs | OOther | OFuel.

Definition EFUEL : nat := 40.

Definition is_link (m : member) : bool := match m with MSym _ _ | MHard _ _ => true | _ => false end.

Definition step (pol : policy) (all : list member) (R : rpath) (s : state) (m : member) (i : nat) : outcome * state :=
  match check pol s R m with
  | FRej e => (OFilter e, s)
  | FFuel => (OFuel, s)
  | FAcc =>
      let n := m_name m in
      let m' := match pol with Trusted => m | _ => with_name m (lstrip_slash n) end in
      let cur := match pol with Trusted => if is_abs n then [] else R | _ => R end in
      let r := match pol with
               | Repaired => if is_link m then own_link R s (comps n) m'
                             else extract_at EFUEL all R s cur (comps n) m' i true
               | _ => extract_at EFUEL all R s cur (comps n) m' i true
               end in
      match r with
      | EOk s' => (OOk, s')
      | EOs s' => (OOs, s')
      | EOther s' => (OOther, s')
      end
  end.

Fixpoint untar_from (pol : policy) (all : list member) (R : rpath) (s : state) (ms : list member) (i : nat)
  : outcome * state :=
  match ms with
  | [] => (OOk, s)
  | m :: ms' =>
      match step pol all R s m i with
      | (OOk, s') => untar_from pol all R s' ms' (S i)
      | r => r
      end
  end.

Definition untar_gen (pol : policy) (R : rpath) (ms : list member) (s : state) : outcome * state :=
  untar_from pol ms R s ms 0.

(* ---------------------------------------------------------------- links revalidated after the extraction
   A link is validated when it is created, but what it resolves to can change with the links created after it
   (b -> c/d; a -> b/../..; then c -> .).  untar_file therefore lists, before and after the member loop, the
   symbolic links below R that resolve (os.path.realpath) outside R, removes the new ones — again until none
   is left — and raises tarfile.FilterError if it removed any. *)
Definition link_leaves (s : state) (R : rpath) (p : rpath) : option bool :=
  match p with
  | [] => Some false
  | c :: d => match realpath s d [c] with Some x => Some (negb (underb R x)) | None => None end
  end.

(* os.walk(R) does not follow links: the symbolic links strictly below R, with their text *)
Definition link_cands (s : state) (R : rpath) : list (rpath * string) :=
  flat_map (fun e => match snd e with
                     | NSym t => if underb R (fst e) && negb (eqb (fst e) R) then [(fst e, t)] else []
                     | _ => []
                     end) (nodes s).

Definition leaves_b (s : state) (R : rpath) (e : rpath * string) : bool :=
  match link_leaves s R (fst e) with Some true => true | _ => false end.

(* _links_leaving(R); None = the model ran out of fuel *)
Definition leaving (s : state) (R : rpath) : option (list (rpath * string)) :=
  if forallb (fun e => match link_leaves s R (fst e) with None => false | _ => true end) (link_cands s R)
  then Some (List.filter (leaves_b s R) (link_cands s R))
  else None.

Definition remove_all (s : state) (l : list (rpath * string)) : state :=
  fold_left (fun acc e => del_node acc (fst e)) l s.

Fixpoint cleanup (fuel : nat) (s : state) (R : rpath) (before : list (rpath * string)) (removed : bool)
  : option (state * bool) :=
  match fuel with
  | O => None
  | S f =>
      match leaving s R with
      | None => None
      | Some l =>
          match List.filter (fun e => negb (memb e before)) l with
          | [] => Some (s, removed)
          | fresh => cleanup f (remove_all s fresh) R before true
          end
      end
  end.

(* untar_file of the tree under test *)
Definition untar (R : rpath) (ms : list member) (s : state) : outcome * state :=
  match leaving s R with
  | None => (OFuel, s)
  | Some before =>
      let '(o, s1) := untar_gen Repaired R ms s in
      match cleanup (S (List.length (nodes s1))) s1 R before false with
      | None => (OFuel, s1)
      | Some (s2, removed) =>
          (match o with OOk => if removed then OFilter FLeaves else OOk | _ => o end, s2)
      end
  end.

(* earlier states of the code: before any repair; the candidate "pass filter='data'", which is not enough on
   CPython 3.12.1; the first repair (own filter and link creation) without the final revalidation of links *)
Definition untar_legacy := untar_gen Trusted.
Definition untar_data_only := untar_gen DataOnly.
Definition untar_no_revalidation := untar_gen Repaired.

(* ---------------------------------------------------------------- the install directory as the caller spells it
   untar_file receives a TEXT (tools/kapture_download_dataset.py passes --install_path through unchanged): absolute,
   or relative to the working directory of the process, possibly through symbolic links.  Every system call of the
   extraction is made on join(text, member name) and resolved by the kernel when it is made; the checks of the filter
   and the final scan of the links use os.path.realpath(text), computed when they run.  The directory a call works in
   is therefore the one its text denotes in the file system AT THE TIME OF THE CALL — never what the same text denoted
   for an earlier call of the process (another working directory, a link re-pointed since). *)
Definition spelled_start (cwd : rpath) (text : string) : rpath := if is_abs text then [] else cwd.

(* where the kernel lands for the text (os.makedirs(text, exist_ok=True) succeeds without creating anything iff this
   is an existing directory) *)
Definition install_dir (s : state) (cwd : rpath) (text : string) : option rpath :=
  match walk Strict s FUEL [] (spelled_start cwd text) (comps text) with
  | WOk R => if is_dir s R then Some R else None
  | _ => None
  end.

(* what the filter and the link scan compute: os.path.realpath(text) *)
Definition install_realpath (s : state) (cwd : rpath) (text : string) : option rpath :=
  realpath s (spelled_start cwd text) (comps text).

(* untar_file(archive, text) called from the working directory cwd; None = the text does not denote an existing
   directory (creation of the install directory itself is not modelled) *)
Definition untar_spelled (cwd : rpath) (text : string) (ms : list member) (s : state) : option (outcome * state) :=
  match install_dir s cwd text with
  | Some R => Some (untar R ms s)
  | None => None
  end.

(* a process that calls untar_file several times: (working directory, text, archive) of each call, in order.  The
   model carries NOTHING from one call to the next but the file system. *)
Definition call := (rpath * string * list member)%type.
Fixpoint run_calls (calls : list call) (s : state) : state :=
  match calls with
  | [] => s
  | (cwd, text, ms) :: rest =>
      match untar_spelled cwd text ms s with
      | Some (_, s') => run_calls rest s'
      | None => run_calls rest s
      end
  end.

(* ---------------------------------------------------------------- correspondence cases *)
Inductive onode := ODir | OFile (ino : nat) (data : string) (orw : bool) | OSym (t : string) | OSpecial.
Inductive lverdict := LAcc | LRej (e : ferr) | LOther.

Record case := {
  c_P : list string;                          (* the sandbox directory that contains install/, from "/" *)
  c_pre : list (list string * onode);         (* initial tree below c_P (paths relative to c_P) *)
  c_members : list member;
  c_cwd : list string;                        (* working directory of the call, from "/" *)
  c_text : string;                            (* the install directory as spelled in the call *)
  o_outcome : outcome;                        (* what untar_file did: class of the exception *)
  o_final : list (list string * onode);       (* resulting tree below c_P *)
  o_outside_same : bool;                      (* nothing outside install/ changed *)
  o_lib : list lverdict                       (* tarfile.data_filter on each member against the initial tree *)
}.

Fixpoint chain_nodes (acc : rpath) (cs : list string) : al rpath node :=
  match cs with
  | [] => []
  | c :: rest => (c :: acc, NDir) :: chain_nodes (c :: acc) rest
  end.

Definition onode_node (n : onode) : node :=
  match n with ODir => NDir | OFile i _ _ => NFile i | OSym t => NSym t | OSpecial => NSpecial end.

Fixpoint max_ino (l : list (list string * onode)) : nat :=
  match l with
  | [] => 0
  | (_, OFile i _ _) :: l' => Nat.max i (max_ino l')
  | _ :: l' => max_ino l'
  end.

Definition init_state (P : list string) (pre : list (list string * onode)) : state :=
  let rP := rev P in
  {| nodes := chain_nodes [] P ++ map (fun e => (rev (fst e) ++ rP, onode_node (snd e))) pre;
     files := fold_right (fun e acc => match snd e with
                                       | OFile i d w => insert i {| f_data := d; f_orw := w |} acc
                                       | _ => acc end) [] pre;
     next := S (max_ino pre) |}.

Definition outcome_eqb (a b : outcome) : bool :=
  match a, b with
  | OOk, OOk | OOs, OOs | OOther, OOther | OFuel, OFuel => true
  | OFilter FOutside, OFilter FOutside | OFilter FLinkOutside, OFilter FLinkOutside
  | OFilter FAbsLink, OFilter FAbsLink | OFilter FSpecial, OFilter FSpecial | OFilter FLeaves, OFilter FLeaves => true
  | _, _ => false
  end.

Definition node_matches (s : state) (p : rpath) (o : onode) : bool :=
  match node_at s p, o with
  | Some NDir, ODir | Some NSpecial, OSpecial => true
  | Some (NSym t), OSym t' => eqb t t'
  | Some (NFile i), OFile _ d w =>
      match lookup i (files s) with Some m => eqb (f_data m) d && Bool.eqb (f_orw m) w | None => false end
  | _, _ => false
  end.

Definition ino_of (s : state) (p : rpath) : option nat :=
  match node_at s p with Some (NFile i) => Some i | _ => None end.

(* two observed regular files share an inode iff the model says so; [fin] holds absolute reversed paths *)
Definition classes_agree (s : state) (fin : list (rpath * onode)) : bool :=
  let fl := flat_map (fun e => match snd e with OFile a _ _ => [(a, ino_of s (fst e))] | _ => [] end) fin in
  forallb (fun x => forallb (fun y => Bool.eqb (Nat.eqb (fst x) (fst y)) (eqb (snd x) (snd y))) fl) fl.

Definition lib_agrees (s0 : state) (R : rpath) (ms : list member) (lib : list lverdict) : bool :=
  (List.length ms =? List.length lib)%nat &&
  forallb (fun ml => match data_filter s0 R (fst ml), snd ml with
                     | FFuel, _ => true
                     | FAcc, LAcc => true
                     | FRej e, LRej e' => outcome_eqb (OFilter e) (OFilter e')
                     | _, _ => false
                     end) (combine ms lib).

Definition check_case (c : case) : bool :=
  let rP := rev (c_P c) in
  let R := "install" :: rP in
  let s0 := init_state (c_P c) (c_pre c) in
  (* the text of the call must denote <P>/install (resolved once here: [untar_spelled] unfolded) *)
  match install_dir s0 (rev (c_cwd c)) (c_text c) with
  | None => false
  | Some R' =>
  let '(o, s') := untar R' (c_members c) s0 in
  eqb R' R &&
  lib_agrees s0 R (c_members c) (o_lib c) &&
  match o with
  | OFuel => o_outside_same c
  | _ =>
      let fin := map (fun e => (rev (fst e) ++ rP, snd e)) (o_final c) in
      outcome_eqb o (o_outcome c)
      && forallb (fun e => node_matches s' (fst e) (snd e)) fin
      && (List.length (nodes s') =? List.length (c_P c) + List.length (o_final c))%nat
      && classes_agree s' fin
  end
  end.
