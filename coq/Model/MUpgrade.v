(* Model/MUpgrade.v — executable model of the two 1.0 -> 1.1 upgrade routes (property C20):
     kapture.utils.upgrade.upgrade_1_0_to_1_1_inplace          (in place; also run by the downloader)
     tools/kapture_upgrade_1_0_to_1_1.upgrade_1_0_to_1_1       (copy into a new directory)
   and of what kapture_from_dir reads from a dataset directory, at the level of a file tree:
   text files are sequences of lines, feature data files are opaque byte tokens.
   Definitions only; proofs are in Proofs/PUpgrade.v.

   File names, extensions, the version line and the column lines of the 1.1 writers come from
   Gen/Tupgrade.v, i.e. from the tree under test on this run. *)
From Coq Require Import List Bool String Ascii ZArith NArith Lia DecimalString DecimalZ.
From KV Require Import Eqb Str AL.
From KV.Gen Require Import Tupgrade.
Import ListNotations.
Local Open Scope string_scope.
Local Open Scope list_scope.

Infix "+++" := append (at level 60, right associativity).

(* ------------------------------------------------------------------ strings (UTF-8 bytes) *)
Definition code (c : ascii) : N := N_of_ascii c.
(* str.isspace on the ASCII range: \t \n \v \f \r, FS GS RS US, space *)
Definition is_ws (c : ascii) : bool :=
  let n := code c in (((9 <=? n) && (n <=? 13)) || ((28 <=? n) && (n <=? 32)))%N.
Definition is_digit (c : ascii) : bool := let n := code c in ((48 <=? n) && (n <=? 57))%N.
Definition is_crlf (c : ascii) : bool := let n := code c in ((n =? 10) || (n =? 13))%N.

Fixpoint drop_while (p : ascii -> bool) (s : string) : string :=
  match s with String c s' => if p c then drop_while p s' else s | EmptyString => EmptyString end.
Fixpoint take_while (p : ascii -> bool) (s : string) : string :=
  match s with String c s' => if p c then String c (take_while p s') else EmptyString | EmptyString => EmptyString end.
(* remove the trailing characters satisfying p *)
Fixpoint rstrip_by (p : ascii -> bool) (s : string) : string :=
  match s with
  | EmptyString => EmptyString
  | String c s' => match rstrip_by p s' with
                   | EmptyString => if p c then EmptyString else String c EmptyString
                   | r => String c r
                   end
  end.
Definition strip (s : string) : string := rstrip_by is_ws (drop_while is_ws s).      (* str.strip() *)

Fixpoint drop (n : nat) (s : string) : string :=
  match n, s with O, _ => s | S k, String _ s' => drop k s' | S _, EmptyString => EmptyString end.

(* s.split(c): always at least one piece *)
Fixpoint split_char (sep : ascii) (s : string) : list string :=
  match s with
  | EmptyString => [EmptyString]
  | String c s' => if Ascii.eqb c sep then EmptyString :: split_char sep s'
                   else match split_char sep s' with
                        | h :: t => String c h :: t
                        | [] => [String c EmptyString]
                        end
  end.

Fixpoint join (sep : string) (l : list string) : string :=
  match l with
  | [] => EmptyString
  | [x] => x
  | x :: l' => x +++ sep +++ join sep l'
  end.

Fixpoint contains (sub s : string) : bool :=
  prefixb sub s || match s with String _ s' => contains sub s' | EmptyString => false end.

(* "c/rest" -> (c, rest), cut at the first slash *)
Fixpoint cut_slash (s : string) : option (string * string) :=
  match s with
  | EmptyString => None
  | String c s' => if Ascii.eqb c "/" then Some (EmptyString, s')
                   else match cut_slash s' with Some (a, b) => Some (String c a, b) | None => None end
  end.

(* s.split(sep) for a non-empty separator string: [skip] counts the characters of a separator being consumed *)
Fixpoint split_str (sep : string) (skip : nat) (s : string) (cur : string) : list string :=
  match s with
  | EmptyString => [cur]
  | String c s' =>
    match skip with
    | S k => split_str sep k s' cur
    | O => if prefixb sep s then cur :: split_str sep (String.length sep - 1) s' EmptyString
           else split_str sep O s' (cur +++ String c EmptyString)
    end
  end.

Definition lower_ascii (c : ascii) : ascii :=
  let n := code c in if ((65 <=? n) && (n <=? 90))%N then ascii_of_N (n + 32) else c.
Fixpoint lower (s : string) : string :=
  match s with EmptyString => EmptyString | String c s' => String (lower_ascii c) (lower s') end.

Definition nonempty_str (s : string) : bool := match s with EmptyString => false | _ => true end.
Definition basename (p : string) : string := last (split_char "/" p) EmptyString.
(* os.path.splitext(b)[1] for a name without separator: from the last dot, unless only dots precede it *)
Definition ext_of (b : string) : string :=
  match rev (split_char "." b) with
  | l :: before => if existsb nonempty_str before then "." +++ l else EmptyString
  | [] => EmptyString
  end.
(* populate_files_in_dirpath(dir, ext): path.splitext(p)[1].lower() == ext *)
Definition has_ext (e p : string) : bool := eqb (lower (ext_of (basename p))) e.

(* int(s) for the spellings handled here: optional blanks around, optional sign, decimal digits
   (underscore groupings and non-ASCII digits are not modelled) *)
Definition parse_int (s : string) : option Z :=
  let s := strip s in
  match s with
  | String "+" r => match r with
                    | String "-" _ => None
                    | _ => option_map Z.of_int (NilZero.int_of_string r)
                    end
  | _ => option_map Z.of_int (NilZero.int_of_string s)
  end.
Definition show_Z (z : Z) : string := NilZero.string_of_int (Z.to_int z).       (* str(int) *)

(* ------------------------------------------------------------------ text tables *)
(* kapture.io.csv.table_from_file on the lines of a file *)
Definition row_of_line (seg : string) : option (list string) :=
  let l := rstrip_by is_crlf seg in
  if eqb (strip l) EmptyString || prefixb "#" l then None
  else Some (map strip (split_char "," l)).
Definition rows (segs : list string) : list (list string) :=
  flat_map (fun s => match row_of_line s with Some r => [r] | None => [] end) segs.

(* get_version_from_header: re.search('# kapture format\:\s*(\d+\.\d+)', first_line) *)
Definition version_marker : string := "# kapture format:".
Definition version_at (s : string) : option string :=
  let s1 := drop_while is_ws s in
  let d1 := take_while is_digit s1 in
  match d1, drop_while is_digit s1 with
  | String _ _, String "." r2 =>
      match take_while is_digit r2 with
      | EmptyString => None
      | d2 => Some (d1 +++ "." +++ d2)
      end
  | _, _ => None
  end.
Fixpoint find_version (s : string) : option string :=
  match s with
  | EmptyString => None
  | String _ s' =>
      match (if prefixb version_marker s then version_at (drop (String.length version_marker) s) else None) with
      | Some v => Some v
      | None => find_version s'
      end
  end.
(* a file is the list of its lines: text.split('\n'); the version is looked for in the first one *)
Definition version_of_file (segs : list string) : option string := find_version (hd EmptyString segs).

Definition version_ok_lenient (v : option string) : bool :=       (* old_version is None or old_version == '1.0' *)
  match v with None => true | Some s => eqb s "1.0" end.
Definition version_ok_strict (v : option string) : bool :=        (* old_version == '1.0' *)
  match v with None => false | Some s => eqb s "1.0" end.

(* drop the old version line if there is one, write the new one *)
Definition rewrite_header (segs : list string) : list string :=
  match version_of_file segs with
  | Some _ => format_11 :: (match tl segs with [] => [EmptyString] | r => r end)
  | None => format_11 :: segs
  end.

(* element type names accepted for a 1.0 descriptor file (an optional np. / numpy. prefix is dropped) *)
Definition dtype_names : list string :=
  ["float16"; "float32"; "float64"; "int8"; "int16"; "int32"; "int64";
   "uint8"; "uint16"; "uint32"; "uint64"; "float"; "int"].
Definition dtype_norm (s : string) : option string :=
  let b := if prefixb "np." s then drop 3 s else if prefixb "numpy." s then drop 6 s else s in
  if memb b dtype_names then Some b else None.

(* ------------------------------------------------------------------ file trees *)
Inductive content := Txt (segs : list string) | Bin (tok : string).
Definition content_eqb (a b : content) : bool :=
  match a, b with
  | Txt x, Txt y => eqb x y
  | Bin x, Bin y => eqb x y
  | _, _ => false
  end.
Lemma content_eqb_spec a b : reflect (a = b) (content_eqb a b).
Proof.
  destruct a as [x|x], b as [y|y]; cbn; try (constructor; congruence);
    destruct (eqb_spec x y); constructor; congruence.
Qed.
#[global] Instance EqDec_content : EqDec content := {| eqb := content_eqb; eqb_spec := content_eqb_spec |}.

(* relative path -> content, keys unique *)
Definition folder := list (string * content).

Record tree := mkTree {
  t_top : folder;             (* every file outside the five folders below, path relative to the dataset root *)
  t_kp : option folder;       (* reconstruction/keypoints        (None: no such directory) *)
  t_ds : option folder;       (* reconstruction/descriptors *)
  t_gf : option folder;       (* reconstruction/global_features *)
  t_mt : option folder;       (* reconstruction/matches *)
  t_rd : option folder        (* sensors/records_data *)
}.

Inductive fkind := KP | DS | GF.
Definition descname (k : fkind) : string := match k with KP => kp_descname | DS => ds_descname | GF => gf_descname end.
Definition fext (k : fkind) : string := match k with KP => kp_ext | DS => ds_ext | GF => gf_ext end.
Definition fhdr (k : fkind) : string := match k with KP => kp_hdr | DS => ds_hdr | GF => gf_hdr end.
(* side files that the in-place route carries along (literals of the upgrade function) *)
Definition fjson (k : fkind) : option string :=
  match k with KP => Some "extract_local_features.json" | DS => None | GF => Some "extract_global_features.json" end.
Definition mt_json : string := "run_matching.json".
Definition get_folder (k : fkind) (t : tree) : option folder :=
  match k with KP => t_kp t | DS => t_ds t | GF => t_gf t end.
Definition set_folder (k : fkind) (F : option folder) (t : tree) : tree :=
  match k with
  | KP => mkTree (t_top t) F (t_ds t) (t_gf t) (t_mt t) (t_rd t)
  | DS => mkTree (t_top t) (t_kp t) F (t_gf t) (t_mt t) (t_rd t)
  | GF => mkTree (t_top t) (t_kp t) (t_ds t) F (t_mt t) (t_rd t)
  end.
Definition set_top (F : folder) (t : tree) : tree := mkTree F (t_kp t) (t_ds t) (t_gf t) (t_mt t) (t_rd t).
Definition set_mt (F : option folder) (t : tree) : tree := mkTree (t_top t) (t_kp t) (t_ds t) (t_gf t) F (t_rd t).
Definition set_rd (F : option folder) (t : tree) : tree := mkTree (t_top t) (t_kp t) (t_ds t) (t_gf t) (t_mt t) F.

Definition under (ty p : string) : string := ty +++ "/" +++ p.

(* ------------------------------------------------------------------ the call *)
Record args := mkArgs {
  a_kt : option string;      (* --keypoints-type *)
  a_dt : option string;      (* --descriptors-type *)
  a_gt : option string;      (* --global-features-type *)
  a_dm : string;             (* descriptors metric type *)
  a_gm : string              (* global features metric type *)
}.
Definition explicit (k : fkind) (a : args) : option string :=
  match k with KP => a_kt a | DS => a_dt a | GF => a_gt a end.

Inductive fail := Refused      (* AssertionError *)
                | Crashed.     (* any other exception *)
(* Failed carries the state reached when the exception was raised *)
Inductive outcome (A : Type) := Done (x : A) | Failed (f : fail) (x : A).
Arguments Done {A} x.
Arguments Failed {A} f x.
Definition bind {A} (o : outcome A) (f : A -> outcome A) : outcome A :=
  match o with Done x => f x | Failed e x => Failed e x end.

(* ------------------------------------------------------------------ the 1.0 descriptor file *)
Record desc10 := mkDesc { d_name : string; d_dtype : string; d_dsize : Z }.
(* read_old_image_features_csv *)
Definition read_old (segs : list string) : desc10 + fail :=
  match rows segs with
  | [] => inr Crashed                                       (* list(table)[0]: IndexError *)
  | [n; dt; ds] :: _ =>
      match parse_int ds with
      | None => inr Crashed
      | Some z => match dtype_norm dt with
                  | None => inr Crashed
                  | Some d => inl (mkDesc n d z)
                  end
      end
  | _ :: _ => inr Refused                                   (* assert len(line) == 3 *)
  end.

(* `if type is None: assert name != ''; type = name` *)
Definition resolve_type (given : option string) (name : string) : option string :=
  match given with
  | Some t => Some t
  | None => if eqb name EmptyString then None else Some name
  end.

(* the row written by keypoints_to_file / descriptors_to_file / global_features_to_file *)
Definition new_row (k : fkind) (d : desc10) (kt : string) (a : args) : list string :=
  match k with
  | KP => [d_name d; d_dtype d; show_Z (d_dsize d)]
  | DS => [d_name d; d_dtype d; show_Z (d_dsize d); kt; a_dm a]
  | GF => [d_name d; d_dtype d; show_Z (d_dsize d); a_gm a]
  end.
Definition desc11 (k : fkind) (row : list string) : content :=
  Txt [format_11; fhdr k; join ", " row; EmptyString].

(* ------------------------------------------------------------------ observations *)
Fixpoint pair_up (l : list string) : option (list (string * Z)) :=
  match l with
  | i :: k :: l' => match parse_int k with
                    | None => None
                    | Some z => option_map (cons (i, z)) (pair_up l')
                    end
  | _ => Some []
  end.
(* one 1.0 row: point3d_id, [image_path, feature_id]*  *)
Definition obs_row10 (r : list string) : option (Z * list (string * Z)) :=
  match r with
  | [] => None
  | p :: pairs => match parse_int p with
                  | None => None
                  | Some z => if (1 <? List.length pairs)%nat then option_map (pair z) (pair_up pairs) else Some (z, [])
                  end
  end.
Definition obs_map := list (Z * list (string * Z)).
Definition append_at {K} `{EqDec K} (z : K) (ps : list (string * Z)) (m : list (K * list (string * Z))) :=
  match lookup z m with Some l => insert z (l ++ ps) m | None => insert z ps m end.
Fixpoint obs_collect (rs : list (list string)) (m : obs_map) : option obs_map :=
  match rs with
  | [] => Some m
  | r :: rs' => match obs_row10 r with
                | None => None
                | Some (z, ps) => obs_collect rs' (match ps with [] => m | _ => append_at z ps m end)
                end
  end.
Fixpoint insZ {V} (e : Z * V) (l : list (Z * V)) : list (Z * V) :=
  match l with
  | [] => [e]
  | x :: l' => if (fst e <=? fst x)%Z then e :: l else x :: insZ e l'
  end.
Fixpoint sortZ {V} (l : list (Z * V)) : list (Z * V) :=
  match l with [] => [] | e :: l' => insZ e (sortZ l') end.
Definition obs_line (ty : string) (e : Z * list (string * Z)) : string :=
  join ", " (show_Z (fst e) :: ty :: flat_map (fun ik => [fst ik; show_Z (snd ik)]) (snd e)).
(* observations_to_file *)
Definition obs_file11 (ty : string) (m : obs_map) : content :=
  Txt ([format_11; obs_hdr] ++ map (obs_line ty) (sortZ m) ++ [EmptyString]).

(* ------------------------------------------------------------------ moving files inside a feature folder *)
Definition move_key (src dst : string) (F : folder) : folder :=
  match lookup src F with Some c => insert dst c (remove src F) | None => F end.
(* every file with the extension goes under <type>/, all at once (what the repaired loop achieves) *)
Definition rename_feat (ty e : string) (F : folder) : folder :=
  map (fun pc => (if has_ext e (fst pc) then under ty (fst pc) else fst pc, snd pc)) F.
(* the loop before the repair: files are moved one after the other in listing order,
   a move replaces whatever is at the destination *)
Definition move_seq (ty e : string) (F : folder) : folder :=
  fold_left (fun M p => move_key p (under ty p) M) (List.filter (has_ext e) (keys F)) F.

(* ------------------------------------------------------------------ in-place route *)
Definition state := (tree * option string)%type.       (* tree so far, keypoints type so far *)
Definition is_none {A} (o : option A) : bool := match o with None => true | Some _ => false end.

Fixpoint csv_step_in (names : list string) (top : folder) : outcome folder :=
  match names with
  | [] => Done top
  | n :: ns =>
      match lookup n top with
      | Some (Txt segs) =>
          if version_ok_lenient (version_of_file segs)
          then csv_step_in ns (insert n (Txt (rewrite_header segs)) top)
          else Failed Refused top
      | _ => csv_step_in ns top
      end
  end.

(* results of the copy route *)
Inductive strategy := Skip | RootLink | Copy | Move | LinkAbs | LinkRel.
Inductive rdout := RNone | RFiles (F : folder) | RLinks (F : folder) | RRootLink.
Record copy_result := mkCopy {
  c_out : tree;                  (* the new directory (its records_data is described by c_rd) *)
  c_rd : rdout;
  c_src_rd : option folder       (* records_data of the source afterwards (emptied by `move`) *)
}.
Inductive coutcome := CDone (r : copy_result) | CFailed (f : fail).


Section Route.
  (* legacy = true: the code before the repairs (fixes/C20-*.patch) *)
  Variable legacy : bool.
  Variable a : args.

  Definition needs_kt (k : fkind) : bool := match k with KP => false | DS => true | GF => legacy end.
  Definition mover (ty e : string) (F : folder) : folder := if legacy then move_seq ty e F else rename_feat ty e F.

  Definition feat_step_in (k : fkind) (st : state) : outcome state :=
    let (t, kt) := st in
    match get_folder k t with
    | None => Done st
    | Some F =>
      match lookup (descname k) F with
      | Some (Txt segs) =>
        if negb (version_ok_lenient (version_of_file segs)) then Failed Refused st
        else if needs_kt k && is_none kt then Failed Refused st
        else match read_old segs with
        | inr e => Failed e st
        | inl d =>
          let F1 := remove (descname k) F in                               (* os.remove(old descriptor) *)
          match resolve_type (explicit k a) (d_name d) with
          | None => Failed Refused (set_folder k (Some F1) t, kt)
          | Some ty =>
            let kt' := match k with KP => Some ty | _ => kt end in
            let row := new_row k d (match kt with Some x => x | None => EmptyString end) a in
            let F2 := insert (under ty (descname k)) (desc11 k row) F1 in
            let F3 := match fjson k with Some j => move_key j (under ty j) F2 | None => F2 end in
            Done (set_folder k (Some (mover ty (fext k) F3)) t, kt')
          end
        end
      | _ => Done st
      end
    end.

  Definition mt_step_in (st : state) : outcome state :=
    let (t, kt) := st in
    match t_mt t with
    | None => Done st
    | Some F =>
      match kt with
      | None => Failed Refused st
      | Some ty => Done (set_mt (Some (mover ty mt_ext (move_key mt_json (under ty mt_json) F))) t, kt)
      end
    end.

  Definition obs_step_in (st : state) : outcome state :=
    let (t, kt) := st in
    match lookup obs_file (t_top t) with
    | Some (Txt segs) =>
      if negb (version_ok_lenient (version_of_file segs)) then Failed Refused st
      else match kt with
      | None => Failed Refused st
      | Some ty =>
        match obs_collect (rows segs) [] with
        | None => Failed Crashed st
        | Some m => Done (set_top (insert obs_file (obs_file11 ty m) (t_top t)) t, kt)
        end
      end
    | _ => Done st
    end.

  Definition upgrade_inplace_gen (t : tree) : outcome state :=
    match csv_step_in csv_1_0 (t_top t) with
    | Failed e top => Failed e (set_top top t, a_kt a)
    | Done top =>
      bind (bind (bind (bind (feat_step_in KP (set_top top t, a_kt a)) (feat_step_in DS)) mt_step_in) (feat_step_in GF)) obs_step_in
    end.

  (* ---------------------------------------------------------------- copy route *)
  Fixpoint csv_step_cp (names : list string) (src : folder) : option folder :=      (* None: AssertionError *)
    match names with
    | [] => Some []
    | n :: ns =>
      match lookup n src with
      | Some (Txt segs) =>
        let v := version_of_file segs in
        if (if contains "points3d" n then version_ok_lenient v else version_ok_strict v)
        then option_map (cons (n, Txt (rewrite_header segs))) (csv_step_cp ns src)
        else None
      | _ => csv_step_cp ns src
      end
    end.

  Definition feat_files_cp (ty e : string) (F : folder) : folder :=
    map (fun pc => (under ty (fst pc), snd pc)) (List.filter (fun pc => has_ext e (fst pc)) F).

  (* result: output folder (None: nothing written) and the keypoints type afterwards *)
  Definition feat_step_cp (k : fkind) (src : option folder) (kt : option string) : (option folder * option string) + fail :=
    match src with
    | None => inl (None, kt)
    | Some F =>
      match lookup (descname k) F with
      | Some (Txt segs) =>
        if negb (version_ok_strict (version_of_file segs)) then inr Refused
        else if needs_kt k && is_none kt then inr Refused
        else match read_old segs with
        | inr e => inr e
        | inl d =>
          match resolve_type (explicit k a) (d_name d) with
          | None => inr Refused
          | Some ty =>
            let kt' := match k with KP => Some ty | _ => kt end in
            let row := new_row k d (match kt with Some x => x | None => EmptyString end) a in
            inl (Some ((under ty (descname k), desc11 k row) :: feat_files_cp ty (fext k) F), kt')
          end
        end
      | _ => inl (None, kt)
      end
    end.

  Definition nonempty_folder (F : folder) : option folder := match F with [] => None | _ => Some F end.

  Definition rd_step_cp (s : strategy) (rd : option folder) : (rdout * option folder) + fail :=
    match rd with
    | None => match s with
              | RootLink => if legacy then inr Refused else inl (RNone, None)       (* assert path.isdir(source) *)
              | _ => inl (RNone, None)
              end
    | Some R =>
      match s with
      | Skip => inl (RNone, rd)
      | RootLink => inl (RRootLink, rd)
      | Copy => inl (match R with [] => RNone | _ => RFiles R end, rd)
      | Move => inl (match R with [] => RNone | _ => RFiles R end, Some [])
      | LinkAbs | LinkRel => inl (match R with [] => RNone | _ => RLinks R end, rd)
      end
    end.

  Definition upgrade_copy_gen (s : strategy) (t : tree) : coutcome :=
    match csv_step_cp csv_1_0 (t_top t) with
    | None => CFailed Refused
    | Some top =>
      match feat_step_cp KP (t_kp t) (a_kt a) with
      | inr e => CFailed e
      | inl (okp, kt) =>
        match feat_step_cp DS (t_ds t) kt with
        | inr e => CFailed e
        | inl (ods, _) =>
          match (match t_mt t with
                 | None => inl None
                 | Some F => match kt with
                             | None => inr Refused
                             | Some ty => inl (nonempty_folder (feat_files_cp ty mt_ext F))
                             end
                 end) with
          | inr e => CFailed e
          | inl omt =>
            match feat_step_cp GF (t_gf t) kt with
            | inr e => CFailed e
            | inl (ogf, _) =>
              match (match lookup obs_file (t_top t) with
                     | Some (Txt segs) =>
                       if negb (version_ok_strict (version_of_file segs)) then inr Refused
                       else match kt with
                       | None => inr Refused
                       | Some ty => match obs_collect (rows segs) [] with
                                    | None => inr Crashed
                                    | Some m => inl (top ++ [(obs_file, obs_file11 ty m)])
                                    end
                       end
                     | _ => inl top
                     end) with
              | inr e => CFailed e
              | inl top' =>
                match rd_step_cp s (t_rd t) with
                | inr e => CFailed e
                | inl (rdo, srd) => CDone (mkCopy (mkTree top' okp ods ogf omt None) rdo srd)
                end
              end
            end
          end
        end
      end
    end.
End Route.

(* the tree under test after the repairs, and before *)
Definition upgrade_inplace := upgrade_inplace_gen false.
Definition upgrade_inplace_legacy := upgrade_inplace_gen true.
Definition upgrade_copy := upgrade_copy_gen false.
Definition upgrade_copy_legacy := upgrade_copy_gen true.

(* ------------------------------------------------------------------ what a dataset directory contains *)
Record view := mkView {
  v_tables : list (string * list (list string));                          (* file name, data rows *)
  v_kp : list (string * list string * list (string * content));          (* type, descriptor fields, (image, data file) *)
  v_ds : list (string * list string * list (string * content));
  v_gf : list (string * list string * list (string * content));
  v_mt : list (string * string * string * content);                      (* keypoints type, image 1, image 2, data file *)
  v_obs : list (Z * string * list (string * Z))                          (* point, keypoints type, (image, keypoint index) *)
}.

Definition table_rows (top : folder) (n : string) : option (list (list string)) :=
  match lookup n top with Some (Txt segs) => Some (rows segs) | _ => None end.
Definition tables_view (top : folder) : list (string * list (list string)) :=
  flat_map (fun n => match table_rows top n with Some r => [(n, r)] | None => [] end)
           (List.filter (fun n => negb (eqb n obs_file)) csv_11).
(* images named by records_camera (None: no records_camera file) *)
Definition images_of (top : folder) : option (list string) :=
  option_map (fun rs => dedup (map (fun r => nth 2 r EmptyString) rs)) (table_rows top records_camera_file).

Definition ncols (k : fkind) : nat := match k with KP => 3%nat | DS => 5%nat | GF => 4%nat end.
(* keypoints_config_from_file & co: the fields of a 1.1 descriptor file, element type and size normalised *)
Definition config11 (k : fkind) (segs : list string) : option (list string) :=
  match rows segs with
  | [] => None
  | r :: _ =>
    if Nat.eqb (List.length r) (ncols k) then
      match parse_int (nth 2 r EmptyString), dtype_norm (nth 1 r EmptyString) with
      | Some z, Some d => Some (nth 0 r EmptyString :: d :: show_Z z :: skipn 3 r)
      | _, _ => None
      end
    else None
  end.

Definition data_of (imgs : list string) (pfx e : string) (F : folder) : list (string * content) :=
  flat_map (fun i => match lookup (pfx +++ i +++ e) F with Some c => [(i, c)] | None => [] end) imgs.

Fixpoint map_opt {A B} (f : A -> option B) (l : list A) : option (list B) :=
  match l with
  | [] => Some []
  | x :: l' => match f x, map_opt f l' with Some y, Some r => Some (y :: r) | _, _ => None end
  end.

(* list_features: sub-folders holding a descriptor file *)
Definition ftypes (k : fkind) (F : folder) : list string :=
  dedup (flat_map (fun pc => match cut_slash (fst pc) with
                             | Some (c, r) => if eqb r (descname k) then [c] else []
                             | None => []
                             end) F).
Definition feat_view11 (k : fkind) (imgs : list string) (F : folder)
  : option (list (string * list string * list (string * content))) :=
  map_opt (fun ty => match lookup (under ty (descname k)) F with
                     | Some (Txt segs) =>
                       match config11 k segs with
                       | Some cfg => Some (ty, cfg, data_of imgs (ty +++ "/") (fext k) F)
                       | None => None
                       end
                     | _ => None
                     end) (ftypes k F).

(* a matches file name (relative to its keypoints type folder) names a pair of images *)
Definition chop (n : nat) (s : string) : string := substring 0 (String.length s - n) s.
Definition pair_of (rel : string) : option (string * string) :=
  if has_ext mt_ext rel then
    match split_str mt_sep O (chop (String.length mt_ext) rel) EmptyString with
    | [x; y] => Some (x, y)
    | _ => None
    end
  else None.
Definition match_entry (imgs : list string) (ty rel : string) (c : content) : list (string * string * string * content) :=
  match pair_of rel with
  | Some (x, y) => if memb x imgs && memb y imgs then [(ty, x, y, c)] else []
  | None => []
  end.
Definition mt_view11 (imgs : list string) (F : folder) : list (string * string * string * content) :=
  flat_map (fun pc => match cut_slash (fst pc) with
                      | Some (ty, rel) => match_entry imgs ty rel (snd pc)
                      | None => []
                      end) F.

(* observations_from_file with the loaded keypoints as filter *)
Definition kp_images (kpv : list (string * list string * list (string * content))) (ty : string) : list string :=
  match lookup ty (map (fun e => (fst (fst e), map fst (snd e))) kpv) with Some l => l | None => [] end.
Fixpoint pair_up_f (keep : string -> bool) (l : list string) : option (list (string * Z)) :=
  match l with
  | i :: k :: l' => if keep i then
                      match parse_int k with
                      | None => None
                      | Some z => option_map (cons (i, z)) (pair_up_f keep l')
                      end
                    else pair_up_f keep l'
  | _ => Some []
  end.
Definition obs_key := (Z * string)%type.
Fixpoint obs_collect11 (imgs_of : string -> list string) (rs : list (list string))
         (m : list (obs_key * list (string * Z))) : option (list (obs_key * list (string * Z))) :=
  match rs with
  | [] => Some m
  | (p :: ty :: pairs) :: rs' =>
      match imgs_of ty with
      | [] => obs_collect11 imgs_of rs' m
      | ims =>
        match parse_int p with
        | None => None
        | Some z =>
          if (1 <? List.length pairs)%nat then
            match pair_up_f (fun i => memb i ims) pairs with
            | None => None
            | Some ps => obs_collect11 imgs_of rs' (match ps with [] => m | _ => append_at (z, ty) ps m end)
            end
          else obs_collect11 imgs_of rs' m
        end
      end
  | _ :: _ => None                          (* fewer than two fields: ValueError *)
  end.
(* in insertion order, like the dictionary it is read into *)
Definition flat_obs (m : list (obs_key * list (string * Z))) : list (Z * string * list (string * Z)) :=
  map (fun e => (fst (fst e), snd (fst e), snd e)) m.

Definition opt_folder_view {A} (F : option folder) (imgs : option (list string))
           (f : list string -> folder -> option (list A)) : option (list A) :=
  match F with
  | None => Some []
  | Some G => match imgs with None => None | Some im => f im G end       (* assert records_camera is not None *)
  end.

(* kapture_from_dir on a directory that declares the current version; None: the load raises *)
Definition load11 (t : tree) : option view :=
  let top := t_top t in
  match lookup sensors_file top with
  | Some (Txt ssegs) =>
    if negb (eqb (version_of_file ssegs) (Some version_11)) then None else
    let imgs := images_of top in
    match opt_folder_view (t_kp t) imgs (feat_view11 KP),
          opt_folder_view (t_ds t) imgs (feat_view11 DS),
          opt_folder_view (t_gf t) imgs (feat_view11 GF),
          opt_folder_view (t_mt t) imgs (fun im F => Some (mt_view11 im F)) with
    | Some kpv, Some dsv, Some gfv, Some mtv =>
      match lookup obs_file top with
      | Some (Txt osegs) =>
        match kpv, lookup points3d_file top with
        | _ :: _, Some _ =>
          match obs_collect11 (kp_images kpv) (rows osegs) [] with
          | Some m => Some (mkView (tables_view top) kpv dsv gfv mtv (flat_obs m))
          | None => None
          end
        | _, _ => None                                 (* assert keypoints / points3d is not None *)
        end
      | _ => Some (mkView (tables_view top) kpv dsv gfv mtv [])
      end
    | _, _, _, _ => None
    end
  | _ => None
  end.

(* ------------------------------------------------------------------ the content of a 1.0 directory,
   labelled the way the upgrade is asked to label it (the specification side: `relabel (load10 t)`) *)
Definition type_for (k : fkind) (a : args) (F : option folder) : option string :=
  match F with
  | None => None
  | Some G => match lookup (descname k) G with
              | Some (Txt segs) => match read_old segs with
                                   | inl d => resolve_type (explicit k a) (d_name d)
                                   | inr _ => None
                                   end
              | _ => None
              end
  end.
(* the keypoints type in force once the keypoints folder has been looked at *)
Definition kt_for (a : args) (t : tree) : option string :=
  match t_kp t with
  | Some G => match lookup (descname KP) G with
              | Some (Txt _) => type_for KP a (t_kp t)
              | _ => a_kt a
              end
  | None => a_kt a
  end.

Definition str_or_empty (o : option string) : string := match o with Some s => s | None => EmptyString end.

(* kt: the keypoints type known when the folder is looked at (descriptors need one) *)
Definition feat_view10 (k : fkind) (a : args) (kt : option string) (imgs : list string) (F : folder)
  : option (list (string * list string * list (string * content))) :=
  match lookup (descname k) F with
  | Some (Txt segs) =>
    if (match k with DS => is_none kt | _ => false end) then None else
    match read_old segs with
    | inl d => match resolve_type (explicit k a) (d_name d) with
               | Some ty => Some [(ty, new_row k d (str_or_empty kt) a, data_of imgs EmptyString (fext k) F)]
               | None => None
               end
    | inr _ => None
    end
  | _ => Some []                   (* a folder without descriptor file holds no feature set *)
  end.
Definition mt_view10 (ty : string) (imgs : list string) (F : folder) : list (string * string * string * content) :=
  flat_map (fun pc => match_entry imgs ty (fst pc) (snd pc)) F.

Definition obs_view10 (ty : string) (kpims : list string) (rs : list (list string)) : option (list (Z * string * list (string * Z))) :=
  match obs_collect rs [] with
  | None => None
  | Some m =>
    Some (flat_map (fun e => match List.filter (fun ik => memb (fst ik) kpims) (snd e) with
                             | [] => []
                             | ps => [(fst e, ty, ps)]
                             end) (sortZ m))
  end.

Definition load10 (a : args) (t : tree) : option view :=
  let top := t_top t in
  match lookup sensors_file top with
  | Some (Txt ssegs) =>
    if negb (version_ok_lenient (version_of_file ssegs)) then None else
    let imgs := images_of top in
    let kt := kt_for a t in
    match opt_folder_view (t_kp t) imgs (feat_view10 KP a (a_kt a)),
          opt_folder_view (t_ds t) imgs (feat_view10 DS a kt),
          opt_folder_view (t_gf t) imgs (feat_view10 GF a kt),
          opt_folder_view (t_mt t) imgs (fun im F => match kt with Some ty => Some (mt_view10 ty im F) | None => None end) with
    | Some kpv, Some dsv, Some gfv, Some mtv =>
      match lookup obs_file top with
      | Some (Txt osegs) =>
        match kpv, lookup points3d_file top, kt with
        | _ :: _, Some _, Some ty =>
          match obs_view10 ty (kp_images kpv ty) (rows osegs) with
          | Some ov => Some (mkView (tables_view top) kpv dsv gfv mtv ov)
          | None => None
          end
        | _, _, _ => None
        end
      | _ => Some (mkView (tables_view top) kpv dsv gfv mtv [])
      end
    | _, _, _, _ => None
    end
  | _ => None
  end.

(* ------------------------------------------------------------------ correspondence *)
(* folders are compared as finite maps *)
Definition folder_sub (F G : folder) : bool :=
  forallb (fun pc => eqb (lookup (fst pc) G) (Some (snd pc))) F.
Definition folder_eqv (F G : folder) : bool :=
  Nat.eqb (List.length F) (List.length G) && folder_sub F G && folder_sub G F.
Definition ofolder_eqv (F G : option folder) : bool :=
  match F, G with
  | None, None => true
  | Some x, Some y => folder_eqv x y
  | _, _ => false
  end.
Definition tree_eqv (x y : tree) : bool :=
  folder_eqv (t_top x) (t_top y) && ofolder_eqv (t_kp x) (t_kp y) && ofolder_eqv (t_ds x) (t_ds y)
  && ofolder_eqv (t_gf x) (t_gf y) && ofolder_eqv (t_mt x) (t_mt y) && ofolder_eqv (t_rd x) (t_rd y).

(* lists compared as multisets *)
Fixpoint remove_one {A} `{EqDec A} (x : A) (l : list A) : option (list A) :=
  match l with
  | [] => None
  | y :: l' => if eqb x y then Some l' else option_map (cons y) (remove_one x l')
  end.
Fixpoint perm_eqb {A} `{EqDec A} (l m : list A) : bool :=
  match l with
  | [] => match m with [] => true | _ => false end
  | x :: l' => match remove_one x m with Some m' => perm_eqb l' m' | None => false end
  end.

Definition feat_entry_eqb (x y : string * list string * list (string * content)) : bool :=
  eqb (fst x) (fst y) && perm_eqb (snd x) (snd y).
Fixpoint feat_list_eqv (l m : list (string * list string * list (string * content))) : bool :=
  match l with
  | [] => match m with [] => true | _ => false end
  | x :: l' =>
    match List.filter (fun y => eqb (fst (fst x)) (fst (fst y))) m with
    | [y] => eqb (snd (fst x)) (snd (fst y)) && perm_eqb (snd x) (snd y)
             && feat_list_eqv l' (List.filter (fun y => negb (eqb (fst (fst x)) (fst (fst y)))) m)
    | _ => false
    end
  end.
Definition nonempty_tables (l : list (string * list (list string))) :=
  List.filter (fun e => match snd e with [] => false | _ => true end) l.
Fixpoint tables_eqv (l m : list (string * list (list string))) : bool :=
  match l with
  | [] => match m with [] => true | _ => false end
  | x :: l' =>
    match List.filter (fun y => eqb (fst x) (fst y)) m with
    | [y] => perm_eqb (snd x) (snd y) && tables_eqv l' (List.filter (fun y => negb (eqb (fst x) (fst y))) m)
    | _ => false
    end
  end.
Definition nonempty_feats (l : list (string * list string * list (string * content))) := l.
Definition view_eqv (x y : view) : bool :=
  tables_eqv (nonempty_tables (v_tables x)) (nonempty_tables (v_tables y))
  && feat_list_eqv (v_kp x) (v_kp y) && feat_list_eqv (v_ds x) (v_ds y) && feat_list_eqv (v_gf x) (v_gf y)
  && perm_eqb (v_mt x) (v_mt y) && perm_eqb (v_obs x) (v_obs y).
Definition oview_eqv (x y : option view) : bool :=
  match x, y with None, None => true | Some a, Some b => view_eqv a b | _, _ => false end.

Inductive obs_outcome := ODone | ORefused | OCrashed.
Definition fail_matches (f : fail) (o : obs_outcome) : bool :=
  match f, o with Refused, ORefused | Crashed, OCrashed => true | _, _ => false end.

Record copy_obs := mkCopyObs {
  k_strategy : strategy;
  k_outcome : obs_outcome;
  k_out : tree;                 (* the output directory, records_data excluded *)
  k_rd : rdout;                 (* how records_data of the output looks *)
  k_src_rd : option folder;     (* records_data of the source afterwards *)
  k_view : option view          (* kapture_from_dir on the output *)
}.

Record case := mkCase {
  i_tree : tree;
  i_args : args;
  o_in_outcome : obs_outcome;
  o_in_tree : tree;             (* the directory after the in-place call, also when it raised *)
  o_in_view : option view;      (* kapture_from_dir on it (when the call returned) *)
  o_copies : list copy_obs
}.

Definition rdout_eqv (x y : rdout) : bool :=
  match x, y with
  | RNone, RNone | RRootLink, RRootLink => true
  | RFiles F, RFiles G | RLinks F, RLinks G => folder_eqv F G
  | _, _ => false
  end.

Definition check_copy (t : tree) (a : args) (k : copy_obs) : bool :=
  match upgrade_copy a (k_strategy k) t with
  | CDone r => match k_outcome k with
               | ODone => tree_eqv (c_out r) (k_out k) && rdout_eqv (c_rd r) (k_rd k)
                          && ofolder_eqv (c_src_rd r) (k_src_rd k)
                          && oview_eqv (load11 (c_out r)) (k_view k)
               | _ => false
               end
  | CFailed f => fail_matches f (k_outcome k)
  end.

Definition check_case (c : case) : bool :=
  (match upgrade_inplace (i_args c) (i_tree c) with
   | Done st => match o_in_outcome c with
                | ODone => tree_eqv (fst st) (o_in_tree c) && oview_eqv (load11 (fst st)) (o_in_view c)
                           && match load10 (i_args c) (i_tree c) with      (* the specification side agrees too *)
                              | Some v => oview_eqv (Some v) (o_in_view c)
                              | None => true
                              end
                | _ => false
                end
   | Failed f st => fail_matches f (o_in_outcome c) && tree_eqv (fst st) (o_in_tree c)
   end)
  && forallb (check_copy (i_tree c) (i_args c)) (o_copies c).
