(* Proofs/PBinary.v — lemmas about Model/MBinary.v (property C03).
   Part 1: little-endian digits for every width (N arithmetic, no enumeration).
   Part 2: encode / decode of arrays, round trips, size, byte layout, reader failure cases.
   Part 3: POSIX path functions on normalised names: closed forms and injectivity. *)
From Coq Require Import List Bool String Ascii NArith ZArith Lia Arith.
From KV Require Import Eqb Str.
From KV.Model Require Import MBinary.
Import ListNotations.
Local Open Scope list_scope.

(* ================================================================== 1. little-endian digits *)
Definition width_bound (w : nat) : N := (2 ^ (8 * N.of_nat w))%N.

Lemma width_bound_S w : width_bound (S w) = (256 * width_bound w)%N.
Proof.
  unfold width_bound. rewrite Nat2N.inj_succ, N.mul_succ_r, N.add_comm, N.pow_add_r. reflexivity.
Qed.

Lemma width_bound_pos w : width_bound w <> 0%N.
Proof. unfold width_bound. apply N.pow_nonzero. discriminate. Qed.

Lemma to_le_length w n : List.length (to_le w n) = w.
Proof. revert n; induction w as [|w IH]; intros n; cbn; [reflexivity | rewrite IH; reflexivity]. Qed.

Lemma to_le_bytes w n : Forall (fun b => (b < 256)%N) (to_le w n).
Proof.
  revert n; induction w as [|w IH]; intros n; cbn; constructor; [|apply IH].
  apply N.mod_lt. discriminate.
Qed.

(* decoding the w low-order bytes gives the number modulo 2^(8w) *)
Lemma of_le_to_le_mod w n : of_le (to_le w n) = (n mod width_bound w)%N.
Proof.
  revert n; induction w as [|w IH]; intros n.
  - cbn. unfold width_bound; cbn. rewrite N.mod_1_r. reflexivity.
  - cbn [to_le of_le]. rewrite IH, width_bound_S.
    rewrite N.mod_mul_r; [reflexivity | discriminate | apply width_bound_pos].
Qed.

Lemma of_le_to_le w n : (n < width_bound w)%N -> of_le (to_le w n) = n.
Proof. intros H. rewrite of_le_to_le_mod. apply N.mod_small; assumption. Qed.

Lemma to_le_inj w n m :
  (n < width_bound w)%N -> (m < width_bound w)%N -> to_le w n = to_le w m -> n = m.
Proof. intros Hn Hm E. rewrite <- (of_le_to_le w n Hn), <- (of_le_to_le w m Hm), E. reflexivity. Qed.

Lemma of_le_bound bs :
  Forall (fun b => (b < 256)%N) bs -> (of_le bs < width_bound (List.length bs))%N.
Proof.
  induction 1 as [|b bs Hb _ IH]; cbn [of_le List.length].
  - unfold width_bound; cbn. lia.
  - rewrite width_bound_S. lia.
Qed.

(* every byte string of length w is the image of exactly its value: the digits are a bijection *)
Lemma to_le_of_le bs :
  Forall (fun b => (b < 256)%N) bs -> to_le (List.length bs) (of_le bs) = bs.
Proof.
  induction 1 as [|b bs Hb _ IH]; cbn [of_le List.length to_le]; [reflexivity|].
  f_equal.
  - rewrite N.mul_comm, N.mod_add by discriminate. apply N.mod_small; assumption.
  - rewrite N.mul_comm, N.div_add by discriminate. rewrite N.div_small by assumption. cbn. exact IH.
Qed.

(* byte j of the little-endian representation is digit j in base 256 *)
Lemma nth_to_le w n j : (j < w)%nat -> nth j (to_le w n) 0%N = ((n / 256 ^ N.of_nat j) mod 256)%N.
Proof.
  revert n j; induction w as [|w IH]; intros n j Hj; [lia|].
  destruct j as [|j]; cbn [to_le nth].
  - cbn. rewrite N.div_1_r. reflexivity.
  - rewrite IH by lia. rewrite N.div_div; [|discriminate|apply N.pow_nonzero; discriminate].
    rewrite Nat2N.inj_succ, N.pow_succ_r'. reflexivity.
Qed.

Lemma to_be_length w n : List.length (to_be w n) = w.
Proof. unfold to_be. rewrite rev_length. apply to_le_length. Qed.

(* ================================================================== 2. arrays *)
Lemma isz_pos d : (0 < isz d)%nat.
Proof. destruct d; cbn; lia. Qed.

Lemma dtype_eqb_eq a b : dtype_eqb a b = true <-> a = b.
Proof. split; [|intros ->; destruct b; reflexivity]. destruct a, b; vm_compute; congruence. Qed.

Lemma dtype_name_inj a b : dtype_name a = dtype_name b -> a = b.
Proof. intros E. apply dtype_eqb_eq. unfold dtype_eqb. rewrite E. apply String.eqb_refl. Qed.

Lemma elem_ok_spec d n : elem_ok d n = true <-> (n < width_bound (isz d))%N.
Proof. unfold elem_ok, width_bound. apply N.ltb_lt. Qed.

Lemma firstn_app_exact {A} (l1 l2 : list A) n : List.length l1 = n -> firstn n (l1 ++ l2) = l1.
Proof. intros <-. induction l1 as [|x l1 IH]; cbn; [destruct l2; reflexivity | rewrite IH; reflexivity]. Qed.

Lemma skipn_app_exact {A} (l1 l2 : list A) n : List.length l1 = n -> skipn n (l1 ++ l2) = l2.
Proof. intros <-. induction l1 as [|x l1 IH]; cbn; [reflexivity | exact IH]. Qed.

Lemma flat_map_fixed_length {A} (f : A -> list N) w l :
  (forall x, List.length (f x) = w) -> List.length (flat_map f l) = (w * List.length l)%nat.
Proof.
  intros H. induction l as [|x l IH]; cbn; [lia|]. rewrite app_length, H, IH. lia.
Qed.

Lemma encode_length d l : List.length (encode d l) = (isz d * List.length l)%nat.
Proof. apply flat_map_fixed_length. intros; apply to_le_length. Qed.

Lemma lenN_encode d l : lenN (encode d l) = (N.of_nat (isz d) * lenN l)%N.
Proof. unfold lenN. rewrite encode_length, Nat2N.inj_mul. reflexivity. Qed.

Lemma dec_items_flat w l rest :
  Forall (fun n => (n < width_bound w)%N) l ->
  dec_items w (List.length l) (flat_map (to_le w) l ++ rest) = l.
Proof.
  induction 1 as [|x l Hx _ IH]; cbn [flat_map List.length dec_items]; [reflexivity|].
  rewrite <- app_assoc.
  rewrite firstn_app_exact by apply to_le_length.
  rewrite skipn_app_exact by apply to_le_length.
  rewrite of_le_to_le by assumption. rewrite IH. reflexivity.
Qed.

(* element i of the array occupies bytes [i*w, (i+1)*w) of the file, least significant byte first *)
Lemma nth_flat_map_fixed (f : N -> list N) w l i j :
  (forall x, List.length (f x) = w) -> (i < List.length l)%nat -> (j < w)%nat ->
  nth (i * w + j) (flat_map f l) 0%N = nth j (f (nth i l 0%N)) 0%N.
Proof.
  intros Hf. revert i; induction l as [|x l IH]; intros i Hi Hj; cbn in Hi; [lia|].
  cbn [flat_map]. destruct i as [|i].
  - cbn [Nat.mul Nat.add nth]. rewrite app_nth1 by (rewrite Hf; assumption). reflexivity.
  - rewrite app_nth2 by (rewrite Hf; lia). rewrite Hf.
    replace (S i * w + j - w)%nat with (i * w + j)%nat by lia.
    cbn [nth]. apply IH; lia.
Qed.

Lemma encode_byte_layout d l i j :
  (i < List.length l)%nat -> (j < isz d)%nat ->
  nth (i * isz d + j) (encode d l) 0%N = ((nth i l 0%N / 256 ^ N.of_nat j) mod 256)%N.
Proof.
  intros Hi Hj. unfold encode.
  rewrite (nth_flat_map_fixed (to_le (isz d)) (isz d)); auto using to_le_length.
  apply nth_to_le; assumption.
Qed.

(* ---- reading *)
Lemma N_of_nat_isz_nz d : N.of_nat (isz d) <> 0%N.
Proof. pose proof (isz_pos d). lia. Qed.

(* reading the dump of [elems] with any element type of the same width and a column count that
   divides the number of elements gives back exactly [elems], for both stores *)
Lemma read_encode st d d' elems c :
  isz d' = isz d ->
  Forall (fun n => (n < width_bound (isz d))%N) elems ->
  (0 < c)%N -> (lenN elems mod c = 0)%N ->
  read_bytes st d' (Z.of_N c) (encode d elems)
  = ROk {| a_dtype := d'; a_rows := (lenN elems / c)%N; a_cols := c; a_elems := elems |}.
Proof.
  intros Ew Hok Hc Hdiv. unfold read_bytes.
  replace (Z.of_N c <=? 0)%Z with false by (symmetry; apply Z.leb_gt; lia).
  rewrite lenN_encode, Ew.
  assert (Hm : ((N.of_nat (isz d) * lenN elems) mod N.of_nat (isz d) = 0)%N)
    by (rewrite N.mul_comm; apply N.mod_mul, N_of_nat_isz_nz).
  assert (Hq : ((N.of_nat (isz d) * lenN elems) / N.of_nat (isz d) = lenN elems)%N)
    by (rewrite N.mul_comm; apply N.div_mul, N_of_nat_isz_nz).
  rewrite Hm, Hq, N2Z.id, Hdiv. cbn [N.eqb negb].
  replace (match st with STar => false | SFile => false end) with false by (destruct st; reflexivity).
  cbn iota. f_equal. f_equal.
  unfold lenN. rewrite Nat2N.id. unfold encode.
  rewrite <- (app_nil_r (flat_map _ elems)). apply dec_items_flat. assumption.
Qed.

(* conversely, what a reader returns re-encodes to the bytes it was given (whole items) *)
Lemma flat_dec_items w k bs :
  (0 < w)%nat -> List.length bs = (k * w)%nat -> Forall (fun b => (b < 256)%N) bs ->
  flat_map (to_le w) (dec_items w k bs) = bs.
Proof.
  intros Hw. revert bs; induction k as [|k IH]; intros bs Hl Hb.
  - cbn in Hl. destruct bs; [reflexivity | discriminate].
  - cbn [dec_items flat_map].
    assert (L1 : List.length (firstn w bs) = w) by (rewrite firstn_length; lia).
    rewrite IH.
    + rewrite <- L1 at 1. rewrite to_le_of_le.
      * apply firstn_skipn.
      * rewrite <- (firstn_skipn w bs) in Hb. apply Forall_app in Hb. tauto.
    + rewrite skipn_length. lia.
    + rewrite <- (firstn_skipn w bs) in Hb. apply Forall_app in Hb. tauto.
Qed.

Lemma read_bytes_onto st d dsize bs a :
  Forall (fun b => (b < 256)%N) bs -> (lenN bs mod N.of_nat (isz d) = 0)%N ->
  read_bytes st d dsize bs = ROk a -> encode d (a_elems a) = bs /\ a_dtype a = d.
Proof.
  intros Hb Hm. unfold read_bytes.
  destruct (dsize <=? 0)%Z; [discriminate|].
  destruct (match st with STar => _ | SFile => false end); [discriminate|].
  destruct (negb _); [discriminate|]. intros [= <-]. cbn. split; [|reflexivity].
  apply flat_dec_items; [apply isz_pos| |assumption].
  pose proof (N_of_nat_isz_nz d) as Hnz.
  apply N.div_exact in Hm; [|assumption]. unfold lenN in *.
  set (q := (N.of_nat (List.length bs) / N.of_nat (isz d))%N) in *.
  assert (N.of_nat (List.length bs) = N.of_nat (N.to_nat q * isz d)) by (rewrite Nat2N.inj_mul, N2Nat.id; lia).
  lia.
Qed.

Lemma dec_items_length w k bs : List.length (dec_items w k bs) = k.
Proof. revert bs; induction k as [|k IH]; intros bs; cbn; [reflexivity | rewrite IH; reflexivity]. Qed.

(* exactly when the readers succeed / fail *)
Lemma read_bytes_cases st d dsize bs :
  let w := N.of_nat (isz d) in
  let n := (lenN bs / w)%N in
  match read_bytes st d dsize bs with
  | RErr ErrType => st = SFile /\ (dsize <= 0)%Z
  | RErr ErrValue =>
      (st = STar /\ (dsize <= 0)%Z) \/
      ((0 < dsize)%Z /\ ((st = STar /\ (lenN bs mod w <> 0)%N) \/ (n mod Z.to_N dsize <> 0)%N))
  | ROk a =>
      (0 < dsize)%Z /\ (st = STar -> (lenN bs mod w = 0)%N) /\ (n mod Z.to_N dsize = 0)%N /\
      a_dtype a = d /\ a_cols a = Z.to_N dsize /\ (a_rows a * a_cols a = n)%N /\
      List.length (a_elems a) = N.to_nat n
  end.
Proof.
  cbv zeta. unfold read_bytes.
  destruct (Z.leb_spec dsize 0) as [Hd|Hd].
  - destruct st; [split; [reflexivity|assumption] | left; split; [reflexivity|assumption]].
  - set (w := N.of_nat (isz d)). set (n := (lenN bs / w)%N).
    destruct st.
    + cbn iota. destruct (N.eqb_spec (n mod Z.to_N dsize) 0) as [E|E]; cbn [negb].
      * repeat split; auto; try discriminate.
        -- cbn. assert (Z.to_N dsize <> 0%N) by lia.
           apply N.div_exact in E; [|assumption]. rewrite N.mul_comm. symmetry. exact E.
        -- cbn. apply dec_items_length.
      * right. split; [assumption|]. right. assumption.
    + destruct (N.eqb_spec (lenN bs mod w) 0) as [E0|E0]; cbn [negb].
      * destruct (N.eqb_spec (n mod Z.to_N dsize) 0) as [E|E]; cbn [negb].
        -- repeat split; auto.
           ++ cbn. assert (Z.to_N dsize <> 0%N) by lia.
              apply N.div_exact in E; [|assumption]. rewrite N.mul_comm. symmetry. exact E.
           ++ cbn. apply dec_items_length.
        -- right. split; [assumption|]. right. assumption.
      * right. split; [assumption|]. left. split; [reflexivity|assumption].
Qed.

(* ---- whole arrays through the front ends *)
Lemma prodN_2 r c : prodN [r; c] = (r * c)%N.
Proof. unfold prodN; cbn. lia. Qed.

Lemma wf_mem_spec m :
  wf_mem m = true <->
  lenN (m_elems m) = prodN (m_shape m) /\
  Forall (fun n => (n < width_bound (isz (m_dtype m)))%N) (m_elems m).
Proof.
  unfold wf_mem. rewrite andb_true_iff, N.eqb_eq, forallb_forall, Forall_forall.
  split; intros [H1 H2]; split; auto; intros x Hx; apply elem_ok_spec, H2, Hx.
Qed.

(* any shape: the reader re-shapes the flat row-major content to (-1, c) *)
Lemma roundtrip_reshape st m c d' :
  wf_mem m = true -> (0 < c)%N -> (prodN (m_shape m) mod c = 0)%N -> isz d' = isz (m_dtype m) ->
  read_bytes st d' (Z.of_N c) (dump m)
  = ROk {| a_dtype := d'; a_rows := (prodN (m_shape m) / c)%N; a_cols := c; a_elems := m_elems m |}.
Proof.
  intros W Hc Hd Ew. apply wf_mem_spec in W. destruct W as [L Ok]. unfold dump.
  rewrite <- L in *. apply read_encode; assumption.
Qed.

Lemma roundtrip_2d st m r c d' :
  wf_mem m = true -> m_shape m = [r; c] -> (0 < c)%N -> isz d' = isz (m_dtype m) ->
  read_bytes st d' (Z.of_N c) (dump m)
  = ROk {| a_dtype := d'; a_rows := r; a_cols := c; a_elems := m_elems m |}.
Proof.
  intros W S Hc Ew. rewrite (roundtrip_reshape st m c d'); auto.
  - rewrite S, prodN_2, N.div_mul by lia. reflexivity.
  - rewrite S, prodN_2. apply N.mod_mul. lia.
Qed.

Lemma dump_size m :
  wf_mem m = true -> lenN (dump m) = (prodN (m_shape m) * N.of_nat (isz (m_dtype m)))%N.
Proof.
  intros W. apply wf_mem_spec in W. destruct W as [L _]. unfold dump. rewrite lenN_encode, L. lia.
Qed.

Lemma write_plain cast a m :
  a <> AMatches -> a <> ADepth -> write_api cast a m = Written (dump m).
Proof. destruct a; intros; try congruence; reflexivity. Qed.

Lemma matches_written cast m bs :
  write_api cast AMatches m = Written bs ->
  m_dtype m = F64 /\ m_big m = false /\ bs = dump m /\ exists r rest, m_shape m = r :: 3%N :: rest.
Proof.
  cbn. unfold matches_gate.
  destruct (dtype_eqb (m_dtype m) F64) eqn:E; [|discriminate].
  destruct (m_big m); [discriminate|]. cbn.
  destruct (m_shape m) as [|r [|c rest]]; try discriminate.
  destruct (N.eqb_spec c 3); [|discriminate]. intros [= <-]. subst c.
  apply dtype_eqb_eq in E. repeat split; auto. exists r, rest; reflexivity.
Qed.

Lemma matches_roundtrip cast st m r rd_d rd_dsize rd_w rd_h :
  matches_dt = F64 -> matches_cols = 3%N ->
  wf_mem m = true -> m_dtype m = F64 -> m_big m = false -> m_shape m = [r; 3%N] ->
  write_api cast AMatches m = Written (dump m) /\
  read_api AMatches st rd_d rd_dsize rd_w rd_h (dump m)
  = ROk {| a_dtype := F64; a_rows := r; a_cols := 3%N; a_elems := m_elems m |}.
Proof.
  intros Hd Hc W D B S. split.
  - cbn. unfold matches_gate. rewrite D, B, S. reflexivity.
  - unfold read_api. rewrite Hd, Hc. apply roundtrip_2d; auto. lia. rewrite D; reflexivity.
Qed.

Section Depth.
  Variable cast : dtype -> N -> N.
  Hypothesis cast_range : forall d n, (cast d n < width_bound (isz depth_dt))%N.

  Lemma depth_elems_same m : m_dtype m = depth_dt -> depth_elems cast m = m_elems m.
  Proof. intros E. unfold depth_elems. rewrite E. replace (dtype_eqb depth_dt depth_dt) with true; [reflexivity|].
         symmetry; apply dtype_eqb_eq; reflexivity. Qed.

  Lemma depth_elems_ok m :
    wf_mem m = true -> Forall (fun n => (n < width_bound (isz depth_dt))%N) (depth_elems cast m).
  Proof.
    intros W. apply wf_mem_spec in W. destruct W as [_ Ok]. unfold depth_elems.
    destruct (dtype_eqb (m_dtype m) depth_dt) eqn:E.
    - apply dtype_eqb_eq in E. rewrite <- E. exact Ok.
    - apply Forall_forall. intros x Hx. apply in_map_iff in Hx. destruct Hx as [y [<- _]]. apply cast_range.
  Qed.

  Lemma depth_elems_length m : List.length (depth_elems cast m) = List.length (m_elems m).
  Proof. unfold depth_elems. destruct (dtype_eqb _ _); [reflexivity | apply map_length]. Qed.

  Lemma depth_roundtrip m h w rd_d rd_dsize :
    wf_mem m = true -> m_shape m = [h; w] -> (0 < h)%N -> (0 < w)%N ->
    exists bs, write_api cast ADepth m = Written bs /\
      lenN bs = (h * w * N.of_nat (isz depth_dt))%N /\
      read_api ADepth SFile rd_d rd_dsize (Z.of_N w) (Z.of_N h) bs
      = ROk {| a_dtype := depth_dt; a_rows := h; a_cols := w; a_elems := depth_elems cast m |}.
  Proof.
    intros W S Hh Hw. exists (encode depth_dt (depth_elems cast m)).
    pose proof (depth_elems_ok m W) as Ok.
    assert (L : lenN (depth_elems cast m) = (h * w)%N).
    { unfold lenN. rewrite depth_elems_length. apply wf_mem_spec in W. destruct W as [L _].
      unfold lenN in L. rewrite L, S, prodN_2. reflexivity. }
    split; [reflexivity|]. split; [rewrite lenN_encode, L; lia|].
    cbn [read_api]. unfold depth_read. rewrite <- N2Z.inj_mul.
    rewrite (read_encode SFile depth_dt depth_dt); auto; try lia.
    - cbn [a_rows a_elems]. rewrite L.
      replace (h * w)%N with (w * h)%N by lia. rewrite N.div_same by lia.
      replace (0 <? Z.of_N w)%Z with true by (symmetry; apply Z.ltb_lt; lia).
      replace (0 <? Z.of_N h)%Z with true by (symmetry; apply Z.ltb_lt; lia).
      cbn. rewrite !N2Z.id. reflexivity.
    - rewrite L. replace (h * w)%N with (w * h)%N by lia. apply N.mod_same. lia.
  Qed.
End Depth.

(* the repaired dump ignores the in-memory byte order and layout *)
Lemma dump_memory_independent m big lay :
  dump {| m_dtype := m_dtype m; m_shape := m_shape m; m_elems := m_elems m; m_big := big; m_layout := lay |}
  = dump m.
Proof. reflexivity. Qed.

(* ================================================================== 3. paths *)
Local Open Scope string_scope.

Lemma sapp_assoc (a b c : string) : (a ++ b) ++ c = a ++ (b ++ c).
Proof. induction a as [|x a IH]; cbn; [reflexivity | rewrite IH; reflexivity]. Qed.

Lemma sapp_nil_r (a : string) : a ++ "" = a.
Proof. induction a as [|x a IH]; cbn; [reflexivity | rewrite IH; reflexivity]. Qed.

Lemma slength_app (a b : string) : String.length (a ++ b) = (String.length a + String.length b)%nat.
Proof. induction a as [|x a IH]; cbn; [reflexivity | rewrite IH; reflexivity]. Qed.

Lemma sapp_inv_head (p x y : string) : p ++ x = p ++ y -> x = y.
Proof. induction p as [|c p IH]; cbn; [auto | intros [= E]; auto]. Qed.

Lemma sapp_inv_tail (e x y : string) : x ++ e = y ++ e -> x = y.
Proof.
  revert y; induction x as [|c x IH]; intros [|c' y] E; cbn in E.
  - reflexivity.
  - apply (f_equal String.length) in E. cbn in E. rewrite slength_app in E. lia.
  - apply (f_equal String.length) in E. cbn in E. rewrite slength_app in E. lia.
  - injection E as -> E. f_equal. apply IH; assumption.
Qed.

Lemma slash_app (a b : string) : a ++ "/" ++ b = a ++ String slash b.
Proof. reflexivity. Qed.

(* ---- split / join *)
Lemma split_slash_cons a s :
  split_slash (String a s) =
  if Ascii.eqb a slash then "" :: split_slash s
  else String a (hd "" (split_slash s)) :: tl (split_slash s).
Proof. unfold split_slash. cbn [split1]. destruct (split1 s) as [h t]. destruct (Ascii.eqb a slash); reflexivity. Qed.

Lemma split_slash_hd_tl s : split_slash s = hd "" (split_slash s) :: tl (split_slash s).
Proof. unfold split_slash. destruct (split1 s); reflexivity. Qed.

Lemma split_slash_nonempty s : split_slash s <> [].
Proof. rewrite split_slash_hd_tl. discriminate. Qed.

Lemma split_slash_nil : split_slash "" = [""].
Proof. reflexivity. Qed.

Lemma join_slash_cons2 x y l : join_slash (x :: y :: l) = x ++ "/" ++ join_slash (y :: l).
Proof. reflexivity. Qed.

Lemma join_split s : join_slash (split_slash s) = s.
Proof.
  induction s as [|a s IH]; [reflexivity|].
  rewrite split_slash_cons. rewrite (split_slash_hd_tl s) in IH |- *. cbn [hd tl].
  destruct (Ascii.eqb_spec a slash) as [->|N].
  - rewrite join_slash_cons2, IH. reflexivity.
  - destruct (tl (split_slash s)) as [|x t].
    + cbn in IH |- *. rewrite IH. reflexivity.
    + rewrite join_slash_cons2. rewrite join_slash_cons2 in IH. cbn. f_equal. exact IH.
Qed.

Lemma split_noslash e : no_slashb e = true -> split_slash e = [e].
Proof.
  induction e as [|a e IH]; [reflexivity|]. cbn [no_slashb]. rewrite andb_true_iff, negb_true_iff.
  intros [Na Ne]. rewrite split_slash_cons, Na, (IH Ne). reflexivity.
Qed.

Lemma split_comps_noslash s : forallb no_slashb (split_slash s) = true.
Proof.
  induction s as [|a s IH]; [reflexivity|].
  rewrite split_slash_cons. rewrite (split_slash_hd_tl s) in IH. cbn [forallb] in IH.
  apply andb_true_iff in IH. destruct IH as [H1 H2].
  destruct (Ascii.eqb a slash) eqn:E.
  - rewrite (split_slash_hd_tl s). cbn [forallb no_slashb]. rewrite H1, H2. reflexivity.
  - cbn [forallb no_slashb]. rewrite E, H1, H2. reflexivity.
Qed.

Lemma split_app_slash a b : split_slash (a ++ String slash b) = (split_slash a ++ split_slash b)%list.
Proof.
  induction a as [|c a IH].
  - cbn [append]. rewrite split_slash_cons. rewrite Ascii.eqb_refl. reflexivity.
  - cbn [append]. rewrite !split_slash_cons, IH. destruct (Ascii.eqb c slash); [reflexivity|].
    rewrite (split_slash_hd_tl a). reflexivity.
Qed.

Lemma no_slashb_app a b : no_slashb (a ++ b) = no_slashb a && no_slashb b.
Proof. induction a as [|c a IH]; cbn; [reflexivity | rewrite IH, andb_assoc; reflexivity]. Qed.

Lemma no_bsb_app a b : no_bsb (a ++ b) = no_bsb a && no_bsb b.
Proof. induction a as [|c a IH]; cbn; [reflexivity | rewrite IH, andb_assoc; reflexivity]. Qed.

Lemma split_join cs : cs <> [] -> forallb no_slashb cs = true -> split_slash (join_slash cs) = cs.
Proof.
  induction cs as [|x cs IH]; [congruence|]. intros _ H. cbn [forallb] in H. apply andb_true_iff in H.
  destruct H as [Hx Hcs]. destruct cs as [|y cs].
  - cbn. apply split_noslash; assumption.
  - rewrite join_slash_cons2, slash_app, split_app_slash, split_noslash by assumption.
    rewrite IH by (auto; discriminate). reflexivity.
Qed.

Lemma join_snoc_ext i l e : join_slash (i ++ [l])%list ++ e = join_slash (i ++ [(l ++ e)%string])%list.
Proof.
  induction i as [|x i IH]; [reflexivity|].
  cbn [app]. destruct i as [|y i].
  - cbn. rewrite sapp_assoc. reflexivity.
  - cbn [app] in *. rewrite !join_slash_cons2. rewrite sapp_assoc. cbn [append]. rewrite <- IH. reflexivity.
Qed.

Lemma split_app_ext s e :
  no_slashb e = true ->
  split_slash (s ++ e) = (removelast (split_slash s) ++ [(last (split_slash s) "" ++ e)%string])%list.
Proof.
  intros He. pose proof (split_comps_noslash s) as Hn.
  pose proof (app_removelast_last "" (split_slash_nonempty s)) as D.
  set (i := removelast (split_slash s)) in *. set (l := last (split_slash s) "") in *.
  rewrite <- (join_split s) at 1. rewrite D, join_snoc_ext.
  rewrite D, forallb_app in Hn. cbn [forallb] in Hn. rewrite !andb_true_iff in Hn. destruct Hn as [Hi [Hl _]].
  apply split_join.
  - destruct i; discriminate.
  - rewrite forallb_app. cbn [forallb]. rewrite Hi, no_slashb_app, Hl, He. reflexivity.
Qed.

(* ---- normalised names *)
Lemma comp_ok_spec c : comp_ok c = true -> c <> "" /\ c <> "." /\ c <> "..".
Proof.
  unfold comp_ok. rewrite !andb_true_iff, !negb_true_iff, !String.eqb_neq. tauto.
Qed.

Lemma comp_ok_long c : (3 <= String.length c)%nat -> comp_ok c = true.
Proof.
  destruct c as [|a [|b [|d r]]]; cbn [String.length]; try lia. intros _.
  unfold comp_ok. cbn. destruct (Ascii.eqb a "."), (Ascii.eqb b "."); reflexivity.
Qed.

Lemma good_rel_inv s : good_rel s = true -> forallb comp_ok (split_slash s) = true /\ no_bsb s = true.
Proof. unfold good_rel. apply andb_true_iff. Qed.

Lemma good_rel_head s : good_rel s = true -> exists a r, s = String a r /\ Ascii.eqb a slash = false.
Proof.
  intros G. apply good_rel_inv in G. destruct G as [G _]. destruct s as [|a r]; [discriminate|].
  exists a, r. split; [reflexivity|]. rewrite split_slash_cons in G.
  destruct (Ascii.eqb a slash); [discriminate | reflexivity].
Qed.

Lemma good_rel_join a b : good_rel a = true -> good_rel b = true -> good_rel (a ++ "/" ++ b) = true.
Proof.
  intros Ga Gb. apply good_rel_inv in Ga, Gb. destruct Ga as [A1 A2], Gb as [B1 B2].
  unfold good_rel. rewrite slash_app, split_app_slash, forallb_app, A1, B1.
  rewrite <- slash_app, !no_bsb_app, A2, B2. reflexivity.
Qed.

Lemma good_ext_inv e : good_ext e = true -> no_slashb e = true /\ no_bsb e = true /\ (2 <= String.length e)%nat.
Proof. unfold good_ext. rewrite !andb_true_iff, Nat.leb_le. tauto. Qed.

Lemma good_rel_ext a e : good_rel a = true -> good_ext e = true -> good_rel (a ++ e) = true.
Proof.
  intros Ga Ge. apply good_rel_inv in Ga. destruct Ga as [A1 A2].
  apply good_ext_inv in Ge. destruct Ge as [E1 [E2 E3]].
  unfold good_rel. rewrite split_app_ext by assumption. rewrite no_bsb_app, A2, E2.
  rewrite (app_removelast_last "" (split_slash_nonempty a)), forallb_app in A1.
  apply andb_true_iff in A1. destruct A1 as [Hi Hl]. cbn [forallb] in Hl. rewrite andb_true_r in Hl.
  rewrite forallb_app, Hi. cbn [forallb]. rewrite comp_ok_long; [reflexivity|].
  apply comp_ok_spec in Hl. destruct Hl as [Hl _]. rewrite slength_app.
  destruct (last (split_slash a) ""); [congruence | cbn; lia].
Qed.

Lemma norm_step_good absolute acc c : comp_ok c = true -> norm_step absolute acc c = c :: acc.
Proof.
  intros H. apply comp_ok_spec in H. destruct H as [H1 [H2 H3]]. unfold norm_step.
  apply String.eqb_neq in H1, H2, H3. rewrite H1, H2, H3. reflexivity.
Qed.

Lemma fold_norm_good absolute cs acc :
  forallb comp_ok cs = true -> fold_left (norm_step absolute) cs acc = (rev cs ++ acc)%list.
Proof.
  revert acc; induction cs as [|c cs IH]; intros acc H; [reflexivity|].
  cbn [forallb] in H. apply andb_true_iff in H. destruct H as [Hc Hcs].
  cbn [fold_left rev]. rewrite norm_step_good, IH by assumption. rewrite <- app_assoc. reflexivity.
Qed.

Lemma ascii_eqb_sym a b : Ascii.eqb a b = Ascii.eqb b a.
Proof. destruct (Ascii.eqb_spec a b) as [->|N]; [symmetry; apply Ascii.eqb_refl|]. destruct (Ascii.eqb_spec b a); congruence. Qed.

Lemma prefixb_slash a r : prefixb "/" (String a r) = Ascii.eqb a slash.
Proof.
  change (prefixb "/" (String a r)) with (Ascii.eqb slash a && true). rewrite andb_true_r. apply ascii_eqb_sym.
Qed.

Lemma prefixb_slash2 a r : prefixb "//" (String slash (String a r)) = Ascii.eqb a slash.
Proof.
  change (prefixb "//" (String slash (String a r))) with (Ascii.eqb slash slash && (Ascii.eqb slash a && true)).
  rewrite Ascii.eqb_refl, andb_true_r. apply ascii_eqb_sym.
Qed.

Lemma normpath_good_rel s : good_rel s = true -> normpath s = s.
Proof.
  intros G. destruct (good_rel_head s G) as [a [r [-> Na]]]. apply good_rel_inv in G. destruct G as [G _].
  unfold normpath. cbn [String.eqb].
  assert (P : prefixb "/" (String a r) = false) by (rewrite prefixb_slash; assumption).
  rewrite P. rewrite fold_norm_good by assumption. rewrite app_nil_r, rev_involutive, join_split.
  reflexivity.
Qed.

Lemma normpath_good_abs s : good_rel s = true -> normpath (String slash s) = String slash s.
Proof.
  intros G. destruct (good_rel_head s G) as [a [r [-> Na]]]. apply good_rel_inv in G. destruct G as [G _].
  unfold normpath. cbn [String.eqb].
  assert (P1 : prefixb "/" (String slash (String a r)) = true) by reflexivity.
  assert (P2 : prefixb "//" (String slash (String a r)) = false) by (rewrite prefixb_slash2; assumption).
  rewrite P1, P2. cbn [andb].
  rewrite split_slash_cons, Ascii.eqb_refl. cbn [fold_left].
  change (norm_step true [] "") with (@nil string).
  rewrite fold_norm_good by assumption. rewrite app_nil_r, rev_involutive, join_split.
  reflexivity.
Qed.

Lemma replace_bs_id s : no_bsb s = true -> replace_bs s = s.
Proof.
  induction s as [|a s IH]; [reflexivity|]. cbn. rewrite andb_true_iff, negb_true_iff.
  intros [Na Ns]. rewrite Na, IH by assumption. reflexivity.
Qed.

Lemma path_secure_good_rel s : good_rel s = true -> path_secure s = s.
Proof.
  intros G. unfold path_secure. rewrite normpath_good_rel by assumption.
  apply replace_bs_id. apply good_rel_inv in G. tauto.
Qed.

Lemma good_root_cases s :
  good_root s = true -> good_rel s = true \/ exists r, s = String slash r /\ good_rel r = true.
Proof.
  destruct s as [|a r]; [discriminate|]. cbn [good_root].
  destruct (Ascii.eqb_spec a slash) as [->|]; [right; exists r; auto | left; assumption].
Qed.

Lemma path_secure_good_root s : good_root s = true -> path_secure s = s.
Proof.
  intros G. destruct (good_root_cases s G) as [R|[r [-> R]]]; [apply path_secure_good_rel; assumption|].
  unfold path_secure. rewrite normpath_good_abs by assumption. cbn [replace_bs].
  rewrite replace_bs_id; [reflexivity|]. apply good_rel_inv in R. tauto.
Qed.

Lemma ends_with_slash_inv s : ends_with_slash s = true -> exists s0, s = s0 ++ "/".
Proof.
  induction s as [|a s IH]; [discriminate|]. destruct s as [|b s].
  - cbn. intros E. apply Ascii.eqb_eq in E. subst a. exists "". reflexivity.
  - intros E. change (ends_with_slash (String b s) = true) in E. destruct (IH E) as [s0 ->].
    exists (String a s0). reflexivity.
Qed.

Lemma good_rel_no_trailing_slash s : good_rel s = true -> ends_with_slash s = false.
Proof.
  intros G. destruct (ends_with_slash s) eqn:E; [|reflexivity].
  destruct (ends_with_slash_inv s E) as [s0 ->]. apply good_rel_inv in G. destruct G as [G _].
  change (s0 ++ "/") with (s0 ++ String slash "") in G.
  rewrite split_app_slash, forallb_app in G. apply andb_true_iff in G. destruct G as [_ G]. discriminate G.
Qed.

Lemma good_root_no_trailing_slash s : good_root s = true -> ends_with_slash s = false.
Proof.
  intros G. destruct (good_root_cases s G) as [R|[r [-> R]]]; [apply good_rel_no_trailing_slash; assumption|].
  destruct (good_rel_head r R) as [a [r' [-> _]]].
  change (ends_with_slash (String a r') = false). apply good_rel_no_trailing_slash; assumption.
Qed.

Lemma good_rel_not_abs b : good_rel b = true -> prefixb "/" b = false.
Proof.
  intros G. destruct (good_rel_head b G) as [a [r [-> Na]]]. rewrite prefixb_slash. assumption.
Qed.

Lemma join2_good p b :
  good_root p = true -> good_rel b = true ->
  join2 p b = p ++ "/" ++ b /\ good_root (p ++ "/" ++ b) = true.
Proof.
  intros Gp Gb. split.
  - unfold join2. rewrite good_rel_not_abs by assumption. rewrite good_root_no_trailing_slash by assumption.
    destruct p; [discriminate Gp | reflexivity].
  - destruct (good_root_cases p Gp) as [R|[r [-> R]]].
    + destruct (good_rel_head p R) as [a [r [-> Na]]]. cbn [append good_root]. rewrite Na.
      apply (good_rel_join (String a r) b); assumption.
    + cbn [append good_root]. rewrite Ascii.eqb_refl. apply good_rel_join; assumption.
Qed.

Lemma join2_good_rel p b :
  good_rel p = true -> good_rel b = true -> join2 p b = p ++ "/" ++ b.
Proof.
  intros Gp Gb. unfold join2. rewrite good_rel_not_abs by assumption.
  rewrite good_rel_no_trailing_slash by assumption.
  destruct (good_rel_head p Gp) as [a [r [-> _]]]. reflexivity.
Qed.

(* ---- closed forms of the path functions on normalised names *)
Lemma feature_file_good name ext : good_rel name = true -> feature_file name ext = name ++ ext.
Proof. intros G. destruct (good_rel_head name G) as [a [r [-> _]]]. reflexivity. Qed.

Lemma feature_path_gen_spec dir ext root ftype name :
  good_rel dir = true -> good_ext ext = true ->
  good_root root = true -> good_rel ftype = true -> good_rel name = true ->
  feature_path_gen dir ext root ftype name = root ++ "/" ++ dir ++ "/" ++ ftype ++ "/" ++ name ++ ext.
Proof.
  intros Gd Ge Gr Gt Gn. unfold feature_path_gen, pjoin. cbn [fold_left].
  rewrite feature_file_good by assumption.
  destruct (join2_good root dir Gr Gd) as [-> G1].
  destruct (join2_good _ ftype G1 Gt) as [-> G2].
  destruct (join2_good _ (name ++ ext) G2 (good_rel_ext _ _ Gn Ge)) as [-> G3].
  rewrite path_secure_good_root by assumption.
  rewrite ?sapp_assoc. cbn [append]. rewrite ?sapp_assoc. reflexivity.
Qed.

Lemma tar_member_gen_spec ext name :
  good_ext ext = true -> good_rel name = true -> tar_member_gen ext name = name ++ ext.
Proof. intros Ge Gn. unfold tar_member_gen. apply path_secure_good_rel, good_rel_ext; assumption. Qed.

Lemma matches_file_gen_spec sep a b :
  good_ext sep = true -> good_rel a = true -> good_rel b = true ->
  matches_file_gen sep a b = a ++ sep ++ "/" ++ b /\ good_rel (a ++ sep ++ "/" ++ b) = true.
Proof.
  intros Gs Ga Gb. unfold matches_file_gen.
  pose proof (good_rel_ext a sep Ga Gs) as G1.
  rewrite join2_good_rel by assumption.
  pose proof (good_rel_join _ _ G1 Gb) as G2.
  rewrite path_secure_good_rel by assumption. rewrite sapp_assoc in *. split; [reflexivity | assumption].
Qed.

Lemma record_path_gen_spec rdir root name :
  good_rel rdir = true -> good_root root = true -> good_rel name = true ->
  record_path_gen rdir root name = root ++ "/" ++ rdir ++ "/" ++ name.
Proof.
  intros Gd Gr Gn. unfold record_path_gen, pjoin. cbn [fold_left].
  destruct (join2_good root rdir Gr Gd) as [-> G1].
  destruct (join2_good _ name G1 Gn) as [-> G2].
  rewrite path_secure_good_root by assumption.
  rewrite ?sapp_assoc. cbn [append]. rewrite ?sapp_assoc. reflexivity.
Qed.

(* ---- injectivity *)
Lemma first_slash_unique f f' x x' :
  no_slashb f = true -> no_slashb f' = true -> f ++ "/" ++ x = f' ++ "/" ++ x' -> f = f' /\ x = x'.
Proof.
  revert f'; induction f as [|c f IH]; intros [|c' f'] Hf Hf' E; cbn in E.
  - injection E as E. auto.
  - injection E as <- _. cbn in Hf'. discriminate.
  - injection E as -> _. cbn in Hf. discriminate.
  - injection E as -> E. cbn in Hf, Hf'. apply andb_true_iff in Hf, Hf'.
    destruct (IH f' (proj2 Hf) (proj2 Hf') E) as [-> ->]. auto.
Qed.

Lemma prefix_comparable p q x y : p ++ x = q ++ y -> prefixb p q = true \/ prefixb q p = true.
Proof.
  revert q; induction p as [|c p IH]; intros [|c' q] E; cbn; auto.
  cbn in E. injection E as -> E. rewrite Ascii.eqb_refl. cbn. apply IH; assumption.
Qed.

(* unique decomposition of a list at its first element satisfying P *)
Lemma first_P_unique {A} (P : A -> bool) l1 x r1 l2 y r2 :
  forallb (fun a => negb (P a)) l1 = true -> forallb (fun a => negb (P a)) l2 = true ->
  P x = true -> P y = true ->
  (l1 ++ x :: r1 = l2 ++ y :: r2)%list -> l1 = l2 /\ x = y /\ r1 = r2.
Proof.
  revert l2; induction l1 as [|a l1 IH]; intros [|b l2] H1 H2 Px Py E; cbn in E.
  - injection E as -> ->. auto.
  - injection E as -> _. cbn in H2. rewrite Px in H2. discriminate.
  - injection E as -> _. cbn in H1. rewrite Py in H1. discriminate.
  - injection E as -> E. cbn in H1, H2. apply andb_true_iff in H1, H2.
    destruct (IH l2 (proj2 H1) (proj2 H2) Px Py E) as [-> [-> ->]]. auto.
Qed.

Lemma suffixb_app y e : suffixb e (y ++ e) = true.
Proof.
  induction y as [|c y IH]; cbn.
  - destruct e; cbn; [reflexivity|]. rewrite Ascii.eqb_refl, String.eqb_refl. reflexivity.
  - rewrite IH. apply orb_true_r.
Qed.

Lemma split_slash_inj a b : split_slash a = split_slash b -> a = b.
Proof. intros E. rewrite <- (join_split a), <- (join_split b), E. reflexivity. Qed.

Lemma removelast_last_inj {A} (l l' : list A) d :
  l <> [] -> l' <> [] -> removelast l = removelast l' -> last l d = last l' d -> l = l'.
Proof.
  intros N N' E1 E2. rewrite (app_removelast_last d N), (app_removelast_last d N'), E1, E2. reflexivity.
Qed.

(* the relative name of a matches file determines the pair *)
Lemma matches_rel_inj sep ext a b a' b' :
  no_slashb sep = true -> no_slashb ext = true ->
  dirs_free_of sep a = true -> dirs_free_of sep a' = true ->
  a ++ sep ++ "/" ++ b ++ ext = a' ++ sep ++ "/" ++ b' ++ ext -> a = a' /\ b = b'.
Proof.
  intros Hs He Da Da' E.
  assert (R : forall u v, u ++ sep ++ "/" ++ v ++ ext = (u ++ sep) ++ String slash (v ++ ext))
    by (intros; rewrite sapp_assoc; reflexivity).
  rewrite !R in E. apply (f_equal split_slash) in E. rewrite !split_app_slash in E.
  rewrite !(split_app_ext _ sep Hs), !(split_app_ext _ ext He) in E.
  rewrite <- !app_assoc in E. cbn [app] in E.
  apply (first_P_unique (suffixb sep)) in E; auto using suffixb_app.
  destruct E as [E1 [E2 E3]].
  apply sapp_inv_tail in E2. apply app_inj_tail in E3. destruct E3 as [E3 E4]. apply sapp_inv_tail in E4.
  split; apply split_slash_inj; eapply removelast_last_inj; eauto using split_slash_nonempty.
Qed.

Lemma feature_path_gen_inj dir ext root ftype ftype' name name' :
  good_rel dir = true -> good_ext ext = true -> good_root root = true ->
  good_rel ftype = true -> good_rel ftype' = true -> no_slashb ftype = true -> no_slashb ftype' = true ->
  good_rel name = true -> good_rel name' = true ->
  feature_path_gen dir ext root ftype name = feature_path_gen dir ext root ftype' name' ->
  ftype = ftype' /\ name = name'.
Proof.
  intros Gd Ge Gr Gt Gt' St St' Gn Gn' E.
  rewrite !feature_path_gen_spec in E by assumption.
  apply sapp_inv_head in E. cbn [append] in E. injection E as E.
  apply sapp_inv_head in E. injection E as E.
  apply (first_slash_unique ftype ftype') in E; auto. destruct E as [-> E].
  apply sapp_inv_tail in E. auto.
Qed.

(* files of two kinds never coincide when neither directory is a prefix of the other *)
Lemma feature_path_gen_disjoint dir dir' ext ext' root ftype ftype' name name' :
  good_rel dir = true -> good_ext ext = true -> good_rel dir' = true -> good_ext ext' = true ->
  good_root root = true -> good_rel ftype = true -> good_rel ftype' = true ->
  good_rel name = true -> good_rel name' = true ->
  prefixb (dir ++ "/") (dir' ++ "/") = false -> prefixb (dir' ++ "/") (dir ++ "/") = false ->
  feature_path_gen dir ext root ftype name <> feature_path_gen dir' ext' root ftype' name'.
Proof.
  intros Gd Ge Gd' Ge' Gr Gt Gt' Gn Gn' P1 P2 E.
  rewrite !feature_path_gen_spec in E by assumption.
  apply sapp_inv_head in E. cbn [append] in E. injection E as E.
  rewrite <- !slash_app, <- !(sapp_assoc _ "/") in E.
  apply prefix_comparable in E. destruct E; congruence.
Qed.

Lemma record_path_gen_inj rdir root name name' :
  good_rel rdir = true -> good_root root = true -> good_rel name = true -> good_rel name' = true ->
  record_path_gen rdir root name = record_path_gen rdir root name' -> name = name'.
Proof.
  intros Gd Gr Gn Gn' E. rewrite !record_path_gen_spec in E by assumption.
  apply sapp_inv_head in E. cbn [append] in E. injection E as E.
  apply sapp_inv_head in E. injection E as E. exact E.
Qed.

(* Matches.lexical_order *)
Lemma sleb_antisym a b : sleb a b = true -> sleb b a = true -> a = b.
Proof.
  unfold sleb. intros H1 H2. pose proof (lleb_antisym _ _ H1 H2) as E.
  rewrite <- (of_bytes_bytes_of a), <- (of_bytes_bytes_of b), E. reflexivity.
Qed.

Lemma lexical_order_sym a b : lexical_order a b = lexical_order b a.
Proof.
  unfold lexical_order, sltb.
  destruct (sleb b a) eqn:E1, (sleb a b) eqn:E2; cbn; try reflexivity.
  - rewrite (sleb_antisym a b E2 E1). reflexivity.
  - unfold sleb in *. destruct (lleb_total (bytes_of a) (bytes_of b)); congruence.
Qed.

Lemma lexical_order_sorted a b :
  sleb (fst (lexical_order a b)) (snd (lexical_order a b)) = true /\
  (lexical_order a b = (a, b) \/ lexical_order a b = (b, a)).
Proof.
  unfold lexical_order, sltb. destruct (sleb b a) eqn:E; cbn; [auto|].
  split; [|auto]. unfold sleb in *. destruct (lleb_total (bytes_of a) (bytes_of b)); congruence.
Qed.

(* ================================================================== 4. several writes; listing; store *)
Lemma run_seq_pure step (f : api -> mem -> wres) l m :
  (forall a m0, step a m0 = (f a m0, m0)) -> run_seq step l m = (map (fun a => f a m) l, m).
Proof.
  intros H. induction l as [|a l IH]; [reflexivity|]. cbn [run_seq map]. rewrite H, IH. reflexivity.
Qed.

Lemma write_seq_spec cast l m : write_seq cast l m = (map (fun a => write_api cast a m) l, m).
Proof. unfold write_seq. apply run_seq_pure. reflexivity. Qed.

Lemma substring_app_prefix (a b : string) : substring 0 (String.length a) (a ++ b) = a.
Proof.
  induction a as [|c a IH]; cbn.
  - destruct b; reflexivity.
  - rewrite IH. reflexivity.
Qed.

Lemma id_of_member_spec ext name : id_of_member ext (name ++ ext) = Some name.
Proof.
  unfold id_of_member. rewrite suffixb_app, slength_app.
  replace (String.length name + String.length ext - String.length ext)%nat with (String.length name) by lia.
  rewrite substring_app_prefix. reflexivity.
Qed.

Lemma fs_read_same k bs f : fs_read k (fs_write k bs f) = Some bs.
Proof. cbn. rewrite String.eqb_refl. reflexivity. Qed.

Lemma fs_read_other k k' bs f : k <> k' -> fs_read k (fs_write k' bs f) = fs_read k f.
Proof. intros N. cbn. apply String.eqb_neq in N. rewrite N. reflexivity. Qed.
