(* Proofs/PBinaryHist.v — histories of writes on one kapture root (property C03). *)
From Coq Require Import List Bool String Ascii NArith ZArith Lia.
From KV Require Import Eqb Str.
From KV.Gen Require Import Tbinary.
From KV.Model Require Import MBinary.
From KV.Proofs Require Import PBinary.
Import ListNotations.
Local Open Scope list_scope.

Lemma hist_run_app cast st root l1 l2 f :
  hist_run cast st root (l1 ++ l2) f = hist_run cast st root l2 (hist_run cast st root l1 f).
Proof. unfold hist_run. apply fold_left_app. Qed.

Lemma hist_step_read cast st root f s k :
  fs_read k (hist_step cast st root f s)
  = match (if h_write s && String.eqb k (hist_key st root s)
           then match write_api cast (h_api s) (h_mem s) with Written bs => Some bs | _ => None end
           else None) with
    | Some bs => Some bs
    | None => fs_read k f
    end.
Proof.
  unfold hist_step. destruct (h_write s); cbn [andb]; [|reflexivity].
  destruct (write_api cast (h_api s) (h_mem s)) as [bs| |].
  - destruct (String.eqb_spec k (hist_key st root s)) as [->|N].
    + apply fs_read_same.
    + apply fs_read_other. exact N.
  - destruct (String.eqb k (hist_key st root s)); reflexivity.
  - destruct (String.eqb k (hist_key st root s)); reflexivity.
Qed.

(* after ANY history, a destination holds the last array written to it, else what it held before *)
Lemma hist_run_last cast st root steps : forall f k,
  fs_read k (hist_run cast st root steps f)
  = match hist_last cast st root k steps with Some bs => Some bs | None => fs_read k f end.
Proof.
  induction steps as [|s rest IH]; intros f k; [reflexivity|].
  change (hist_run cast st root (s :: rest) f) with (hist_run cast st root rest (hist_step cast st root f s)).
  rewrite IH. unfold hist_last. cbn [hist_last_by].
  destruct (hist_last_by cast (fun s0 => String.eqb k (hist_key st root s0)) rest) as [bs|]; [reflexivity|].
  apply hist_step_read.
Qed.

Lemma hist_last_by_ext cast p q steps :
  (forall s, In s steps -> p s = q s) -> hist_last_by cast p steps = hist_last_by cast q steps.
Proof.
  induction steps as [|s rest IH]; intros H; [reflexivity|]. cbn [hist_last_by].
  rewrite IH by (intros x Hx; apply H; right; exact Hx).
  rewrite (H s) by (left; reflexivity). reflexivity.
Qed.

(* steps that do not write leave the store alone *)
Lemma hist_query_noop cast st root f s : h_write s = false -> hist_step cast st root f s = f.
Proof. intros E. unfold hist_step. rewrite E. reflexivity. Qed.

(* what [hist_last_by] returns was written by a step of the history that satisfies the predicate, and no later
   such step wrote anything *)
Lemma hist_last_by_some cast p steps bs :
  hist_last_by cast p steps = Some bs ->
  exists pre s post, steps = pre ++ s :: post /\ h_write s = true /\ p s = true /\
    write_api cast (h_api s) (h_mem s) = Written bs /\ hist_last_by cast p post = None.
Proof.
  induction steps as [|s rest IH]; intros H; [discriminate H|]. cbn [hist_last_by] in H.
  destruct (hist_last_by cast p rest) as [bs'|] eqn:E.
  - injection H as <-. destruct (IH eq_refl) as [pre [s' [post [-> R]]]].
    exists (s :: pre), s', post. split; [reflexivity | exact R].
  - destruct (h_write s) eqn:W; [|discriminate H]. destruct (p s) eqn:P; [|discriminate H]. cbn [andb] in H.
    destruct (write_api cast (h_api s) (h_mem s)) as [b| |] eqn:Wr; try discriminate H. injection H as <-.
    exists [], s, rest. repeat split; auto.
Qed.
