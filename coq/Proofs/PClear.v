(* Proofs/PClear.v — lemmas about Model/MClear.v (property C19). *)
From Coq Require Import List Bool String Permutation Lia.
From KV Require Import Eqb Str.
From KV.Model Require Import MClear.
From KV.Gen Require Import Tables.
Import ListNotations.
Local Open Scope string_scope.

Lemma sinsert_perm x l : Permutation (sinsert x l) (x :: l).
Proof.
  induction l as [|y l IH]; cbn; [apply Permutation_refl|].
  destruct (sleb x y); [apply Permutation_refl|].
  eapply Permutation_trans; [apply perm_skip, IH | apply perm_swap].
Qed.

Lemma ssort_perm l : Permutation (ssort l) l.
Proof.
  induction l as [|x l IH]; cbn; [constructor|].
  eapply Permutation_trans; [apply sinsert_perm | apply perm_skip, IH].
Qed.

Lemma NoDup_rev_ssort_dedup (l : list string) : NoDup (rev (ssort (dedup l))).
Proof.
  apply (Permutation_NoDup (l := dedup l)); [| apply dedup_NoDup].
  eapply Permutation_trans; [apply Permutation_sym, ssort_perm | apply Permutation_rev].
Qed.

Lemma In_rev_ssort_dedup (l : list string) x : In x (rev (ssort (dedup l))) <-> In x l.
Proof. rewrite <- in_rev, ssort_In, dedup_In; tauto. Qed.

Section ClearProofs.
  Variable csv feat : list (string * string * bool).
  Variable rdata : string.

  Notation tname := MClear.tname.
  Notation tpath := MClear.tpath.
  Notation tfile := MClear.tfile.

  Lemma remove_first_In x r l : NoDup l -> (In x (remove_first r l) <-> x <> r /\ In x l).
  Proof.
    induction l as [|y l IH]; cbn; intros ND; [tauto|].
    inversion ND as [|? ? NI ND']; subst.
    destruct (eqb_spec r y) as [E|N].
    - subst y. split.
      + intros I. split; [intros E; subst x; contradiction | auto].
      + intros [N [E|I]]; [congruence|auto].
    - cbn. rewrite IH by assumption. split.
      + intros [E|[N2 I]]; [subst y; split; [congruence|auto] | auto].
      + intros [N2 [E|I]]; auto.
  Qed.

  Lemma nonempty_false {A} (l : list A) : nonempty l = false <-> l = [].
  Proof. destruct l; cbn; split; congruence. Qed.

  (* Hypotheses about the tables; each is discharged for Gen.Tables by computation in Props/C19.v *)
  Hypothesis names_disjoint : forall e f, In e csv -> In f feat -> tname e <> tname f.
  Hypothesis names_nodup : NoDup (map tname (csv ++ feat)).

  Lemma kept_csv_iff only skip e :
    In e csv -> (memb (tname e) (keep_csv csv feat only skip) = false <-> selected only skip (tname e) = true).
  Proof.
    intros I. unfold keep_csv, selected.
    destruct (nonempty only) eqn:EO; cbv iota.
    - rewrite memb_not_In, filter_In, negb_true_iff, memb_not_In.
      split.
      + intros NK. destruct (memb (tname e) only) eqn:M; [reflexivity|]. exfalso; apply NK.
        split; [apply in_map; assumption | apply memb_not_In; assumption].
      + intros M [_ NI]. apply memb_In in M. contradiction.
    - destruct (nonempty skip) eqn:ES; cbv iota.
      + rewrite memb_not_In, filter_In, !negb_true_iff, !memb_not_In. split.
        * intros NK IS. apply NK. split; [assumption|].
          intros IF. apply in_map_iff in IF. destruct IF as [f [EF IF]].
          apply (names_disjoint e f I IF). congruence.
        * intros NS [IS _]. contradiction.
      + apply nonempty_false in ES; subst skip. cbn. tauto.
  Qed.

  Lemma kept_feat_iff only skip e :
    In e feat -> (memb (tname e) (keep_feat csv feat only skip) = false <-> selected only skip (tname e) = true).
  Proof.
    intros I. unfold keep_feat, selected.
    destruct (nonempty only) eqn:EO; cbv iota.
    - rewrite memb_not_In, filter_In, negb_true_iff, memb_not_In.
      split.
      + intros NK. destruct (memb (tname e) only) eqn:M; [reflexivity|]. exfalso; apply NK.
        split; [apply in_map; assumption | apply memb_not_In; assumption].
      + intros M [_ NI]. apply memb_In in M. contradiction.
    - destruct (nonempty skip) eqn:ES; cbv iota.
      + rewrite memb_not_In, filter_In, !negb_true_iff, !memb_not_In. split.
        * intros NK IS. apply NK. split; [assumption|].
          intros IF. apply in_map_iff in IF. destruct IF as [f [EF IF]].
          apply (names_disjoint f e IF I). congruence.
        * intros NS [IS _]. contradiction.
      + apply nonempty_false in ES; subst skip. cbn. tauto.
  Qed.

  (* candidates: records_data always, plus the path of every selected part *)
  Lemma cand_paths_In only skip p :
    In p (cand_paths csv feat rdata only skip) <->
    p = rdata \/ exists e, In e (csv ++ feat) /\ tpath e = p /\ selected only skip (tname e) = true.
  Proof.
    unfold cand_paths. rewrite !in_app_iff, !in_map_iff. cbn. split.
    - intros [[e [EP I]]|[[e [EP I]]|[E|[]]]]; [right|right|left; congruence].
      + apply filter_In in I. destruct I as [I K]. apply negb_true_iff in K.
        exists e. rewrite in_app_iff. split; [auto|]. split; [assumption|]. apply kept_csv_iff; assumption.
      + apply filter_In in I. destruct I as [I K]. apply negb_true_iff in K.
        exists e. rewrite in_app_iff. split; [auto|]. split; [assumption|]. apply kept_feat_iff; assumption.
    - intros [->|[e [I [EP S]]]]; [auto|]. apply in_app_iff in I. destruct I as [I|I].
      + left. exists e. split; [assumption|]. apply filter_In. split; [assumption|].
        apply negb_true_iff. apply kept_csv_iff; assumption.
      + right; left. exists e. split; [assumption|]. apply filter_In. split; [assumption|].
        apply negb_true_iff. apply kept_feat_iff; assumption.
  Qed.

  Lemma stores_files_in_spec tbl e :
    NoDup (map tname tbl) -> In e tbl -> stores_files_in tbl (tname e) = tfile e.
  Proof.
    induction tbl as [|f tbl IH]; cbn; intros ND I; [tauto|].
    inversion ND as [|? ? NI ND']; subst.
    destruct I as [->|I]; [rewrite eqb_refl; reflexivity|].
    destruct (eqb_spec (tname e) (tname f)) as [E|N]; [|auto].
    exfalso; apply NI. rewrite <- E. apply in_map; assumption.
  Qed.

  Lemma stores_files_in_unknown tbl t : ~ In t (map tname tbl) -> stores_files_in tbl t = false.
  Proof.
    induction tbl as [|f tbl IH]; cbn; intros NI; [reflexivity|].
    destruct (eqb_spec t (tname f)) as [E|N]; [exfalso; apply NI; auto|]. apply IH. tauto.
  Qed.

  (* records_data must be kept iff some part that stores record files is NOT selected *)
  Lemma must_keep_spec only skip :
    must_keep_rdata csv feat only skip = true <->
    exists e, In e (csv ++ feat) /\ tfile e = true /\ selected only skip (tname e) = false.
  Proof.
    unfold must_keep_rdata. rewrite existsb_exists. split.
    - intros [t [I S]]. unfold stores_files in S.
      destruct (in_dec string_dec t (map tname (csv ++ feat))) as [IT|NT];
        [|rewrite stores_files_in_unknown in S by assumption; discriminate].
      apply in_map_iff in IT. destruct IT as [e [<- IE]].
      rewrite stores_files_in_spec in S by assumption.
      exists e. split; [assumption|]. split; [assumption|].
      apply in_app_iff in I. apply in_app_iff in IE.
      destruct (selected only skip (tname e)) eqn:SEL; [|reflexivity]. exfalso.
      destruct IE as [IE|IE].
      + destruct I as [I|I].
        * apply memb_In in I. apply kept_csv_iff in SEL; [congruence|assumption].
        * (* a csv type name cannot be in keep_feat *)
          unfold keep_feat, selected in *. destruct (nonempty only).
          -- apply filter_In in I. destruct I as [I _]. apply in_map_iff in I. destruct I as [f [EF IF]].
             apply (names_disjoint e f IE IF). congruence.
          -- destruct (nonempty skip); [|destruct I].
             apply filter_In in I. destruct I as [IS _]. apply negb_true_iff, memb_not_In in SEL. contradiction.
      + destruct I as [I|I].
        * unfold keep_csv, selected in *. destruct (nonempty only).
          -- apply filter_In in I. destruct I as [I _]. apply in_map_iff in I. destruct I as [f [EF IF]].
             apply (names_disjoint f e IF IE). congruence.
          -- destruct (nonempty skip); [|destruct I].
             apply filter_In in I. destruct I as [IS _]. apply negb_true_iff, memb_not_In in SEL. contradiction.
        * apply memb_In in I. apply kept_feat_iff in SEL; [congruence|assumption].
    - intros [e [IE [F SEL]]]. exists (tname e). split.
      + apply in_app_iff. apply in_app_iff in IE. destruct IE as [IE|IE]; [left|right]; apply memb_In.
        * destruct (memb (tname e) (keep_csv csv feat only skip)) eqn:M; [reflexivity|].
          apply kept_csv_iff in M; [congruence|assumption].
        * destruct (memb (tname e) (keep_feat csv feat only skip)) eqn:M; [reflexivity|].
          apply kept_feat_iff in M; [congruence|assumption].
      + unfold stores_files. rewrite stores_files_in_spec; assumption.
  Qed.

  Definition deleted (o : outcome) : list string :=
    match o with Done acts => map fst acts | _ => [] end.

  Lemma existing_paths_In only skip st p :
    In p (existing_paths csv feat rdata only skip st) <->
    exists_at st p = true /\ In p (cand_paths csv feat rdata only skip) /\
    (p = rdata -> must_keep_rdata csv feat only skip = false).
  Proof.
    unfold existing_paths.
    set (ex := rev (ssort (dedup (List.filter (exists_at st) (cand_paths csv feat rdata only skip))))).
    assert (EX : forall q, In q ex <-> exists_at st q = true /\ In q (cand_paths csv feat rdata only skip)).
    { intro q. unfold ex. rewrite In_rev_ssort_dedup, filter_In. tauto. }
    assert (ND : NoDup ex) by apply NoDup_rev_ssort_dedup.
    destruct (must_keep_rdata csv feat only skip) eqn:MK.
    - destruct (nonempty ex) eqn:NE; cbn.
      + rewrite remove_first_In by assumption. rewrite EX. split.
        * intros [N [E C]]. split; [assumption|]. split; [assumption|]. intros; contradiction.
        * intros [E [C K]]. split; [|auto]. intros ->. specialize (K eq_refl). discriminate.
      + apply nonempty_false in NE. rewrite NE in *. split; [intros []|].
        intros [E [C K]]. apply (EX p). auto.
    - rewrite andb_false_r. rewrite EX. split; [intros [E C]; auto | intros [E [C _]]; auto].
  Qed.

  (* ---- the statements lifted to Props/C19.v *)

  Lemma no_consent_no_change only skip st :
    deleted (clear csv feat rdata only skip st false) = [].
  Proof. unfold clear. destruct (nonempty _); reflexivity. Qed.

  Lemma always_succeeds only skip st :
    exists acts, clear csv feat rdata only skip st true = Done acts.
  Proof. unfold clear. destruct (nonempty _); eexists; reflexivity. Qed.

  Lemma deleted_clear only skip st :
    deleted (clear csv feat rdata only skip st true) = existing_paths csv feat rdata only skip st.
  Proof.
    unfold clear. destruct (nonempty _) eqn:NE; cbn.
    - rewrite map_map. cbn. apply map_id.
    - apply nonempty_false in NE. rewrite NE; reflexivity.
  Qed.

  Lemma deletes_exactly only skip st p :
    In p (deleted (clear csv feat rdata only skip st true)) <->
    exists_at st p = true /\
    ((p = rdata /\ ~ (exists e, In e (csv ++ feat) /\ tfile e = true /\ selected only skip (tname e) = false))
     \/ (p <> rdata /\ exists e, In e (csv ++ feat) /\ tpath e = p /\ selected only skip (tname e) = true)).
  Proof.
    rewrite deleted_clear, existing_paths_In, cand_paths_In, <- must_keep_spec.
    destruct (eqb_spec p rdata) as [->|N].
    - split.
      + intros [E [_ K]]. split; [assumption|]. left. split; [reflexivity|]. rewrite K by reflexivity. discriminate.
      + intros [E [[_ K]|[K _]]]; [|congruence]. split; [assumption|]. split; [auto|].
        intros _. destruct (must_keep_rdata csv feat only skip); [exfalso; apply K; reflexivity | reflexivity].
    - split.
      + intros [E [[->|C] _]]; [congruence|]. split; [assumption|]. right. auto.
      + intros [E [[-> _]|[_ C]]]; [congruence|]. split; [assumption|]. split; [auto|]. intros; congruence.
  Qed.

  Lemma actions_by_kind only skip st p a :
    In (p, a) (match clear csv feat rdata only skip st true with Done acts => acts | _ => [] end) ->
    a = act_for st p.
  Proof.
    unfold clear. destruct (nonempty _); cbn; [|tauto].
    rewrite in_map_iff. intros [q [[= -> <-] _]]. reflexivity.
  Qed.

  Lemma no_path_twice only skip st :
    NoDup (deleted (clear csv feat rdata only skip st true)).
  Proof.
    rewrite deleted_clear. unfold existing_paths.
    set (ex := rev (ssort (dedup _))). assert (ND : NoDup ex) by apply NoDup_rev_ssort_dedup.
    destruct (nonempty ex && must_keep_rdata csv feat only skip); [|assumption].
    clear -ND. induction ex as [|y l IH]; cbn; [constructor|].
    inversion ND as [|? ? NI ND']; subst. destruct (eqb rdata y); [assumption|].
    constructor; [|auto]. intros I. apply NI.
    clear -I. induction l as [|z l IH]; cbn in *; [tauto|]. destruct (eqb rdata z); [auto|].
    destruct I; auto.
  Qed.

  (* ---- the directory after a call, sessions of calls *)

  Lemma kind_of_filter (g : string -> bool) st p :
    kind_of (List.filter (fun e => g (fst e)) st) p = if g p then kind_of st p else Absent.
  Proof.
    induction st as [|[q k] st IH]; cbn.
    - destruct (g p); reflexivity.
    - destruct (g q) eqn:G; cbn; destruct (eqb_spec p q) as [->|N].
      + rewrite G. reflexivity.
      + apply IH.
      + rewrite IH, G. reflexivity.
      + apply IH.
  Qed.

  Lemma kind_of_after st o p :
    kind_of (after st o) p = if memb p (deleted o) then Absent else kind_of st p.
  Proof.
    destruct o as [acts| |]; cbn; try reflexivity.
    rewrite (kind_of_filter (fun q => negb (memb q (map fst acts)))).
    destruct (memb p (map fst acts)); reflexivity.
  Qed.

  Lemma filter_all_true {A} (f : A -> bool) l : (forall x, f x = true) -> List.filter f l = l.
  Proof. intros H. induction l as [|x l IH]; cbn; [reflexivity|]. rewrite H, IH. reflexivity. Qed.

  (* a refused (or needless) call leaves the directory exactly as it was *)
  Lemma no_consent_state_unchanged only skip st :
    after st (clear csv feat rdata only skip st false) = st.
  Proof.
    unfold clear. destruct (nonempty _); cbn; [reflexivity|].
    apply filter_all_true. reflexivity.
  Qed.

  Lemma nil_iff_no_member {A} (l : list A) : (forall x, ~ In x l) -> l = [].
  Proof. destruct l as [|x l]; [reflexivity|]. intros H. exfalso. apply (H x). left; reflexivity. Qed.

  Lemma nonempty_true_iff {A} (l : list A) : nonempty l = true <-> exists x, In x l.
  Proof.
    destruct l as [|x l]; cbn; split; try discriminate.
    - intros [x []].
    - intros _. exists x. auto.
    - reflexivity.
  Qed.

  (* once a selection has been cleared with consent, the same selection finds nothing: no prompt, no
     refusal, nothing to do - whatever kinds (dangling links included) the entries had *)
  Lemma cleared_nothing_left only skip st :
    existing_paths csv feat rdata only skip (after st (clear csv feat rdata only skip st true)) = [].
  Proof.
    apply nil_iff_no_member. intros p I.
    apply existing_paths_In in I. destruct I as [E [C K]].
    unfold exists_at in E. rewrite kind_of_after in E.
    destruct (memb p (deleted (clear csv feat rdata only skip st true))) eqn:M; [discriminate E|].
    apply memb_not_In in M. apply M. rewrite deleted_clear. apply existing_paths_In.
    split; [exact E|]. split; assumption.
  Qed.

  Lemma cleared_then_quiet only skip st c :
    clear csv feat rdata only skip (after st (clear csv feat rdata only skip st true)) c = Done [] /\
    prompts csv feat rdata only skip (after st (clear csv feat rdata only skip st true)) false = false.
  Proof. unfold clear, prompts. rewrite cleared_nothing_left. split; reflexivity. Qed.

  (* the user is asked exactly when the call is not forced and something would be deleted *)
  Lemma prompts_iff only skip st force :
    prompts csv feat rdata only skip st force = true <->
    force = false /\ exists p, In p (deleted (clear csv feat rdata only skip st true)).
  Proof.
    unfold prompts. rewrite deleted_clear, andb_true_iff, negb_true_iff, nonempty_true_iff. tauto.
  Qed.

  (* the question names exactly what a yes deletes *)
  Lemma announced_is_deleted only skip st :
    announced csv feat rdata only skip st = deleted (clear csv feat rdata only skip st true).
  Proof. symmetry. apply deleted_clear. Qed.

  Definition all_paths : list string := map tpath (csv ++ feat) ++ [rdata].

  Lemma deleted_in_tables only skip st c p :
    In p (deleted (clear csv feat rdata only skip st c)) -> In p all_paths.
  Proof.
    destruct c; [|rewrite no_consent_no_change; intros []].
    rewrite deleted_clear, existing_paths_In, cand_paths_In. intros [_ [[->|[e [I [<- _]]]] _]]; unfold all_paths.
    - apply in_app_iff; right; left; reflexivity.
    - apply in_app_iff; left. apply in_map; assumption.
  Qed.

  (* one call: a path outside the tables keeps its kind; any path keeps its kind or disappears *)
  Lemma call_foreign st0 cur k p :
    ~ In p all_paths ->
    kind_of (after (call_state st0 cur k) (run_call csv feat rdata st0 cur k)) p = kind_of (call_state st0 cur k) p.
  Proof.
    intros NP. rewrite kind_of_after. unfold run_call.
    destruct (memb p (deleted _)) eqn:M; [|reflexivity].
    apply memb_In, deleted_in_tables in M. contradiction.
  Qed.

  Lemma session_foreign ks : forall st0 cur p,
    ~ In p all_paths -> kind_of cur p = kind_of st0 p ->
    kind_of (snd (session csv feat rdata st0 cur ks)) p = kind_of st0 p.
  Proof.
    induction ks as [|k ks IH]; intros st0 cur p NP E; cbn; [exact E|].
    apply IH; [exact NP|]. rewrite call_foreign by exact NP.
    unfold call_state. destruct (k_fresh k); [reflexivity | exact E].
  Qed.

  Lemma session_only_shrinks ks : forall st0 cur p,
    (kind_of cur p = kind_of st0 p \/ kind_of cur p = Absent) ->
    (kind_of (snd (session csv feat rdata st0 cur ks)) p = kind_of st0 p
     \/ kind_of (snd (session csv feat rdata st0 cur ks)) p = Absent).
  Proof.
    induction ks as [|k ks IH]; intros st0 cur p E; cbn; [exact E|].
    apply IH. rewrite kind_of_after. destruct (memb p _); [right; reflexivity|].
    unfold call_state. destruct (k_fresh k); [left; reflexivity | exact E].
  Qed.

  (* what a call does depends on its own arguments and the directory it is given, not on the calls
     made before: the outcome of a call on a fresh directory at the end of ANY history is `clear` *)
  Lemma session_outcomes_app ks : forall st0 cur k,
    fst (session csv feat rdata st0 cur (ks ++ [k])%list) =
    (fst (session csv feat rdata st0 cur ks) ++
     [run_call csv feat rdata st0 (snd (session csv feat rdata st0 cur ks)) k])%list.
  Proof.
    induction ks as [|k0 ks IH]; intros st0 cur k; cbn; [reflexivity|].
    rewrite IH. reflexivity.
  Qed.

  Lemma fresh_call_history_independent ks st0 cur k :
    k_fresh k = true ->
    fst (session csv feat rdata st0 cur (ks ++ [k])%list) =
    (fst (session csv feat rdata st0 cur ks) ++ [clear csv feat rdata (k_only k) (k_skip k) st0 (consent_of k)])%list.
  Proof. intros F. rewrite session_outcomes_app. unfold run_call, call_state. rewrite F. reflexivity. Qed.

  (* refused calls only: the directory at the end of the session is the one it started from *)
  Lemma session_without_consent ks : forall st0 cur,
    Forall (fun k => consent_of k = false /\ k_fresh k = false) ks ->
    snd (session csv feat rdata st0 cur ks) = cur.
  Proof.
    induction ks as [|k ks IH]; intros st0 cur F; cbn; [reflexivity|].
    inversion F as [|? ? [C R] F']; subst. rewrite IH by assumption.
    unfold run_call, call_state. rewrite C, R. apply no_consent_state_unchanged.
  Qed.

  (* a path whose parts no call of the session selects keeps its kind through the whole session *)
  Lemma session_kept_part_survives ks : forall st0 cur p,
    p <> rdata ->
    (forall e, In e (csv ++ feat) -> tpath e = p ->
       Forall (fun k => selected (k_only k) (k_skip k) (tname e) = false) ks) ->
    kind_of cur p = kind_of st0 p ->
    kind_of (snd (session csv feat rdata st0 cur ks)) p = kind_of st0 p.
  Proof.
    induction ks as [|k ks IH]; intros st0 cur p NR H E; cbn; [exact E|].
    apply IH; [exact NR| |].
    - intros e I EP. specialize (H e I EP). inversion H; assumption.
    - rewrite kind_of_after. unfold run_call.
      destruct (memb p (deleted _)) eqn:M.
      + exfalso. apply memb_In in M. destruct (consent_of k).
        * apply deletes_exactly in M. destruct M as [_ [[-> _]|[_ [e [I [EP S]]]]]]; [congruence|].
          specialize (H e I EP). inversion H as [|? ? S' _]; subst. congruence.
        * rewrite no_consent_no_change in M. destruct M.
      + unfold call_state. destruct (k_fresh k); [reflexivity|exact E].
  Qed.

  (* records_data survives a session in which every call keeps some part that stores record files *)
  Lemma session_records_data_survives ks : forall st0 cur,
    Forall (fun k => exists e, In e (csv ++ feat) /\ tfile e = true /\
                               selected (k_only k) (k_skip k) (tname e) = false) ks ->
    kind_of cur rdata = kind_of st0 rdata ->
    kind_of (snd (session csv feat rdata st0 cur ks)) rdata = kind_of st0 rdata.
  Proof.
    induction ks as [|k ks IH]; intros st0 cur H E; cbn; [exact E|].
    inversion H as [|? ? HK H']; subst.
    apply IH; [exact H'|].
    rewrite kind_of_after. unfold run_call.
    destruct (memb rdata (deleted _)) eqn:M.
    - exfalso. apply memb_In in M. destruct (consent_of k).
      + apply deletes_exactly in M. destruct M as [_ [[_ N]|[N _]]]; [apply N; exact HK | congruence].
      + rewrite no_consent_no_change in M. destruct M.
    - unfold call_state. destruct (k_fresh k); [reflexivity|exact E].
  Qed.

  (* the legacy (pre-fix) behaviour did crash: witness in Props/C19.v *)
End ClearProofs.
