(* Proofs/PCodec.v — the generic theorems of the text codec (properties C01, C02):
   cells, rows, the writer as a rendering, table round trip, layout independence of the readers,
   dict insertion (last row wins), sorting.  Everything is proved for an arbitrary float lexer [O : fops]
   satisfying the contracts [fops_ok] below (CPython's repr / float / '%.10f'). *)
From Coq Require Import List Bool String Ascii NArith ZArith Lia Permutation.
From KV Require Import Eqb Str.
From KV.Model Require Import MCodecTxt MCodec.
From KV.Proofs Require Import PCodecTxt.
Import ListNotations.
Local Open Scope list_scope.

(* ------------------------------------------------------------------ the trusted contracts of the float lexer *)
Record fops_ok (O : fops) : Prop := {
  Feqb_eq : forall a b, Feqb O a b = true <-> a = b;
  (* float(repr(x)) == x, bit for bit *)
  read_show : forall f, fin O f = true -> read_float O (show_float O f) = Some f;
  (* repr(x) is a non-empty token without comma, line end, surrounding blanks, leading '#' *)
  show_tok : forall f, fin O f = true -> token (show_float O f) = true /\ starts_hash (show_float O f) = false;
  (* float('') raises *)
  read_empty : read_float O [] = None;
  (* float('%.10f' % x) is what [round10] names; it is finite, and formats to the same text *)
  read10 : forall f, fin O f = true -> read_float O (fmt10 O f) = Some (round10 O f);
  fmt10_tok : forall f, fin O f = true -> token (fmt10 O f) = true /\ starts_hash (fmt10 O f) = false;
  round10_fin : forall f, fin O f = true -> fin O (round10 O f) = true;
  fmt10_idem : forall f, fin O f = true -> fmt10 O (round10 O f) = fmt10 O f;
  (* |float('%.10f' % x) - x| <= 1e-10 *)
  round10_close : forall f, fin O f = true -> close10 O (round10 O f) f = true
}.

(* ------------------------------------------------------------------ generic list lemmas *)
Lemma map2_length {A B C} (f : A -> B -> C) la lb :
  List.length la = List.length lb -> List.length (map2 f la lb) = List.length lb.
Proof.
  revert lb; induction la as [|a la IH]; intros [|b lb]; cbn; try discriminate; auto.
Qed.

Lemma forallb2_length {A B} (f : A -> B -> bool) la lb :
  forallb2 f la lb = true -> List.length la = List.length lb.
Proof.
  revert lb; induction la as [|a la IH]; intros [|b lb]; cbn; try discriminate; auto.
  rewrite andb_true_iff. intros [_ H]. f_equal. apply IH, H.
Qed.

Lemma txt_eqb_eq a b : txt_eqb a b = true <-> a = b.
Proof. unfold txt_eqb. apply eqb_eq. Qed.

Lemma txt_eqb_refl a : txt_eqb a a = true.
Proof. apply txt_eqb_eq; reflexivity. Qed.

Lemma tmem_In x l : tmem x l = true <-> In x l.
Proof.
  unfold tmem. rewrite existsb_exists. split.
  - intros [y [I E]]. apply txt_eqb_eq in E. subst; assumption.
  - intro I. exists x. split; [assumption|apply txt_eqb_refl].
Qed.

Section P.
  Variable O : fops.
  Hypothesis OK : fops_ok O.

  Notation cell := (cell O).
  Notation row := (row O).
  Notation table := (table O).

  (* ---------------------------------------------------------------- equality tests reflect equality *)
  Lemma cell_eqb_eq (a b : cell) : cell_eqb O a b = true <-> a = b.
  Proof.
    destruct a, b; cbn; try (split; [discriminate|congruence]).
    - rewrite txt_eqb_eq. split; congruence.
    - rewrite Z.eqb_eq. split; congruence.
    - rewrite (Feqb_eq O OK). split; congruence.
    - split; reflexivity.
  Qed.

  Lemma row_eqb_eq (a b : row) : row_eqb O a b = true <-> a = b.
  Proof.
    revert b; induction a as [|x a IH]; intros [|y b]; cbn; try (split; [discriminate|congruence]).
    - split; reflexivity.
    - rewrite andb_true_iff, cell_eqb_eq, IH. split; [intros [-> ->]; reflexivity | intros [= -> ->]; auto].
  Qed.

  Lemma table_eqb_eq (a b : table) : table_eqb O a b = true <-> a = b.
  Proof.
    revert b; induction a as [|x a IH]; intros [|y b]; cbn; try (split; [discriminate|congruence]).
    - split; reflexivity.
    - rewrite andb_true_iff, row_eqb_eq, IH. split; [intros [-> ->]; reflexivity | intros [= -> ->]; auto].
  Qed.

  Lemma key_eqb_eq k (a b : row) : key_eqb O k a b = true <-> firstn k a = firstn k b.
  Proof. unfold key_eqb. apply row_eqb_eq. Qed.

  (* ---------------------------------------------------------------- cells *)
  Lemma str_ok_clean s : str_ok s = true -> clean s = true /\ starts_hash s = false.
  Proof. unfold str_ok. rewrite !andb_true_iff, negb_true_iff. tauto. Qed.

  Lemma token_nonempty s : token s = true -> s <> [].
  Proof. unfold token. rewrite andb_true_iff. intros [_ H] ->. discriminate. Qed.

  Lemma token_clean s : token s = true -> clean s = true.
  Proof. unfold token. rewrite andb_true_iff. tauto. Qed.

  (* A1: reading back what was written gives the canonical cell *)
  Lemma read_show_cell ty (c : cell) : cell_wf O ty c = true ->
    read_cell O ty (show_cell O ty c) = Some (canon_cell O ty c).
  Proof.
    destruct ty, c; cbn; try discriminate; intro H; try reflexivity.
    - rewrite parse_show_int. reflexivity.
    - rewrite (read_show O OK) by exact H. reflexivity.
    - destruct (show_float O f) eqn:E.
      + exfalso. apply (token_nonempty (show_float O f)); [apply (show_tok O OK), H|exact E].
      + rewrite <- E, (read_show O OK) by exact H. reflexivity.
    - rewrite (read_show O OK) by exact H. reflexivity.
    - rewrite (read_empty O OK). reflexivity.
    - rewrite (read10 O OK) by exact H. reflexivity.
    - rewrite andb_true_iff in H. destruct H as [_ H]. destruct (assoc s accepted) as [s'|]; [|discriminate].
      apply txt_eqb_eq in H. subst. reflexivity.
  Qed.

  (* A2: a written cell is a clean field that does not start with '#' *)
  Lemma show_cell_clean ty (c : cell) : cell_wf O ty c = true ->
    clean (show_cell O ty c) = true /\ starts_hash (show_cell O ty c) = false.
  Proof.
    assert (HI : forall z, clean (show_int z) = true /\ starts_hash (show_int z) = false).
    { intro z. destruct (show_int_token z) as [T S]. split; [apply token_clean, T|exact S]. }
    assert (HF : forall f, fin O f = true -> clean (show_float O f) = true /\ starts_hash (show_float O f) = false).
    { intros f H. destruct (show_tok O OK f H) as [T S]. split; [apply token_clean, T|exact S]. }
    assert (H10 : forall f, fin O f = true -> clean (fmt10 O f) = true /\ starts_hash (fmt10 O f) = false).
    { intros f H. destruct (fmt10_tok O OK f H) as [T S]. split; [apply token_clean, T|exact S]. }
    destruct ty, c; cbn; try discriminate; intro H; auto using str_ok_clean.
    rewrite andb_true_iff in H. apply str_ok_clean. tauto.
  Qed.

  (* A3: canonical cells are well formed and are written like the original *)
  Lemma canon_cell_wf ty (c : cell) : cell_wf O ty c = true -> cell_wf O ty (canon_cell O ty c) = true.
  Proof.
    destruct ty, c; cbn; try discriminate; intro H; auto. apply (round10_fin O OK), H.
  Qed.

  Lemma show_canon_cell ty (c : cell) : cell_wf O ty c = true ->
    show_cell O ty (canon_cell O ty c) = show_cell O ty c.
  Proof.
    destruct ty, c; cbn; try discriminate; intro H; auto. apply (fmt10_idem O OK), H.
  Qed.

  Lemma canon_cell_idem ty (c : cell) : ty <> TF10 -> canon_cell O ty (canon_cell O ty c) = canon_cell O ty c.
  Proof. destruct ty, c; cbn; congruence. Qed.

  (* ---------------------------------------------------------------- rows *)
  Lemma read_cells_show tys (r : row) : forallb2 (cell_wf O) tys r = true ->
    read_cells O tys (map2 (show_cell O) tys r) = Some (map2 (canon_cell O) tys r).
  Proof.
    revert r; induction tys as [|ty tys IH]; intros [|c r]; cbn; try discriminate; [reflexivity|].
    rewrite andb_true_iff. intros [Hc Hr]. rewrite (read_show_cell ty c Hc), (IH r Hr). reflexivity.
  Qed.

  (* more generally: any fields that read back cell by cell *)
  Lemma read_cells_spec tys fs (r : row) :
    Forall2 (fun tf c => read_cell O (fst tf) (snd tf) = Some c) (combine tys fs) r ->
    List.length tys = List.length fs -> read_cells O tys fs = Some r.
  Proof.
    revert fs r; induction tys as [|ty tys IH]; intros [|f fs] r H L; cbn in *; try discriminate.
    - inversion H; reflexivity.
    - inversion H as [|x c l r' Hc Hr]; subst. cbn in Hc. rewrite Hc. rewrite (IH fs r' Hr) by lia. reflexivity.
  Qed.

  Lemma row_wf_inv sch (r : row) : row_wf O sch r = true ->
    List.length (row_types O sch r) = List.length r /\ forallb2 (cell_wf O) (row_types O sch r) r = true.
  Proof. unfold row_wf. rewrite andb_true_iff, Nat.eqb_eq. tauto. Qed.

  Lemma enc_row_length sch (r : row) : row_wf O sch r = true -> List.length (enc_row O sch r) = List.length r.
  Proof. intro H. apply row_wf_inv in H. unfold enc_row. apply map2_length. tauto. Qed.

  Lemma canon_row_length sch (r : row) : row_wf O sch r = true -> List.length (canon_row O sch r) = List.length r.
  Proof. intro H. apply row_wf_inv in H. unfold canon_row. apply map2_length. tauto. Qed.

  (* B1 *)
  Theorem read_enc_row lenient sch (r : row) : row_wf O sch r = true ->
    read_row O lenient sch (enc_row O sch r) = Some (canon_row O sch r).
  Proof.
    intro H. pose proof (enc_row_length sch r H) as L. apply row_wf_inv in H. destruct H as [HL HW].
    unfold read_row. rewrite L. unfold row_types in *. rewrite HL, Nat.eqb_refl.
    unfold enc_row, canon_row, row_types. apply read_cells_show, HW.
  Qed.

  Lemma map2_forall {A B C} (P : C -> Prop) (f : A -> B -> C) (g : A -> B -> bool) la lb :
    (forall a b, g a b = true -> P (f a b)) -> forallb2 g la lb = true -> Forall P (map2 f la lb).
  Proof.
    intro H. revert lb; induction la as [|a la IH]; intros [|b lb]; cbn; try discriminate; try constructor.
    - rewrite andb_true_iff in H0. apply H; tauto.
    - rewrite andb_true_iff in H0. apply IH; tauto.
  Qed.

  (* B2 *)
  Lemma enc_row_clean sch (r : row) : row_wf O sch r = true ->
    Forall (fun f => clean f = true) (enc_row O sch r).
  Proof.
    intro H. apply row_wf_inv in H. destruct H as [_ HW]. unfold enc_row.
    apply (map2_forall _ _ (cell_wf O)); [|exact HW]. intros ty c Hc. apply (show_cell_clean ty c Hc).
  Qed.

  Lemma enc_row_first_nohash sch (r : row) : row_wf O sch r = true ->
    match enc_row O sch r with f :: _ => starts_hash f = false | [] => True end.
  Proof.
    intro H. apply row_wf_inv in H. destruct H as [_ HW]. unfold enc_row.
    destruct (row_types O sch r) as [|ty tys], r as [|c r]; cbn in *; auto.
    rewrite andb_true_iff in HW. apply (show_cell_clean ty c). tauto.
  Qed.

  Lemma forallb2_map2_r {A B} (g : A -> B -> bool) (f : A -> B -> B) la lb :
    (forall a b, g a b = true -> g a (f a b) = true) -> forallb2 g la lb = true -> forallb2 g la (map2 f la lb) = true.
  Proof.
    intro H. revert lb; induction la as [|a la IH]; intros [|b lb]; cbn; try discriminate; auto.
    rewrite !andb_true_iff. intros [H1 H2]. split; [apply H, H1|apply IH, H2].
  Qed.

  Lemma map2_ext2 {A B C} (f g : A -> B -> C) (p : A -> B -> bool) la lb :
    (forall a b, p a b = true -> f a b = g a b) -> forallb2 p la lb = true -> map2 f la lb = map2 g la lb.
  Proof.
    intro H. revert lb; induction la as [|a la IH]; intros [|b lb]; cbn; try discriminate; auto.
    rewrite andb_true_iff. intros [H1 H2]. rewrite (H a b H1), (IH lb H2). reflexivity.
  Qed.

  Lemma map2_map2_r {A B C} (f : A -> B -> C) (g : A -> B -> B) la lb :
    map2 f la (map2 g la lb) = map2 (fun a b => f a (g a b)) la lb.
  Proof. revert lb; induction la as [|a la IH]; intros [|b lb]; cbn; auto. rewrite IH. reflexivity. Qed.

  (* B3 *)
  Lemma canon_row_wf sch (r : row) : row_wf O sch r = true -> row_wf O sch (canon_row O sch r) = true.
  Proof.
    intro H. pose proof (canon_row_length sch r H) as L. apply row_wf_inv in H. destruct H as [HL HW].
    unfold row_wf, row_types in *. rewrite L, HL, Nat.eqb_refl. cbn. unfold canon_row, row_types.
    apply forallb2_map2_r; [|exact HW]. intros ty c. apply canon_cell_wf.
  Qed.

  Lemma enc_canon_row sch (r : row) : row_wf O sch r = true ->
    enc_row O sch (canon_row O sch r) = enc_row O sch r.
  Proof.
    intro H. pose proof (canon_row_length sch r H) as L. apply row_wf_inv in H. destruct H as [HL HW].
    unfold enc_row, row_types in *. rewrite L. unfold canon_row, row_types. rewrite map2_map2_r.
    apply (map2_ext2 _ _ (cell_wf O)); [|exact HW]. intros ty c. apply show_canon_cell.
  Qed.

End P.

(* ==================================================================== the writer emits a rendering *)
(* the layout table_to_file chooses: ', ' between fields, str.rjust padding *)
Fixpoint lay (first : bool) (pad : list nat) (fs : list txt) : list padded :=
  match fs with
  | [] => []
  | f :: fs' =>
      let n := match pad with n :: _ => n | [] => 0 end in
      let pad' := match pad with _ :: p => p | [] => [] end in
      ((if first then [] else [SP]) ++ repeat SP (n - List.length f), f, []) :: lay false pad' fs'
  end.

Lemma lay_fields first pad fs : map padded_field (lay first pad fs) = fs.
Proof. revert first pad; induction fs as [|f fs IH]; intros; cbn; [reflexivity|]. rewrite IH. reflexivity. Qed.

Lemma lay_length first pad fs : List.length (lay first pad fs) = List.length fs.
Proof. rewrite <- (lay_fields first pad fs) at 2. rewrite map_length. reflexivity. Qed.

Lemma join_cons2 sep a b r : join sep (a :: b :: r) = a ++ sep ++ join sep (b :: r).
Proof. reflexivity. Qed.

Lemma join_cons_ne sep a l : l <> [] -> join sep (a :: l) = a ++ sep ++ join sep l.
Proof. destruct l; [congruence|reflexivity]. Qed.

Lemma pad_fields_ne pad fs : fs <> [] -> pad_fields pad fs <> [].
Proof. destruct fs; [congruence|]. intros _. destruct pad; discriminate. Qed.

Lemma render_lay first pad fs : fs <> [] ->
  render_row (lay first pad fs) = (if first then [] else [SP]) ++ join COMMA_SP (pad_fields pad fs).
Proof.
  revert first pad; induction fs as [|f fs IH]; intros first pad NE; [congruence|].
  destruct fs as [|g fs].
  - destruct pad as [|n pad]; cbn -[Nat.sub]; unfold rjust.
    + rewrite Nat.sub_0_l. cbn. rewrite !app_nil_r. reflexivity.
    + rewrite app_nil_r, <- app_assoc. reflexivity.
  - specialize (IH false match pad with _ :: p => p | [] => [] end ltac:(discriminate)).
    unfold render_row in *.
    change (lay first pad (f :: g :: fs)) with (((if first then [] else [SP]) ++ repeat SP (match pad with n :: _ => n | [] => 0 end - List.length f), f, []) :: lay false match pad with _ :: p => p | [] => [] end (g :: fs)).
    remember (lay false match pad with _ :: p => p | [] => [] end (g :: fs)) as L.
    destruct L as [|p L]; [discriminate|].
    cbn [map]. rewrite join_cons2. cbn [map] in IH. rewrite IH. cbn [padded_txt]. rewrite app_nil_r.
    destruct pad as [|n pad].
    + change (pad_fields [] (f :: g :: fs)) with (f :: pad_fields [] (g :: fs)).
      rewrite join_cons_ne by (apply pad_fields_ne; discriminate).
      rewrite Nat.sub_0_l. cbn [repeat]. rewrite app_nil_r. unfold COMMA_SP. rewrite <- !app_assoc. reflexivity.
    + change (pad_fields (n :: pad) (f :: g :: fs)) with (rjust n f :: pad_fields pad (g :: fs)).
      rewrite join_cons_ne by (apply pad_fields_ne; discriminate).
      unfold rjust, COMMA_SP. rewrite <- !app_assoc. reflexivity.
Qed.

Lemma repeat_SP_blanks n : blanks (repeat SP n) = true.
Proof. induction n; cbn; auto. Qed.

Lemma lay_ok first pad fs :
  Forall (fun f => clean f = true) fs -> forallb padded_ok (lay first pad fs) = true.
Proof.
  revert first pad; induction fs as [|f fs IH]; intros first pad H; [reflexivity|].
  inversion H as [|x l Hf Hr]; subst. cbn [lay forallb padded_ok]. rewrite (IH false _ Hr), Hf.
  unfold blanks at 1. rewrite forallb_app. fold (blanks (repeat SP (match pad with n :: _ => n | [] => 0 end - List.length f))).
  rewrite repeat_SP_blanks. destruct first; reflexivity.
Qed.

Lemma lay_row_ok pad fs :
  Forall (fun f => clean f = true) fs -> 2 <= List.length fs ->
  match fs with f :: _ => starts_hash f = false | [] => True end ->
  row_ok (lay true pad fs) = true.
Proof.
  intros HC HL HH. unfold row_ok. rewrite (lay_ok true pad fs HC). cbn [andb].
  destruct fs as [|f [|g fs]]; cbn in HL; try lia. cbn [lay]. cbn [app].
  destruct (match pad with n :: _ => n | [] => 0 end - List.length f) as [|k]; cbn; [rewrite HH; reflexivity|reflexivity].
Qed.

Definition plain_lay (fs : list txt) : list padded := map (fun f => ([], f, [])) fs.

Lemma render_plain_lay fs : render_row (plain_lay fs) = join [COMMA] fs.
Proof.
  unfold render_row, plain_lay. rewrite map_map. f_equal. rewrite <- (map_id fs) at 2. apply map_ext.
  intro f. cbn. apply app_nil_r.
Qed.

Lemma plain_lay_fields fs : map padded_field (plain_lay fs) = fs.
Proof. unfold plain_lay. rewrite map_map. cbn. apply map_id. Qed.

Lemma plain_lay_row_ok fs :
  Forall (fun f => clean f = true) fs -> 2 <= List.length fs ->
  match fs with f :: _ => starts_hash f = false | [] => True end ->
  row_ok (plain_lay fs) = true.
Proof.
  intros HC HL HH. unfold row_ok. rewrite andb_true_iff. split.
  - unfold plain_lay. rewrite forallb_forall. intros p I. apply in_map_iff in I. destruct I as [f [<- I]].
    cbn. rewrite Forall_forall in HC. rewrite (HC f I). reflexivity.
  - destruct fs as [|f [|g fs]]; cbn in HL; try lia. cbn. rewrite HH. reflexivity.
Qed.

(* a text made of comment lines followed by rows, as every writer produces *)
Definition rows_ok (rows : list (list txt)) : Prop :=
  Forall (fun fs => Forall (fun f => clean f = true) fs /\ 2 <= List.length fs /\
                    match fs with f :: _ => starts_hash f = false | [] => True end) rows.

Definition hdr_ok (h : txt) : bool := starts_hash h && no_nl h.

Lemma hdr_ok_inv h : hdr_ok h = true -> exists b, h = HASH :: b /\ no_nl b = true.
Proof.
  unfold hdr_ok. rewrite andb_true_iff. intros [H1 H2]. destruct h as [|c b]; [discriminate|].
  cbn in H1. apply Ascii.eqb_eq in H1. subst c. exists b. split; [reflexivity|]. unfold no_nl in *. cbn in H2. exact H2.
Qed.

Section Writer.
  Variable mk : list txt -> list padded.    (* the layout of one row *)
  Variable wr : list txt -> txt.            (* the text of one row, without line end *)
  Hypothesis wr_mk : forall fs, fs <> [] -> wr fs = render_row (mk fs).
  Hypothesis mk_fields : forall fs, map padded_field (mk fs) = fs.
  Hypothesis mk_ok : forall fs, Forall (fun f => clean f = true) fs -> 2 <= List.length fs ->
      match fs with f :: _ => starts_hash f = false | [] => True end -> row_ok (mk fs) = true.

  Definition body (rows : list (list txt)) : txt := List.concat (map (fun fs => wr fs ++ [LF]) rows).
  Definition body_items (rows : list (list txt)) : list item := map (fun fs => IRow (mk fs) EolLF) rows.

  Lemma body_render rows : rows_ok rows -> body rows = render_items (body_items rows).
  Proof.
    unfold body, body_items, render_items. induction rows as [|fs rows IH]; intro H; [reflexivity|].
    inversion H as [|x l Hx Hl]; subst. cbn [map List.concat]. rewrite (IH Hl). cbn [render_item eol_txt].
    rewrite wr_mk; [reflexivity|]. destruct Hx as [_ [L _]]. destruct fs; [cbn in L; lia|discriminate].
  Qed.

  Lemma body_items_ok rows : rows_ok rows -> forallb item_ok (body_items rows) = true.
  Proof.
    unfold body_items. induction rows as [|fs rows IH]; intro H; [reflexivity|].
    inversion H as [|x l Hx Hl]; subst. cbn [map forallb item_ok]. rewrite (IH Hl).
    destruct Hx as [A [B C]]. rewrite (mk_ok fs A B C). reflexivity.
  Qed.

  Lemma body_items_rows rows : items_rows (body_items rows) = rows.
  Proof.
    unfold items_rows, body_items. induction rows as [|fs rows IH]; [reflexivity|].
    cbn. rewrite mk_fields. f_equal. exact IH.
  Qed.

  (* two comment lines (version line, column header) then the rows *)
  Definition file2 (l1 l2 : txt) (rows : list (list txt)) : txt := l1 ++ [LF] ++ l2 ++ [LF] ++ body rows.

  Lemma file2_render l1 l2 rows b1 b2 : l1 = HASH :: b1 -> l2 = HASH :: b2 -> rows_ok rows ->
    file2 l1 l2 rows = render_items (IComment b1 EolLF :: IComment b2 EolLF :: body_items rows).
  Proof.
    intros -> -> H. unfold file2. rewrite (body_render rows H). unfold render_items. cbn [map List.concat render_item eol_txt].
    cbn. rewrite <- !app_assoc. reflexivity.
  Qed.

  (* the lexer recovers exactly the fields written *)
  Theorem file2_lexed l1 l2 rows : hdr_ok l1 = true -> hdr_ok l2 = true -> rows_ok rows ->
    table_of_text (file2 l1 l2 rows) = rows.
  Proof.
    intros H1 H2 H. destruct (hdr_ok_inv l1 H1) as [b1 [E1 N1]]. destruct (hdr_ok_inv l2 H2) as [b2 [E2 N2]].
    rewrite (file2_render l1 l2 rows b1 b2 E1 E2 H). rewrite table_of_rendering.
    - cbn [items_rows flat_map item_rows app]. apply body_items_rows.
    - cbn [forallb item_ok]. rewrite N1, N2, (body_items_ok rows H). reflexivity.
  Qed.

  Lemma file2_lines l1 l2 rows : hdr_ok l1 = true -> hdr_ok l2 = true ->
    exists rest, lines (file2 l1 l2 rows) = l1 :: l2 :: rest.
  Proof.
    intros H1 H2. unfold hdr_ok in *. rewrite andb_true_iff in *. unfold file2.
    change (l1 ++ [LF] ++ l2 ++ [LF] ++ body rows) with (l1 ++ eol_txt EolLF ++ (l2 ++ eol_txt EolLF ++ body rows)).
    rewrite lines_app_eol by tauto. rewrite lines_app_eol by tauto. eexists; reflexivity.
  Qed.
End Writer.

(* ==================================================================== sorting *)
Section Sort.
  Context {A : Type}.
  Variable leb : A -> A -> bool.

  Lemma insert_by_perm x l : Permutation (insert_by leb x l) (x :: l).
  Proof.
    induction l as [|y l IH]; cbn; [apply Permutation_refl|].
    destruct (leb x y); [apply Permutation_refl|].
    apply perm_trans with (y :: x :: l); [apply perm_skip, IH|apply perm_swap].
  Qed.

  Lemma isort_perm l : Permutation (isort leb l) l.
  Proof.
    induction l as [|x l IH]; cbn; [apply perm_nil|].
    apply perm_trans with (x :: isort leb l); [apply insert_by_perm|apply perm_skip, IH].
  Qed.

  Fixpoint sortedb (l : list A) : bool :=
    match l with
    | x :: ((y :: _) as l') => leb x y && sortedb l'
    | _ => true
    end.

  (* sorting a sorted list changes nothing (so saving twice sorts once) *)
  Lemma isort_sorted_id l : sortedb l = true -> isort leb l = l.
  Proof.
    induction l as [|x l IH]; [reflexivity|]. intro H. cbn [isort].
    destruct l as [|y l]; [reflexivity|]. cbn [sortedb] in H. rewrite andb_true_iff in H. destruct H as [H1 H2].
    rewrite (IH H2). cbn. rewrite H1. reflexivity.
  Qed.

  Hypothesis total : forall a b, leb a b = true \/ leb b a = true.

  Lemma insert_by_sorted x l : sortedb l = true -> sortedb (insert_by leb x l) = true.
  Proof.
    induction l as [|y l IH]; [reflexivity|]. intro H. cbn [insert_by].
    destruct (leb x y) eqn:E.
    - cbn [sortedb]. rewrite E. exact H.
    - assert (Hyx : leb y x = true) by (destruct (total x y); congruence).
      destruct l as [|z l].
      + cbn. rewrite Hyx. reflexivity.
      + cbn [sortedb] in H. rewrite andb_true_iff in H. destruct H as [H1 H2].
        specialize (IH H2). cbn [insert_by] in *. destruct (leb x z); cbn [sortedb] in *.
        * rewrite Hyx. exact IH.
        * rewrite H1. exact IH.
  Qed.

  Lemma isort_sorted l : sortedb (isort leb l) = true.
  Proof. induction l as [|x l IH]; [reflexivity|]. cbn. apply insert_by_sorted, IH. Qed.

  Lemma isort_idem l : isort leb (isort leb l) = isort leb l.
  Proof. apply isort_sorted_id, isort_sorted. Qed.
End Sort.

Lemma isort_map_commute {A B} (leb : A -> A -> bool) (leb' : B -> B -> bool) (f : A -> B) l :
  (forall a b, leb' (f a) (f b) = leb a b) -> isort leb' (map f l) = map f (isort leb l).
Proof.
  intro H. induction l as [|x l IH]; [reflexivity|]. cbn. rewrite IH.
  generalize (isort leb l). intro m. induction m as [|y m IHm]; [reflexivity|].
  cbn. rewrite H. destruct (leb x y); [reflexivity|]. cbn. rewrite IHm. reflexivity.
Qed.

Lemma Forall_perm {A} (P : A -> Prop) l l' : Permutation l l' -> Forall P l -> Forall P l'.
Proof. intros Hp H. rewrite Forall_forall in *. intros x I. apply H. apply Permutation_in with l'; [apply Permutation_sym, Hp|exact I]. Qed.

Lemma forallb_perm {A} (p : A -> bool) l l' : Permutation l l' -> forallb p l = true -> forallb p l' = true.
Proof.
  intros Hp H. rewrite forallb_forall in *. intros x I. apply H.
  apply Permutation_in with l'; [apply Permutation_sym, Hp|exact I].
Qed.

(* nodup_by with a test that reflects equality of a projection *)
Lemma nodup_by_NoDup {A B} (eq : A -> A -> bool) (g : A -> B) l :
  (forall x y, eq x y = true <-> g x = g y) -> (nodup_by eq l = true <-> NoDup (map g l)).
Proof.
  intro H. induction l as [|x l IH]; cbn; [split; [constructor|reflexivity]|].
  rewrite andb_true_iff, negb_true_iff, IH. split.
  - intros [N R]. constructor; [|exact R]. intro I. apply in_map_iff in I. destruct I as [y [E I]].
    assert (X : existsb (eq x) l = true) by (apply existsb_exists; exists y; split; [exact I|apply H; congruence]).
    congruence.
  - intro N. inversion N as [|a b N1 N2]; subst. split; [|exact N2].
    destruct (existsb (eq x) l) eqn:E; [|reflexivity]. apply existsb_exists in E. destruct E as [y [I E]].
    exfalso. apply N1. apply in_map_iff. exists y. split; [symmetry; apply H, E|exact I].
Qed.

Lemma nth_error_firstn {A} (l : list A) i k : i < k -> nth_error (firstn k l) i = nth_error l i.
Proof.
  revert i k; induction l as [|x l IH]; intros i k H.
  - rewrite firstn_nil. reflexivity.
  - destruct k; [lia|]. destruct i; [reflexivity|]. cbn. apply IH. lia.
Qed.

Section P2.
  Variable O : fops.
  Hypothesis OK : fops_ok O.
  Notation cell := (cell O).
  Notation row := (row O).
  Notation table := (table O).

  (* ---------------------------------------------------------------- the order of rows is a total preorder *)
  Lemma cell_leb_total (a b : cell) : cell_leb O a b = true \/ cell_leb O b a = true.
  Proof.
    destruct a, b; cbn; auto.
    - apply lleb_total.
    - destruct (Z.leb_spec z z0); [left; reflexivity|right; apply Z.leb_le; lia].
  Qed.

  Lemma key_leb_total k (a b : row) : key_leb O k a b = true \/ key_leb O k b a = true.
  Proof.
    revert a b; induction k as [|k IH]; intros a b; cbn; [auto|].
    destruct a as [|x a], b as [|y b]; auto.
    destruct (cell_leb O x y) eqn:E1, (cell_leb O y x) eqn:E2; auto.
    destruct (cell_leb_total x y); congruence.
  Qed.

  Lemma key_leb_firstn k (a b : row) : key_leb O k (firstn k a) (firstn k b) = key_leb O k a b.
  Proof.
    revert a b; induction k as [|k IH]; intros a b; [reflexivity|].
    destruct a as [|x a], b as [|y b]; cbn; auto. rewrite IH. reflexivity.
  Qed.

  Lemma sort_rows_idem fk (rows : table) : sort_rows O fk (sort_rows O fk rows) = sort_rows O fk rows.
  Proof. unfold sort_rows. apply isort_idem. apply key_leb_total. Qed.

  Lemma sort_rows_perm fk (rows : table) : Permutation (sort_rows O fk rows) rows.
  Proof. apply isort_perm. Qed.

  (* ---------------------------------------------------------------- dict insertion *)
  Lemma upsert_new m k (r : row) (acc : table) :
    (forall x, In x acc -> key_eqb O k x r = false) -> upsert O m k r acc = acc ++ [r].
  Proof.
    induction acc as [|x acc IH]; intro H; [reflexivity|]. cbn.
    rewrite (H x (or_introl eq_refl)). rewrite IH; [reflexivity|]. intros y I. apply H. right. exact I.
  Qed.

  Lemma fold_upsert_nodup m k (rows acc : table) :
    (forall x r, In x acc -> In r rows -> key_eqb O k x r = false) ->
    nodup_by (key_eqb O k) rows = true ->
    fold_left (fun tbl r => upsert O m k r tbl) rows acc = acc ++ rows.
  Proof.
    revert acc; induction rows as [|r rows IH]; intros acc H N; cbn; [rewrite app_nil_r; reflexivity|].
    cbn in N. rewrite andb_true_iff, negb_true_iff in N. destruct N as [N1 N2].
    rewrite upsert_new by (intros x I; apply H; [exact I|left; reflexivity]).
    rewrite IH; [rewrite <- app_assoc; reflexivity| |exact N2].
    intros x r' I I'. apply in_app_iff in I. destruct I as [I|[<-|[]]].
    - apply H; [exact I|right; exact I'].
    - destruct (key_eqb O k r r') eqn:E; [|reflexivity].
      assert (X : existsb (key_eqb O k r) rows = true) by (apply existsb_exists; exists r'; tauto). congruence.
  Qed.

  (* rows with pairwise different keys go into the dict as they are *)
  Theorem of_rows_nodup m k (rows : table) : keys_nodup O k rows = true -> of_rows O m k rows = rows.
  Proof.
    intro N. unfold of_rows. destruct k; [reflexivity|].
    rewrite fold_upsert_nodup; [reflexivity| |exact N]. intros x r [].
  Qed.

  (* THE DUPLICATE KEY RULE: the last row with a key wins (readers other than observations) *)
  Fixpoint find_key (k : nat) (key : row) (tbl : table) : option row :=
    match tbl with
    | [] => None
    | x :: t => if row_eqb O (firstn k x) key then Some x else find_key k key t
    end.

  Lemma find_key_upsert k key (r : row) (tbl : table) :
    find_key k key (upsert O false k r tbl) =
    if row_eqb O (firstn k r) key then Some r else find_key k key tbl.
  Proof.
    induction tbl as [|x t IH]; cbn; [reflexivity|].
    destruct (key_eqb O k x r) eqn:E.
    - apply (key_eqb_eq O OK) in E. cbn. rewrite E. destruct (row_eqb O (firstn k r) key); reflexivity.
    - cbn. rewrite IH. destruct (row_eqb O (firstn k x) key) eqn:E1; [|reflexivity].
      destruct (row_eqb O (firstn k r) key) eqn:E2; [|reflexivity].
      apply (row_eqb_eq O OK) in E1, E2. exfalso.
      assert (X : key_eqb O k x r = true) by (apply (key_eqb_eq O OK); congruence). congruence.
  Qed.

  Lemma find_key_fold k key (rows acc : table) :
    find_key k key (fold_left (fun tbl r => upsert O false k r tbl) rows acc) =
    match find_key k key (rev rows) with Some r => Some r | None => find_key k key acc end.
  Proof.
    revert acc; induction rows as [|r rows IH]; intro acc; cbn [fold_left rev]; [reflexivity|].
    rewrite IH, find_key_upsert.
    assert (FA : forall l1 l2, find_key k key (l1 ++ l2) =
                 match find_key k key l1 with Some x => Some x | None => find_key k key l2 end).
    { induction l1 as [|x l1 IHl]; intro l2; cbn; [reflexivity|]. destruct (row_eqb O (firstn k x) key); [reflexivity|apply IHl]. }
    rewrite FA. destruct (find_key k key (rev rows)); [reflexivity|]. cbn.
    destruct (row_eqb O (firstn k r) key); reflexivity.
  Qed.

  Theorem of_rows_last_wins k key (rows : table) : k <> 0 ->
    find_key k key (of_rows O false k rows) = find_key k key (rev rows).
  Proof.
    intro NZ. unfold of_rows. destruct k; [congruence|]. rewrite find_key_fold.
    destruct (find_key (S k) key (rev rows)); reflexivity.
  Qed.

  Lemma find_key_In k key (tbl : table) (r : row) : NoDup (map (firstn k) tbl) ->
    (find_key k key tbl = Some r <-> In r tbl /\ firstn k r = key).
  Proof.
    induction tbl as [|x t IH]; cbn; intro N; [split; [discriminate|tauto]|].
    inversion N as [|a b N1 N2]; subst. destruct (row_eqb O (firstn k x) key) eqn:E.
    - apply (row_eqb_eq O OK) in E. split.
      + intros [= <-]. auto.
      + intros [[->|I] Ek]; [reflexivity|]. exfalso. apply N1. rewrite E, <- Ek. apply in_map, I.
    - rewrite (IH N2). split.
      + intros [I Ek]. auto.
      + intros [[->|I] Ek]; [|auto]. exfalso. assert (X : row_eqb O (firstn k r) key = true) by (apply (row_eqb_eq O OK), Ek).
        congruence.
  Qed.

  (* every row of a file whose keys are pairwise different is in the loaded map, under its own key *)
  Theorem of_rows_keeps_all k (rows : table) (r : row) : keys_nodup O k rows = true -> In r rows ->
    find_key k (firstn k r) (of_rows O false k rows) = Some r.
  Proof.
    intros N I. rewrite (of_rows_nodup false k rows N).
    assert (EQ : forall x y : row, key_eqb O k x y = true <-> firstn k x = firstn k y) by (intros; apply (key_eqb_eq O OK)).
    apply (find_key_In k (firstn k r) rows r); [apply (nodup_by_NoDup (key_eqb O k) (firstn k) rows EQ), N|tauto].
  Qed.

  (* ROW ORDER IS IRRELEVANT: two files with the same rows (keys pairwise different) in any order load to the
     same map *)
  Theorem of_rows_order_irrelevant k (rows rows' : table) : keys_nodup O k rows = true -> Permutation rows rows' ->
    forall key, find_key k key (of_rows O false k rows) = find_key k key (of_rows O false k rows').
  Proof.
    intros N P key.
    assert (EQ : forall x y : row, key_eqb O k x y = true <-> firstn k x = firstn k y) by (intros; apply (key_eqb_eq O OK)).
    assert (N1 : NoDup (map (firstn k) rows)) by (apply (nodup_by_NoDup (key_eqb O k) (firstn k) rows EQ), N).
    assert (N2 : NoDup (map (firstn k) rows')) by (apply Permutation_NoDup with (map (firstn k) rows); [apply Permutation_map, P|exact N1]).
    assert (N' : keys_nodup O k rows' = true) by (apply (nodup_by_NoDup (key_eqb O k) (firstn k) rows' EQ), N2).
    rewrite !of_rows_nodup by assumption.
    destruct (find_key k key rows) as [r|] eqn:E1.
    - apply (find_key_In k key rows r N1) in E1. symmetry. apply (find_key_In k key rows' r N2).
      split; [apply Permutation_in with rows; tauto|tauto].
    - destruct (find_key k key rows') as [r|] eqn:E2; [|reflexivity].
      apply (find_key_In k key rows' r N2) in E2.
      assert (X : find_key k key rows = Some r).
      { apply (find_key_In k key rows r N1). split; [apply Permutation_in with rows'; [apply Permutation_sym, P|tauto]|tauto]. }
      congruence.
  Qed.

  (* ---------------------------------------------------------------- post-processing is the identity on well-formed rows *)
  Lemma norm_group_ok (g : row) : group_ok O g = true -> norm_group O g = g.
  Proof.
    unfold group_ok, norm_group. rewrite orb_true_iff, negb_true_iff. intros [H|H].
    - destruct (existsb (is_none O) g); [|reflexivity].
      induction g as [|c g IH]; [reflexivity|]. cbn in *. rewrite andb_true_iff in H. destruct H as [Hc Hg].
      destruct c; try discriminate. rewrite (IH Hg). reflexivity.
    - rewrite H. reflexivity.
  Qed.

  Lemma canon_params_ok (ps : row) :
    forallb (fun c => match c with
                      | CStr p => match cam_canon O p with Some p' => txt_eqb p' p | None => false end
                      | _ => false end) ps = true ->
    canon_params O ps = Some ps.
  Proof.
    induction ps as [|c ps IH]; [reflexivity|]. cbn. rewrite andb_true_iff. intros [Hc Hp].
    destruct c; try discriminate. destruct (cam_canon O s) as [s'|]; [|discriminate].
    apply txt_eqb_eq in Hc. subst. rewrite (IH Hp). reflexivity.
  Qed.

  Theorem post_row_ok p (r : row) : post_ok O p r = true -> post_row O p r = Ok (Some r).
  Proof.
    destruct p.
    - reflexivity.
    - unfold post_ok, post_row. destruct r as [|a [|b rest]]; try discriminate. rewrite andb_true_iff. intros [H1 H2].
      rewrite (norm_group_ok _ H1), (norm_group_ok _ H2), firstn_skipn. reflexivity.
    - unfold post_ok, post_row. destruct r as [|a [|b [|c params]]]; try discriminate. destruct c; try discriminate.
      destruct (tmem s camera_types); [|reflexivity].
      destruct params as [|m ps]; [discriminate|]. destruct m; try discriminate.
      destruct (assoc s0 camera_models); [|discriminate]. rewrite andb_true_iff. intros [H1 H2].
      rewrite H1, (canon_params_ok ps H2). reflexivity.
    - unfold post_ok, post_row. intro H. apply Nat.leb_le in H. destruct (Nat.ltb_spec (List.length r) 4); [lia|reflexivity].
  Qed.

  (* ---------------------------------------------------------------- schemas *)
  Lemma tail_types_map g m : tail_types (map spec_ty g) m = map spec_ty (tail_types g m).
  Proof.
    unfold tail_types. destruct g as [|a g]; [reflexivity|]. cbn [map].
    change (spec_ty a :: map spec_ty g) with (map spec_ty (a :: g)). rewrite map_length.
    generalize (seq 0 (m / List.length (a :: g))). intro l.
    induction l as [|x l IH]; [reflexivity|]. cbn [flat_map]. rewrite map_app, <- IH. reflexivity.
  Qed.

  Lemma types_for_spec sch n : types_for (spec_schema_of sch) n = map spec_ty (types_for sch n).
  Proof.
    unfold types_for, spec_schema_of. cbn [s_fixed s_group]. rewrite map_app, map_length, tail_types_map. reflexivity.
  Qed.

  (* what the specification-level typed reading accepts, the reader model reads the same way *)
  Lemma read_cell_spec ty s (c : cell) : read_cell O (spec_ty ty) s = Some c -> read_cell O ty s = Some c.
  Proof.
    destruct ty; cbn; auto. destruct s as [|a s].
    - rewrite (read_empty O OK). auto.
    - destruct (read_float O (a :: s)); cbn; [auto|discriminate].
  Qed.

  Lemma read_cells_of_spec tys fs (r : row) :
    read_cells O (map spec_ty tys) fs = Some r -> read_cells O tys fs = Some r.
  Proof.
    revert fs r; induction tys as [|ty tys IH]; intros [|f fs] r; cbn; auto.
    destruct (read_cell O (spec_ty ty) f) eqn:E1; [|discriminate].
    destruct (read_cells O (map spec_ty tys) fs) eqn:E2; [|discriminate].
    rewrite (read_cell_spec _ _ _ E1), (IH _ _ E2). auto.
  Qed.

  Lemma read_row_of_spec lenient sch fs (r : row) :
    read_row O false (spec_schema_of sch) fs = Some r -> read_row O lenient sch fs = Some r.
  Proof.
    unfold read_row. rewrite types_for_spec, map_length.
    destruct (Nat.eqb (List.length (types_for sch (List.length fs))) (List.length fs)); [|discriminate].
    apply read_cells_of_spec.
  Qed.

  (* the cell written in a column is read back under the specification's type of that column *)
  Lemma read_show_cell_spec ty (c : cell) : cell_wf O ty c = true ->
    read_cell O (spec_ty ty) (show_cell O ty c) = Some (canon_cell O ty c).
  Proof.
    intro H. destruct ty; try exact (read_show_cell O OK _ c H).
    destruct c; cbn in *; try discriminate; [|reflexivity].
    destruct (show_float O f) eqn:E.
    - exfalso. apply (token_nonempty (show_float O f)); [apply (show_tok O OK), H|exact E].
    - rewrite <- E, (read_show O OK) by exact H. reflexivity.
  Qed.

  Lemma read_cells_show_spec tys (r : row) : forallb2 (cell_wf O) tys r = true ->
    read_cells O (map spec_ty tys) (map2 (show_cell O) tys r) = Some (map2 (canon_cell O) tys r).
  Proof.
    revert r; induction tys as [|ty tys IH]; intros [|c r]; cbn; try discriminate; [reflexivity|].
    rewrite andb_true_iff. intros [Hc Hr]. rewrite (read_show_cell_spec ty c Hc), (IH r Hr). reflexivity.
  Qed.

  Theorem spec_read_enc_row sch (r : row) : row_wf O sch r = true ->
    read_row O false (spec_schema_of sch) (enc_row O sch r) = Some (canon_row O sch r).
  Proof.
    intro H. pose proof (enc_row_length O sch r H) as L. apply row_wf_inv in H. destruct H as [HL HW].
    unfold read_row. rewrite types_for_spec, map_length, L. unfold row_types in *. rewrite HL, Nat.eqb_refl.
    unfold enc_row, canon_row, row_types. apply read_cells_show_spec, HW.
  Qed.

  (* ---------------------------------------------------------------- canonical rows keep the plain leading columns *)
  Definition plain_ty (t : cty) : bool := match t with TStr | TInt => true | _ => false end.

  Lemma canon_firstn_gen tys (r : row) k : k <= List.length tys -> forallb plain_ty (firstn k tys) = true ->
    firstn k (map2 (canon_cell O) tys r) = firstn k r.
  Proof.
    revert tys r; induction k as [|k IH]; intros tys r L H; [reflexivity|].
    destruct tys as [|ty tys]; [cbn in L; lia|]. destruct r as [|c r]; [reflexivity|].
    cbn in *. rewrite andb_true_iff in H. destruct H as [H1 H2]. rewrite IH by (lia || exact H2).
    f_equal. destruct ty, c; try discriminate; reflexivity.
  Qed.

  Lemma canon_firstn sch (r : row) k : k <= List.length (s_fixed sch) ->
    forallb plain_ty (firstn k (s_fixed sch)) = true -> firstn k (canon_row O sch r) = firstn k r.
  Proof.
    intros L H. unfold canon_row, row_types, types_for. apply canon_firstn_gen.
    - rewrite app_length. lia.
    - rewrite firstn_app. replace (k - List.length (s_fixed sch)) with 0 by lia. cbn. rewrite app_nil_r. exact H.
  Qed.

  (* ---------------------------------------------------------------- file kinds that the generic theorems cover *)
  Definition fk_ok (fk : fkind) : bool :=
    let fixed := s_fixed (fk_schema fk) in
    Nat.leb 2 (List.length fixed) &&
    Nat.leb (fk_key fk) (List.length fixed) && Nat.leb (fk_sort fk) (List.length fixed) &&
    forallb plain_ty (firstn (fk_key fk) fixed) && forallb plain_ty (firstn (fk_sort fk) fixed) &&
    (Nat.ltb (fk_dev fk) (fk_key fk) || Nat.eqb (fk_key fk) 0) &&
    hdr_ok version && hdr_ok (header_of (fk_name fk)).

  Section Table.
    Variable fk : fkind.
    Hypothesis FK : fk_ok fk = true.
    Let sch := fk_schema fk.

    Lemma fk_ok_inv :
      2 <= List.length (s_fixed sch) /\ fk_key fk <= List.length (s_fixed sch) /\
      fk_sort fk <= List.length (s_fixed sch) /\
      forallb plain_ty (firstn (fk_key fk) (s_fixed sch)) = true /\
      forallb plain_ty (firstn (fk_sort fk) (s_fixed sch)) = true /\
      (fk_dev fk < fk_key fk \/ fk_key fk = 0) /\
      hdr_ok version = true /\ hdr_ok (header_of (fk_name fk)) = true.
    Proof.
      unfold fk_ok in FK. fold sch in FK. rewrite !andb_true_iff, orb_true_iff, !Nat.leb_le, Nat.ltb_lt, Nat.eqb_eq in FK.
      tauto.
    Qed.

    Lemma canon_key (r : row) : firstn (fk_key fk) (canon_row O sch r) = firstn (fk_key fk) r.
    Proof. destruct fk_ok_inv as [_ [A [_ [B _]]]]. apply canon_firstn; assumption. Qed.

    Lemma canon_sortkey (r : row) : firstn (fk_sort fk) (canon_row O sch r) = firstn (fk_sort fk) r.
    Proof. destruct fk_ok_inv as [_ [_ [A [_ [B _]]]]]. apply canon_firstn; assumption. Qed.

    Lemma sort_canon_commute (rows : table) :
      sort_rows O fk (map (canon_row O sch) rows) = map (canon_row O sch) (sort_rows O fk rows).
    Proof.
      unfold sort_rows. apply isort_map_commute. intros a b.
      rewrite <- key_leb_firstn, !canon_sortkey, key_leb_firstn. reflexivity.
    Qed.

    Definition rows_wf (rows : table) : Prop :=
      Forall (fun r => row_wf O sch r = true /\ post_ok O (fk_post fk) (canon_row O sch r) = true) rows.

    Lemma row_wf_len (r : row) : row_wf O sch r = true -> 2 <= List.length r.
    Proof.
      intro H. apply row_wf_inv in H. destruct H as [HL _]. unfold row_types, types_for in HL.
      rewrite app_length in HL. destruct fk_ok_inv as [A _]. lia.
    Qed.

    Lemma enc_rows_ok (rows : table) : rows_wf rows -> rows_ok (map (enc_row O sch) rows).
    Proof.
      unfold rows_wf, rows_ok. intro H. induction H as [|r rows [Hr _] Hrest IH]; cbn; constructor; [|exact IH].
      split; [apply (enc_row_clean O OK), Hr|]. split; [rewrite (enc_row_length O sch r Hr); apply row_wf_len, Hr|].
      apply (enc_row_first_nohash O OK), Hr.
    Qed.

    (* D1 *)
    Lemma read_rows_enc (rows : table) : rows_wf rows ->
      read_rows O fk (map (enc_row O sch) rows) = Ok (map (canon_row O sch) rows).
    Proof.
      intro H. induction H as [|r rows [Hr Hp] Hrest IH]; [reflexivity|]. cbn [map read_rows]. fold sch.
      rewrite (read_enc_row O OK _ sch r Hr), (post_row_ok _ _ Hp), IH. reflexivity.
    Qed.

    Lemma spec_rows_enc (rows : table) : rows_wf rows ->
      spec_rows O (spec_schema_of sch) (map (enc_row O sch) rows) = Ok (map (canon_row O sch) rows).
    Proof.
      intro H. induction H as [|r rows [Hr Hp] Hrest IH]; [reflexivity|]. cbn [map spec_rows].
      rewrite (spec_read_enc_row sch r Hr), IH. reflexivity.
    Qed.

    (* the writer's output, seen as version line + header line + rows *)
    Lemma save_table_file2 (rows : table) :
      save_table O fk rows =
      file2 (fun fs => join COMMA_SP (pad_fields (padding_of (fk_name fk)) fs)) version (header_of (fk_name fk))
            (map (enc_row O sch) (sort_rows O fk rows)).
    Proof. reflexivity. Qed.

    Lemma rows_wf_sorted (rows : table) : rows_wf rows -> rows_wf (sort_rows O fk rows).
    Proof. apply Forall_perm, Permutation_sym, sort_rows_perm. Qed.

    (* the lexer returns exactly the written fields *)
    Theorem save_table_lexed (rows : table) : rows_wf rows ->
      table_of_text (save_table O fk rows) = map (enc_row O sch) (sort_rows O fk rows).
    Proof.
      intro H. rewrite save_table_file2. destruct fk_ok_inv as [_ [_ [_ [_ [_ [_ [HV HH]]]]]]].
      apply (file2_lexed (lay true (padding_of (fk_name fk)))); auto.
      - intros fs NE. symmetry. apply (render_lay true). exact NE.
      - intro fs. apply lay_fields.
      - intros fs. apply lay_row_ok.
      - apply enc_rows_ok, rows_wf_sorted, H.
    Qed.

    Theorem save_table_version_first (rows : table) : version_first (save_table O fk rows) = true.
    Proof.
      rewrite save_table_file2. destruct fk_ok_inv as [_ [_ [_ [_ [_ [_ [HV HH]]]]]]].
      destruct (file2_lines (fun fs => join COMMA_SP (pad_fields (padding_of (fk_name fk)) fs)) version
                  (header_of (fk_name fk)) (map (enc_row O sch) (sort_rows O fk rows)) HV HH) as [rest E].
      unfold version_first. rewrite E. clear. induction version as [|c v IH]; cbn; [reflexivity|].
      rewrite Ascii.eqb_refl. exact IH.
    Qed.

    (* C02, writer side: the specification-level parser recovers the table from the written file *)
    Theorem writer_conforms (rows : table) : rows_wf rows ->
      spec_read O sch (save_table O fk rows) = Ok (canon_table O fk rows).
    Proof.
      intro H. unfold spec_read. rewrite save_table_version_first, (save_table_lexed rows H).
      apply spec_rows_enc, rows_wf_sorted, H.
    Qed.

    Definition keys_of (rows : table) : list row := map (firstn (fk_key fk)) rows.

    Lemma keys_nodup_iff (rows : table) : keys_nodup O (fk_key fk) rows = true <-> NoDup (keys_of rows).
    Proof. unfold keys_nodup, keys_of. apply nodup_by_NoDup. intros x y. apply (key_eqb_eq O OK). Qed.

    Lemma keys_canon_table (rows : table) : keys_of (canon_table O fk rows) = keys_of (sort_rows O fk rows).
    Proof.
      unfold keys_of, canon_table. fold sch. rewrite map_map. apply map_ext. intro r. apply canon_key.
    Qed.

    Lemma keys_nodup_canon (rows : table) : keys_nodup O (fk_key fk) rows = true ->
      keys_nodup O (fk_key fk) (canon_table O fk rows) = true.
    Proof.
      rewrite !keys_nodup_iff, keys_canon_table. unfold keys_of. intro N.
      apply Permutation_NoDup with (map (firstn (fk_key fk)) rows); [|exact N].
      apply Permutation_map, Permutation_sym, sort_rows_perm.
    Qed.

    Lemma dev_of_canon (r : row) : fk_key fk <> 0 -> dev_of O fk (canon_row O sch r) = dev_of O fk r.
    Proof.
      intro NZ. destruct fk_ok_inv as [_ [_ [_ [_ [_ [[D|D] _]]]]]]; [|congruence].
      unfold dev_of. rewrite <- (nth_error_firstn (canon_row O sch r) _ _ D), canon_key, (nth_error_firstn r _ _ D). reflexivity.
    Qed.

    Definition ids_cover (ids : option (list txt)) (rows : table) : Prop :=
      match ids with None => True | Some l => forall r, In r rows -> In (dev_of O fk r) l end.

    Lemma filter_ids_all ids (rows : table) : ids_cover ids rows -> filter_ids O fk ids rows = rows.
    Proof.
      destruct ids as [l|]; [|reflexivity]. cbn. intro H. induction rows as [|r rows IH]; [reflexivity|].
      cbn. assert (T : tmem (dev_of O fk r) l = true) by (apply tmem_In, H; left; reflexivity).
      rewrite T, IH; [reflexivity|]. intros x I. apply H. right. exact I.
    Qed.

    (* C01, one table: read (write rows) = canonical rows *)
    Theorem table_roundtrip ids (rows : table) :
      rows_wf rows -> keys_nodup O (fk_key fk) rows = true -> ids_cover ids (canon_table O fk rows) ->
      read_table O fk ids (save_table O fk rows) = Ok (canon_table O fk rows).
    Proof.
      intros H N C. unfold read_table. rewrite (save_table_lexed rows H).
      rewrite (read_rows_enc _ (rows_wf_sorted rows H)).
      change (map (canon_row O sch) (sort_rows O fk rows)) with (canon_table O fk rows).
      rewrite (filter_ids_all ids _ C). rewrite of_rows_nodup; [reflexivity|apply keys_nodup_canon, N].
    Qed.

    Lemma canon_table_rows_wf (rows : table) : rows_wf rows ->
      Forall (fun r => row_wf O sch r = true) (canon_table O fk rows).
    Proof.
      intro H. apply rows_wf_sorted in H. unfold canon_table. fold sch. induction H as [|r rows' [Hr _] _ IH]; cbn; constructor.
      - apply (canon_row_wf O OK), Hr.
      - exact IH.
    Qed.

    (* saving the canonical table gives the same bytes *)
    Theorem resave_table (rows : table) : rows_wf rows ->
      save_table O fk (canon_table O fk rows) = save_table O fk rows.
    Proof.
      intro H. unfold save_table. f_equal. unfold canon_table. fold sch.
      rewrite sort_canon_commute, sort_rows_idem, map_map.
      apply rows_wf_sorted in H. induction H as [|r rows' [Hr _] _ IH]; [reflexivity|]. cbn.
      rewrite (enc_canon_row O OK sch r Hr), IH. reflexivity.
    Qed.

    (* ---- readers do not depend on the layout *)
    Definition read_fields ids (fields : list (list txt)) : result table :=
      match read_rows O fk fields with
      | Err => Err
      | Ok rs => Ok (of_rows O (fk_merge fk) (fk_key fk) (filter_ids O fk ids rs))
      end.

    Theorem read_table_layout ids (items : list item) : forallb item_ok items = true ->
      read_table O fk ids (render_items items) = read_fields ids (items_rows items).
    Proof. intro H. unfold read_table, read_fields. rewrite (table_of_rendering items H). reflexivity. Qed.

    (* whatever typed rows the specification-level parser assigns to the field matrix, the reader model reads *)
    Theorem read_rows_of_spec (fields : list (list txt)) (rows : table) :
      spec_rows O (spec_schema_of sch) fields = Ok rows ->
      Forall (fun r => post_ok O (fk_post fk) r = true) rows ->
      read_rows O fk fields = Ok rows.
    Proof.
      revert rows; induction fields as [|fs fields IH]; intros rows; cbn.
      - intros [= <-] _. reflexivity.
      - destruct (read_row O false (spec_schema_of sch) fs) as [r|] eqn:E; [|discriminate].
        destruct (spec_rows O (spec_schema_of sch) fields) as [rs|] eqn:E2; [|discriminate].
        intros [= <-] HP. inversion HP as [|x l Hx Hl]; subst. fold sch.
        rewrite (read_row_of_spec _ _ _ _ E), (post_row_ok _ _ Hx), (IH rs eq_refl Hl). reflexivity.
    Qed.
  End Table.
End P2.

(* the specification-level parser does not depend on the layout either *)
Lemma spec_read_layout O sch b e (items : list item) :
  prefix_of version (HASH :: b) = true -> no_nl b = true -> forallb item_ok items = true ->
  spec_read O sch (render_items (IComment b e :: items)) = spec_rows O (spec_schema_of sch) (items_rows items).
Proof.
  intros PV N H. unfold spec_read.
  assert (OKI : forallb item_ok (IComment b e :: items) = true) by (cbn; rewrite N, H; reflexivity).
  rewrite (table_of_rendering _ OKI). change (items_rows (IComment b e :: items)) with (items_rows items).
  unfold version_first. rewrite render_items_cons. cbn [render_item].
  change (HASH :: b ++ eol_txt e) with ((HASH :: b) ++ eol_txt e). rewrite <- app_assoc.
  rewrite lines_app_eol by (cbn; exact N). rewrite PV. reflexivity.
Qed.
