(* Proofs/PCodecData.v — the dataset level of the text codec (property C01, and the points3d / descriptor
   file instances of C02): kapture_from_dir (kapture_to_dir d) = canonical d for every well-formed dataset,
   absent parts stay absent, saving the reloaded dataset writes the same bytes. *)
From Coq Require Import List Bool String Ascii NArith ZArith Lia Permutation.
From KV Require Import Eqb Str.
From KV.Model Require Import MCodecTxt MCodec.
From KV.Proofs Require Import PCodecTxt PCodec.
Import ListNotations.
Local Open Scope list_scope.

(* facts about the generated tables (header lines of the tree under test); decided by computation in Props *)
Definition no_canon_ty (t : cty) : bool := match t with TName | TF10 => false | _ => true end.
Definition cfg_plain (k : featkind) : bool :=
  forallb no_canon_ty (s_fixed (fk_schema (fk_feat k))) &&
  match s_group (fk_schema (fk_feat k)) with [] => true | _ => false end.
Definition p3d_hdr_ok : bool :=
  hdr_ok p3d_line1 && hdr_ok (p3d_line2 3) && hdr_ok (p3d_line2 6) && prefix_of version p3d_line1 &&
  negb (has_sub XYZ p3d_line1) &&
  has_sub XYZ (p3d_line2 3) && negb (has_sub RGB (p3d_line2 3)) &&
  has_sub XYZ (p3d_line2 6) && has_sub RGB (p3d_line2 6).
Definition tables_ok : bool :=
  forallb (fun f => fk_ok (fk_of f)) all_tfiles &&
  forallb (fun k => fk_ok (fk_feat k) && cfg_plain k) all_featkinds && p3d_hdr_ok.

Lemma all_tfiles_complete f : In f all_tfiles.
Proof. destruct f as [| | |k|]; try destruct k; cbn; tauto. Qed.
Lemma all_featkinds_complete k : In k all_featkinds.
Proof. destruct k; cbn; tauto. Qed.

Section D.
  Variable O : fops.
  Hypothesis OK : fops_ok O.
  Hypothesis TOK : tables_ok = true.

  Notation cell := (cell O).
  Notation row := (row O).
  Notation table := (table O).

  Lemma fk_of_ok f : fk_ok (fk_of f) = true.
  Proof.
    unfold tables_ok in TOK. rewrite !andb_true_iff in TOK. destruct TOK as [[H _] _].
    rewrite forallb_forall in H. apply H, all_tfiles_complete.
  Qed.
  Lemma fk_feat_ok k : fk_ok (fk_feat k) = true /\ cfg_plain k = true.
  Proof.
    unfold tables_ok in TOK. rewrite !andb_true_iff in TOK. destruct TOK as [[_ H] _].
    rewrite forallb_forall in H. specialize (H k (all_featkinds_complete k)). rewrite andb_true_iff in H. exact H.
  Qed.
  Lemma p3d_ok : p3d_hdr_ok = true.
  Proof. unfold tables_ok in TOK. rewrite !andb_true_iff in TOK. tauto. Qed.

  (* ---------------------------------------------------------------- helpers *)
  Lemma sort_rows_0 fk (rows : table) : fk_sort fk = 0 -> sort_rows O fk rows = rows.
  Proof.
    intro E. unfold sort_rows. rewrite E. induction rows as [|r rows IH]; [reflexivity|].
    cbn [isort]. rewrite IH. destruct rows; reflexivity.
  Qed.

  Lemma table_wf_inv fk (rows : table) : table_wf O fk rows = true ->
    rows_wf O fk rows /\ keys_nodup O (fk_key fk) rows = true.
  Proof.
    unfold table_wf. rewrite andb_true_iff. intros [H N]. split; [|exact N].
    unfold rows_wf. rewrite Forall_forall. rewrite forallb_forall in H. intros r I. specialize (H r I).
    rewrite andb_true_iff in H. exact H.
  Qed.

  Lemma key1_firstn (a b : row) k : 1 <= k -> firstn k a = firstn k b -> key1 O a = key1 O b.
  Proof.
    intros L E. destruct k; [lia|]. destruct a as [|x a], b as [|y b]; cbn in E; try discriminate; [reflexivity|].
    injection E as -> _. reflexivity.
  Qed.

  Lemma key1_canon fk (r : row) : fk_ok fk = true -> 1 <= fk_key fk ->
    key1 O (canon_row O (fk_schema fk) r) = key1 O r.
  Proof. intros FK L. apply (key1_firstn _ _ (fk_key fk) L). apply (canon_key O fk FK). Qed.

  Lemma canon_nth tys (r : row) i ty : nth_error tys i = Some ty -> plain_ty ty = true ->
    nth_error (map2 (canon_cell O) tys r) i = nth_error r i.
  Proof.
    revert tys r; induction i as [|i IH]; intros tys r E P; destruct tys as [|t tys]; try discriminate E;
      destruct r as [|c r]; try reflexivity.
    - cbn in E. injection E as ->. cbn. destruct ty, c; try discriminate P; reflexivity.
    - cbn in E. cbn. apply (IH tys r E P).
  Qed.

  Lemma in_canon_table fk (rows : table) (r' : row) : In r' (canon_table O fk rows) ->
    exists r, In r rows /\ r' = canon_row O (fk_schema fk) r.
  Proof.
    unfold canon_table. intro I. apply in_map_iff in I. destruct I as [r [<- I]]. exists r. split; [|reflexivity].
    apply Permutation_in with (sort_rows O fk rows); [apply sort_rows_perm|exact I].
  Qed.

  Lemma in_canon_table_rev fk (rows : table) (r : row) : In r rows ->
    In (canon_row O (fk_schema fk) r) (canon_table O fk rows).
  Proof.
    intro I. unfold canon_table. apply in_map. apply Permutation_in with rows; [apply Permutation_sym, sort_rows_perm|exact I].
  Qed.

  (* ---------------------------------------------------------------- sensors *)
  Definition sensor_type_is (ty : txt) (r : row) : bool :=
    match r with _ :: _ :: CStr t :: _ => txt_eqb t ty | _ => false end.

  Lemma sensor_type_nth ty (r : row) :
    sensor_type_is ty r = match nth_error r 2 with Some (CStr t) => txt_eqb t ty | _ => false end.
  Proof. destruct r as [|a [|b [|c r]]]; reflexivity. Qed.

  Lemma sensors_canon_type ty (r : row) :
    sensor_type_is ty (canon_row O (fk_schema fk_sensors) r) = sensor_type_is ty r.
  Proof.
    rewrite !sensor_type_nth. unfold canon_row, row_types, types_for. cbn [fk_schema fk_sensors mk_schema s_fixed s_group].
    rewrite (canon_nth _ r 2 TStr); reflexivity.
  Qed.

  Lemma canon_sensors (rows : table) : canon_table O fk_sensors rows = map (canon_row O (fk_schema fk_sensors)) rows.
  Proof. unfold canon_table. rewrite sort_rows_0; reflexivity. Qed.

  Lemma sids_canon (rows : table) : map (key1 O) (canon_table O fk_sensors rows) = map (key1 O) rows.
  Proof.
    rewrite canon_sensors, map_map. apply map_ext. intro r.
    apply key1_canon; [apply (fk_of_ok FSensors)|cbn; lia].
  Qed.

  Lemma ids_of_type_canon ty (rows : table) :
    ids_of_type O ty (canon_table O fk_sensors rows) = ids_of_type O ty rows.
  Proof.
    rewrite canon_sensors. unfold ids_of_type. induction rows as [|r rows IH]; [reflexivity|].
    cbn [map List.filter]. fold (sensor_type_is ty (canon_row O (fk_schema fk_sensors) r)). fold (sensor_type_is ty r).
    rewrite sensors_canon_type. destruct (sensor_type_is ty r); cbn [map]; rewrite IH; [|reflexivity].
    f_equal. apply key1_canon; [apply (fk_of_ok FSensors)|cbn; lia].
  Qed.

  (* ---------------------------------------------------------------- a table part through save / load *)
  Lemma roundtrip_tab f ids (rows : table) :
    table_wf O (fk_of f) rows = true ->
    (match ids with None => True | Some l => forall r, In r rows -> In (dev_of O (fk_of f) r) l end) ->
    fk_key (fk_of f) <> 0 ->
    read_table O (fk_of f) ids (save_table O (fk_of f) rows) = Ok (canon_table O (fk_of f) rows).
  Proof.
    intros W C NZ. destruct (table_wf_inv _ _ W) as [HW HN].
    apply (table_roundtrip O OK (fk_of f) (fk_of_ok f)); [exact HW|exact HN|].
    destruct ids as [l|]; [|exact I]. cbn. intros r' I. destruct (in_canon_table _ _ _ I) as [r [Ir ->]].
    rewrite (dev_of_canon O (fk_of f) (fk_of_ok f)) by exact NZ. apply C, Ir.
  Qed.

  (* ---------------------------------------------------------------- rigs *)
  Lemma read_rigs_save sids (rows : table) :
    table_wf O fk_rigs rows = true ->
    (forall r, In r rows -> ~ In (key1 O r) sids /\
                            (In (dev_of O fk_rigs r) sids \/ In (dev_of O fk_rigs r) (map (key1 O) rows))) ->
    read_rigs O sids (save_table O fk_rigs rows) = Ok (canon_table O fk_rigs rows, map (key1 O) rows).
  Proof.
    intros W R. destruct (table_wf_inv _ _ W) as [HW HN]. pose proof (fk_of_ok FRigs) as FK. cbn [fk_of] in FK.
    unfold read_rigs. rewrite (save_table_lexed O OK fk_rigs FK rows HW).
    rewrite (read_rows_enc O OK fk_rigs _ (rows_wf_sorted O fk_rigs rows HW)).
    change (map (canon_row O (fk_schema fk_rigs)) (sort_rows O fk_rigs rows)) with (canon_table O fk_rigs rows).
    assert (K1 : forall r, key1 O (canon_row O (fk_schema fk_rigs) r) = key1 O r)
      by (intro r; apply key1_canon; [exact FK|cbn; lia]).
    assert (D1 : forall r, dev_of O fk_rigs (canon_row O (fk_schema fk_rigs) r) = dev_of O fk_rigs r)
      by (intro r; apply (dev_of_canon O fk_rigs FK); cbn; lia).
    assert (E : existsb (fun r => tmem (key1 O r) sids) (canon_table O fk_rigs rows) = false).
    { destruct (existsb _ _) eqn:X; [|reflexivity]. apply existsb_exists in X. destruct X as [r' [I T]].
      destruct (in_canon_table _ _ _ I) as [r [Ir ->]]. rewrite K1 in T. apply tmem_In in T.
      exfalso. apply (proj1 (R r Ir)), T. }
    rewrite E. rewrite (of_rows_nodup O) by (apply (keys_nodup_canon O OK fk_rigs FK), HN).
    assert (IDS : map (key1 O) (canon_table O fk_rigs rows) = map (key1 O) rows).
    { unfold canon_table. rewrite sort_rows_0 by reflexivity. rewrite map_map. apply map_ext, K1. }
    rewrite IDS. f_equal. f_equal.
    assert (ALL : forall r', In r' (canon_table O fk_rigs rows) ->
                   tmem (dev_of O fk_rigs r') sids || tmem (dev_of O fk_rigs r') (map (key1 O) rows) = true).
    { intros r' I. destruct (in_canon_table _ _ _ I) as [r [Ir ->]]. rewrite D1. apply orb_true_iff.
      destruct (proj2 (R r Ir)) as [H|H]; [left|right]; apply tmem_In, H. }
    revert ALL. generalize (canon_table O fk_rigs rows). intro l. induction l as [|x l IH]; intro ALL; [reflexivity|].
    cbn. rewrite (ALL x (or_introl eq_refl)). f_equal. apply IH. intros y I. apply ALL. right. exact I.
  Qed.

  (* the rigs reader keeps a member iff it is a declared sensor or the id of ANY rig of the file, wherever
     the rows of that rig stand: nested rigs load the same parent-first, child-first or shuffled *)
  Theorem read_rigs_members sids t (rs : table) :
    read_rows O fk_rigs (table_of_text t) = Ok rs -> keys_nodup O 2 rs = true ->
    (forall r, In r rs -> ~ In (key1 O r) sids) ->
    exists tb, read_rigs O sids t = Ok (tb, map (key1 O) rs) /\
               forall r, In r tb <-> In r rs /\ (In (dev_of O fk_rigs r) sids \/ In (dev_of O fk_rigs r) (map (key1 O) rs)).
  Proof.
    intros H N C. unfold read_rigs. rewrite H.
    assert (E : existsb (fun r => tmem (key1 O r) sids) rs = false).
    { destruct (existsb _ rs) eqn:X; [|reflexivity]. apply existsb_exists in X. destruct X as [r [I T]].
      apply tmem_In in T. exfalso. exact (C r I T). }
    rewrite E, (of_rows_nodup O false 2 rs N). eexists. split; [reflexivity|].
    intro r. rewrite filter_In, orb_true_iff, !tmem_In. tauto.
  Qed.

  (* ---------------------------------------------------------------- feature descriptor files *)
  Lemma canon_row_id sch (r : row) : forallb no_canon_ty (s_fixed sch) = true -> s_group sch = [] ->
    row_wf O sch r = true -> canon_row O sch r = r.
  Proof.
    intros P G W. apply (row_wf_inv O) in W. destruct W as [L _]. unfold canon_row, row_types, types_for in *.
    rewrite G in *. cbn [tail_types] in *. rewrite app_nil_r in *. revert r L.
    induction (s_fixed sch) as [|ty tys IH]; intros [|c r] L; cbn in *; try discriminate; [reflexivity|].
    rewrite andb_true_iff in P. destruct P as [P1 P2]. rewrite (IH P2 r) by lia. f_equal.
    destruct ty, c; try discriminate; reflexivity.
  Qed.

  Lemma cfg_canon k (cfg : row) : row_wf O (fk_schema (fk_feat k)) cfg = true ->
    canon_row O (fk_schema (fk_feat k)) cfg = cfg.
  Proof.
    intro W. destruct (fk_feat_ok k) as [_ P]. unfold cfg_plain in P. rewrite andb_true_iff in P. destruct P as [P G].
    apply canon_row_id; [exact P| |exact W]. destruct (s_group (fk_schema (fk_feat k))); [reflexivity|discriminate].
  Qed.

  Lemma cfg_rows_wf k (cfg : row) : row_wf O (fk_schema (fk_feat k)) cfg = true -> rows_wf O (fk_feat k) [cfg].
  Proof. intro W. constructor; [|constructor]. split; [exact W|]. destruct k; reflexivity. Qed.

  Lemma cfg_lexed k (cfg : row) : row_wf O (fk_schema (fk_feat k)) cfg = true ->
    table_of_text (save_table O (fk_feat k) [cfg]) = [enc_row O (fk_schema (fk_feat k)) cfg].
  Proof.
    intro W. rewrite (save_table_lexed O OK (fk_feat k) (proj1 (fk_feat_ok k)) [cfg] (cfg_rows_wf k cfg W)).
    rewrite sort_rows_0 by (destruct k; reflexivity). reflexivity.
  Qed.

  Theorem read_config_save k (cfg : row) : row_wf O (fk_schema (fk_feat k)) cfg = true ->
    read_config O k (save_table O (fk_feat k) [cfg]) = Ok cfg.
  Proof.
    intro W. unfold read_config. rewrite (cfg_lexed k cfg W), (read_enc_row O OK false _ cfg W), (cfg_canon k cfg W).
    reflexivity.
  Qed.

  Theorem cfg_writer_conforms k (cfg : row) : row_wf O (fk_schema (fk_feat k)) cfg = true ->
    spec_read O (fk_schema (fk_feat k)) (save_table O (fk_feat k) [cfg]) = Ok [cfg].
  Proof.
    intro W. rewrite (writer_conforms O OK (fk_feat k) (proj1 (fk_feat_ok k)) [cfg] (cfg_rows_wf k cfg W)).
    unfold canon_table. rewrite sort_rows_0 by (destruct k; reflexivity). cbn [map]. rewrite (cfg_canon k cfg W). reflexivity.
  Qed.

  (* ---------------------------------------------------------------- points3d.txt *)
  Lemma pad_fields_nil fs : pad_fields [] fs = fs.
  Proof. induction fs as [|f fs IH]; cbn; [reflexivity|]. rewrite IH. reflexivity. Qed.

  Definition p3d_rows_wf w (rows : table) : Prop :=
    Forall (fun r => List.length r = w /\ row_wf O (p3d_schema w) r = true) rows.

  Lemma p3d_wf_inv (p : nat * table) : p3d_wf O p = true ->
    (fst p = 3 \/ fst p = 6) /\ p3d_rows_wf (fst p) (snd p).
  Proof.
    unfold p3d_wf. rewrite andb_true_iff, orb_true_iff, !Nat.eqb_eq. intros [W H]. split; [exact W|].
    unfold p3d_rows_wf. rewrite Forall_forall. rewrite forallb_forall in H. intros r I. specialize (H r I).
    rewrite andb_true_iff, Nat.eqb_eq in H. exact H.
  Qed.

  Lemma save_p3d_file2 w (rows : table) :
    save_p3d O (w, rows) = file2 (fun fs => join [COMMA] (pad_fields [] fs)) p3d_line1 (p3d_line2 w)
                                 (map (enc_row O (p3d_schema w)) rows).
  Proof. reflexivity. Qed.

  Lemma p3d_enc_rows_ok w (rows : table) : 2 <= w -> p3d_rows_wf w rows ->
    rows_ok (map (enc_row O (p3d_schema w)) rows).
  Proof.
    intros L H. unfold rows_ok. induction H as [|r rows [Hl Hr] _ IH]; cbn [map]; constructor; [|exact IH].
    split; [apply (enc_row_clean O OK), Hr|]. split; [rewrite (enc_row_length O _ r Hr); lia|].
    apply (enc_row_first_nohash O OK), Hr.
  Qed.

  Lemma p3d_lines_ok w : w = 3 \/ w = 6 -> hdr_ok p3d_line1 = true /\ hdr_ok (p3d_line2 w) = true.
  Proof.
    pose proof p3d_ok as H. unfold p3d_hdr_ok in H. rewrite !andb_true_iff in H. intros [->| ->]; tauto.
  Qed.

  Lemma save_p3d_lexed w (rows : table) : w = 3 \/ w = 6 -> p3d_rows_wf w rows ->
    table_of_text (save_p3d O (w, rows)) = map (enc_row O (p3d_schema w)) rows.
  Proof.
    intros Hw H. rewrite save_p3d_file2. destruct (p3d_lines_ok w Hw) as [H1 H2].
    apply (file2_lexed plain_lay); auto.
    - intros fs _. rewrite pad_fields_nil. symmetry. apply render_plain_lay.
    - apply plain_lay_fields.
    - apply plain_lay_row_ok.
    - apply p3d_enc_rows_ok; [destruct Hw; lia|exact H].
  Qed.

  Lemma save_p3d_lines w (rows : table) : w = 3 \/ w = 6 ->
    exists rest, lines (save_p3d O (w, rows)) = p3d_line1 :: p3d_line2 w :: rest.
  Proof.
    intro Hw. rewrite save_p3d_file2. destruct (p3d_lines_ok w Hw) as [H1 H2]. apply file2_lines; assumption.
  Qed.

  Lemma save_p3d_expected w (rows : table) : w = 3 \/ w = 6 ->
    p3d_expected false (save_p3d O (w, rows)) = Some w.
  Proof.
    intro Hw. destruct (save_p3d_lines w rows Hw) as [rest E]. unfold p3d_expected, nth_line. rewrite E. cbn [nth].
    pose proof p3d_ok as H. unfold p3d_hdr_ok in H. rewrite !andb_true_iff, !negb_true_iff in H.
    destruct H as [[[[[[[[_ _] _] _] N1] X3] R3] X6] R6]. rewrite N1. unfold width_of_line.
    destruct Hw as [-> | ->]; [rewrite X3, R3|rewrite X6, R6]; reflexivity.
  Qed.

  Lemma read_float_rows_enc w (rows : table) : p3d_rows_wf w rows ->
    read_float_rows O w (map (enc_row O (p3d_schema w)) rows) = Ok (map (canon_row O (p3d_schema w)) rows).
  Proof.
    intro H. induction H as [|r rows [_ Hr] _ IH]; [reflexivity|]. cbn [map read_float_rows].
    rewrite (read_enc_row O OK false _ r Hr), IH. reflexivity.
  Qed.

  (* C01 for the point cloud: the header line selects the width, also for an empty cloud *)
  Theorem read_p3d_save (p : nat * table) : p3d_wf O p = true ->
    read_p3d O (save_p3d O p) = Ok (fst p, map (canon_row O (p3d_schema (fst p))) (snd p)).
  Proof.
    intro W. destruct (p3d_wf_inv p W) as [Hw H]. destruct p as [w rows]. cbn [fst snd] in *.
    unfold read_p3d, read_p3d_gen. rewrite (save_p3d_lexed w rows Hw H), (save_p3d_expected w rows Hw).
    destruct rows as [|r rows]; [reflexivity|]. cbn [map].
    inversion H as [|x l [Hl Hr] Hrest]; subst. rewrite (enc_row_length O _ r Hr), Nat.eqb_refl.
    change (enc_row O (p3d_schema (List.length r)) r :: map (enc_row O (p3d_schema (List.length r))) rows)
      with (map (enc_row O (p3d_schema (List.length r))) (r :: rows)).
    rewrite (read_float_rows_enc _ _ H). reflexivity.
  Qed.

  Lemma spec_p3d_schema w : spec_schema_of (p3d_schema w) = p3d_schema w.
  Proof.
    unfold spec_schema_of, p3d_schema, mk_schema. cbn. f_equal. induction w; cbn; [reflexivity|]. rewrite IHw. reflexivity.
  Qed.

  (* C02 for the point cloud: the written file is valid and announces its width *)
  Theorem p3d_writer_conforms (p : nat * table) : p3d_wf O p = true ->
    spec_read O (p3d_schema (fst p)) (save_p3d O p) = Ok (map (canon_row O (p3d_schema (fst p))) (snd p)) /\
    p3d_expected false (save_p3d O p) = Some (fst p).
  Proof.
    intro W. destruct (p3d_wf_inv p W) as [Hw H]. destruct p as [w rows]. cbn [fst snd] in *.
    split; [|apply save_p3d_expected, Hw].
    unfold spec_read. destruct (save_p3d_lines w rows Hw) as [rest E]. unfold version_first. rewrite E.
    pose proof p3d_ok as P. unfold p3d_hdr_ok in P. rewrite !andb_true_iff in P.
    destruct P as [[[[[[[[_ _] _] PV] _] _] _] _] _]. rewrite PV.
    rewrite (save_p3d_lexed w rows Hw H), spec_p3d_schema.
    clear E W. induction H as [|r rows' [_ Hr] _ IH]; [reflexivity|]. cbn [map spec_rows].
    rewrite (read_enc_row O OK false _ r Hr), IH. reflexivity.
  Qed.

  Lemma resave_p3d (p : nat * table) : p3d_wf O p = true ->
    save_p3d O (fst p, map (canon_row O (p3d_schema (fst p))) (snd p)) = save_p3d O p.
  Proof.
    intro W. destruct (p3d_wf_inv p W) as [_ H]. destruct p as [w rows]. cbn [fst snd] in *.
    assert (E : map (enc_row O (p3d_schema w)) (map (canon_row O (p3d_schema w)) rows) = map (enc_row O (p3d_schema w)) rows).
    { clear W. rewrite map_map. induction H as [|r rows' [_ Hr] _ IH]; [reflexivity|].
      cbn [map]. rewrite (enc_canon_row O OK _ r Hr), IH. reflexivity. }
    unfold save_p3d. rewrite E. reflexivity.
  Qed.


  (* C02 for the point cloud, reader side: every conformant layout (the column comment on the second line) *)
  Lemma spec_rows_float_rows w fields (rows : table) :
    spec_rows O (p3d_schema w) fields = Ok rows -> read_float_rows O w fields = Ok rows.
  Proof.
    revert rows; induction fields as [|fs fields IH]; intros rows; cbn; [auto|].
    destruct (read_row O false (p3d_schema w) fs); [|discriminate].
    destruct (spec_rows O (p3d_schema w) fields) as [rs|]; [|discriminate]. rewrite (IH rs eq_refl). auto.
  Qed.

  Lemma read_row_p3d_len w fs (r : row) : read_row O false (p3d_schema w) fs = Some r -> List.length fs = w.
  Proof.
    unfold read_row, types_for, p3d_schema, mk_schema. cbn [s_fixed s_group tail_types andb]. rewrite app_nil_r, repeat_length.
    destruct (Nat.eqb_spec w (List.length fs)); [auto|discriminate].
  Qed.

  Theorem p3d_reader_layouts w b1 e1 b2 e2 (items : list item) (rows : table) :
    w = 3 \/ w = 6 -> HASH :: b1 = p3d_line1 -> HASH :: b2 = p3d_line2 w ->
    forallb item_ok items = true ->
    spec_rows O (p3d_schema w) (items_rows items) = Ok rows ->
    read_p3d O (render_items (IComment b1 e1 :: IComment b2 e2 :: items)) = Ok (w, rows).
  Proof.
    intros Hw E1 E2 H SR. destruct (p3d_lines_ok w Hw) as [H1 H2]. rewrite <- E1 in H1. rewrite <- E2 in H2.
    assert (N1 : no_nl b1 = true) by (destruct (hdr_ok_inv _ H1) as [b [[= <-] N]]; exact N).
    assert (N2 : no_nl b2 = true) by (destruct (hdr_ok_inv _ H2) as [b [[= <-] N]]; exact N).
    assert (OKI : forallb item_ok (IComment b1 e1 :: IComment b2 e2 :: items) = true) by (cbn; rewrite N1, N2, H; reflexivity).
    unfold read_p3d, read_p3d_gen. rewrite (table_of_rendering _ OKI).
    change (items_rows (IComment b1 e1 :: IComment b2 e2 :: items)) with (items_rows items).
    assert (EX : p3d_expected false (render_items (IComment b1 e1 :: IComment b2 e2 :: items)) = Some w).
    { unfold p3d_expected, nth_line. rewrite !render_items_cons. cbn [render_item].
      change (HASH :: b1 ++ eol_txt e1) with ((HASH :: b1) ++ eol_txt e1).
      change (HASH :: b2 ++ eol_txt e2) with ((HASH :: b2) ++ eol_txt e2). rewrite <- !app_assoc.
      rewrite lines_app_eol by (cbn; exact N1). rewrite lines_app_eol by (cbn; exact N2). cbn [nth].
      rewrite E1, E2. pose proof p3d_ok as P. unfold p3d_hdr_ok in P. rewrite !andb_true_iff, !negb_true_iff in P.
      destruct P as [[[[[[[[_ _] _] _] NX] X3] R3] X6] R6]. rewrite NX. unfold width_of_line.
      destruct Hw as [-> | ->]; [rewrite X3, R3|rewrite X6, R6]; reflexivity. }
    rewrite EX. destruct (items_rows items) as [|fs fields] eqn:EF.
    - cbn in SR. injection SR as <-. reflexivity.
    - assert (L : List.length fs = w).
      { cbn in SR. destruct (read_row O false (p3d_schema w) fs) eqn:ER; [|discriminate]. apply (read_row_p3d_len _ _ _ ER). }
      rewrite L, Nat.eqb_refl. rewrite (spec_rows_float_rows w _ rows SR). reflexivity.
  Qed.

  (* ================================================================ the whole dataset *)
  Definition images_equiv (a b : list txt) : Prop := forall i, In i a <-> In i b.
  Definition featset_equiv (a b : featset O) : Prop :=
    fs_key O a = fs_key O b /\ fs_cfg O a = fs_cfg O b /\ images_equiv (fs_images O a) (fs_images O b).
  Definition feats_equiv (a b : option (list (featset O))) : Prop :=
    match a, b with
    | None, None => True
    | Some l1, Some l2 => Forall2 featset_equiv l1 l2
    | _, _ => False
    end.
  Definition pairs_equiv (a b : txt * list (txt * txt)) : Prop :=
    fst a = fst b /\ forall p, In p (snd a) <-> In p (snd b).
  Definition matches_equiv (a b : option (list (txt * list (txt * txt)))) : Prop :=
    match a, b with
    | None, None => True
    | Some l1, Some l2 => Forall2 pairs_equiv l1 l2
    | _, _ => False
    end.
  (* equality of datasets as the property understands it: tables (already in canonical order) and the
     point cloud are equal; image sets and match sets have the same members *)
  Definition ds_equiv (a b : dataset O) : Prop :=
    (forall f, d_tab O a f = d_tab O b f) /\ d_p3d O a = d_p3d O b /\
    (forall k, feats_equiv (d_feat O a k) (d_feat O b k)) /\ matches_equiv (d_matches O a) (d_matches O b).

  Section Load.
    Variable d : dataset O.
    Hypothesis WF : wf O d = true.

    Lemma wf_parts :
      deps_ok O d = true /\
      (forall f rows, d_tab O d f = Some rows -> table_wf O (fk_of f) rows = true) /\
      (forall k l, d_feat O d k = Some l -> feat_wf O k l = true) /\
      (forall l, d_matches O d = Some l -> matches_wf O true l = true) /\
      (forall p, d_p3d O d = Some p -> p3d_wf O p = true) /\
      refs_ok O d = true.
    Proof.
      unfold wf, wf_gen in WF. rewrite !andb_true_iff in WF. destruct WF as [[[[[D T] Fe] M] P] R].
      split; [exact D|]. split; [|split; [|split; [|split; [|exact R]]]].
      - intros f rows E. rewrite forallb_forall in T. specialize (T f (all_tfiles_complete f)). rewrite E in T. exact T.
      - intros k l E. rewrite forallb_forall in Fe. specialize (Fe k (all_featkinds_complete k)). rewrite E in Fe. exact Fe.
      - intros l E. rewrite E in M. exact M.
      - intros p E. rewrite E in P. exact P.
    Qed.

    Let sensors := tab_or_nil O d FSensors.
    Let sids := map (key1 O) sensors.
    Let rigs := tab_or_nil O d FRigs.
    Let rig_ids := map (key1 O) rigs.
    Let imgs := cam_images O (d_tab O d (FRec RCamera)).

    Lemma refs_parts :
      (forall r, In r rigs -> ~ In (key1 O r) sids /\ (In (dev_of O fk_rigs r) sids \/ In (dev_of O fk_rigs r) rig_ids)) /\
      (forall r, In r (tab_or_nil O d FTraj) -> In (dev_of O fk_traj r) (sids ++ rig_ids)) /\
      (forall k r, In r (tab_or_nil O d (FRec k)) ->
                   In (dev_of O (fk_rec k) r) (ids_of_type O (rec_sensor_type k) sensors)) /\
      (forall k l s i, d_feat O d k = Some l -> In s l -> In i (fs_images O s) -> In i imgs) /\
      (forall l e p, d_matches O d = Some l -> In e l -> In p (snd e) -> In (fst p) imgs /\ In (snd p) imgs).
    Proof.
      destruct wf_parts as [_ [_ [_ [_ [_ R]]]]]. unfold refs_ok in R.
      fold sensors sids rigs rig_ids imgs in R. rewrite !andb_true_iff in R.
      destruct R as [[[[[R1 R2] R3] R4] R5] _].
      split; [|split; [|split; [|split]]].
      - intros r I. rewrite forallb_forall in R1. specialize (R1 r I).
        rewrite andb_true_iff, negb_true_iff, orb_true_iff in R1. destruct R1 as [A B]. split.
        + intro X. apply tmem_In in X. congruence.
        + rewrite <- !tmem_In. exact B.
      - intros r I. rewrite forallb_forall in R2. apply tmem_In, R2, I.
      - intros k r I. rewrite forallb_forall in R3.
        assert (Ik : In k all_reckinds) by (destruct k; cbn; tauto).
        specialize (R3 k Ik). rewrite forallb_forall in R3. apply tmem_In, R3, I.
      - intros k l s i E Is Ii. rewrite forallb_forall in R4. specialize (R4 k (all_featkinds_complete k)).
        rewrite E in R4. rewrite forallb_forall in R4. specialize (R4 s Is). rewrite forallb_forall in R4.
        apply tmem_In, R4, Ii.
      - intros l e p E Ie Ip. rewrite E in R5. rewrite forallb_forall in R5. specialize (R5 e Ie).
        rewrite forallb_forall in R5. specialize (R5 p Ip). rewrite andb_true_iff, !tmem_In in R5. exact R5.
    Qed.

    Lemma sensors_present : exists srows, d_tab O d FSensors = Some srows.
    Proof.
      destruct wf_parts as [D _]. unfold deps_ok in D. rewrite !andb_true_iff in D. destruct D as [[D _] _].
      destruct (d_tab O d FSensors) as [s|]; [exists s; reflexivity|discriminate].
    Qed.

    Lemma tab_or_nil_some f rows : d_tab O d f = Some rows -> tab_or_nil O d f = rows.
    Proof. unfold tab_or_nil. intros ->. reflexivity. Qed.

    Lemma fk_key_nz f : fk_key (fk_of f) <> 0.
    Proof. destruct f as [| | |k|]; try destruct k; cbn; discriminate. Qed.

    (* ---- each step of kapture_from_dir on the saved tree *)
    Lemma step_sensors srows : d_tab O d FSensors = Some srows ->
      t_tab (save O d) FSensors = Some (save_table O fk_sensors srows) /\
      version_first (save_table O fk_sensors srows) = true /\
      read_table O fk_sensors None (save_table O fk_sensors srows) = Ok (canon_table O fk_sensors srows).
    Proof.
      intro E. split; [cbn [save t_tab]; rewrite E; reflexivity|]. split.
      - apply (save_table_version_first O fk_sensors (fk_of_ok FSensors)).
      - destruct wf_parts as [_ [T _]]. apply (roundtrip_tab FSensors None srows (T _ _ E) I). cbn. discriminate.
    Qed.

    Lemma step_rigs srows : d_tab O d FSensors = Some srows ->
      load_rigs O (save O d) (map (key1 O) (canon_table O fk_sensors srows)) =
      Ok (option_map (canon_table O fk_rigs) (d_tab O d FRigs), rig_ids).
    Proof.
      intro E. rewrite sids_canon. unfold load_rigs. cbn [save t_tab]. unfold rig_ids, rigs, tab_or_nil.
      destruct (d_tab O d FRigs) as [rrows|] eqn:ER; cbn [option_map]; [|reflexivity].
      destruct wf_parts as [_ [T _]]. destruct refs_parts as [R1 _].
      unfold rig_ids, rigs, sids, sensors, tab_or_nil in R1. rewrite ER, E in R1.
      change (fk_of FRigs) with fk_rigs. rewrite (read_rigs_save _ rrows (T _ _ ER) R1). reflexivity.
    Qed.

    Lemma step_rec srows k : d_tab O d FSensors = Some srows ->
      load_rec O false (save O d) (canon_table O fk_sensors srows) k =
      Ok (option_map (canon_table O (fk_rec k)) (d_tab O d (FRec k))).
    Proof.
      intro E. unfold load_rec. cbn [save t_tab]. destruct (d_tab O d (FRec k)) as [rows|] eqn:ER; cbn [option_map opt_bind]; [|reflexivity].
      cbn [andb]. rewrite ids_of_type_canon.
      destruct wf_parts as [_ [T _]]. destruct refs_parts as [_ [_ [R3 _]]].
      change (fk_rec k) with (fk_of (FRec k)).
      rewrite (roundtrip_tab (FRec k) _ rows (T _ _ ER)); [reflexivity| |apply fk_key_nz].
      intros r I. specialize (R3 k r). unfold sensors in R3. rewrite (tab_or_nil_some _ _ ER), (tab_or_nil_some _ _ E) in R3.
      apply R3, I.
    Qed.

    Lemma step_traj srows : d_tab O d FSensors = Some srows ->
      load_traj O (save O d) (map (key1 O) (canon_table O fk_sensors srows) ++ rig_ids) =
      Ok (option_map (canon_table O fk_traj) (d_tab O d FTraj)).
    Proof.
      intro E. rewrite sids_canon. unfold load_traj. cbn [save t_tab].
      destruct (d_tab O d FTraj) as [rows|] eqn:ER; cbn [option_map opt_bind]; [|reflexivity].
      destruct wf_parts as [_ [T _]]. destruct refs_parts as [_ [R2 _]].
      change fk_traj with (fk_of FTraj).
      rewrite (roundtrip_tab FTraj _ rows (T _ _ ER)); [reflexivity| |apply fk_key_nz].
      intros r I. specialize (R2 r). unfold sids, sensors in R2. rewrite (tab_or_nil_some _ _ ER), (tab_or_nil_some _ _ E) in R2.
      apply R2, I.
    Qed.

    Lemma step_p3d :
      load_p3d O false (save O d) =
      Ok (option_map (fun p => (fst p, map (canon_row O (p3d_schema (fst p))) (snd p))) (d_p3d O d)).
    Proof.
      unfold load_p3d. cbn [save t_p3d]. destruct (d_p3d O d) as [p|] eqn:E; cbn [option_map]; [|reflexivity].
      destruct wf_parts as [_ [_ [_ [_ [P _]]]]]. fold (read_p3d O (save_p3d O p)). rewrite (read_p3d_save p (P _ E)). reflexivity.
    Qed.

    (* images of the canonical camera records = images of the camera records *)
    Lemma cam_images_canon i :
      In i (cam_images O (option_map (canon_table O (fk_rec RCamera)) (d_tab O d (FRec RCamera)))) <-> In i imgs.
    Proof.
      unfold imgs. destruct (d_tab O d (FRec RCamera)) as [rows|]; cbn [option_map cam_images]; [|tauto].
      assert (NE : forall (l : row) n, nth n l CNone = match nth_error l n with Some x => x | None => CNone end).
      { induction l as [|x l IHl]; intros [|n]; cbn; auto. }
      assert (N : forall r : row, nth 2 (canon_row O (fk_schema (fk_rec RCamera)) r) CNone = nth 2 r CNone).
      { intro r. rewrite !NE. unfold canon_row, row_types, types_for. cbn [fk_schema fk_rec fk_recfile mk_schema s_fixed s_group].
        rewrite (canon_nth _ r 2 TStr); reflexivity. }
      split; intro I; apply in_map_iff in I; destruct I as [r [<- I]].
      - destruct (in_canon_table _ _ _ I) as [r0 [I0 ->]]. rewrite N. apply in_map_iff. exists r0. split; [reflexivity|exact I0].
      - apply in_map_iff. exists (canon_row O (fk_schema (fk_rec RCamera)) r). split; [rewrite N; reflexivity|].
        apply in_canon_table_rev, I.
    Qed.

    Lemma cams_some_iff : is_some (option_map (canon_table O (fk_rec RCamera)) (d_tab O d (FRec RCamera))) =
                          is_some (d_tab O d (FRec RCamera)).
    Proof. destruct (d_tab O d (FRec RCamera)); reflexivity. Qed.

    Let cams' := option_map (canon_table O (fk_rec RCamera)) (d_tab O d (FRec RCamera)).

    Lemma step_feat_list k (l : list (featset O)) :
      (forall s, In s l -> row_wf O (fk_schema (fk_feat k)) (fs_cfg O s) = true) ->
      load_feat_list O (save O d) k (cam_images O cams')
                     (map (fun s => (fs_key O s, save_table O (fk_feat k) [fs_cfg O s])) l) =
      Ok (map (fun s => {| fs_key := fs_key O s; fs_cfg := fs_cfg O s;
                           fs_images := List.filter (has_featfile (save O d) k (fs_key O s)) (cam_images O cams') |}) l).
    Proof.
      induction l as [|s l IH]; intro H; [reflexivity|]. cbn [map load_feat_list].
      rewrite (read_config_save k (fs_cfg O s)) by (apply H; left; reflexivity).
      rewrite IH by (intros s' I; apply H; right; exact I). reflexivity.
    Qed.

    Lemma has_featfile_save k l key i : d_feat O d k = Some l ->
      has_featfile (save O d) k key i = true <-> exists s, In s l /\ fs_key O s = key /\ In i (fs_images O s).
    Proof.
      intro E. unfold has_featfile. cbn [save t_featfiles]. rewrite E, existsb_exists. split.
      - intros [p [I T]]. rewrite andb_true_iff, !txt_eqb_eq in T. destruct T as [T1 T2].
        apply in_flat_map in I. destruct I as [s [Is Ip]]. apply in_map_iff in Ip. destruct Ip as [i' [<- Ii]].
        cbn in T1, T2. subst. exists s. tauto.
      - intros [s [Is [<- Ii]]]. exists (fs_key O s, i). split; [|cbn; rewrite !txt_eqb_refl; reflexivity].
        apply in_flat_map. exists s. split; [exact Is|]. apply in_map_iff. exists i. tauto.
    Qed.

    Lemma nodup_txt l : nodup_by txt_eqb l = true <-> NoDup l.
    Proof.
      rewrite (nodup_by_NoDup txt_eqb (fun x => x) l); [rewrite map_id; tauto|]. intros x y. apply txt_eqb_eq.
    Qed.

    Lemma step_feat k :
      exists r, load_feat O (save O d) cams' k = Ok r /\ feats_equiv r (d_feat O d k).
    Proof.
      unfold load_feat. cbn [save t_cfg]. destruct (d_feat O d k) as [l|] eqn:E; [|exists None; split; [reflexivity|exact I]].
      destruct wf_parts as [D [_ [Fw _]]]. specialize (Fw k l E). unfold feat_wf in Fw. rewrite !andb_true_iff in Fw.
      destruct Fw as [[NE ND] Fa]. destruct l as [|s0 l0]; [discriminate|].
      assert (CAM : exists c, cams' = Some c).
      { unfold deps_ok in D. rewrite !andb_true_iff in D. destruct D as [[_ D] _]. rewrite orb_true_iff in D.
        destruct D as [D|D].
        - unfold cams'. destruct (d_tab O d (FRec RCamera)) as [c|]; [eexists; reflexivity|discriminate].
        - exfalso. rewrite negb_true_iff, orb_false_iff in D. destruct D as [D _].
          assert (X : existsb (fun k => is_some (d_feat O d k)) all_featkinds = true).
          { apply existsb_exists. exists k. split; [apply all_featkinds_complete|rewrite E; reflexivity]. }
          congruence. }
      destruct CAM as [c Ec]. cbn [map]. rewrite Ec. rewrite <- Ec.
      change ((fs_key O s0, save_table O (fk_feat k) [fs_cfg O s0]) :: map (fun s => (fs_key O s, save_table O (fk_feat k) [fs_cfg O s])) l0)
        with (map (fun s => (fs_key O s, save_table O (fk_feat k) [fs_cfg O s])) (s0 :: l0)).
      rewrite step_feat_list.
      - eexists. split; [reflexivity|]. cbn [feats_equiv].
        rewrite forallb_forall in Fa. apply (nodup_txt (map (fs_key O) (s0 :: l0))) in ND.
        assert (G : forall l', (forall s, In s l' -> In s (s0 :: l0)) ->
                    Forall2 featset_equiv
                      (map (fun s => {| fs_key := fs_key O s; fs_cfg := fs_cfg O s;
                                        fs_images := List.filter (has_featfile (save O d) k (fs_key O s)) (cam_images O cams') |}) l') l').
        { induction l' as [|s l' IH]; intro Sub; cbn [map]; constructor.
          - split; [reflexivity|]. split; [reflexivity|]. intro i. cbn [fs_images]. rewrite filter_In.
            rewrite (has_featfile_save k _ _ _ E). unfold cams'. rewrite cam_images_canon. split.
            + intros [_ [s' [Is' [Ek Ii]]]].
              assert (s' = s).
              { clear -ND Is' Ek Sub. assert (Is : In s (s0 :: l0)) by (apply Sub; left; reflexivity).
                revert ND Is' Is Ek. generalize (s0 :: l0). intro L. induction L as [|x L IHL]; [intros _ []|].
                cbn [map]. intros ND [->|I1] [->|I2] Ek; auto.
                - exfalso. inversion ND as [|? ? N _]; subst. apply N. rewrite Ek. apply in_map, I2.
                - exfalso. inversion ND as [|? ? N _]; subst. apply N. rewrite <- Ek. apply in_map, I1.
                - inversion ND; subst. apply IHL; assumption. }
              subst. exact Ii.
            + intro Ii. split.
              * destruct refs_parts as [_ [_ [_ [R4 _]]]]. apply (R4 k _ s i E); [apply Sub; left; reflexivity|exact Ii].
              * exists s. split; [apply Sub; left; reflexivity|]. tauto.
          - apply IH. intros s' I'. apply Sub. right. exact I'. }
        apply G. auto.
      - intros s Is. rewrite forallb_forall in Fa. specialize (Fa s Is). rewrite !andb_true_iff in Fa. tauto.
    Qed.

    (* on match files whose image paths are normalised the code as it is keeps every pair in its own spelling *)
    Lemma match_pairs_normalised (t : tree) ims kt :
      (forall e, In e (t_matchfiles t) -> pair_normalised O (snd e) = true) ->
      match_pairs O t ims kt = match_pairs_ideal t ims kt.
    Proof.
      unfold match_pairs, match_pairs_ideal. induction (t_matchfiles t) as [|e l IH]; intro H; [reflexivity|].
      assert (He : pair_normalised O (snd e) = true) by (apply H; left; reflexivity).
      unfold pair_normalised in He. rewrite andb_true_iff, !txt_eqb_eq in He. destruct He as [H1 H2].
      cbn [List.filter]. rewrite H1, H2.
      destruct (txt_eqb (fst e) kt && tmem (fst (snd e)) ims && tmem (snd (snd e)) ims).
      - cbn [map]. rewrite H1, H2, IH by (intros x I; apply H; right; exact I). destruct (snd e); reflexivity.
      - apply IH. intros x I. apply H. right. exact I.
    Qed.

    Lemma step_matches :
      exists r, load_matches O false (save O d) cams' = Ok r /\ matches_equiv r (d_matches O d).
    Proof.
      unfold load_matches. cbn [save t_matchdirs]. destruct (d_matches O d) as [l|] eqn:E; [|exists None; split; [reflexivity|exact I]].
      destruct wf_parts as [D [_ [_ [Mw _]]]]. specialize (Mw l E). unfold matches_wf in Mw. rewrite !andb_true_iff in Mw.
      destruct Mw as [[NE ND] NORM]. cbn [negb orb] in NORM. destruct l as [|e0 l0]; [discriminate|].
      assert (MPN : forall ims kt, match_pairs O (save O d) ims kt = match_pairs_ideal (save O d) ims kt).
      { intros ims kt. apply match_pairs_normalised. intros e Ie. cbn [save t_matchfiles] in Ie. rewrite E in Ie.
        apply in_flat_map in Ie. destruct Ie as [e' [Ie' Ip]]. apply in_map_iff in Ip. destruct Ip as [q [<- Iq]]. cbn [snd].
        rewrite forallb_forall in NORM. specialize (NORM e' Ie'). rewrite forallb_forall in NORM. apply NORM, Iq. }
      assert (CAM : exists c, cams' = Some c).
      { unfold deps_ok in D. rewrite !andb_true_iff in D. destruct D as [[_ D] _]. rewrite orb_true_iff in D.
        destruct D as [D|D].
        - unfold cams'. destruct (d_tab O d (FRec RCamera)) as [c|]; [eexists; reflexivity|discriminate].
        - exfalso. rewrite negb_true_iff, orb_false_iff in D. destruct D as [_ D]. rewrite E in D. discriminate. }
      destruct CAM as [c Ec]. cbn [map]. rewrite Ec. rewrite <- Ec. eexists. split; [reflexivity|]. cbn [matches_equiv].
      change (fst e0 :: map fst l0) with (map fst (e0 :: l0)). rewrite map_map.
      apply (nodup_txt (map fst (e0 :: l0))) in ND.
      assert (G : forall l', (forall e, In e l' -> In e (e0 :: l0)) ->
                  Forall2 pairs_equiv (map (fun e => (fst e, match_pairs O (save O d) (cam_images O cams') (fst e))) l') l').
      { induction l' as [|e l' IH]; intro Sub; cbn [map]; constructor.
        - split; [reflexivity|]. intro p. cbn [fst snd]. rewrite MPN. unfold match_pairs_ideal. rewrite in_map_iff. split.
          + intros [[kt q] [<- I']]. apply filter_In in I'. destruct I' as [I' T]. cbn [fst snd] in T |- *.
            rewrite !andb_true_iff, txt_eqb_eq in T. destruct T as [[-> _] _].
            cbn [save t_matchfiles] in I'. rewrite E in I'. apply in_flat_map in I'. destruct I' as [e' [Ie' Ip]].
            apply in_map_iff in Ip. destruct Ip as [q' [[= Ek ->] Iq]].
            assert (e' = e).
            { clear -ND Ie' Ek Sub. assert (Ie : In e (e0 :: l0)) by (apply Sub; left; reflexivity).
              revert ND Ie' Ie Ek. generalize (e0 :: l0). intro L. induction L as [|x L IHL]; [intros _ []|].
              cbn [map]. intros ND [->|I1] [->|I2] Ek; auto.
              - exfalso. inversion ND as [|? ? N _]; subst. apply N. rewrite Ek. apply in_map, I2.
              - exfalso. inversion ND as [|? ? N _]; subst. apply N. rewrite <- Ek. apply in_map, I1.
              - inversion ND; subst. apply IHL; assumption. }
            subst. exact Iq.
          + intro Ip. exists (fst e, p). split; [reflexivity|]. apply filter_In. split.
            * cbn [save t_matchfiles]. rewrite E. apply in_flat_map. exists e. split; [apply Sub; left; reflexivity|].
              apply in_map_iff. exists p. tauto.
            * cbn [fst snd]. rewrite txt_eqb_refl. cbn [andb].
              destruct refs_parts as [_ [_ [_ [_ R5]]]]. destruct (R5 _ e p E (Sub e (or_introl eq_refl)) Ip) as [A B].
              unfold cams'. rewrite andb_true_iff, !tmem_In, !cam_images_canon. tauto.
        - apply IH. intros e' I'. apply Sub. right. exact I'. }
      exact (G (e0 :: l0) (fun e H => H)).
    Qed.
    (* ---- observations *)
    Lemma types_for_nocanon sch n : forallb no_canon_ty (s_fixed sch) = true -> forallb no_canon_ty (s_group sch) = true ->
      forallb no_canon_ty (types_for sch n) = true.
    Proof.
      intros A B. unfold types_for. rewrite forallb_app, A. cbn [andb]. unfold tail_types.
      destruct (s_group sch) as [|g gs] eqn:E; [reflexivity|]. rewrite <- E in *.
      generalize (seq 0 ((n - List.length (s_fixed sch)) / List.length (s_group sch))). intro l.
      induction l as [|x l IH]; [reflexivity|]. cbn [flat_map]. rewrite forallb_app, B, IH. reflexivity.
    Qed.

    Lemma map2_canon_id tys (r : row) : forallb no_canon_ty tys = true -> List.length tys = List.length r ->
      map2 (canon_cell O) tys r = r.
    Proof.
      revert r; induction tys as [|ty tys IH]; intros [|c r] P L; cbn in L |- *; try discriminate; [reflexivity|].
      cbn in P. rewrite andb_true_iff in P. destruct P as [P1 P2]. rewrite (IH r P2) by lia. f_equal.
      destruct ty, c; try discriminate; reflexivity.
    Qed.

    Lemma obs_canon_row (r : row) : row_wf O (fk_schema fk_obs) r = true -> canon_row O (fk_schema fk_obs) r = r.
    Proof.
      intro W. apply (row_wf_inv O) in W. destruct W as [L _]. unfold canon_row. apply map2_canon_id; [|exact L].
      apply types_for_nocanon; reflexivity.
    Qed.

    Lemma obs_canon_table (rows : table) : rows_wf O fk_obs rows ->
      canon_table O fk_obs rows = sort_rows O fk_obs rows.
    Proof.
      intro H. unfold canon_table. apply (rows_wf_sorted O fk_obs) in H. induction H as [|r l [Hr _] _ IH]; [reflexivity|].
      cbn [map]. rewrite (obs_canon_row r Hr), IH. reflexivity.
    Qed.

    Lemma assoc_equiv (l1 l2 : list (featset O)) kt i2 : Forall2 featset_equiv l1 l2 ->
      assoc kt (kp_map O l2) = Some i2 -> exists i1, assoc kt (kp_map O l1) = Some i1 /\ images_equiv i1 i2.
    Proof.
      intro H. induction H as [|a b l1 l2 [Ek [_ Ei]] _ IH]; cbn; [discriminate|].
      rewrite Ek. destruct (txt_eqb kt (fs_key O b)); [|exact IH]. intros [= <-]. eexists. split; [reflexivity|exact Ei].
    Qed.

    Lemma filter_pairs_known imgs1 imgs2 (tl : row) : images_equiv imgs1 imgs2 -> pairs_known O imgs2 tl = true ->
      filter_pairs O imgs1 tl = tl.
    Proof.
      intro Ei. revert tl. fix REC 1. intros [|c [|n rest]]; [reflexivity| |].
      - destruct c; discriminate.
      - destruct c; try discriminate. cbn [pairs_known filter_pairs]. rewrite andb_true_iff. intros [T K].
        apply tmem_In, Ei, tmem_In in T. rewrite T, (REC rest K). reflexivity.
    Qed.

    Lemma step_obs kp' p3d' :
      feats_equiv kp' (d_feat O d KKeypoints) -> is_some p3d' = is_some (d_p3d O d) ->
      load_obs O (save O d) kp' p3d' = Ok (option_map (canon_table O fk_obs) (d_tab O d FObs)).
    Proof.
      intros FE PE. unfold load_obs. cbn [save t_tab]. destruct (d_tab O d FObs) as [rows|] eqn:ER; cbn [option_map opt_bind]; [|reflexivity].
      destruct wf_parts as [D [T [_ [_ [_ R]]]]]. destruct (table_wf_inv _ _ (T _ _ ER)) as [HW HN].
      unfold deps_ok in D. rewrite !andb_true_iff in D. destruct D as [_ D]. rewrite ER in D. cbn in D.
      rewrite andb_true_iff in D. destruct D as [DK DP].
      destruct (d_feat O d KKeypoints) as [kps|] eqn:EK; [|discriminate]. destruct (d_p3d O d) as [pp|]; [|discriminate].
      destruct kp' as [kps'|]; [|contradiction]. destruct p3d' as [pp'|]; [|discriminate]. cbn [feats_equiv] in FE.
      pose proof (fk_of_ok FObs) as FK. cbn [fk_of] in FK.
      unfold read_obs. change (fk_of FObs) with fk_obs.
      rewrite (save_table_lexed O OK fk_obs FK rows HW), (read_rows_enc O OK fk_obs _ (rows_wf_sorted O fk_obs rows HW)).
      change (map (canon_row O (fk_schema fk_obs)) (sort_rows O fk_obs rows)) with (canon_table O fk_obs rows).
      assert (FI : filter_obs O (kp_map O kps') (canon_table O fk_obs rows) = canon_table O fk_obs rows).
      { rewrite (obs_canon_table rows HW).
        unfold refs_ok in R. rewrite !andb_true_iff in R. destruct R as [_ R6]. rewrite EK in R6.
        unfold tab_or_nil in R6. rewrite ER in R6.
        assert (R6' : forallb (fun r => match r with
                          | _ :: CStr kt :: tail => match assoc kt (kp_map O kps) with Some i => pairs_known O i tail | None => false end
                          | _ => false end) (sort_rows O fk_obs rows) = true)
          by (apply (forallb_perm _ rows); [apply Permutation_sym, sort_rows_perm|exact R6]).
        assert (LEN : Forall (fun r => 4 <= List.length r) (sort_rows O fk_obs rows)).
        { apply (rows_wf_sorted O fk_obs) in HW. clear -HW OK. induction HW as [|r l [Hr Hp] _ IH]; constructor; [|exact IH].
          rewrite (obs_canon_row r Hr) in Hp. cbn [fk_post fk_obs post_ok] in Hp. apply Nat.leb_le in Hp. exact Hp. }
        revert R6' LEN. generalize (sort_rows O fk_obs rows). intro l. induction l as [|r l IH]; intros R6' LEN; [reflexivity|].
        cbn [forallb] in R6'. rewrite andb_true_iff in R6'. destruct R6' as [Hr Hl]. inversion LEN as [|? ? Lr Ll]; subst.
        cbn [filter_obs flat_map]. fold (filter_obs O (kp_map O kps') l). rewrite (IH Hl Ll).
        destruct r as [|c0 [|c1 tail]]; try discriminate. destruct c1; try discriminate.
        destruct (assoc s (kp_map O kps)) as [i2|] eqn:EA; [|discriminate].
        destruct (assoc_equiv kps' kps s i2 FE EA) as [i1 [EA1 Ei]]. rewrite EA1.
        rewrite (filter_pairs_known i1 i2 tail Ei Hr).
        destruct tail as [|t0 [|t1 tail']]; cbn in Lr; try lia.
        destruct t0; try discriminate. cbn [pairs_known] in Hr. rewrite andb_true_iff in Hr. destruct Hr as [Ht _].
        apply tmem_In, Ei in Ht. destruct i1 as [|x i1]; [destruct Ht|]. reflexivity. }
      rewrite FI. rewrite (of_rows_nodup O) by (apply (keys_nodup_canon O OK fk_obs FK), HN). reflexivity.
    Qed.

    (* ---- assembling kapture_from_dir *)
    Theorem load_save : exists d', load O (save O d) = Ok d' /\ ds_equiv d' (canon O d).
    Proof.
      destruct sensors_present as [srows ES]. destruct (step_sensors srows ES) as [S1 [S2 S3]].
      unfold load, load_gen. rewrite S1, S2. cbn [negb]. rewrite S3. cbv zeta.
      rewrite (step_rigs srows ES). rewrite (step_rec srows RCamera ES).
      fold cams'. destruct (step_feat KKeypoints) as [kp [E1 Q1]]. destruct (step_feat KDescriptors) as [de [E2 Q2]].
      destruct (step_feat KGlobal) as [gf [E3 Q3]]. destruct step_matches as [ma [E4 Q4]].
      rewrite E1, E2, E3, E4, step_p3d.
      set (p3d' := option_map (fun p => (fst p, map (canon_row O (p3d_schema (fst p))) (snd p))) (d_p3d O d)).
      assert (TAB : forall f, load_tab O false (save O d) (canon_table O fk_sensors srows)
                                (option_map (canon_table O fk_rigs) (d_tab O d FRigs))
                                (map (key1 O) (canon_table O fk_sensors srows) ++ rig_ids) kp p3d' f =
                              Ok (option_map (canon_table O (fk_of f)) (d_tab O d f))).
      { intros [| | |k|]; cbn [load_tab fk_of].
        - rewrite ES. reflexivity.
        - reflexivity.
        - apply step_traj, ES.
        - apply step_rec, ES.
        - apply step_obs; [exact Q1|]. unfold p3d'. destruct (d_p3d O d); reflexivity. }
      assert (ALL : forallb (fun f => is_ok (load_tab O false (save O d) (canon_table O fk_sensors srows)
                                (option_map (canon_table O fk_rigs) (d_tab O d FRigs))
                                (map (key1 O) (canon_table O fk_sensors srows) ++ rig_ids) kp p3d' f)) all_tfiles = true).
      { apply forallb_forall. intros f _. rewrite TAB. reflexivity. }
      rewrite ALL. eexists. split; [reflexivity|].
      unfold ds_equiv. cbn [d_tab d_feat d_matches d_p3d canon]. split; [|split; [|split]].
      - intro f. rewrite TAB. reflexivity.
      - reflexivity.
      - intros [| |]; assumption.
      - exact Q4.
    Qed.

    (* absent parts stay absent, present parts stay present *)
    Theorem presence_preserved d' : load O (save O d) = Ok d' ->
      (forall f, is_some (d_tab O d' f) = is_some (d_tab O d f)) /\
      (forall k, is_some (d_feat O d' k) = is_some (d_feat O d k)) /\
      is_some (d_matches O d') = is_some (d_matches O d) /\
      is_some (d_p3d O d') = is_some (d_p3d O d).
    Proof.
      intro E. destruct load_save as [d'' [E' [T [P [Fq M]]]]]. rewrite E in E'. injection E' as <-.
      split; [|split; [|split]].
      - intro f. rewrite T. cbn [canon d_tab]. destruct (d_tab O d f); reflexivity.
      - intro k. specialize (Fq k). cbn [canon d_feat] in Fq. destruct (d_feat O d' k), (d_feat O d k); cbn in *; tauto.
      - cbn [canon d_matches] in M. destruct (d_matches O d'), (d_matches O d); cbn in *; tauto.
      - rewrite P. cbn [canon d_p3d]. destruct (d_p3d O d); reflexivity.
    Qed.

    (* saving the reloaded dataset writes byte-identical text files *)
    Theorem resave_identical d' : load O (save O d) = Ok d' ->
      (forall f, t_tab (save O d') f = t_tab (save O d) f) /\
      t_p3d (save O d') = t_p3d (save O d) /\
      (forall k, t_cfg (save O d') k = t_cfg (save O d) k).
    Proof.
      intro E. destruct load_save as [d'' [E' [T [P [Fq M]]]]]. rewrite E in E'. injection E' as <-.
      destruct wf_parts as [_ [TW [FW [_ [PW _]]]]].
      split; [|split].
      - intro f. cbn [save t_tab]. rewrite T. cbn [canon d_tab]. destruct (d_tab O d f) as [rows|] eqn:ER; [|reflexivity].
        cbn [option_map]. f_equal. destruct (table_wf_inv _ _ (TW _ _ ER)) as [HW _].
        apply (resave_table O OK (fk_of f) (fk_of_ok f) rows HW).
      - cbn [save t_p3d]. rewrite P. cbn [canon d_p3d]. destruct (d_p3d O d) as [p|] eqn:EP; [|reflexivity].
        cbn [option_map]. f_equal. apply resave_p3d, PW. reflexivity.
      - intro k. cbn [save t_cfg]. specialize (Fq k). cbn [canon d_feat] in Fq.
        destruct (d_feat O d' k) as [l1|], (d_feat O d k) as [l2|]; cbn in Fq; try contradiction; [|reflexivity].
        induction Fq as [|a b l1 l2 [Ek [Ec _]] _ IH]; [reflexivity|]. cbn [map]. rewrite Ek, Ec, IH. reflexivity.
    Qed.

    (* ---- observations: one row per (point3d_id, keypoints_type); every row comes back, whatever other rows share
            its point id *)
    Lemma nodup_key_unique k (l : table) (a b : row) : keys_nodup O k l = true ->
      In a l -> In b l -> key_eqb O k a b = true -> a = b.
    Proof.
      unfold keys_nodup. induction l as [|x l IH]; cbn [nodup_by In]; [contradiction|].
      rewrite andb_true_iff, negb_true_iff. intros [NX NL] Ia Ib E.
      assert (NE : forall y, In y l -> key_eqb O k x y = false).
      { intros y Iy. destruct (key_eqb O k x y) eqn:EK; [|reflexivity].
        assert (existsb (key_eqb O k x) l = true) by (apply existsb_exists; exists y; split; assumption). congruence. }
      destruct Ia as [<-|Ia], Ib as [<-|Ib].
      - reflexivity.
      - rewrite (NE b Ib) in E. discriminate.
      - assert (E' : key_eqb O k x a = true) by (apply (key_eqb_eq O OK); apply (key_eqb_eq O OK) in E; congruence).
        rewrite (NE a Ia) in E'. discriminate.
      - exact (IH NL Ia Ib E).
    Qed.

    Lemma find_key_perm k (q : row) (l l' : table) : keys_nodup O k l = true -> Permutation l' l ->
      List.find (fun r => key_eqb O k r q) l' = List.find (fun r => key_eqb O k r q) l.
    Proof.
      intros N P.
      destruct (List.find (fun r => key_eqb O k r q) l') as [a|] eqn:E1.
      - apply find_some in E1. destruct E1 as [Ia Pa]. apply (Permutation_in _ P) in Ia.
        destruct (List.find (fun r => key_eqb O k r q) l) as [b|] eqn:E2.
        + apply find_some in E2. destruct E2 as [Ib Pb]. f_equal. apply (nodup_key_unique k l a b N Ia Ib).
          cbn beta in Pa, Pb. apply (key_eqb_eq O OK) in Pa. apply (key_eqb_eq O OK) in Pb. apply (key_eqb_eq O OK). congruence.
        + pose proof (find_none _ _ E2 a Ia) as F. cbn in F. congruence.
      - destruct (List.find (fun r => key_eqb O k r q) l) as [b|] eqn:E2; [|reflexivity].
        apply find_some in E2. destruct E2 as [Ib Pb]. apply (Permutation_in _ (Permutation_sym P)) in Ib.
        pose proof (find_none _ _ E1 b Ib) as F. cbn in F. congruence.
    Qed.

    Theorem observations_kept d' (rows : table) : load O (save O d) = Ok d' -> d_tab O d FObs = Some rows ->
      exists rows', d_tab O d' FObs = Some rows' /\ Permutation rows' rows /\
                    forall pid kt, obs_of O pid kt rows' = obs_of O pid kt rows.
    Proof.
      intros E ER. destruct load_save as [d'' [E' [T _]]]. rewrite E in E'. injection E' as <-.
      destruct wf_parts as [_ [TW _]]. destruct (table_wf_inv _ _ (TW _ _ ER)) as [HW HN]. cbn [fk_of] in HW, HN.
      exists (sort_rows O fk_obs rows). split; [|split].
      - rewrite T. cbn [canon d_tab]. rewrite ER. cbn [option_map fk_of]. rewrite (obs_canon_table rows HW). reflexivity.
      - apply sort_rows_perm.
      - intros pid kt. unfold obs_of.
        rewrite (find_key_perm 2 [pid; CStr kt] rows (sort_rows O fk_obs rows) HN (sort_rows_perm O fk_obs rows)).
        reflexivity.
    Qed.
  End Load.

End D.

