(* Proofs/PCodecData.v — the dataset level of the text codec (property C01, and the points3d / descriptor
   file instances of C02): kapture_from_dir (kapture_to_dir d) = canonical d for every well-formed dataset,
   absent parts stay absent, saving the reloaded dataset writes the same bytes. *)
From Coq Require Import List Bool String Ascii NArith ZArith Lia Permutation.
From KV Require Import Eqb Str.
From KV.Model Require Import MCodecTxt MCodec.
From KV.Proofs Require Import PCodecTxt PCodec.
Import ListNotations.
Local Open Scope list_scope.

(* facts about the generated tables (header lines of the tree under test); decided by computation in Props *)
Definition no_canon_ty (t : cty) : bool := match t with TName | TF10 => false | _ => true end.
Definition cfg_plain (k : featkind) : bool :=
  forallb no_canon_ty (s_fixed (fk_schema (fk_feat k))) &&
  match s_group (fk_schema (fk_feat k)) with [] => true | _ => false end.
Definition p3d_hdr_ok : bool :=
  hdr_ok p3d_line1 && hdr_ok (p3d_line2 3) && hdr_ok (p3d_line2 6) && prefix_of version p3d_line1 &&
  negb (has_sub XYZ p3d_line1) &&
  has_sub XYZ (p3d_line2 3) && negb (has_sub RGB (p3d_line2 3)) &&
  has_sub XYZ (p3d_line2 6) && has_sub RGB (p3d_line2 6).
Definition tables_ok : bool :=
  forallb (fun f => fk_ok (fk_of f)) all_tfiles &&
  forallb (fun k => fk_ok (fk_feat k) && cfg_plain k) all_featkinds && p3d_hdr_ok.

Lemma all_tfiles_complete f : In f all_tfiles.
Proof. destruct f as [| | |k|]; try destruct k; cbn; tauto. Qed.
Lemma all_featkinds_complete k : In k all_featkinds.
Proof. destruct k; cbn; tauto. Qed.

Section D.
  Variable O : fops.
  Hypothesis OK : fops_ok O.
  Hypothesis TOK : tables_ok = true.

  Notation cell := (cell O).
  Notation row := (row O).
  Notation table := (table O).

  Lemma fk_of_ok f : fk_ok (fk_of f) = true.
  Proof.
    unfold tables_ok in TOK. rewrite !andb_true_iff in TOK. destruct TOK as [[H _] _].
    rewrite forallb_forall in H. apply H, all_tfiles_complete.
  Qed.
  Lemma fk_feat_ok k : fk_ok (fk_feat k) = true /\ cfg_plain k = true.
  Proof.
    unfold tables_ok in TOK. rewrite !andb_true_iff in TOK. destruct TOK as [[_ H] _].
    rewrite forallb_forall in H. specialize (H k (all_featkinds_complete k)). rewrite andb_true_iff in H. exact H.
  Qed.
  Lemma p3d_ok : p3d_hdr_ok = true.
  Proof. unfold tables_ok in TOK. rewrite !andb_true_iff in TOK. tauto. Qed.

  (* ---------------------------------------------------------------- helpers *)
  Lemma sort_rows_0 fk (rows : table) : fk_sort fk = 0 -> sort_rows O fk rows = rows.
  Proof.
    intro E. unfold sort_rows. rewrite E. induction rows as [|r rows IH]; [reflexivity|].
    cbn [isort]. rewrite IH. destruct rows; reflexivity.
  Qed.

  Lemma table_wf_inv fk (rows : table) : table_wf O fk rows = true ->
    rows_wf O fk rows /\ keys_nodup O (fk_key fk) rows = true.
  Proof.
    unfold table_wf. rewrite andb_true_iff. intros [H N]. split; [|exact N].
    unfold rows_wf. rewrite Forall_forall. rewrite forallb_forall in H. intros r I. specialize (H r I).
    rewrite andb_true_iff in H. exact H.
  Qed.

  Lemma key1_firstn (a b : row) k : 1 <= k -> firstn k a = firstn k b -> key1 O a = key1 O b.
  Proof.
    intros L E. destruct k; [lia|]. destruct a as [|x a], b as [|y b]; cbn in E; try discriminate; [reflexivity|].
    injection E as -> _. reflexivity.
  Qed.

  Lemma key1_canon fk (r : row) : fk_ok fk = true -> 1 <= fk_key fk ->
    key1 O (canon_row O (fk_schema fk) r) = key1 O r.
  Proof. intros FK L. apply (key1_firstn _ _ (fk_key fk) L). apply (canon_key O fk FK). Qed.

  Lemma canon_nth tys (r : row) i ty : nth_error tys i = Some ty -> plain_ty ty = true ->
    nth_error (map2 (canon_cell O) tys r) i = nth_error r i.
  Proof.
    revert tys r; induction i as [|i IH]; intros [|t tys] [|c r] E P; cbn in *; try discriminate; try reflexivity.
    - injection E as ->. destruct ty, c; try discriminate; reflexivity.
    - destruct i; reflexivity.
    - apply (IH tys r E P).
  Qed.

  Lemma in_canon_table fk (rows : table) (r' : row) : In r' (canon_table O fk rows) ->
    exists r, In r rows /\ r' = canon_row O (fk_schema fk) r.
  Proof.
    unfold canon_table. intro I. apply in_map_iff in I. destruct I as [r [<- I]]. exists r. split; [|reflexivity].
    apply Permutation_in with (sort_rows O fk rows); [apply sort_rows_perm|exact I].
  Qed.

  Lemma in_canon_table_rev fk (rows : table) (r : row) : In r rows ->
    In (canon_row O (fk_schema fk) r) (canon_table O fk rows).
  Proof.
    intro I. unfold canon_table. apply in_map. apply Permutation_in with rows; [apply Permutation_sym, sort_rows_perm|exact I].
  Qed.

  (* ---------------------------------------------------------------- sensors *)
  Definition sensor_type_is (ty : txt) (r : row) : bool :=
    match r with _ :: _ :: CStr t :: _ => txt_eqb t ty | _ => false end.

  Lemma sensor_type_nth ty (r : row) :
    sensor_type_is ty r = match nth_error r 2 with Some (CStr t) => txt_eqb t ty | _ => false end.
  Proof. destruct r as [|a [|b [|c r]]]; reflexivity. Qed.

  Lemma sensors_canon_type ty (r : row) :
    sensor_type_is ty (canon_row O (fk_schema fk_sensors) r) = sensor_type_is ty r.
  Proof.
    rewrite !sensor_type_nth. unfold canon_row, row_types, types_for. cbn [fk_schema fk_sensors mk_schema s_fixed s_group].
    rewrite (canon_nth _ r 2 TStr); reflexivity.
  Qed.

  Lemma canon_sensors (rows : table) : canon_table O fk_sensors rows = map (canon_row O (fk_schema fk_sensors)) rows.
  Proof. unfold canon_table. rewrite sort_rows_0; reflexivity. Qed.

  Lemma sids_canon (rows : table) : map (key1 O) (canon_table O fk_sensors rows) = map (key1 O) rows.
  Proof.
    rewrite canon_sensors, map_map. apply map_ext. intro r.
    apply (key1_canon fk_sensors); [apply (fk_of_ok FSensors)|cbn; lia].
  Qed.

  Lemma ids_of_type_canon ty (rows : table) :
    ids_of_type O ty (canon_table O fk_sensors rows) = ids_of_type O ty rows.
  Proof.
    rewrite canon_sensors. unfold ids_of_type. induction rows as [|r rows IH]; [reflexivity|].
    cbn [map List.filter]. fold (sensor_type_is ty (canon_row O (fk_schema fk_sensors) r)). fold (sensor_type_is ty r).
    rewrite sensors_canon_type. destruct (sensor_type_is ty r); cbn [map]; rewrite IH; [|reflexivity].
    f_equal. apply (key1_canon fk_sensors); [apply (fk_of_ok FSensors)|cbn; lia].
  Qed.

  (* ---------------------------------------------------------------- a table part through save / load *)
  Lemma roundtrip_tab f ids (rows : table) :
    table_wf O (fk_of f) rows = true ->
    (match ids with None => True | Some l => forall r, In r rows -> In (dev_of O (fk_of f) r) l end) ->
    fk_key (fk_of f) <> 0 ->
    read_table O (fk_of f) ids (save_table O (fk_of f) rows) = Ok (canon_table O (fk_of f) rows).
  Proof.
    intros W C NZ. destruct (table_wf_inv _ _ W) as [HW HN].
    apply (table_roundtrip O OK (fk_of f) (fk_of_ok f)); [exact HW|exact HN|].
    destruct ids as [l|]; [|exact I]. cbn. intros r' I. destruct (in_canon_table _ _ _ I) as [r [Ir ->]].
    rewrite (dev_of_canon O (fk_of f) (fk_of_ok f)) by exact NZ. apply C, Ir.
  Qed.

  (* ---------------------------------------------------------------- rigs *)
  Lemma read_rigs_save sids (rows : table) :
    table_wf O fk_rigs rows = true ->
    (forall r, In r rows -> ~ In (key1 O r) sids /\
                            (In (dev_of O fk_rigs r) sids \/ In (dev_of O fk_rigs r) (map (key1 O) rows))) ->
    read_rigs O sids (save_table O fk_rigs rows) = Ok (canon_table O fk_rigs rows, map (key1 O) rows).
  Proof.
    intros W R. destruct (table_wf_inv _ _ W) as [HW HN]. pose proof (fk_of_ok FRigs) as FK. cbn [fk_of] in FK.
    unfold read_rigs. rewrite (save_table_lexed O OK fk_rigs FK rows HW).
    rewrite (read_rows_enc O OK fk_rigs FK _ (rows_wf_sorted O fk_rigs rows HW)).
    change (map (canon_row O (fk_schema fk_rigs)) (sort_rows O fk_rigs rows)) with (canon_table O fk_rigs rows).
    assert (K1 : forall r, key1 O (canon_row O (fk_schema fk_rigs) r) = key1 O r)
      by (intro r; apply (key1_canon fk_rigs FK); cbn; lia).
    assert (D1 : forall r, dev_of O fk_rigs (canon_row O (fk_schema fk_rigs) r) = dev_of O fk_rigs r)
      by (intro r; apply (dev_of_canon O fk_rigs FK); cbn; lia).
    assert (E : existsb (fun r => tmem (key1 O r) sids) (canon_table O fk_rigs rows) = false).
    { destruct (existsb _ _) eqn:X; [|reflexivity]. apply existsb_exists in X. destruct X as [r' [I T]].
      destruct (in_canon_table _ _ _ I) as [r [Ir ->]]. rewrite K1 in T. apply tmem_In in T.
      exfalso. apply (proj1 (R r Ir)), T. }
    rewrite E. rewrite (of_rows_nodup O OK) by (apply (keys_nodup_canon O OK fk_rigs FK), HN).
    assert (IDS : map (key1 O) (canon_table O fk_rigs rows) = map (key1 O) rows).
    { unfold canon_table. rewrite sort_rows_0 by reflexivity. rewrite map_map. apply map_ext, K1. }
    rewrite IDS. f_equal. f_equal.
    assert (ALL : forall r', In r' (canon_table O fk_rigs rows) ->
                   tmem (dev_of O fk_rigs r') sids || tmem (dev_of O fk_rigs r') (map (key1 O) rows) = true).
    { intros r' I. destruct (in_canon_table _ _ _ I) as [r [Ir ->]]. rewrite D1. apply orb_true_iff.
      destruct (proj2 (R r Ir)) as [H|H]; [left|right]; apply tmem_In, H. }
    revert ALL. generalize (canon_table O fk_rigs rows). intro l. induction l as [|x l IH]; intro ALL; [reflexivity|].
    cbn. rewrite (ALL x (or_introl eq_refl)). f_equal. apply IH. intros y I. apply ALL. right. exact I.
  Qed.

  (* ---------------------------------------------------------------- feature descriptor files *)
  Lemma canon_row_id sch (r : row) : forallb no_canon_ty (s_fixed sch) = true -> s_group sch = [] ->
    row_wf O sch r = true -> canon_row O sch r = r.
  Proof.
    intros P G W. apply (row_wf_inv O) in W. destruct W as [L _]. unfold canon_row, row_types, types_for in *.
    rewrite G in *. cbn [tail_types] in *. rewrite app_nil_r in *. revert r L.
    induction (s_fixed sch) as [|ty tys IH]; intros [|c r] L; cbn in *; try discriminate; [reflexivity|].
    rewrite andb_true_iff in P. destruct P as [P1 P2]. rewrite (IH P2 r) by lia. f_equal.
    destruct ty, c; try discriminate; reflexivity.
  Qed.

  Lemma cfg_canon k (cfg : row) : row_wf O (fk_schema (fk_feat k)) cfg = true ->
    canon_row O (fk_schema (fk_feat k)) cfg = cfg.
  Proof.
    intro W. destruct (fk_feat_ok k) as [_ P]. unfold cfg_plain in P. rewrite andb_true_iff in P. destruct P as [P G].
    apply canon_row_id; [exact P| |exact W]. destruct (s_group (fk_schema (fk_feat k))); [reflexivity|discriminate].
  Qed.

  Lemma cfg_rows_wf k (cfg : row) : row_wf O (fk_schema (fk_feat k)) cfg = true -> rows_wf O (fk_feat k) [cfg].
  Proof. intro W. constructor; [|constructor]. split; [exact W|]. destruct k; reflexivity. Qed.

  Lemma cfg_lexed k (cfg : row) : row_wf O (fk_schema (fk_feat k)) cfg = true ->
    table_of_text (save_table O (fk_feat k) [cfg]) = [enc_row O (fk_schema (fk_feat k)) cfg].
  Proof.
    intro W. rewrite (save_table_lexed O OK (fk_feat k) (proj1 (fk_feat_ok k)) [cfg] (cfg_rows_wf k cfg W)).
    rewrite sort_rows_0 by (destruct k; reflexivity). reflexivity.
  Qed.

  Theorem read_config_save k (cfg : row) : row_wf O (fk_schema (fk_feat k)) cfg = true ->
    read_config O k (save_table O (fk_feat k) [cfg]) = Ok cfg.
  Proof.
    intro W. unfold read_config. rewrite (cfg_lexed k cfg W), (read_enc_row O OK false _ cfg W), (cfg_canon k cfg W).
    reflexivity.
  Qed.

  Theorem cfg_writer_conforms k (cfg : row) : row_wf O (fk_schema (fk_feat k)) cfg = true ->
    spec_read O (fk_schema (fk_feat k)) (save_table O (fk_feat k) [cfg]) = Ok [cfg].
  Proof.
    intro W. rewrite (writer_conforms O OK (fk_feat k) (proj1 (fk_feat_ok k)) [cfg] (cfg_rows_wf k cfg W)).
    unfold canon_table. rewrite sort_rows_0 by (destruct k; reflexivity). cbn [map]. rewrite (cfg_canon k cfg W). reflexivity.
  Qed.

  (* ---------------------------------------------------------------- points3d.txt *)
  Lemma pad_fields_nil fs : pad_fields [] fs = fs.
  Proof. induction fs as [|f fs IH]; cbn; [reflexivity|]. rewrite IH. reflexivity. Qed.

  Definition p3d_rows_wf w (rows : table) : Prop :=
    Forall (fun r => List.length r = w /\ row_wf O (p3d_schema w) r = true) rows.

  Lemma p3d_wf_inv (p : nat * table) : p3d_wf O p = true ->
    (fst p = 3 \/ fst p = 6) /\ p3d_rows_wf (fst p) (snd p).
  Proof.
    unfold p3d_wf. rewrite andb_true_iff, orb_true_iff, !Nat.eqb_eq. intros [W H]. split; [exact W|].
    unfold p3d_rows_wf. rewrite Forall_forall. rewrite forallb_forall in H. intros r I. specialize (H r I).
    rewrite andb_true_iff, Nat.eqb_eq in H. exact H.
  Qed.

  Lemma save_p3d_file2 w (rows : table) :
    save_p3d O (w, rows) = file2 (fun fs => join [COMMA] (pad_fields [] fs)) p3d_line1 (p3d_line2 w)
                                 (map (enc_row O (p3d_schema w)) rows).
  Proof. reflexivity. Qed.

  Lemma p3d_enc_rows_ok w (rows : table) : 2 <= w -> p3d_rows_wf w rows ->
    rows_ok (map (enc_row O (p3d_schema w)) rows).
  Proof.
    intros L H. unfold rows_ok. induction H as [|r rows [Hl Hr] _ IH]; cbn; constructor; [|exact IH].
    split; [apply (enc_row_clean O OK), Hr|]. split; [rewrite (enc_row_length O _ r Hr); lia|].
    apply (enc_row_first_nohash O OK), Hr.
  Qed.

  Lemma p3d_lines_ok w : w = 3 \/ w = 6 -> hdr_ok p3d_line1 = true /\ hdr_ok (p3d_line2 w) = true.
  Proof.
    pose proof p3d_ok as H. unfold p3d_hdr_ok in H. rewrite !andb_true_iff in H. intros [->| ->]; tauto.
  Qed.

  Lemma save_p3d_lexed w (rows : table) : w = 3 \/ w = 6 -> p3d_rows_wf w rows ->
    table_of_text (save_p3d O (w, rows)) = map (enc_row O (p3d_schema w)) rows.
  Proof.
    intros Hw H. rewrite save_p3d_file2. destruct (p3d_lines_ok w Hw) as [H1 H2].
    apply (file2_lexed plain_lay); auto.
    - intros fs _. rewrite pad_fields_nil. symmetry. apply render_plain_lay.
    - apply plain_lay_fields.
    - apply plain_lay_row_ok.
    - apply p3d_enc_rows_ok; [destruct Hw; lia|exact H].
  Qed.

  Lemma save_p3d_lines w (rows : table) : w = 3 \/ w = 6 ->
    exists rest, lines (save_p3d O (w, rows)) = p3d_line1 :: p3d_line2 w :: rest.
  Proof.
    intro Hw. rewrite save_p3d_file2. destruct (p3d_lines_ok w Hw) as [H1 H2]. apply file2_lines; assumption.
  Qed.

  Lemma save_p3d_expected w (rows : table) : w = 3 \/ w = 6 ->
    p3d_expected false (save_p3d O (w, rows)) = Some w.
  Proof.
    intro Hw. destruct (save_p3d_lines w rows Hw) as [rest E]. unfold p3d_expected, nth_line. rewrite E. cbn [nth].
    pose proof p3d_ok as H. unfold p3d_hdr_ok in H. rewrite !andb_true_iff, !negb_true_iff in H.
    destruct H as [[[[[[[[_ _] _] _] N1] X3] R3] X6] R6]. rewrite N1. unfold width_of_line.
    destruct Hw as [-> | ->]; [rewrite X3, R3|rewrite X6, R6]; reflexivity.
  Qed.

  Lemma read_float_rows_enc w (rows : table) : p3d_rows_wf w rows ->
    read_float_rows O w (map (enc_row O (p3d_schema w)) rows) = Ok (map (canon_row O (p3d_schema w)) rows).
  Proof.
    intro H. induction H as [|r rows [_ Hr] _ IH]; [reflexivity|]. cbn [map read_float_rows].
    rewrite (read_enc_row O OK false _ r Hr), IH. reflexivity.
  Qed.

  (* C01 for the point cloud: the header line selects the width, also for an empty cloud *)
  Theorem read_p3d_save (p : nat * table) : p3d_wf O p = true ->
    read_p3d O (save_p3d O p) = Ok (fst p, map (canon_row O (p3d_schema (fst p))) (snd p)).
  Proof.
    intro W. destruct (p3d_wf_inv p W) as [Hw H]. destruct p as [w rows]. cbn [fst snd] in *.
    unfold read_p3d, read_p3d_gen. rewrite (save_p3d_lexed w rows Hw H), (save_p3d_expected w rows Hw).
    destruct rows as [|r rows]; [reflexivity|]. cbn [map].
    inversion H as [|x l [Hl Hr] Hrest]; subst. rewrite (enc_row_length O _ r Hr), Nat.eqb_refl.
    change (enc_row O (p3d_schema (List.length r)) r :: map (enc_row O (p3d_schema (List.length r))) rows)
      with (map (enc_row O (p3d_schema (List.length r))) (r :: rows)).
    rewrite (read_float_rows_enc _ _ H). reflexivity.
  Qed.

  Lemma spec_p3d_schema w : spec_schema_of (p3d_schema w) = p3d_schema w.
  Proof.
    unfold spec_schema_of, p3d_schema, mk_schema. cbn. f_equal. induction w; cbn; [reflexivity|]. rewrite IHw. reflexivity.
  Qed.

  (* C02 for the point cloud: the written file is valid and announces its width *)
  Theorem p3d_writer_conforms (p : nat * table) : p3d_wf O p = true ->
    spec_read O (p3d_schema (fst p)) (save_p3d O p) = Ok (map (canon_row O (p3d_schema (fst p))) (snd p)) /\
    p3d_expected false (save_p3d O p) = Some (fst p).
  Proof.
    intro W. destruct (p3d_wf_inv p W) as [Hw H]. destruct p as [w rows]. cbn [fst snd] in *.
    split; [|apply save_p3d_expected, Hw].
    unfold spec_read. destruct (save_p3d_lines w rows Hw) as [rest E]. unfold version_first. rewrite E.
    pose proof p3d_ok as P. unfold p3d_hdr_ok in P. rewrite !andb_true_iff in P.
    destruct P as [[[[[[[[_ _] _] PV] _] _] _] _] _]. rewrite PV.
    rewrite (save_p3d_lexed w rows Hw H), spec_p3d_schema.
    clear E. induction H as [|r rows' [_ Hr] _ IH]; [reflexivity|]. cbn [map spec_rows].
    rewrite (read_enc_row O OK false _ r Hr), IH. reflexivity.
  Qed.

  Lemma resave_p3d (p : nat * table) : p3d_wf O p = true ->
    save_p3d O (fst p, map (canon_row O (p3d_schema (fst p))) (snd p)) = save_p3d O p.
  Proof.
    intro W. destruct (p3d_wf_inv p W) as [_ H]. destruct p as [w rows]. cbn [fst snd] in *.
    unfold save_p3d. do 4 f_equal. rewrite map_map. induction H as [|r rows' [_ Hr] _ IH]; [reflexivity|].
    cbn [map]. rewrite (enc_canon_row O OK _ r Hr), IH. reflexivity.
  Qed.

End D.
