(* Proofs/PCodecObs.v — observations.txt: what a reader keyed by the point id alone would lose (property C01).
   The reader of the code keys a row by the PAIR (point3d_id, keypoints_type) and appends ([of_rows true 2]); a dict
   keyed by fewer cells that replaces on a repeated key returns strictly fewer rows as soon as two rows share them. *)
From Coq Require Import List Bool String Ascii NArith ZArith Lia Permutation.
From KV Require Import Eqb Str.
From KV.Model Require Import MCodecTxt MCodec.
From KV.Gen Require Import Tcodec.
From KV.Proofs Require Import PCodecTxt PCodec PCodecData.
Import ListNotations.
Local Open Scope list_scope.

Section PK.
  Variable O : fops.
  Hypothesis OK : fops_ok O.
  Hypothesis TOK : tables_ok = true.
  Notation row := (row O).
  Notation table := (table O).

  Definition has_key k (q : row) (t : table) : bool := existsb (fun x => key_eqb O k x q) t.

  Lemma key_eqb_sym k (a b : row) : key_eqb O k a b = key_eqb O k b a.
  Proof.
    destruct (key_eqb O k a b) eqn:E1, (key_eqb O k b a) eqn:E2; try reflexivity.
    - apply (key_eqb_eq O OK) in E1. symmetry in E1. apply (key_eqb_eq O OK) in E1. congruence.
    - apply (key_eqb_eq O OK) in E2. symmetry in E2. apply (key_eqb_eq O OK) in E2. congruence.
  Qed.

  Lemma key_eqb_trans k (a b c : row) : key_eqb O k a b = true -> key_eqb O k b c = true -> key_eqb O k a c = true.
  Proof. intros A B. apply (key_eqb_eq O OK) in A, B. apply (key_eqb_eq O OK). congruence. Qed.

  Lemma upsert_length k (r : row) (t : table) :
    List.length (upsert O false k r t) = if has_key k r t then List.length t else S (List.length t).
  Proof.
    induction t as [|x t IH]; [reflexivity|]. cbn [upsert has_key existsb].
    destruct (key_eqb O k x r); cbn [orb]; [reflexivity|]. cbn [List.length]. rewrite IH. unfold has_key.
    destruct (existsb _ t); reflexivity.
  Qed.

  Lemma upsert_has_key k (r q : row) (t : table) : has_key k q t = true -> has_key k q (upsert O false k r t) = true.
  Proof.
    induction t as [|x t IH]; [discriminate|]. cbn [upsert has_key existsb]. destruct (key_eqb O k x r) eqn:E.
    - cbn [existsb]. destruct (key_eqb O k x q) eqn:E2; cbn [orb]; [|intro H; rewrite H; apply orb_true_r].
      intros _. rewrite (key_eqb_trans k r x q); [reflexivity| rewrite key_eqb_sym; exact E | exact E2].
    - cbn [existsb]. destruct (key_eqb O k x q); cbn [orb]; [reflexivity|]. exact IH.
  Qed.

  Lemma fold_length_le k (rows acc : table) :
    List.length (fold_left (fun tbl r => upsert O false k r tbl) rows acc) <= List.length acc + List.length rows.
  Proof.
    revert acc; induction rows as [|r l IH]; intro acc; cbn [fold_left List.length]; [lia|].
    specialize (IH (upsert O false k r acc)). rewrite upsert_length in IH. destruct (has_key k r acc); lia.
  Qed.

  Lemma fold_length_hit k (rows acc : table) :
    existsb (fun r => has_key k r acc) rows = true ->
    List.length (fold_left (fun tbl r => upsert O false k r tbl) rows acc) < List.length acc + List.length rows.
  Proof.
    revert acc; induction rows as [|r l IH]; intro acc; cbn [existsb fold_left List.length]; [discriminate|].
    destruct (has_key k r acc) eqn:E; cbn [orb].
    - intros _. pose proof (fold_length_le k l (upsert O false k r acc)) as H. rewrite upsert_length, E in H. lia.
    - intro H. assert (H' : existsb (fun r0 => has_key k r0 (upsert O false k r acc)) l = true).
      { apply existsb_exists in H. destruct H as [y [Iy Hy]]. apply existsb_exists. exists y. split; [exact Iy|].
        apply upsert_has_key, Hy. }
      specialize (IH _ H'). rewrite upsert_length, E in IH. lia.
  Qed.

  Lemma has_key_upsert_self k (r : row) (t : table) : has_key k r (upsert O false k r t) = true.
  Proof.
    induction t as [|x t IH]; cbn [upsert has_key existsb].
    - rewrite (proj2 (key_eqb_eq O OK k r r) eq_refl). reflexivity.
    - destruct (key_eqb O k x r) eqn:E; cbn [existsb].
      + rewrite (proj2 (key_eqb_eq O OK k r r) eq_refl). reflexivity.
      + rewrite E. cbn [orb]. exact IH.
  Qed.

  Lemma fold_length_dup k (rows acc : table) : nodup_by (key_eqb O k) rows = false ->
    List.length (fold_left (fun tbl r => upsert O false k r tbl) rows acc) < List.length acc + List.length rows.
  Proof.
    revert acc; induction rows as [|r l IH]; intro acc; cbn [nodup_by fold_left List.length]; [discriminate|].
    rewrite andb_false_iff, negb_false_iff. intros [D|D].
    - assert (H : existsb (fun r0 => has_key k r0 (upsert O false k r acc)) l = true).
      { apply existsb_exists in D. destruct D as [y [Iy Hy]]. apply existsb_exists. exists y. split; [exact Iy|].
        pose proof (has_key_upsert_self k r acc) as S0. unfold has_key in S0 |- *. apply existsb_exists in S0.
        destruct S0 as [x [Ix Hx]]. apply existsb_exists. exists x. split; [exact Ix|]. exact (key_eqb_trans k x r y Hx Hy). }
      pose proof (fold_length_hit k l _ H) as L. rewrite upsert_length in L. destruct (has_key k r acc); lia.
    - specialize (IH (upsert O false k r acc) D). rewrite upsert_length in IH. destruct (has_key k r acc); lia.
  Qed.

  (* a dict keyed by the first [k] cells that REPLACES on a repeated key returns strictly fewer rows than it read
     as soon as two rows share those cells *)
  Theorem of_rows_replace_loses k (rows : table) : k <> 0 -> nodup_by (key_eqb O k) rows = false ->
    List.length (of_rows O false k rows) < List.length rows.
  Proof.
    intros NZ D. unfold of_rows. destruct k; [congruence|]. apply (fold_length_dup (S k) rows [] D).
  Qed.

  Lemma nodup_by_false_perm k (l l' : table) : Permutation l l' ->
    nodup_by (key_eqb O k) l = false -> nodup_by (key_eqb O k) l' = false.
  Proof.
    intros P D. destruct (nodup_by (key_eqb O k) l') eqn:E; [|reflexivity].
    rewrite (nodup_by_NoDup (key_eqb O k) (firstn k) l' (fun x y => key_eqb_eq O OK k x y)) in E.
    assert (N : NoDup (map (firstn k) l)).
    { apply (Permutation_NoDup (l := map (firstn k) l')); [apply Permutation_map, Permutation_sym, P|exact E]. }
    rewrite <- (nodup_by_NoDup (key_eqb O k) (firstn k) l (fun x y => key_eqb_eq O OK k x y)) in N. congruence.
  Qed.

  (* observations.txt read by a reader keyed by the point id alone: for EVERY well-formed table in which two rows
     share a point id (a point seen through two kinds of keypoints) it returns fewer rows than were saved *)
  Theorem obs_point_keyed_loses (rows : table) : rows_wf O fk_obs rows -> keys_nodup O 1 rows = false ->
    exists rows', read_obs_point_keyed O (save_table O fk_obs rows) = Ok rows' /\ List.length rows' < List.length rows.
  Proof.
    intros HW D. pose proof (fk_of_ok TOK FObs) as FK. cbn [fk_of] in FK.
    unfold read_obs_point_keyed.
    rewrite (save_table_lexed O OK fk_obs FK rows HW), (read_rows_enc O OK fk_obs _ (rows_wf_sorted O fk_obs rows HW)).
    change (map (canon_row O (fk_schema fk_obs)) (sort_rows O fk_obs rows)) with (canon_table O fk_obs rows).
    rewrite (obs_canon_table O rows HW).
    eexists. split; [reflexivity|].
    rewrite <- (Permutation_length (sort_rows_perm O fk_obs rows)).
    apply of_rows_replace_loses; [discriminate|].
    apply (nodup_by_false_perm 1 rows); [apply Permutation_sym, sort_rows_perm|exact D].
  Qed.
End PK.
