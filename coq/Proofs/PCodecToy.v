(* Proofs/PCodecToy.v — a concrete float lexer satisfying every contract of [fops_ok]: the hypotheses of the
   codec theorems are jointly satisfiable.  "Floats" are integers, written and read as decimal integers;
   '%.10f' is the identity.  Used for the non-vacuity examples and the refutations of the legacy readers. *)
From Coq Require Import List Bool String Ascii NArith ZArith Lia.
From KV Require Import Eqb Str.
From KV.Model Require Import MCodecTxt MCodec.
From KV.Proofs Require Import PCodecTxt PCodec.
Import ListNotations.
Local Open Scope list_scope.

Definition toy : fops :=
  {| F := Z; Feqb := Z.eqb; fin := fun _ => true;
     show_float := show_int; read_float := parse_int;
     fmt10 := show_int; round10 := fun z => z; close10 := Z.eqb;
     cam_canon := fun s => option_map show_int (parse_int s);
     path_norm := fun s => match s with "."%char :: "/"%char :: r => r | _ => s end |}.

Lemma toy_ok : fops_ok toy.
Proof.
  constructor; cbn.
  - intros a b. apply Z.eqb_eq.
  - intros f _. apply parse_show_int.
  - intros f _. apply show_int_token.
  - reflexivity.
  - intros f _. apply parse_show_int.
  - intros f _. apply show_int_token.
  - reflexivity.
  - reflexivity.
  - intros f _. apply Z.eqb_refl.
Qed.
