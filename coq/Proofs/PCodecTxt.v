(* Proofs/PCodecTxt.v — lemmas about the text primitives of Model/MCodecTxt.v:
   split/join, strip, line splitting, the table lexer on every layout, decimal integers. *)
From Coq Require Import List Bool String Ascii NArith ZArith Lia.
From Coq Require Decimal DecimalN DecimalPos.
From KV Require Import Eqb.
From KV.Model Require Import MCodecTxt.
Import ListNotations.
Local Open Scope char_scope.
Local Open Scope list_scope.

(* ------------------------------------------------------------------ character classes *)
Lemma blank_ws c : is_blank c = true -> is_ws c = true.
Proof. unfold is_blank; rewrite andb_true_iff; tauto. Qed.

Lemma blank_not_nl c : is_blank c = true -> is_nl c = false.
Proof. unfold is_blank; rewrite andb_true_iff, negb_true_iff; tauto. Qed.

Lemma ws_not_comma c : is_ws c = true -> Ascii.eqb c COMMA = false.
Proof. destruct (Ascii.eqb_spec c COMMA) as [->|]; [vm_compute; discriminate | reflexivity]. Qed.

Lemma ws_not_hash c : is_ws c = true -> Ascii.eqb c HASH = false.
Proof. destruct (Ascii.eqb_spec c HASH) as [->|]; [vm_compute; discriminate | reflexivity]. Qed.

Lemma nl_ws c : is_nl c = true -> is_ws c = true.
Proof.
  unfold is_nl. rewrite orb_true_iff. intros [H|H]; apply Ascii.eqb_eq in H; subst; reflexivity.
Qed.

Lemma blank_plain c : is_blank c = true -> plain_char c = true.
Proof.
  intro H. unfold plain_char. rewrite (ws_not_comma c (blank_ws c H)), (blank_not_nl c H). reflexivity.
Qed.

Lemma blanks_all_ws l : blanks l = true -> all_ws l = true.
Proof.
  unfold blanks, all_ws. rewrite !forallb_forall. intros H x I. apply blank_ws, H, I.
Qed.

Lemma blanks_plain l : blanks l = true -> forallb plain_char l = true.
Proof. unfold blanks. rewrite !forallb_forall. intros H x I. apply blank_plain, H, I. Qed.

Lemma clean_plain l : clean l = true -> forallb plain_char l = true.
Proof. unfold clean; rewrite andb_true_iff; tauto. Qed.

Lemma clean_trimmed l : clean l = true -> trimmed l = true.
Proof. unfold clean; rewrite andb_true_iff; tauto. Qed.

Lemma clean_nil : clean [] = true.
Proof. reflexivity. Qed.

(* ------------------------------------------------------------------ split / join *)
Lemma split_on_nonempty c l : split_on c l <> [].
Proof.
  induction l as [|x l IH]; cbn; [discriminate|].
  destruct (Ascii.eqb x c); [discriminate|]. destruct (split_on c l); [contradiction|discriminate].
Qed.

Definition lacks (c : ascii) (l : txt) : bool := forallb (fun x => negb (Ascii.eqb x c)) l.

Lemma split_on_lacks c l : lacks c l = true -> split_on c l = [l].
Proof.
  induction l as [|x l IH]; cbn; [reflexivity|].
  rewrite andb_true_iff, negb_true_iff. intros [N R]. rewrite N, (IH R). reflexivity.
Qed.

Lemma split_on_app c f rest : lacks c f = true ->
  split_on c (f ++ c :: rest) = f :: split_on c rest.
Proof.
  induction f as [|x f IH]; cbn.
  - intros _. rewrite Ascii.eqb_refl. reflexivity.
  - rewrite andb_true_iff, negb_true_iff. intros [N R]. rewrite N, (IH R). reflexivity.
Qed.

(* split_on c (join c fs) = fs when no field contains c and fs <> [] *)
Lemma split_join c fs : fs <> [] -> forallb (lacks c) fs = true ->
  split_on c (join [c] fs) = fs.
Proof.
  induction fs as [|f fs IH]; [congruence|]. intros _. cbn [forallb]. rewrite andb_true_iff. intros [Hf Hr].
  destruct fs as [|g fs].
  - cbn. apply split_on_lacks, Hf.
  - change (join [c] (f :: g :: fs)) with (f ++ [c] ++ join [c] (g :: fs)).
    cbn [app]. rewrite split_on_app by exact Hf. f_equal. apply IH; [discriminate|exact Hr].
Qed.

Lemma plain_lacks_comma l : forallb plain_char l = true -> lacks COMMA l = true.
Proof.
  unfold lacks. rewrite !forallb_forall. intros H x I. specialize (H x I). unfold plain_char in H.
  rewrite andb_true_iff in H. tauto.
Qed.

(* ------------------------------------------------------------------ strip *)
Lemma lstrip_ws_app a l : all_ws a = true -> lstrip (a ++ l) = lstrip l.
Proof.
  induction a as [|c a IH]; cbn; [reflexivity|]. rewrite andb_true_iff. intros [C R]. rewrite C. apply IH, R.
Qed.

Lemma lstrip_first_not_ws l : first_not_ws l = true -> lstrip l = l.
Proof. destruct l as [|c l]; cbn; [reflexivity|]. rewrite negb_true_iff. intros ->. reflexivity. Qed.

Lemma all_ws_rev a : all_ws (rev a) = all_ws a.
Proof.
  unfold all_ws. induction a as [|c a IH]; cbn; [reflexivity|]. rewrite forallb_app, IH. cbn.
  rewrite andb_true_r. apply andb_comm.
Qed.

Lemma first_not_ws_app l m : l <> [] -> first_not_ws (l ++ m) = first_not_ws l.
Proof. destruct l; [congruence|reflexivity]. Qed.

(* strip (a ++ f ++ b) = f for blanks a, b and a trimmed f *)
Lemma strip_padded a f b : all_ws a = true -> all_ws b = true -> trimmed f = true ->
  strip (a ++ f ++ b) = f.
Proof.
  intros Ha Hb Hf. unfold trimmed in Hf. rewrite andb_true_iff in Hf. destruct Hf as [H1 H2].
  unfold strip. rewrite lstrip_ws_app by exact Ha.
  destruct f as [|c f].
  - cbn [app]. unfold rstrip.
    assert (E : lstrip b = []).
    { clear -Hb. induction b as [|x b IH]; cbn; [reflexivity|]. cbn in Hb. rewrite andb_true_iff in Hb.
      destruct Hb as [-> R]. apply IH, R. }
    rewrite E. cbn. reflexivity.
  - assert (E : lstrip ((c :: f) ++ b) = (c :: f) ++ b).
    { apply lstrip_first_not_ws. rewrite first_not_ws_app by discriminate. exact H1. }
    rewrite E. unfold rstrip. rewrite rev_app_distr, lstrip_ws_app by (rewrite all_ws_rev; exact Hb).
    rewrite lstrip_first_not_ws by exact H2. apply rev_involutive.
Qed.

Lemma strip_clean f : clean f = true -> strip f = f.
Proof.
  intro H. rewrite <- (app_nil_r f) at 1. change (strip ([] ++ f ++ []) = f).
  apply strip_padded; [reflexivity|reflexivity|apply clean_trimmed, H].
Qed.

(* ------------------------------------------------------------------ one row *)
Lemma padded_plain p : padded_ok p = true -> forallb plain_char (padded_txt p) = true.
Proof.
  destruct p as [[a f] b]. cbn. rewrite !andb_true_iff. intros [[Ha Hf] Hb].
  rewrite !forallb_app, (blanks_plain a Ha), (blanks_plain b Hb), (clean_plain f Hf). reflexivity.
Qed.

Lemma padded_strip p : padded_ok p = true -> strip (padded_txt p) = padded_field p.
Proof.
  destruct p as [[a f] b]. cbn. rewrite !andb_true_iff. intros [[Ha Hf] Hb].
  apply strip_padded; [apply blanks_all_ws, Ha | apply blanks_all_ws, Hb | apply clean_trimmed, Hf].
Qed.

Lemma parse_render_row fs : fs <> [] -> forallb padded_ok fs = true ->
  parse_line (render_row fs) = map padded_field fs.
Proof.
  intros NE H. unfold parse_line, render_row. rewrite split_join.
  - rewrite map_map. apply map_ext_in. intros p I. apply padded_strip.
    rewrite forallb_forall in H. apply H, I.
  - destruct fs; [congruence|discriminate].
  - rewrite forallb_forall. intros x I. apply in_map_iff in I. destruct I as [p [<- I]].
    apply plain_lacks_comma, padded_plain. rewrite forallb_forall in H. apply H, I.
Qed.

Lemma plain_no_nl l : forallb plain_char l = true -> no_nl l = true.
Proof.
  unfold no_nl. rewrite !forallb_forall. intros H x I. specialize (H x I). unfold plain_char in H.
  rewrite andb_true_iff in H. tauto.
Qed.

Lemma join_plain fs : forallb (fun f => forallb plain_char f) fs = true ->
  no_nl (join [COMMA] fs) = true.
Proof.
  induction fs as [|f fs IH]; [reflexivity|]. cbn [forallb]. rewrite andb_true_iff. intros [Hf Hr].
  destruct fs as [|g fs]; [apply plain_no_nl, Hf|].
  change (join [COMMA] (f :: g :: fs)) with (f ++ [COMMA] ++ join [COMMA] (g :: fs)).
  unfold no_nl in *. rewrite !forallb_app. rewrite (IH Hr). fold (no_nl f). rewrite (plain_no_nl f Hf). reflexivity.
Qed.

Lemma render_row_no_nl fs : forallb padded_ok fs = true -> no_nl (render_row fs) = true.
Proof.
  intro H. apply join_plain. rewrite forallb_forall. intros x I. apply in_map_iff in I.
  destruct I as [p [<- I]]. apply padded_plain. rewrite forallb_forall in H. apply H, I.
Qed.

Lemma all_ws_app a b : all_ws (a ++ b) = all_ws a && all_ws b.
Proof. apply forallb_app. Qed.

Lemma render_row_keep fs : row_ok fs = true -> keep_line (render_row fs) = true.
Proof.
  unfold row_ok. rewrite andb_true_iff. intros [Hp Hs].
  destruct fs as [|[[a f] b] [|q fs]]; try discriminate.
  unfold keep_line, render_row. cbn [map].
  change (join [COMMA] (padded_txt (a, f, b) :: padded_txt q :: map padded_txt fs))
    with (padded_txt (a, f, b) ++ [COMMA] ++ join [COMMA] (padded_txt q :: map padded_txt fs)).
  rewrite !all_ws_app. cbn [all_ws forallb app]. replace (is_ws COMMA) with false by reflexivity.
  rewrite andb_false_r. cbn [negb andb].
  cbn [padded_txt]. cbn [forallb padded_ok] in Hp. rewrite !andb_true_iff in Hp. destruct Hp as [[[Ha Hf] Hb] _].
  rewrite app_assoc, <- app_assoc.
  destruct (a ++ f) as [|c r] eqn:E.
  - cbn [app]. destruct b as [|c b]; cbn; [reflexivity|].
    cbn in Hb. rewrite andb_true_iff in Hb. destruct Hb as [Hc _]. rewrite (ws_not_hash c (blank_ws c Hc)). reflexivity.
  - cbn. cbn in Hs. exact Hs.
Qed.

(* ------------------------------------------------------------------ lines *)
Lemma lines_nonempty l : lines l <> [].
Proof.
  induction l as [|c l IH]; cbn; [discriminate|].
  destruct (Ascii.eqb c LF); [discriminate|].
  destruct (Ascii.eqb c CR).
  - destruct l as [|c' l]; [discriminate|]. destruct (Ascii.eqb c' LF); [exact IH|discriminate].
  - destruct (lines l); discriminate.
Qed.

Lemma lines_app_eol ln e rest : no_nl ln = true ->
  lines (ln ++ eol_txt e ++ rest) = ln :: lines rest.
Proof.
  induction ln as [|c ln IH]; intro H.
  - destruct e; cbn; reflexivity.
  - cbn in H. rewrite andb_true_iff, negb_true_iff in H. destruct H as [Hc Hr].
    unfold is_nl in Hc. rewrite orb_false_iff in Hc. destruct Hc as [H1 H2].
    cbn [app lines]. rewrite H1, H2. rewrite (IH Hr). reflexivity.
Qed.

(* ------------------------------------------------------------------ the table lexer on every layout *)
Lemma item_line i : item_ok i = true ->
  exists ln e, render_item i = ln ++ eol_txt e /\ no_nl ln = true /\
               (if keep_line ln then [parse_line ln] else []) = item_rows i.
Proof.
  destruct i as [fs e|b e|w e]; cbn [item_ok]; intro H.
  - exists (render_row fs), e. split; [reflexivity|].
    assert (Hp : forallb padded_ok fs = true) by (unfold row_ok in H; rewrite andb_true_iff in H; tauto).
    split; [apply render_row_no_nl, Hp|]. rewrite (render_row_keep fs H). cbn.
    rewrite parse_render_row; [reflexivity| |exact Hp]. destruct fs; [discriminate|discriminate].
  - exists (HASH :: b), e. split; [reflexivity|]. split.
    + cbn. exact H.
    + unfold keep_line. cbn. rewrite ?andb_false_r. reflexivity.
  - exists w, e. split; [reflexivity|]. split.
    + apply plain_no_nl, blanks_plain, H.
    + unfold keep_line. rewrite (blanks_all_ws w H). reflexivity.
Qed.

Lemma table_of_lines_cons ln ls :
  table_of_lines (ln :: ls) = (if keep_line ln then [parse_line ln] else []) ++ table_of_lines ls.
Proof. unfold table_of_lines. cbn. destruct (keep_line ln); reflexivity. Qed.

Lemma render_items_cons i is : render_items (i :: is) = render_item i ++ render_items is.
Proof. reflexivity. Qed.

(* THE LEXICAL THEOREM: whatever the layout (blanks around every field, comment and blank lines
   anywhere, \n or \r\n per line), the lexer returns exactly the fields of the data rows, in order *)
Theorem table_of_rendering is : forallb item_ok is = true ->
  table_of_text (render_items is) = items_rows is.
Proof.
  unfold table_of_text. induction is as [|i is IH]; [reflexivity|].
  cbn [forallb]. rewrite andb_true_iff. intros [Hi Hr].
  destruct (item_line i Hi) as [ln [e [E [N K]]]].
  rewrite render_items_cons, E, <- app_assoc.
  rewrite lines_app_eol by exact N. rewrite table_of_lines_cons, K, (IH Hr). reflexivity.
Qed.

(* first physical line of a rendering *)
Lemma first_line_rendering i is : item_ok i = true ->
  exists ln e, render_item i = ln ++ eol_txt e /\ no_nl ln = true /\
  hd [] (lines (render_items (i :: is))) = ln.
Proof.
  intro Hi. destruct (item_line i Hi) as [ln [e [E [N _]]]]. exists ln, e. split; [exact E|]. split; [exact N|].
  rewrite render_items_cons, E, <- app_assoc.
  rewrite lines_app_eol by exact N. reflexivity.
Qed.

(* ------------------------------------------------------------------ decimal integers *)
Lemma digits_val_pos (d : Decimal.uint) (acc : positive) :
  digits_val (Npos acc) (txt_of_uint d) = Some (Npos (Pos.of_uint_acc d acc)).
Proof.
  revert acc; induction d; intro acc; cbn [txt_of_uint digits_val Pos.of_uint_acc]; [reflexivity|..];
  match goal with |- context [digit_val ?c] => let v := eval vm_compute in (digit_val c) in change (digit_val c) with v end;
  cbv iota beta; rewrite <- IHd; f_equal; lia.
Qed.

Lemma digits_val_zero (d : Decimal.uint) :
  digits_val 0 (txt_of_uint d) = Some (Pos.of_uint d).
Proof.
  induction d; cbn [txt_of_uint digits_val Pos.of_uint]; [reflexivity|..];
  match goal with |- context [digit_val ?c] => let v := eval vm_compute in (digit_val c) in change (digit_val c) with v end;
  cbv iota beta; [exact IHd|..]; rewrite <- digits_val_pos; f_equal.
Qed.

Lemma to_uint_nonnil n : N.to_uint n <> Decimal.Nil.
Proof.
  destruct n; cbn; [discriminate|]. intro H.
  pose proof (DecimalPos.Unsigned.to_uint_nonnil p). contradiction.
Qed.

Lemma txt_of_uint_nonnil d : d <> Decimal.Nil -> txt_of_uint d <> [].
Proof. destruct d; cbn; congruence. Qed.

Lemma parse_show_N n : parse_nat (show_N n) = Some n.
Proof.
  unfold parse_nat, show_N.
  destruct (txt_of_uint (N.to_uint n)) eqn:E.
  - exfalso. apply (txt_of_uint_nonnil (N.to_uint n)); [apply to_uint_nonnil|exact E].
  - rewrite <- E, digits_val_zero. f_equal.
    change (Pos.of_uint (N.to_uint n)) with (N.of_uint (N.to_uint n)). apply DecimalN.Unsigned.of_to.
Qed.

Lemma show_N_digits n : forallb (fun c => match digit_val c with Some _ => true | None => false end) (show_N n) = true.
Proof.
  unfold show_N. generalize (N.to_uint n). induction u; cbn; auto.
Qed.

Lemma show_N_head_digit n : exists c r, show_N n = c :: r /\ digit_val c <> None.
Proof.
  pose proof (show_N_digits n) as H. destruct (show_N n) as [|c r] eqn:E.
  - exfalso. unfold show_N in E. apply (txt_of_uint_nonnil (N.to_uint n)); [apply to_uint_nonnil|exact E].
  - exists c, r. split; [reflexivity|]. cbn in H. destruct (digit_val c); [discriminate|discriminate H].
Qed.

(* int(str(z)) = z *)
Lemma parse_int_digit_head c r : digit_val c <> None ->
  parse_int (c :: r) = option_map Z.of_N (parse_nat (c :: r)).
Proof.
  intro D. unfold parse_int.
  destruct (Ascii.eqb_spec c "-") as [->|_]; [exfalso; apply D; reflexivity|].
  destruct (Ascii.eqb_spec c "+") as [->|_]; [exfalso; apply D; reflexivity|]. reflexivity.
Qed.

Theorem parse_show_int z : parse_int (show_int z) = Some z.
Proof.
  destruct z as [|p|p].
  - reflexivity.
  - unfold show_int. change (Z.to_N (Z.pos p)) with (Npos p).
    destruct (show_N_head_digit (Npos p)) as [c [r [E D]]].
    rewrite E, parse_int_digit_head by exact D. rewrite <- E, parse_show_N. reflexivity.
  - unfold show_int, parse_int. rewrite Ascii.eqb_refl, parse_show_N. reflexivity.
Qed.

(* leading zeros, as a conformant file may write them *)
Lemma digits_val_zeros k l : digits_val 0 (repeat "0" k ++ l) = digits_val 0 l.
Proof. induction k; cbn; [reflexivity|exact IHk]. Qed.

Theorem parse_nat_leading_zeros k n : parse_nat (repeat "0" k ++ show_N n) = Some n.
Proof.
  pose proof (parse_show_N n) as H. unfold parse_nat in *.
  destruct (show_N n) as [|c r] eqn:E; [discriminate|].
  destruct (repeat "0" k ++ c :: r) eqn:E2.
  - destruct k; discriminate.
  - rewrite <- E2, digits_val_zeros. exact H.
Qed.

Theorem parse_int_leading_zeros k (n : N) :
  parse_int (repeat "0" k ++ show_N n) = Some (Z.of_N n) /\
  parse_int ("+" :: repeat "0" k ++ show_N n) = Some (Z.of_N n) /\
  parse_int ("-" :: repeat "0" k ++ show_N n) = Some (- Z.of_N n)%Z.
Proof.
  pose proof (parse_nat_leading_zeros k n) as H. repeat split.
  - destruct (show_N_head_digit n) as [c [r [E D]]].
    destruct (repeat "0" k ++ show_N n) as [|c' r'] eqn:E2.
    + rewrite E in E2. destruct k; discriminate.
    + assert (Dc : digit_val c' <> None).
      { destruct k; cbn in E2.
        - rewrite E in E2. injection E2 as <- _. exact D.
        - injection E2 as <- _. discriminate. }
      rewrite parse_int_digit_head by exact Dc. rewrite H. reflexivity.
  - unfold parse_int. cbn [Ascii.eqb Bool.eqb]. cbn. rewrite H. reflexivity.
  - unfold parse_int. cbn. rewrite H. reflexivity.
Qed.

(* str(z) is a token: digits and '-' only *)
Definition int_char (c : ascii) : bool :=
  match digit_val c with Some _ => true | None => Ascii.eqb c "-" end.

Lemma show_int_chars z : forallb int_char (show_int z) = true.
Proof.
  assert (H : forall n, forallb int_char (show_N n) = true).
  { intro n. pose proof (show_N_digits n) as H. rewrite forallb_forall in *. intros x I. specialize (H x I).
    unfold int_char. destruct (digit_val x); [reflexivity|discriminate]. }
  destruct z; cbn [show_int]; [reflexivity|apply H|]. cbn [forallb]. rewrite H. reflexivity.
Qed.

Lemma int_char_plain c : int_char c = true -> plain_char c = true /\ is_ws c = false /\ Ascii.eqb c HASH = false.
Proof.
  unfold int_char, digit_val. intro H.
  destruct c as [[] [] [] [] [] [] [] []]; cbn in H; try discriminate; repeat split; reflexivity.
Qed.

Lemma show_int_nonempty z : show_int z <> [].
Proof.
  destruct z; cbn [show_int]; try discriminate.
  unfold show_N. apply txt_of_uint_nonnil, to_uint_nonnil.
Qed.

Lemma all_chars_clean (P : ascii -> bool) l :
  (forall c, P c = true -> plain_char c = true /\ is_ws c = false /\ Ascii.eqb c HASH = false) ->
  forallb P l = true -> clean l = true /\ starts_hash l = false.
Proof.
  intros HP H. rewrite forallb_forall in H. split.
  - unfold clean. rewrite andb_true_iff. split.
    + rewrite forallb_forall. intros x I. apply HP, H, I.
    + unfold trimmed. rewrite andb_true_iff. split.
      * destruct l as [|c l]; [reflexivity|]. cbn. destruct (HP c (H c (or_introl eq_refl))) as [_ [-> _]]. reflexivity.
      * destruct (rev l) as [|c r] eqn:E; [reflexivity|]. cbn.
        assert (I : In c l) by (apply in_rev; rewrite E; left; reflexivity).
        destruct (HP c (H c I)) as [_ [-> _]]. reflexivity.
  - destruct l as [|c l]; [reflexivity|]. cbn. apply HP, H. left; reflexivity.
Qed.

Theorem show_int_token z : token (show_int z) = true /\ starts_hash (show_int z) = false.
Proof.
  destruct (all_chars_clean int_char (show_int z) int_char_plain (show_int_chars z)) as [C S].
  split; [|exact S]. unfold token. rewrite C. pose proof (show_int_nonempty z). destruct (show_int z); [congruence|reflexivity].
Qed.
