(* Proofs/PColmap.v — lemmas about Model/MColmap.v (property C13).
   1. arithmetic of pair ids, the column swap
   2. generic facts on numbered lists, association lists built by folds, partitions
   3. the round trip export -> import of an in-range dataset, part by part, by image name *)
From Coq Require Import List Bool String Ascii ZArith QArith Qabs Qminmax Qround Lia Permutation.
From KV Require Import Eqb AL Str.
From KV.Model Require Import MQV MPose MRigs MColmap.
Import ListNotations.
Local Open Scope string_scope.
Local Open Scope list_scope.

(* ================================================================== 1. pair ids *)
Lemma pair_ids_of_pair_id_le M a b : (0 <= a)%Z -> (a <= b)%Z -> (b < M)%Z ->
  pair_ids M (a * M + b) = (a, b).
Proof.
  intros Ha Hab Hb. unfold pair_ids.
  assert (E : ((a * M + b) mod M = b)%Z).
  { rewrite Z.add_comm, Z.mod_add by lia. apply Z.mod_small; lia. }
  cbv zeta. rewrite E. f_equal.
  replace (a * M + b - b)%Z with (a * M)%Z by lia. apply Z.div_mul; lia.
Qed.

(* pair_id_to_image_ids (image_ids_to_pair_id a b) = (min a b, max a b) for all 0 <= a, b < MAX_IMAGE_ID *)
Lemma pair_id_roundtrip M a b : (0 <= a < M)%Z -> (0 <= b < M)%Z ->
  pair_ids M (pair_id M a b) = (Z.min a b, Z.max a b).
Proof.
  intros Ha Hb. unfold pair_id. destruct (Z.gtb_spec a b).
  - rewrite pair_ids_of_pair_id_le by lia. f_equal; lia.
  - rewrite pair_ids_of_pair_id_le by lia. f_equal; lia.
Qed.

Lemma pair_id_sym M a b : pair_id M a b = pair_id M b a.
Proof. unfold pair_id. destruct (Z.gtb_spec a b), (Z.gtb_spec b a); try lia. assert (a = b) by lia; subst; reflexivity. Qed.

(* distinct unordered pairs get distinct pair ids *)
Lemma pair_id_inj M a b c d : (0 <= a < M)%Z -> (0 <= b < M)%Z -> (0 <= c < M)%Z -> (0 <= d < M)%Z ->
  pair_id M a b = pair_id M c d -> (a = c /\ b = d) \/ (a = d /\ b = c).
Proof.
  intros Ha Hb Hc Hd E.
  assert (E2 : pair_ids M (pair_id M a b) = pair_ids M (pair_id M c d)) by (rewrite E; reflexivity).
  rewrite !pair_id_roundtrip in E2 by assumption. inversion E2. lia.
Qed.

(* no pair id is negative, and the id of (a, b) is below MAX_IMAGE_ID^2: the table key fits COLMAP's 64-bit column
   whenever MAX_IMAGE_ID^2 < 2^63 (checked on the generated constant in Props/C13.v) *)
Lemma pair_id_bounds M a b : (0 <= a < M)%Z -> (0 <= b < M)%Z -> (0 <= pair_id M a b < M * M)%Z.
Proof. intros Ha Hb. unfold pair_id. destruct (Z.gtb_spec a b); nia. Qed.

Lemma swap_involutive m : swap (swap m) = m.
Proof.
  unfold swap. rewrite map_map. rewrite <- (map_id m) at 2. apply map_ext. intros [a b]; reflexivity.
Qed.
Lemma swap_length m : List.length (swap m) = List.length m.
Proof. apply map_length. Qed.
Lemma swap_In a b m : In (a, b) (swap m) <-> In (b, a) m.
Proof.
  unfold swap. rewrite in_map_iff. split.
  - intros [[x y] [E I]]. cbn in E. inversion E; subst. exact I.
  - intros I. exists (b, a). split; [reflexivity | exact I].
Qed.

(* ================================================================== 2. generic list facts *)
Lemma sleb_antisym a b : sleb a b = true -> sleb b a = true -> a = b.
Proof.
  unfold sleb. intros H1 H2. pose proof (lleb_antisym _ _ H1 H2) as E.
  rewrite <- (of_bytes_bytes_of a), <- (of_bytes_bytes_of b), E. reflexivity.
Qed.

Lemma nodupb_NoDup {A} `{EqDec A} (l : list A) : nodupb l = true <-> NoDup l.
Proof.
  unfold nodupb. induction l as [|x l IH]; [split; [constructor | reflexivity]|].
  rewrite andb_true_iff, negb_true_iff, memb_not_In, IH. split.
  - intros [N R]; constructor; assumption.
  - intros R; inversion R; auto.
Qed.

Section Lists.
  Context {A B : Type}.

  Lemma number_from_snd (k : Z) (l : list A) : map snd (number_from k l) = l.
  Proof. revert k; induction l as [|x l IH]; intros k; cbn; [reflexivity | rewrite IH; reflexivity]. Qed.

  Lemma number_from_length (k : Z) (l : list A) : List.length (number_from k l) = List.length l.
  Proof. rewrite <- (number_from_snd k l) at 2. rewrite map_length. reflexivity. Qed.

  Lemma number_from_range (k : Z) (l : list A) i x :
    In (i, x) (number_from k l) -> (k <= i < k + Z.of_nat (List.length l))%Z.
  Proof.
    revert k; induction l as [|y l IH]; intros k; cbn [number_from In List.length]; [tauto|].
    intros [E|I]; [inversion E; subst; lia|]. apply IH in I. lia.
  Qed.

  Lemma number_from_NoDup (k : Z) (l : list A) : NoDup (map fst (number_from k l)).
  Proof.
    revert k; induction l as [|y l IH]; intros k; cbn; [constructor|].
    constructor; [|apply IH]. rewrite in_map_iff. intros [[i x] [E I]]. cbn in E; subst i.
    apply number_from_range in I. lia.
  Qed.

  Lemma number_from_fun (k : Z) (l : list A) i x y :
    In (i, x) (number_from k l) -> In (i, y) (number_from k l) -> x = y.
  Proof.
    revert k; induction l as [|z l IH]; intros k; cbn [number_from In]; [tauto|].
    intros [E1|I1] [E2|I2].
    - inversion E1; inversion E2; subst; reflexivity.
    - inversion E1; subst. apply number_from_range in I2. lia.
    - inversion E2; subst. apply number_from_range in I1. lia.
    - eapply IH; eassumption.
  Qed.

  Lemma number_from_In_snd (k : Z) (l : list A) x : In x l -> exists i, In (i, x) (number_from k l).
  Proof.
    intros I. rewrite <- (number_from_snd k l) in I. apply in_map_iff in I. destruct I as [[i y] [E I]].
    cbn in E; subst y. exists i; exact I.
  Qed.

  Lemma number_from_In (k : Z) (l : list A) i x : In (i, x) (number_from k l) -> In x l.
  Proof. intros I. rewrite <- (number_from_snd k l). apply in_map_iff. exists (i, x); auto. Qed.

  Lemma number_from_map (f : A -> B) (k : Z) (l : list A) :
    number_from k (map f l) = map (fun ix => (fst ix, f (snd ix))) (number_from k l).
  Proof. revert k; induction l as [|x l IH]; intros k; cbn; [reflexivity | rewrite IH; reflexivity]. Qed.

  Lemma number_from_twice (k : Z) (l : list A) :
    number_from k (number_from k l) = map (fun ix => (fst ix, ix)) (number_from k l).
  Proof. revert k; induction l as [|x l IH]; intros k; cbn; [reflexivity | rewrite IH; reflexivity]. Qed.

  Lemma map_flat_map {C} (g : B -> C) (f : A -> list B) (l : list A) :
    map g (flat_map f l) = flat_map (fun x => map g (f x)) l.
  Proof. induction l as [|x l IH]; cbn; [reflexivity | rewrite map_app, IH; reflexivity]. Qed.

  Lemma flat_map_singleton (l : list A) : flat_map (fun x => [x]) l = l.
  Proof. induction l as [|x l IH]; cbn; [reflexivity | rewrite IH; reflexivity]. Qed.

  Lemma flat_map_ext_in (f g : A -> list B) (l : list A) :
    (forall x, In x l -> f x = g x) -> flat_map f l = flat_map g l.
  Proof.
    induction l as [|x l IH]; cbn; [reflexivity|]. intros H. rewrite (H x) by auto. rewrite IH; [reflexivity|].
    intros y I; apply H; auto.
  Qed.

  Lemma flat_map_nil (f : A -> list B) (l : list A) : (forall x, In x l -> f x = []) -> flat_map f l = [].
  Proof. induction l as [|x l IH]; cbn; [reflexivity|]. intros H. rewrite (H x) by auto. apply IH. intros y I; apply H; auto. Qed.

  Lemma filter_map_comm (P : B -> bool) (g : A -> B) (l : list A) :
    List.filter P (map g l) = map g (List.filter (fun x => P (g x)) l).
  Proof. induction l as [|x l IH]; cbn; [reflexivity|]. destruct (P (g x)); cbn; rewrite IH; reflexivity. Qed.

  Lemma filter_partition_perm (P : A -> bool) (l : list A) :
    Permutation l (List.filter P l ++ List.filter (fun x => negb (P x)) l).
  Proof.
    induction l as [|x l IH]; cbn; [constructor|]. destruct (P x); cbn.
    - constructor; exact IH.
    - apply Permutation_cons_app; exact IH.
  Qed.

  Lemma NoDup_map_inj_in (f : A -> B) (l : list A) :
    (forall x y, In x l -> In y l -> f x = f y -> x = y) -> NoDup l -> NoDup (map f l).
  Proof.
    induction l as [|x l IH]; cbn; intros Inj ND; [constructor|]. inversion ND as [|? ? NI ND']; subst. constructor.
    - rewrite in_map_iff. intros [y [E I]]. assert (y = x) by (apply Inj; auto). subst y. contradiction.
    - apply IH; [intros; apply Inj; auto | assumption].
  Qed.

  Lemma NoDup_map_fst_filter (P : A * B -> bool) (l : list (A * B)) : NoDup (map fst l) -> NoDup (map fst (List.filter P l)).
  Proof.
    induction l as [|x l IH]; cbn; intros ND; [constructor|]. inversion ND as [|? ? NI ND']; subst.
    destruct (P x); cbn; [|apply IH; assumption]. constructor; [|apply IH; assumption].
    rewrite in_map_iff. intros [y [E I]]. apply NI. rewrite in_map_iff. exists y. split; [assumption|].
    apply filter_In in I. tauto.
  Qed.
End Lists.

(* an element of a flat_map whose pieces carry the key of their source *)
Section FlatKeys.
  Context {A K V : Type} `{EqDec K}.
  Variable key : A -> K.
  Variable f : A -> list (K * V).
  Hypothesis keyed : forall x kv, In kv (f x) -> fst kv = key x.

  Lemma lookup_app (k : K) (a b : al K V) :
    lookup k (a ++ b) = match lookup k a with Some v => Some v | None => lookup k b end.
  Proof. induction a as [|[k' v'] a IH]; cbn; [reflexivity|]. destruct (eqb k k'); [reflexivity | exact IH]. Qed.

  Lemma lookup_not_key (k : K) (m : al K V) : (forall kv, In kv m -> fst kv <> k) -> lookup k m = None.
  Proof.
    intros N. apply lookup_None_keys. unfold keys. rewrite in_map_iff. intros [kv [E I]]. exact (N kv I E).
  Qed.

  Lemma lookup_flat_map_none (k : K) (l : list A) : (forall x, In x l -> key x <> k) -> lookup k (flat_map f l) = None.
  Proof.
    intros N. apply lookup_not_key. intros kv I. apply in_flat_map in I. destruct I as [x [Ix Ik]].
    rewrite (keyed x kv Ik). apply N; assumption.
  Qed.

  Lemma lookup_flat_map_single (l : list A) (x : A) :
    NoDup (map key l) -> In x l -> lookup (key x) (flat_map f l) = lookup (key x) (f x).
  Proof.
    induction l as [|y l IH]; cbn [flat_map map In]; [tauto|]. intros ND I. inversion ND as [|? ? NI ND']; subst.
    rewrite lookup_app. destruct I as [->|I].
    - destruct (lookup (key x) (f x)); [reflexivity|]. apply lookup_flat_map_none.
      intros z Iz E. apply NI. rewrite in_map_iff. exists z; auto.
    - rewrite (lookup_not_key (key x) (f y)); [apply IH; assumption|].
      intros kv Ik E. rewrite (keyed y kv Ik) in E. apply NI. rewrite in_map_iff. exists x; auto.
  Qed.

  Lemma flat_map_keys_NoDup (l : list A) :
    NoDup (map key l) -> (forall x, In x l -> (List.length (f x) <= 1)%nat) -> NoDup (keys (flat_map f l)).
  Proof.
    unfold keys. induction l as [|y l IH]; cbn [flat_map map]; intros ND L; [constructor|].
    inversion ND as [|? ? NI ND']; subst. rewrite map_app.
    assert (IHl : NoDup (map fst (flat_map f l))) by (apply IH; [assumption | intros; apply L; right; assumption]).
    pose proof (L y (or_introl eq_refl)) as Ly. destruct (f y) as [|kv [|kv2 r]] eqn:Ef; cbn in *; [assumption| |lia].
    constructor; [|assumption]. rewrite in_map_iff. intros [kv' [E I]]. apply in_flat_map in I.
    destruct I as [z [Iz Ik]]. apply NI. rewrite in_map_iff. exists z. split; [|assumption].
    rewrite <- (keyed z kv' Ik), E. apply keyed. rewrite Ef. left; reflexivity.
  Qed.
End FlatKeys.

Section ALFacts.
  Context {K V : Type} `{EqDec K}.

  Lemma lookup_In (k : K) (v : V) (m : al K V) : lookup k m = Some v -> In (k, v) m.
  Proof.
    induction m as [|[k' v'] m IH]; cbn; [discriminate|]. destruct (eqb_spec k k') as [->|N].
    - intros E; inversion E; auto.
    - auto.
  Qed.

  Lemma In_lookup (k : K) (v : V) (m : al K V) : NoDup (keys m) -> In (k, v) m -> lookup k m = Some v.
  Proof.
    unfold keys. induction m as [|[k' v'] m IH]; cbn; [tauto|]. intros ND I. inversion ND as [|? ? NI ND']; subst.
    destruct I as [E|I].
    - inversion E; subst. rewrite eqb_refl. reflexivity.
    - destruct (eqb_spec k k') as [->|N]; [|apply IH; assumption].
      exfalso. apply NI. rewrite in_map_iff. exists (k', v); auto.
  Qed.

  Lemma lookup_ext_In (m m' : al K V) : NoDup (keys m) -> NoDup (keys m') ->
    (forall k v, In (k, v) m <-> In (k, v) m') -> forall k, lookup k m = lookup k m'.
  Proof.
    intros N N' E k. destruct (lookup k m) as [v|] eqn:L.
    - symmetry. apply In_lookup; [assumption|]. apply E. apply lookup_In; assumption.
    - destruct (lookup k m') as [v|] eqn:L'; [|reflexivity]. apply lookup_In, E, (In_lookup _ _ _ N) in L'. congruence.
  Qed.

  Lemma insert_fresh (k : K) (v : V) (m : al K V) : ~ In k (keys m) -> insert k v m = m ++ [(k, v)].
  Proof.
    unfold keys. induction m as [|[k' v'] m IH]; cbn; [reflexivity|]. intros NI.
    destruct (eqb_spec k k') as [->|N]; [tauto|]. rewrite IH; [reflexivity | tauto].
  Qed.

  Lemma update_fresh (l : list (K * V)) (m : al K V) :
    NoDup (keys m ++ map fst l) -> update m l = m ++ l.
  Proof.
    unfold update. revert m; induction l as [|[k v] l IH]; intros m ND; cbn; [rewrite app_nil_r; reflexivity|].
    rewrite insert_fresh.
    - rewrite IH; [rewrite <- app_assoc; reflexivity|]. unfold keys. rewrite map_app. cbn. rewrite <- app_assoc. exact ND.
    - intros I. cbn in ND. apply NoDup_remove_2 in ND. apply ND. rewrite in_app_iff; auto.
  Qed.

  Lemma from_pairs_nodup (l : list (K * V)) : NoDup (map fst l) -> from_pairs l = l.
  Proof. intros ND. unfold from_pairs. change (update [] l = l). rewrite update_fresh; [reflexivity | exact ND]. Qed.

  Lemma lookup_update (l : list (K * V)) (m : al K V) (k : K) : NoDup (map fst l) ->
    lookup k (update m l) = match lookup k l with Some v => Some v | None => lookup k m end.
  Proof.
    unfold update. revert m; induction l as [|[a b] l IH]; intros m ND; cbn [fold_left lookup fst snd]; [reflexivity|].
    inversion ND as [|? ? NI ND']; subst. rewrite IH by assumption. destruct (eqb_spec k a) as [->|N].
    - rewrite (proj2 (lookup_None_keys a l)) by exact NI. apply lookup_insert_eq.
    - destruct (lookup k l); [reflexivity|]. apply lookup_insert_neq; assumption.
  Qed.

  Lemma first_wins_nodup (l : list (K * V)) (seen : list K) :
    NoDup (map fst l) -> (forall k, In k seen -> ~ In k (map fst l)) -> first_wins seen l = l.
  Proof.
    revert seen; induction l as [|[k v] l IH]; intros seen ND D; cbn; [reflexivity|].
    inversion ND as [|? ? NI ND']; subst.
    destruct (memb k seen) eqn:E.
    - apply memb_In in E. exfalso. apply (D k E). left; reflexivity.
    - rewrite IH; [reflexivity | assumption|]. intros k' [->|I]; [assumption|]. intros I'. apply (D k' I). right; assumption.
  Qed.

  Lemma lookup_partition (P : K * V -> bool) (l : al K V) (k : K) : NoDup (keys l) ->
    lookup k (List.filter P l ++ List.filter (fun x => negb (P x)) l) = lookup k l.
  Proof.
    intros ND. pose proof (filter_partition_perm P l) as Pm. apply lookup_ext_In.
    - unfold keys. eapply Permutation_NoDup; [apply Permutation_map; exact Pm | exact ND].
    - exact ND.
    - intros k' v. split; intros I.
      + eapply Permutation_in; [apply Permutation_sym; exact Pm | exact I].
      + eapply Permutation_in; [exact Pm | exact I].
  Qed.
End ALFacts.

(* records_camera[id, cam] = name over distinct ids: one singleton per id, in order *)
Lemma fold_set2_fresh {A V} (key : A -> Z) (cam : A -> string) (val : A -> V) (l : list A) (R0 : map2 Z string V) :
  NoDup (keys R0 ++ map key l) ->
  fold_left (fun R x => set2 (key x) (cam x) (val x) R) l R0 = R0 ++ map (fun x => (key x, [(cam x, val x)])) l.
Proof.
  revert R0; induction l as [|x l IH]; intros R0 ND; cbn [fold_left map]; [rewrite app_nil_r; reflexivity|].
  assert (NI : ~ In (key x) (keys R0)).
  { intros I. cbn in ND. apply NoDup_remove_2 in ND. apply ND. rewrite in_app_iff; auto. }
  unfold set2 at 2. rewrite (proj2 (lookup_None_keys (key x) R0) NI). rewrite insert_fresh by exact NI.
  rewrite IH.
  - rewrite <- app_assoc. reflexivity.
  - unfold keys. rewrite map_app. cbn. rewrite <- app_assoc. exact ND.
Qed.

Lemma find_unique {A} (key : A -> string) (l : list A) (x : A) :
  NoDup (map key l) -> In x l -> List.find (fun y => eqb (key y) (key x)) l = Some x.
Proof.
  induction l as [|y l IH]; cbn; [tauto|]. intros ND I. inversion ND as [|? ? NI ND']; subst.
  destruct I as [->|I]; [rewrite eqb_refl; reflexivity|].
  destruct (eqb_spec (key y) (key x)) as [E|N]; [|apply IH; assumption].
  exfalso. apply NI. rewrite E. apply in_map. assumption.
Qed.

Lemma flat2_singletons {A K1 K2 V} (a : A -> K1) (b : A -> K2) (c : A -> V) (l : list A) :
  flat2 (map (fun x => (a x, [(b x, c x)])) l) = map (fun x => (a x, b x, c x)) l.
Proof. unfold flat2. induction l as [|x l IH]; cbn; [reflexivity | rewrite IH; reflexivity]. Qed.

Lemma inject_Z_Qtrunc (q : Q) : is_int q = true -> inject_Z (Qtrunc q) = q.
Proof.
  destruct q as [n d]. unfold is_int, Qtrunc, inject_Z. cbn [Qnum Qden]. intros E. apply Pos.eqb_eq in E. subst d.
  rewrite Z.quot_1_r. reflexivity.
Qed.

(* ================================================================== 3. the round trip *)
Section RoundTrip.
  Variable comp : pose -> pose -> pose.
  Variable tok : Type.
  Variable show : Q -> tok.
  Variable read : tok -> Q.
  Variable cam_name : Z -> string.
  Variable model_ids : al string Z.
  Variable model_names : al Z string.
  Variable unknown unknown_as : string.
  Variable focal_factor : Q.
  Variable M : Z.
  (* CPython: float(repr(x)) == x, float(str(int(x))) == x for integral x *)
  Hypothesis read_show : forall x, read (show x) = x.
  (* f'cam_{id:05d}' *)
  Hypothesis cam_name_inj : forall a b, cam_name a = cam_name b -> a = b.
  (* CAMERA_MODEL_NAMES inverts CAMERA_MODEL_IDS (finite tables: discharged by computation in Props/C13.v) *)
  Hypothesis names_of_ids : forall m i, lookup m model_ids = Some i -> lookup i model_names = Some m.

  Local Notation wtr := (wtraj comp false).
  Local Notation exdb := (export_db comp model_ids unknown unknown_as focal_factor M false).
  Local Notation extx := (export_txt comp tok show model_ids model_names unknown unknown_as focal_factor false).
  Local Notation imp := (import_data tok read cam_name model_names M false).
  Local Notation inr := (in_range comp model_ids unknown unknown_as focal_factor M false).
  Local Notation rt := (roundtrip comp tok show read cam_name model_ids model_names unknown unknown_as focal_factor M false).
  Local Notation ccam := (ccamera_of model_ids unknown unknown_as focal_factor).
  Local Notation colcam := (colmap_camera model_ids unknown unknown_as focal_factor).
  Local Notation Rdb d := (import_records_db cam_name (exdb d)).
  Definition cid (d : dataset) (e : Z * string * string) : Z := dflt 0%Z (lookup (icam e) (cam_ids d)).
  (* the dataset that comes back *)
  Definition back (d : dataset) : dataset := imp (exdb d, extx d).

  (* ---------------------------------------------------------------- images and their ids *)
  Lemma image_ids_keys d : keys (image_ids d) = image_names d.
  Proof.
    unfold image_ids, numbered_images, image_names, keys. rewrite map_map. cbn.
    rewrite <- (number_from_snd 1 (images_of d)) at 2. rewrite map_map. reflexivity.
  Qed.

  Lemma id_of_numbered d i e : NoDup (image_names d) -> In (i, e) (numbered_images d) -> id_of d (iname e) = i.
  Proof.
    intros ND I. unfold id_of. rewrite (In_lookup (iname e) i (image_ids d)); [reflexivity| |].
    - rewrite image_ids_keys; assumption.
    - unfold image_ids. apply in_map_iff. exists (i, e); auto.
  Qed.

  Lemma known_numbered d name : In name (image_names d) -> exists i e, In (i, e) (numbered_images d) /\ iname e = name.
  Proof.
    unfold image_names. rewrite in_map_iff. intros [e [E I]]. destruct (number_from_In_snd 1%Z _ _ I) as [i Ii].
    exists i, e. auto.
  Qed.

  Lemma numbered_same_name d i j e e' : NoDup (image_names d) ->
    In (i, e) (numbered_images d) -> In (j, e') (numbered_images d) -> iname e = iname e' -> i = j /\ e = e'.
  Proof.
    intros ND I J E. assert (i = j).
    { rewrite <- (id_of_numbered d i e ND I), <- (id_of_numbered d j e' ND J), E. reflexivity. }
    subst j. split; [reflexivity|]. eapply number_from_fun; eassumption.
  Qed.

  Lemma numbered_range d i e : In (i, e) (numbered_images d) -> (1 <= i <= Z.of_nat (List.length (images_of d)))%Z.
  Proof. intros I. apply number_from_range in I. lia. Qed.

  Lemma mem_image_ids d name : mem name (image_ids d) = memb name (image_names d).
  Proof.
    destruct (memb name (image_names d)) eqn:E.
    - apply mem_In_keys. rewrite image_ids_keys. apply memb_In; assumption.
    - destruct (mem name (image_ids d)) eqn:E2; [|reflexivity]. apply mem_In_keys in E2. rewrite image_ids_keys in E2.
      apply memb_In in E2. congruence.
  Qed.

  (* ---------------------------------------------------------------- records_camera of the database *)
  Lemma records_db d :
    Rdb d = map (fun ie => (fst ie, [(cam_name (cid d (snd ie)), iname (snd ie))])) (numbered_images d).
  Proof.
    unfold import_records_db, export_db. cbn [db_images].
    rewrite (fold_set2_fresh (@ci_id) (fun ci => cam_name (ci_cam ci)) (@ci_name)).
    - cbn. rewrite map_map. reflexivity.
    - cbn. rewrite map_map. cbn. apply number_from_NoDup.
  Qed.

  Lemma records_db_keys d : keys (Rdb d) = map fst (numbered_images d).
  Proof. rewrite records_db. unfold keys. rewrite map_map. reflexivity. Qed.

  Lemma name_of_id_records d i e : In (i, e) (numbered_images d) -> name_of_id (Rdb d) i = Some (iname e).
  Proof.
    intros I. unfold name_of_id.
    rewrite (In_lookup i [(cam_name (cid d e), iname e)] (Rdb d)); [reflexivity| |].
    - rewrite records_db_keys. apply number_from_NoDup.
    - rewrite records_db. apply in_map_iff. exists (i, e); auto.
  Qed.

  Lemma images_back d :
    images_of (back d) = map (fun ie => (fst ie, cam_name (cid d (snd ie)), iname (snd ie))) (numbered_images d).
  Proof.
    unfold back, images_of, import_data. cbn [d_images fst snd]. rewrite records_db.
    apply (flat2_singletons (fun ie : Z * (Z * string * string) => fst ie)).
  Qed.

  (* 1. the images: same names, in the same order *)
  Lemma names_back d : image_names (back d) = image_names d.
  Proof.
    unfold image_names at 1. rewrite images_back, map_map. cbn. unfold numbered_images, image_names.
    rewrite <- (number_from_snd 1 (images_of d)) at 2. rewrite map_map. reflexivity.
  Qed.

  Lemma entry_src d e : NoDup (image_names d) -> In e (images_of d) -> entry_of d (iname e) = Some e.
  Proof. intros ND I. unfold entry_of. apply (find_unique iname); assumption. Qed.

  Lemma entry_back d i e : NoDup (image_names d) -> In (i, e) (numbered_images d) ->
    entry_of (back d) (iname e) = Some (i, cam_name (cid d e), iname e).
  Proof.
    intros ND I. unfold entry_of.
    apply (find_unique iname (images_of (back d)) (i, cam_name (cid d e), iname e)).
    - fold (image_names (back d)). rewrite names_back. exact ND.
    - rewrite images_back. apply in_map_iff. exists (i, e); auto.
  Qed.

  (* ---------------------------------------------------------------- cameras *)
  Lemma cam_list_NoDup d : NoDup (keys (d_sensors d)) -> NoDup (map fst (cam_list d)).
  Proof.
    intros ND. unfold cam_list.
    apply (flat_map_keys_NoDup (fun se : string * sensor => fst se)).
    - intros [sid s] kv. cbn. destruct s; cbn; [intros [<-|[]]; reflexivity | tauto].
    - exact ND.
    - intros [sid s] _. cbn. destruct s; cbn; lia.
  Qed.

  Lemma cam_list_In d sid m ps : lookup sid (d_sensors d) = Some (Cam m ps) -> In (sid, (m, ps)) (cam_list d).
  Proof.
    intros L. apply lookup_In in L. unfold cam_list. apply in_flat_map. exists (sid, Cam m ps). split; [assumption|].
    cbn. auto.
  Qed.

  Lemma cam_ids_lookup d c sid mp : NoDup (keys (d_sensors d)) ->
    In (c, (sid, mp)) (number_from 1%Z (cam_list d)) -> lookup sid (cam_ids d) = Some c.
  Proof.
    intros ND I. apply In_lookup.
    - unfold cam_ids, keys. rewrite map_map. cbn.
      rewrite <- (map_map snd fst), number_from_snd. apply cam_list_NoDup; assumption.
    - unfold cam_ids. apply in_map_iff. exists (c, (sid, mp)). auto.
  Qed.

  Lemma ccam_id ic : cc_id (ccam ic) = fst ic.
  Proof. unfold ccamera_of. destruct (colcam _ _) as [[[[? ?] ?] ?]|]; reflexivity. Qed.

  (* ---------------------------------------------------------------- what in_range says *)
  Lemma in_range_facts d : inr d = true ->
    nodupb (keys (d_sensors d)) = true /\ nodupb (keys (d_images d)) = true
    /\ forallb (fun ti => nodupb (keys (snd ti))) (d_images d) = true
    /\ nodupb (image_names d) = true /\ (Z.of_nat (List.length (images_of d)) <? M - 1)%Z = true
    /\ forallb (fun e => match lookup (icam e) (d_sensors d) with
                         | Some s => camera_in_range model_ids unknown s | None => false end) (images_of d) = true
    /\ forallb (fun c => match colcam (fst (snd c)) (snd (snd c)) with Some _ => true | None => false end) (cam_list d) = true
    /\ match world_traj comp false d with Some _ => true | None => false end = true
    /\ negb (rigs_still_used comp false d) = true
    /\ feats_in_range d true (d_kp d) = true /\ feats_in_range d false (d_desc d) = true
    /\ match d_matches d with
       | Some m => nodupb (keys m)
                   && forallb (fun p => memb (fst p) (image_names d) && memb (snd p) (image_names d) && sleb (fst p) (snd p)) (keys m)
       | None => true
       end = true
    /\ forallb (fun r => (Nat.eqb (List.length r) 3) || (Nat.eqb (List.length r) 6)) (d_points d) = true
    /\ nodupb (keys (d_obs d)) = true
    /\ forallb (fun il => (0 <=? fst il)%Z && (fst il <? Z.of_nat (List.length (d_points d)))%Z
                          && forallb (fun nk => memb (fst nk) (image_names d)) (snd il)) (d_obs d) = true.
  Proof.
    unfold in_range. intros H. rewrite !andb_true_iff in H.
    destruct H as [[[[[[[[[[[[[[H1 H2] H3] H4] H5] H6] H7] H8] H9] H10] H11] H12] H13] H14] H15].
    repeat split; assumption.
  Qed.

  Lemma in_range_names d : inr d = true -> NoDup (image_names d).
  Proof. intros H. apply in_range_facts in H. apply nodupb_NoDup. tauto. Qed.
  Lemma in_range_sensors d : inr d = true -> NoDup (keys (d_sensors d)).
  Proof. intros H. apply in_range_facts in H. apply nodupb_NoDup. tauto. Qed.

  Lemma txt_sensor_keys d :
    map fst (import_sensors_txt tok read cam_name (export_tcameras tok show model_ids model_names unknown unknown_as focal_factor d))
    = map cam_name (map fst (List.filter (fun ic => cam_used d (fst (snd ic))) (number_from 1%Z (cam_list d)))).
  Proof.
    unfold import_sensors_txt, export_tcameras. rewrite !map_map. apply map_ext. intros ic. cbn. apply f_equal, ccam_id.
  Qed.

  Lemma txt_sensor_keys_NoDup d :
    NoDup (map fst (import_sensors_txt tok read cam_name
                      (export_tcameras tok show model_ids model_names unknown unknown_as focal_factor d))).
  Proof.
    rewrite txt_sensor_keys. apply NoDup_map_inj_in; [intros; apply cam_name_inj; assumption|].
    apply NoDup_map_fst_filter, number_from_NoDup.
  Qed.

  (* 2. by image name: same camera model, same parameters *)
  Lemma camera_back d e : inr d = true -> In e (images_of d) -> camera_of (back d) (iname e) = camera_of d (iname e).
  Proof.
    intros IR I. pose proof (in_range_names d IR) as NDn. pose proof (in_range_sensors d IR) as NDs.
    destruct (in_range_facts d IR) as (_ & _ & _ & _ & _ & Hcams & _).
    destruct (number_from_In_snd 1%Z _ _ I) as [i Ii]. fold (numbered_images d) in Ii.
    unfold camera_of. rewrite (entry_src d e NDn I), (entry_back d i e NDn Ii). cbn [icam fst snd].
    rewrite forallb_forall in Hcams. specialize (Hcams e I). unfold icam in Hcams.
    destruct (lookup (snd (fst e)) (d_sensors d)) as [s|] eqn:Ls; [|discriminate].
    destruct s as [m ps|]; [|discriminate]. destruct ps as [|w [|h rest]]; try discriminate.
    cbn in Hcams. rewrite !andb_true_iff in Hcams. destruct Hcams as [[[Hu Hm] Hw] Hh].
    apply negb_true_iff in Hu. unfold mem in Hm. destruct (lookup m model_ids) as [mid|] eqn:Lm; [|discriminate].
    pose proof (cam_list_In d _ _ _ Ls) as Ic. destruct (number_from_In_snd 1%Z _ _ Ic) as [c Icn].
    assert (Ecid : cid d e = c) by (unfold cid, icam; rewrite (cam_ids_lookup d c _ _ NDs Icn); reflexivity).
    rewrite Ecid. unfold back, import_data. cbn [d_sensors fst snd tx_cameras export_txt].
    rewrite lookup_update by apply txt_sensor_keys_NoDup.
    rewrite (In_lookup (cam_name c) (Cam m (w :: h :: rest))); [unfold icam; rewrite Ls; reflexivity | apply txt_sensor_keys_NoDup |].
    unfold import_sensors_txt, export_tcameras. rewrite map_map. apply in_map_iff.
    exists (c, (snd (fst e), (m, w :: h :: rest))). split.
    - unfold tcamera_of, ccamera_of, colmap_camera. cbn [fst snd]. rewrite Hu, Lm. cbn.
      rewrite (names_of_ids m mid Lm). cbn. rewrite !inject_Z_Qtrunc by assumption. rewrite map_map.
      rewrite (map_ext _ (fun x => x)) by (intros; apply read_show). rewrite map_id. reflexivity.
    - apply filter_In. split; [assumption|]. cbn. unfold cam_used. apply existsb_exists. exists e. split; [assumption|].
      apply eqb_refl.
  Qed.

  (* ---------------------------------------------------------------- poses *)
  Lemma pose_record p : mkP (mkQ (qw (pr p)) (qx (pr p)) (qy (pr p)) (qz (pr p))) (mkV (vx (pt p)) (vy (pt p)) (vz (pt p))) = p.
  Proof. destruct p as [[? ? ? ?] [? ? ?]]; reflexivity. Qed.

  Definition posed_in (T : traj pose) (ie : Z * (Z * string * string)) : bool :=
    match lookup2 (its (snd ie)) (icam (snd ie)) T with Some _ => true | None => false end.

  Lemma timage_ids d T (l : list (Z * (Z * string * string))) :
    map (@ti_id tok) (flat_map (timage_of tok show d T) l) = map fst (List.filter (posed_in T) l).
  Proof.
    induction l as [|ie l IH]; [reflexivity|]. cbn [flat_map List.filter]. rewrite map_app, IH.
    assert (E : posed_in T ie = match lookup2 (its (snd ie)) (icam (snd ie)) T with Some _ => true | None => false end)
      by reflexivity.
    rewrite E. unfold timage_of. destruct (lookup2 (its (snd ie)) (icam (snd ie)) T); reflexivity.
  Qed.

  Definition traj_entry d (T : traj pose) (ie : Z * (Z * string * string)) : list (Z * al string pose) :=
    match lookup2 (its (snd ie)) (icam (snd ie)) T with
    | Some p => [(fst ie, [(cam_name (cid d (snd ie)), p)])]
    | None => []
    end.

  Lemma traj_back d T : wtr d = Some T -> d_traj (back d) = Some (flat_map (traj_entry d T) (numbered_images d)).
  Proof.
    intros W. unfold back, import_data. cbn [d_traj fst snd tx_images export_txt]. unfold export_timages. rewrite W.
    f_equal. unfold import_traj_txt.
    rewrite (fold_set2_fresh (@ti_id tok) (fun ti => cam_name (ti_cam tok ti)) (pose_of_timage tok read)).
    - cbn [app]. rewrite map_flat_map. apply flat_map_ext_in. intros ie _. unfold timage_of, traj_entry.
      destruct (lookup2 (its (snd ie)) (icam (snd ie)) T) as [p|]; [|reflexivity]. cbn. unfold pose_of_timage. cbn.
      rewrite !read_show, pose_record. reflexivity.
    - cbn [keys map app]. rewrite timage_ids. apply NoDup_map_fst_filter, number_from_NoDup.
  Qed.

  Lemma traj_back_none d : wtr d = None -> d_traj (back d) = None.
  Proof.
    intros W. unfold back, import_data. cbn [d_traj fst snd tx_images export_txt]. unfold export_timages. rewrite W. reflexivity.
  Qed.

  (* 3. by image name: exactly the pose the (rig-flattened) trajectories give to the image, and none otherwise *)
  Lemma pose_back d e : inr d = true -> In e (images_of d) -> pose_of (back d) (iname e) = pose_in (wtr d) d (iname e).
  Proof.
    intros IR I. pose proof (in_range_names d IR) as NDn.
    destruct (number_from_In_snd 1%Z _ _ I) as [i Ii]. fold (numbered_images d) in Ii.
    unfold pose_of, pose_in. rewrite (entry_src d e NDn I), (entry_back d i e NDn Ii).
    destruct (wtr d) as [T|] eqn:W; [|rewrite (traj_back_none d W); reflexivity].
    rewrite (traj_back d T W). cbn [its icam fst snd]. unfold lookup2 at 1.
    assert (K : forall x kv, In kv (traj_entry d T x) -> fst kv = fst x).
    { intros x kv. unfold traj_entry. destruct (lookup2 _ _ T); cbn; [intros [<-|[]]; reflexivity | tauto]. }
    rewrite (lookup_flat_map_single (fun ie : Z * (Z * string * string) => fst ie) (traj_entry d T) K
               (numbered_images d) (i, e) (number_from_NoDup _ _) Ii).
    unfold traj_entry. cbn [fst snd].
    destruct (lookup2 (its e) (icam e) T) as [p|]; [|reflexivity].
    cbn [lookup]. rewrite eqb_refl. cbn [lookup]. rewrite eqb_refl. reflexivity.
  Qed.

  (* ---------------------------------------------------------------- keypoints and descriptors *)
  Lemma resolve_name d name : NoDup (image_names d) -> In name (image_names d) ->
    name_of_id (Rdb d) (id_of d name) = Some name.
  Proof.
    intros ND I. destruct (known_numbered d name I) as (i & e & Ii & <-).
    rewrite (id_of_numbered d i e ND Ii). apply name_of_id_records; assumption.
  Qed.

  Lemma match_nonempty {A B} (l : list A) (X : B) : l <> [] -> match l with [] => None | _ :: _ => Some X end = Some X.
  Proof. destruct l; [congruence | reflexivity]. Qed.

  Lemma import_export_feats d cut f dc name : NoDup (image_names d) -> feats_in_range d cut (Some f) = true ->
    feats_of (import_feats (Rdb d) dc (export_feats d cut (Some f))) name = lookup name (f_files f).
  Proof.
    intros ND FR. unfold feats_in_range in FR. rewrite !andb_true_iff in FR. destruct FR as [[Hnd Hkn] Hcols].
    apply nodupb_NoDup in Hnd. rewrite forallb_forall in Hkn.
    unfold export_feats. cbv zeta. rewrite Hcols. cbv iota. unfold import_feats. cbv zeta.
    assert (E : map (fun e : Z * Z * rows => (dflt "" (name_of_id (Rdb d) (fst (fst e))), snd (fst e), snd e))
                    (map (fun nr : string * list (list Q) => (id_of d (fst nr), f_cols f, snd nr)) (f_files f))
                = map (fun nr : string * list (list Q) => (fst nr, f_cols f, snd nr)) (f_files f)).
    { rewrite map_map. apply map_ext_in. intros nr I. cbn [fst snd].
      rewrite resolve_name; [reflexivity | assumption|]. apply memb_In, Hkn. unfold keys. apply in_map. assumption. }
    rewrite E.
    assert (D : f_files f = [] \/ f_files f <> []) by (destruct (f_files f); [left; reflexivity | right; discriminate]).
    destruct D as [D|D]; [rewrite D; reflexivity|].
    rewrite match_nonempty by (intro Z; apply map_eq_nil in Z; contradiction).
    unfold feats_of. cbn [f_files].
    rewrite map_app, !filter_map_comm, !map_map. cbn [fst snd].
    rewrite !(map_ext (fun x : string * list (list Q) => (fst x, snd x)) (fun x => x)) by (intros [? ?]; reflexivity).
    rewrite !map_id.
    rewrite from_pairs_nodup.
    - apply (lookup_partition (fun nr : string * list (list Q) => nonempty (snd nr))). exact Hnd.
    - eapply Permutation_NoDup; [apply Permutation_map, filter_partition_perm | exact Hnd].
  Qed.

  Lemma p2d_empty d name : feats_of (d_kp d) name = None -> p2d_of tok show d name = [].
  Proof.
    unfold feats_of, p2d_of. destruct (d_kp d) as [f|]; [|reflexivity]. intros ->. cbn.
    destruct (nonempty (d_points d) && nonempty (d_obs d)); reflexivity.
  Qed.

  Lemma kp_txt_none d T : (forall name, feats_of (d_kp d) name = None) ->
    import_kp_txt tok read (flat_map (timage_of tok show d T) (numbered_images d)) = None.
  Proof.
    intros H. unfold import_kp_txt. rewrite flat_map_nil; [reflexivity|]. intros ti I.
    apply in_flat_map in I. destruct I as [ie [_ I]]. unfold timage_of in I.
    destruct (lookup2 (its (snd ie)) (icam (snd ie)) T); [|destruct I]. destruct I as [<-|[]]. cbn.
    rewrite p2d_empty by apply H. reflexivity.
  Qed.

  Lemma kp_fallback_none d : (forall name, feats_of (d_kp d) name = None) ->
    match export_timages comp tok show false d with Some is => import_kp_txt tok read is | None => None end = None.
  Proof.
    intros H. unfold export_timages. destruct (wtr d) as [T|]; [|reflexivity]. apply kp_txt_none; assumption.
  Qed.

  Lemma import_export_feats' d cut fo dc name : NoDup (image_names d) -> feats_in_range d cut fo = true ->
    feats_of (import_feats (Rdb d) dc (export_feats d cut fo)) name = feats_of fo name.
  Proof. destruct fo as [f|]; [apply import_export_feats | reflexivity]. Qed.

  (* 4. by image name (any name): the same keypoints, the same descriptors; nothing for other names *)
  Lemma kp_back d name : inr d = true -> feats_of (d_kp (back d)) name = feats_of (d_kp d) name.
  Proof.
    intros IR. pose proof (in_range_names d IR) as NDn.
    destruct (in_range_facts d IR) as (_ & _ & _ & _ & _ & _ & _ & _ & _ & Hkp & _).
    unfold back, import_data. cbn [d_kp fst snd].
    change (db_kp (exdb d)) with (export_feats d true (d_kp d)).
    change (tx_images tok (extx d)) with (export_timages comp tok show false d).
    pose proof (fun n => import_export_feats' d true (d_kp d) 6%Z n NDn Hkp) as H.
    destruct (import_feats (Rdb d) 6 (export_feats d true (d_kp d))) as [f'|].
    - exact (H name).
    - rewrite kp_fallback_none; [exact (H name) | intros n; symmetry; exact (H n)].
  Qed.

  Lemma desc_back d name : inr d = true -> feats_of (d_desc (back d)) name = feats_of (d_desc d) name.
  Proof.
    intros IR. pose proof (in_range_names d IR) as NDn.
    destruct (in_range_facts d IR) as (_ & _ & _ & _ & _ & _ & _ & _ & _ & _ & Hds & _).
    unfold back, import_data. cbn [d_desc fst snd].
    change (db_desc (exdb d)) with (export_feats d false (d_desc d)).
    apply import_export_feats'; assumption.
  Qed.

  (* ---------------------------------------------------------------- matches *)
  Lemma in_range_count d : inr d = true -> (Z.of_nat (List.length (images_of d)) < M - 1)%Z.
  Proof. intros H. apply in_range_facts in H. destruct H as (_ & _ & _ & _ & H & _). apply Z.ltb_lt in H. exact H. Qed.

  Lemma id_range d name : inr d = true -> In name (image_names d) -> (0 <= id_of d name < M)%Z.
  Proof.
    intros IR I. pose proof (in_range_count d IR) as C. destruct (known_numbered d name I) as (i & e & Ii & <-).
    rewrite (id_of_numbered d i e (in_range_names d IR) Ii). apply numbered_range in Ii. lia.
  Qed.

  Lemma id_of_inj d n n' : NoDup (image_names d) -> In n (image_names d) -> In n' (image_names d) ->
    id_of d n = id_of d n' -> n = n'.
  Proof.
    intros ND I I' E. destruct (known_numbered d n I) as (i & e & Ii & <-).
    destruct (known_numbered d n' I') as (j & e' & Ij & <-).
    rewrite (id_of_numbered d i e ND Ii), (id_of_numbered d j e' ND Ij) in E. subst j.
    rewrite (number_from_fun _ _ _ _ _ Ii Ij). reflexivity.
  Qed.

  (* the column swap applied by add_matches when id1 > id2 is undone by the importer, and none is applied
     when the ids are in order: whatever the order of the ids, the pair comes back under the same key with the same rows *)
  Lemma import_export_match d n1 n2 rows : inr d = true ->
    In n1 (image_names d) -> In n2 (image_names d) -> sleb n1 n2 = true ->
    import_match M (Rdb d) (export_match M d ((n1, n2), rows)) = [((n1, n2), rows)].
  Proof.
    intros IR I1 I2 L. pose proof (in_range_names d IR) as ND.
    pose proof (id_range d n1 IR I1) as R1. pose proof (id_range d n2 IR I2) as R2.
    unfold export_match, import_match. cbn [fst snd]. rewrite pair_id_roundtrip by assumption. cbn [fst snd].
    destruct (Z.gtb_spec (id_of d n1) (id_of d n2)) as [G|G].
    - rewrite Z.min_r, Z.max_l by lia. rewrite !resolve_name by assumption.
      unfold out_of_order, sltb. destruct (sleb n2 n1) eqn:L2.
      + exfalso. assert (n1 = n2) by (apply sleb_antisym; assumption). subst n2. lia.
      + cbn. rewrite swap_involutive. reflexivity.
    - rewrite Z.min_l, Z.max_r by lia. rewrite !resolve_name by assumption.
      unfold out_of_order, sltb. rewrite L. reflexivity.
  Qed.

  Lemma flat_map_map {A B C} (f : B -> list C) (g : A -> B) (l : list A) : flat_map f (map g l) = flat_map (fun x => f (g x)) l.
  Proof. induction l as [|x l IH]; cbn; [reflexivity | rewrite IH; reflexivity]. Qed.

  Lemma export_pair_ids_NoDup d m : inr d = true -> d_matches d = Some m -> NoDup (map fst (map (export_match M d) m)).
  Proof.
    intros IR Em. pose proof (in_range_names d IR) as ND.
    destruct (in_range_facts d IR) as (_ & _ & _ & _ & _ & _ & _ & _ & _ & _ & _ & Hm & _). rewrite Em in Hm.
    apply andb_true_iff in Hm. destruct Hm as [Hnd Hk]. apply nodupb_NoDup in Hnd. rewrite forallb_forall in Hk.
    assert (Emap : map fst (map (export_match M d) m)
                   = map (fun p : string * string => pair_id M (id_of d (fst p)) (id_of d (snd p))) (keys m)).
    { unfold keys. rewrite !map_map. apply map_ext. intros [[a b] r]. reflexivity. }
    rewrite Emap.
    apply NoDup_map_inj_in; [|exact Hnd].
    intros [a b] [c e] Ip Iq E. cbn [fst snd] in E.
    pose proof (Hk _ Ip) as Hp. pose proof (Hk _ Iq) as Hq. cbn [fst snd] in Hp, Hq.
    rewrite !andb_true_iff in Hp, Hq. destruct Hp as [[Ia Ib] Lab]. destruct Hq as [[Ic Ie] Lce].
    apply memb_In in Ia, Ib, Ic, Ie.
    apply pair_id_inj in E; try (apply id_range; assumption).
    destruct E as [[E1 E2]|[E1 E2]].
    - apply (id_of_inj d _ _ ND Ia Ic) in E1. apply (id_of_inj d _ _ ND Ib Ie) in E2. subst. reflexivity.
    - apply (id_of_inj d _ _ ND Ia Ie) in E1. apply (id_of_inj d _ _ ND Ib Ic) in E2. subst.
      assert (c = e) by (apply sleb_antisym; assumption). subst. reflexivity.
  Qed.

  (* 5. the matches: exactly the same table (same pairs, same rows, nothing else) *)
  Lemma matches_back d : inr d = true -> d_matches (back d) = Some (dflt [] (d_matches d)).
  Proof.
    intros IR. unfold back, import_data. cbn [d_matches fst snd].
    change (db_matches (exdb d)) with (export_matches M d). f_equal. unfold export_matches.
    destruct (d_matches d) as [m|] eqn:Em; [|reflexivity]. cbn [dflt].
    pose proof (export_pair_ids_NoDup d m IR Em) as NDp.
    destruct (in_range_facts d IR) as (_ & _ & _ & _ & _ & _ & _ & _ & _ & _ & _ & Hm & _). rewrite Em in Hm.
    apply andb_true_iff in Hm. destruct Hm as [Hnd Hk]. apply nodupb_NoDup in Hnd. rewrite forallb_forall in Hk.
    rewrite first_wins_nodup; [|exact NDp | intros k []].
    unfold import_matches. rewrite flat_map_map.
    rewrite (flat_map_ext_in _ (fun e => [e])).
    - rewrite flat_map_singleton. apply from_pairs_nodup. exact Hnd.
    - intros [[n1 n2] rows] I. assert (Ik : In (n1, n2) (keys m)) by (unfold keys; apply in_map_iff; exists (n1, n2, rows); auto).
      pose proof (Hk _ Ik) as Hp. cbn [fst snd] in Hp. rewrite !andb_true_iff in Hp. destruct Hp as [[I1 I2] L].
      apply memb_In in I1, I2. apply import_export_match; assumption.
  Qed.

  Lemma matches_of_back d p : inr d = true -> matches_of (back d) p = matches_of d p.
  Proof.
    intros IR. unfold matches_of. rewrite matches_back by assumption. destruct (d_matches d); reflexivity.
  Qed.

  (* ---------------------------------------------------------------- 3-D points *)
  Lemma map_number_from_snd {A B} (F : A -> B) (k : Z) (l : list A) : map (fun ix => F (snd ix)) (number_from k l) = map F l.
  Proof. rewrite <- (map_map snd F), number_from_snd. reflexivity. Qed.

  Definition rgb_of (r : list Q) : list Z :=
    match r with [_; _; _; cr; cg; cb] => [Qtrunc cr; Qtrunc cg; Qtrunc cb] | _ => [0; 0; 0]%Z end.

  Lemma points_back d :
    d_points (back d) = map (fun r => map read (map show (firstn 3 r)) ++ map inject_Z (rgb_of r)) (d_points d).
  Proof.
    unfold back, import_data. cbn [d_points fst snd tx_points export_txt]. unfold import_points, export_tpoints.
    rewrite map_map. cbn [tp_xyz tp_rgb tpoint_of].
    exact (map_number_from_snd (fun r => map read (map show (firstn 3 r)) ++ map inject_Z (rgb_of r)) 0%Z (d_points d)).
  Qed.

  Lemma in_range_points d r : inr d = true -> In r (d_points d) -> List.length r = 3%nat \/ List.length r = 6%nat.
  Proof.
    intros IR I. destruct (in_range_facts d IR) as (_ & _ & _ & _ & _ & _ & _ & _ & _ & _ & _ & _ & H & _).
    rewrite forallb_forall in H. specialize (H r I). apply orb_true_iff in H. destruct H as [H|H]; apply Nat.eqb_eq in H; auto.
  Qed.

  (* 6. the 3-D points: same number, same order, same coordinates *)
  Lemma xyz_back d : inr d = true -> xyz_of (back d) = xyz_of d.
  Proof.
    intros IR. unfold xyz_of. rewrite points_back, map_map. apply map_ext_in. intros r I.
    destruct (in_range_points d r IR I) as [L|L];
      destruct r as [|a [|b [|c [|e [|f [|g [|]]]]]]]; try discriminate L; cbn; rewrite !read_show; reflexivity.
  Qed.

  (* ... and the colours too when they are integers (COLMAP stores them as bytes) *)
  Lemma points_back_exact d : inr d = true ->
    (forall r, In r (d_points d) -> List.length r = 6%nat /\ forallb is_int (skipn 3 r) = true) ->
    d_points (back d) = d_points d.
  Proof.
    intros IR H. rewrite points_back. rewrite <- (map_id (d_points d)) at 2. apply map_ext_in. intros r I.
    destruct (H r I) as [L C]. destruct r as [|a [|b [|c [|e [|f [|g [|]]]]]]]; try discriminate L.
    cbn in C. rewrite !andb_true_iff in C. destruct C as (Ce & Cf & Cg & _).
    cbn. rewrite !read_show, !inject_Z_Qtrunc by assumption. reflexivity.
  Qed.

  (* ---------------------------------------------------------------- observations *)
  Lemma number_from_exists {A} (k : Z) (l : list A) j : (k <= j < k + Z.of_nat (List.length l))%Z -> exists x, In (j, x) (number_from k l).
  Proof.
    revert k; induction l as [|y l IH]; intros k Hj; cbn [List.length number_from] in *; [lia|].
    destruct (Z.eq_dec j k) as [->|N]; [exists y; left; reflexivity|].
    destruct (IH (k + 1)%Z) as [x Ix]; [lia|]. exists x. right. exact Ix.
  Qed.

  Definition track_names d : al Z string :=
    update (from_pairs (id_names (Rdb d)))
           (id_names match export_timages comp tok show false d with
                     | Some is => import_records_txt tok cam_name is
                     | None => []
                     end).

  Lemma id_names_db d : id_names (Rdb d) = map (fun ie => (fst ie, iname (snd ie))) (numbered_images d).
  Proof.
    unfold id_names. change (flat2 (Rdb d)) with (images_of (back d)). rewrite images_back, map_map. reflexivity.
  Qed.

  Lemma id_names_txt d T :
    id_names (import_records_txt tok cam_name (flat_map (timage_of tok show d T) (numbered_images d)))
    = map (fun ie => (fst ie, iname (snd ie))) (List.filter (posed_in T) (numbered_images d)).
  Proof.
    unfold import_records_txt.
    rewrite (fold_set2_fresh (@ti_id tok) (fun ti => cam_name (ti_cam tok ti)) (@ti_name tok)).
    - cbn [app]. unfold id_names. rewrite flat2_singletons, map_map. cbn [its iname fst snd].
      induction (numbered_images d) as [|ie l IH]; [reflexivity|]. cbn [flat_map List.filter]. rewrite map_app, IH.
      assert (E : posed_in T ie = match lookup2 (its (snd ie)) (icam (snd ie)) T with Some _ => true | None => false end)
        by reflexivity.
      rewrite E. unfold timage_of. destruct (lookup2 (its (snd ie)) (icam (snd ie)) T); reflexivity.
    - cbn [keys map app]. rewrite timage_ids. apply NoDup_map_fst_filter, number_from_NoDup.
  Qed.

  Lemma track_names_lookup d i e : In (i, e) (numbered_images d) -> lookup i (track_names d) = Some (iname e).
  Proof.
    intros I. unfold track_names.
    assert (A : lookup i (from_pairs (id_names (Rdb d))) = Some (iname e)).
    { rewrite id_names_db. rewrite from_pairs_nodup by (rewrite map_map; apply number_from_NoDup).
      apply In_lookup; [unfold keys; rewrite map_map; apply number_from_NoDup|].
      apply in_map_iff. exists (i, e). auto. }
    unfold export_timages. destruct (wtr d) as [T|]; [|exact A].
    rewrite id_names_txt. rewrite lookup_update by (rewrite map_map; apply NoDup_map_fst_filter, number_from_NoDup).
    destruct (lookup i (map (fun ie : Z * (Z * string * string) => (fst ie, iname (snd ie)))
                            (List.filter (posed_in T) (numbered_images d)))) as [v|] eqn:L; [|exact A].
    apply lookup_In, in_map_iff in L. destruct L as [[j e'] [E I']]. cbn in E. inversion E; subst.
    apply filter_In in I'. destruct I' as [I' _]. rewrite (number_from_fun _ _ _ _ _ I I'). reflexivity.
  Qed.

  Definition obs_entry d (ir : Z * list Q) : list (Z * list (string * Z)) :=
    let track := map (fun nk : string * Z => (id_of d (fst nk), snd nk)) (obs_of d (fst ir)) in
    if nonempty track && nonempty (track_names d)
    then [(fst ir, map (fun ik : Z * Z => (dflt "unknown" (lookup (fst ik) (track_names d)), snd ik)) track)]
    else [].

  Lemma obs_back_list d : d_obs (back d) = flat_map (obs_entry d) (number_from 0%Z (d_points d)).
  Proof.
    unfold back, import_data. cbn [d_obs fst snd tx_points tx_images export_txt]. fold (track_names d).
    unfold import_obs, export_tpoints. rewrite number_from_map, number_from_twice, map_map, flat_map_map.
    apply flat_map_ext_in. intros ir _. reflexivity.
  Qed.

  Lemma in_range_obs d j l : inr d = true -> lookup j (d_obs d) = Some l ->
    (0 <= j < Z.of_nat (List.length (d_points d)))%Z /\ forall n k, In (n, k) l -> In n (image_names d).
  Proof.
    intros IR L. destruct (in_range_facts d IR) as (_ & _ & _ & _ & _ & _ & _ & _ & _ & _ & _ & _ & _ & _ & H).
    rewrite forallb_forall in H. specialize (H (j, l) (lookup_In _ _ _ L)). cbn [fst snd] in H.
    rewrite !andb_true_iff in H. destruct H as [[H1 H2] H3]. split; [lia|].
    intros n k I. rewrite forallb_forall in H3. apply memb_In. exact (H3 (n, k) I).
  Qed.

  (* 7. the observations of every point: the same list of (image name, feature index) *)
  Lemma obs_back d j : inr d = true -> obs_of (back d) j = obs_of d j.
  Proof.
    intros IR. pose proof (in_range_names d IR) as ND. unfold obs_of at 1. rewrite obs_back_list.
    assert (K : forall x kv, In kv (obs_entry d x) -> fst kv = fst x).
    { intros x kv. unfold obs_entry. cbv zeta. destruct (_ && _); cbn; [intros [<-|[]]; reflexivity | tauto]. }
    destruct (in_dec Z.eq_dec j (map fst (number_from 0%Z (d_points d)))) as [I|NI].
    - apply in_map_iff in I. destruct I as [[j' r] [E I]]. cbn in E. subst j'.
      rewrite (lookup_flat_map_single (fun ir : Z * list Q => fst ir) (obs_entry d) K _ (j, r) (number_from_NoDup _ _) I).
      unfold obs_entry. cbn [fst]. unfold obs_of. destruct (lookup j (d_obs d)) as [l|] eqn:L; [|reflexivity].
      cbn [dflt]. destruct l as [|[n k] l'] eqn:El; [reflexivity|]. rewrite <- El.
      destruct (in_range_obs d j _ IR L) as [_ Hn]. rewrite <- El in Hn.
      assert (I0 : In (n, k) l) by (rewrite El; left; reflexivity).
      assert (NE : nonempty (track_names d) = true).
      { destruct (known_numbered d n (Hn n k I0)) as (i & e & Ii & _).
        pose proof (track_names_lookup d i e Ii) as TL. destruct (track_names d); [discriminate | reflexivity]. }
      assert (NEl : nonempty (map (fun nk : string * Z => (id_of d (fst nk), snd nk)) l) = true) by (rewrite El; reflexivity).
      rewrite NEl, NE. cbn [andb lookup]. rewrite eqb_refl. cbn [dflt]. rewrite map_map.
      rewrite <- (map_id l) at 2. apply map_ext_in. intros [n' k'] I'. cbn [fst snd].
      destruct (known_numbered d n' (Hn n' k' I')) as (i & e & Ii & <-).
      rewrite (id_of_numbered d i e ND Ii), (track_names_lookup d i e Ii). reflexivity.
    - rewrite (lookup_flat_map_none (fun ir : Z * list Q => fst ir) (obs_entry d) K).
      + unfold obs_of. destruct (lookup j (d_obs d)) as [l|] eqn:L; [|reflexivity]. exfalso. apply NI.
        destruct (in_range_obs d j l IR L) as [Hj _]. destruct (number_from_exists 0%Z (d_points d) j) as [x Ix]; [lia|].
        apply in_map_iff. exists (j, x). auto.
      + intros x Ix E. apply NI. apply in_map_iff. exists x. auto.
  Qed.

  (* ---------------------------------------------------------------- no step raises *)
  Lemma feats_known_in_range d cut fo : feats_in_range d cut fo = true -> feats_known d fo = true.
  Proof.
    destruct fo as [f|]; [|reflexivity]. unfold feats_in_range, feats_known. rewrite !andb_true_iff. intros [[_ H] _].
    rewrite forallb_forall in *. intros nr I. unfold known_image. rewrite mem_image_ids. apply H. unfold keys. apply in_map. exact I.
  Qed.

  Lemma in_range_export_ok d : inr d = true -> export_ok comp model_ids unknown unknown_as focal_factor false d = true.
  Proof.
    intros IR. pose proof (in_range_sensors d IR) as NDs.
    destruct (in_range_facts d IR) as (_ & _ & _ & _ & _ & H6 & H7 & H8 & H9 & H10 & H11 & H12 & _ & _ & _).
    unfold export_ok. rewrite H8, H9, H7, (feats_known_in_range _ _ _ H10), (feats_known_in_range _ _ _ H11). cbn [andb].
    rewrite !andb_true_iff. repeat split.
    - rewrite forallb_forall in *. intros e I. specialize (H6 e I).
      destruct (lookup (icam e) (d_sensors d)) as [[m ps|]|] eqn:L; try discriminate.
      pose proof (cam_list_In d _ _ _ L) as Ic. destruct (number_from_In_snd 1%Z _ _ Ic) as [c Icn].
      unfold mem. rewrite (cam_ids_lookup d c _ _ NDs Icn). reflexivity.
    - destruct (d_matches d) as [m|]; [|reflexivity]. apply andb_true_iff in H12. destruct H12 as [_ H12].
      rewrite forallb_forall in *. intros e I. unfold known_image. rewrite !mem_image_ids.
      assert (Ik : In (fst e) (keys m)) by (unfold keys; apply in_map; exact I).
      specialize (H12 _ Ik). rewrite !andb_true_iff in H12. rewrite andb_true_iff. tauto.
    - rewrite forallb_forall. intros ir _. rewrite forallb_forall. intros [n k] I. cbn [fst].
      unfold known_image. rewrite mem_image_ids. apply memb_In. unfold obs_of in I.
      destruct (lookup (fst ir) (d_obs d)) as [l|] eqn:L; [|destruct I].
      destruct (in_range_obs d _ _ IR L) as [_ Hn]. exact (Hn n k I).
  Qed.

  (* 0. the round trip of an in-range dataset never raises *)
  Lemma roundtrip_ok d : inr d = true -> rt d = ROk (back d).
  Proof.
    intros IR. unfold roundtrip, export. rewrite (in_range_export_ok d IR). unfold import, import_ok. cbn [snd].
    destruct (tx_images tok (extx d)); reflexivity.
  Qed.

  (* ---------------------------------------------------------------- which trajectories are written *)
  Lemma wtraj_no_rigs d : d_rigs d = None -> wtr d = d_traj d.
  Proof. intros E. unfold wtraj, world_traj. rewrite E. reflexivity. Qed.

  Lemma wtraj_rigs d R T T' : d_rigs d = Some R -> d_traj d = Some T ->
    remove_inplace pose comp max_depth R T = Done T' -> wtr d = Some T'.
  Proof. intros ER ET E. unfold wtraj, world_traj. rewrite ER, ET, E. reflexivity. Qed.

  Lemma wtraj_rigs_no_traj d R : d_rigs d = Some R -> d_traj d = None -> wtr d = None.
  Proof. intros ER ET. unfold wtraj, world_traj. rewrite ER, ET. reflexivity. Qed.

  (* in range, rigs are flattened: no trajectory entry names a rig any more *)
  Lemma in_range_flat d R T : inr d = true -> d_rigs d = Some R -> wtr d = Some T ->
    forall t dev p, lookup2 t dev T = Some p -> is_rig R dev = false.
  Proof.
    intros IR ER W t dev p L. destruct (in_range_facts d IR) as (_ & _ & _ & _ & _ & _ & _ & _ & H9 & _).
    apply negb_true_iff in H9. unfold rigs_still_used in H9. rewrite ER in H9.
    destruct (nonempty R) eqn:NE.
    - rewrite W in H9. destruct (is_rig R dev) eqn:IsR; [|reflexivity]. exfalso.
      assert (Ex : existsb (fun e : Z * string * pose => is_rig R (snd (fst e))) (flat2 T) = true).
      { apply existsb_exists. exists (t, dev, p). split; [|exact IsR].
        unfold lookup2 in L. destruct (lookup t T) as [inner|] eqn:Lt; [|discriminate].
        unfold flat2. apply in_flat_map. exists (t, inner). split; [apply lookup_In; exact Lt|].
        apply in_map_iff. exists (dev, p). split; [reflexivity | apply lookup_In; exact L]. }
      congruence.
    - destruct R; [reflexivity | discriminate].
  Qed.

  Lemma in_range_rigs_done d R T : inr d = true -> d_rigs d = Some R -> d_traj d = Some T ->
    exists T', remove_inplace pose comp max_depth R T = Done T' /\ wtr d = Some T'.
  Proof.
    intros IR ER ET. destruct (in_range_facts d IR) as (_ & _ & _ & _ & _ & _ & _ & H8 & _).
    unfold wtraj. unfold world_traj in *. rewrite ER, ET in *.
    destruct (remove_inplace pose comp max_depth R T) as [T'| |]; try discriminate. exists T'. split; reflexivity.
  Qed.

  (* ---------------------------------------------------------------- import options and histories of calls *)
  Local Notation impm := (import_mode tok read cam_name model_names M false).
  Local Notation rtm := (roundtrip_mode comp tok show read cam_name model_ids model_names unknown unknown_as focal_factor M false).

  (* database + reconstruction, nothing skipped (whatever no_geometric_filtering): the import the theorems are about *)
  Lemma import_mode_full g c : impm (mkIO SBoth false g) c = imp c.
  Proof.
    unfold import_mode, import_data. cbn [io_src io_skip andb negb orb].
    destruct (import_feats (import_records_db cam_name (fst c)) 6 (db_kp (fst c))); reflexivity.
  Qed.

  Lemma roundtrip_mode_full g d : rtm (mkIO SBoth false g) d = rt d.
  Proof.
    unfold roundtrip_mode, roundtrip. destruct (export _ _ _ _ _ _ _ _ _ _ d) as [c|]; [|reflexivity].
    unfold import, import_ok_mode. cbn [io_src io_skip orb]. rewrite import_mode_full. destruct (import_ok tok false c); reflexivity.
  Qed.

  (* the result of a call inside a history is the result of that call alone *)
  Lemma run_history_nth (h1 h2 : list (iopts * dataset)) (o : iopts) (d : dataset) :
    nth_error (run_history comp tok show read cam_name model_ids model_names unknown unknown_as focal_factor M false
                           (h1 ++ (o, d) :: h2)) (List.length h1) = Some (rtm o d).
  Proof.
    unfold run_history. rewrite map_app. cbn [map fst snd].
    rewrite nth_error_app2 by (rewrite map_length; lia). rewrite map_length, Nat.sub_diag. reflexivity.
  Qed.

  (* re-using an export target: what the target held before is irrelevant *)
  Lemma step_on_result (s : store tok) od :
    snd (step_on comp tok show read cam_name model_ids model_names unknown unknown_as focal_factor M false s od)
    = rtm (fst od) (snd od).
  Proof. unfold step_on, export_to, roundtrip_mode. cbn [snd]. destruct (export _ _ _ _ _ _ _ _ _ _ (snd od)); reflexivity. Qed.

  Lemma run_on_history (s : store tok) h :
    run_on comp tok show read cam_name model_ids model_names unknown unknown_as focal_factor M false s h
    = run_history comp tok show read cam_name model_ids model_names unknown unknown_as focal_factor M false h.
  Proof.
    revert s; induction h as [|od h IH]; intros s; [reflexivity|]. cbn [run_on run_history map].
    rewrite step_on_result, IH. reflexivity.
  Qed.
End RoundTrip.

(* ------------------------------------------------------------------ the naming used in executions is injective *)
Lemma pos_name_inj p q : pos_name p = pos_name q -> p = q.
Proof.
  revert q; induction p as [p IH|p IH|]; intros [q|q|]; cbn; intros E; try discriminate; try reflexivity;
    inversion E as [E']; f_equal; apply IH; exact E'.
Qed.
Lemma cam_name_x_inj a b : cam_name_x a = cam_name_x b -> a = b.
Proof.
  destruct a as [|p|p], b as [|q|q]; cbn; intros E; try discriminate; try reflexivity;
    inversion E as [E']; f_equal; apply pos_name_inj; exact E'.
Qed.
