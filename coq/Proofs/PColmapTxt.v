(* Proofs/PColmapTxt.v — the character-level lexing of images.txt (Model/MColmap.v: parse_image_line, emit_image_line):
   whatever the nine leading fields and whatever the image name (blanks in a row, tabs, commas inside), the line
   export writes is read back as exactly these fields and exactly this name.  Property C13, repair (E). *)
From Coq Require Import List Bool String Ascii ZArith NArith Lia.
From KV Require Import Eqb AL Str.
From KV.Model Require Import MQV MPose MRigs MColmap.
Import ListNotations.
Local Open Scope string_scope.
Local Open Scope list_scope.

Definition head_ok (s : string) : bool := match s with String c _ => negb (is_sep c) | EmptyString => false end.
(* s is empty or begins with a separator: a token stops there *)
Definition stops (s : string) : bool := match s with String c _ => is_sep c | EmptyString => true end.

Lemma take_tok_app t rest : clean_tok t = true -> stops rest = true -> take_tok (t ++ rest)%string = (t, rest).
Proof.
  induction t as [|c t IH]; simpl; intros Hc Hs.
  - destruct rest as [|c r]; simpl in *; [reflexivity | rewrite Hs; reflexivity].
  - apply andb_true_iff in Hc. destruct Hc as [Hc Ht]. apply negb_true_iff in Hc. rewrite Hc.
    rewrite (IH Ht Hs). reflexivity.
Qed.

Lemma skip_seps_head_ok s : head_ok s = true -> skip_seps s = s.
Proof. destruct s as [|c s]; simpl; [discriminate|]. intros H. apply negb_true_iff in H. rewrite H. reflexivity. Qed.

Lemma field_ok_clean t : field_ok t = true -> clean_tok t = true.
Proof. destruct t; simpl; [discriminate | auto]. Qed.
Lemma field_ok_head t : field_ok t = true -> head_ok t = true.
Proof. destruct t as [|c t]; simpl; [discriminate|]. intros H. apply andb_true_iff in H. tauto. Qed.
Lemma name_ok_head n : name_ok n = true -> head_ok n = true.
Proof. unfold name_ok. intros H. apply andb_true_iff in H. destruct n; simpl in *; tauto. Qed.
Lemma name_ok_rstrip n : name_ok n = true -> rstrip n = n.
Proof. unfold name_ok. intros H. apply andb_true_iff in H. destruct H as [_ H]. apply eqb_true in H. exact H. Qed.

Lemma head_ok_app a b : head_ok a = true -> head_ok (a ++ b)%string = true.
Proof. destruct a; simpl; [discriminate | auto]. Qed.

Lemma join_sp_cons x y l : join_sp (x :: y :: l) = (x ++ String " "%char (join_sp (y :: l)))%string.
Proof. reflexivity. Qed.

Lemma head_ok_join x l : head_ok x = true -> head_ok (join_sp (x :: l)) = true.
Proof. destruct l; [simpl; auto|]. rewrite join_sp_cons. apply head_ok_app. Qed.

Lemma sep_space : is_sep " "%char = true.
Proof. reflexivity. Qed.

(* n fields then the name: read back as written *)
Lemma fields_n_emit toks name :
  Forall (fun t => field_ok t = true) toks -> head_ok name = true ->
  fields_n (List.length toks) (join_sp (toks ++ [name])) = Some (toks, name).
Proof.
  intros Hf Hn. induction Hf as [|t toks Ht Hf IH]; [reflexivity|].
  assert (Hj : exists y l, toks ++ [name] = y :: l /\ head_ok y = true).
  { destruct toks as [|y l]; simpl; [exists name, []; auto|]. exists y, (l ++ [name]). split; [reflexivity|].
    inversion Hf; subst. apply field_ok_head. assumption. }
  destruct Hj as (y & l & Hyl & Hy).
  change (List.length (t :: toks)) with (S (List.length toks)).
  change ((t :: toks) ++ [name]) with (t :: (toks ++ [name])).
  rewrite Hyl in *. rewrite join_sp_cons. cbn [fields_n].
  rewrite (take_tok_app t (String " "%char (join_sp (y :: l))) (field_ok_clean _ Ht) eq_refl). cbn [fst snd].
  destruct t as [|c t]; [discriminate Ht|].
  cbn [skip_seps]. rewrite sep_space. rewrite (skip_seps_head_ok _ (head_ok_join y l Hy)). rewrite IH. reflexivity.
Qed.

Lemma rstrip_app a b : rstrip b = b -> b <> EmptyString -> rstrip (a ++ b)%string = (a ++ b)%string.
Proof.
  intros Hb Hne. induction a as [|c a IH]; simpl; [exact Hb|]. rewrite IH.
  destruct (a ++ b)%string eqn:E; [|reflexivity]. destruct a; simpl in E; [contradiction | discriminate].
Qed.

Lemma sapp_assoc (a b c : string) : ((a ++ b) ++ c = a ++ (b ++ c))%string.
Proof. induction a; simpl; [reflexivity | rewrite IHa; reflexivity]. Qed.

Lemma join_sp_last l x : exists p, join_sp (l ++ [x]) = (p ++ x)%string.
Proof.
  induction l as [|y l IH]; [exists EmptyString; reflexivity|]. destruct IH as [p IH].
  change ((y :: l) ++ [x]) with (y :: (l ++ [x])).
  destruct (l ++ [x]) as [|z l'] eqn:E; [destruct l; discriminate|]. rewrite join_sp_cons, IH.
  exists (y ++ String " "%char p)%string. rewrite sapp_assoc. reflexivity.
Qed.

(* THE ROUND TRIP OF ONE LINE, for every name and every nine fields *)
Theorem parse_emit_image_line fields name :
  List.length fields = 9%nat -> Forall (fun t => field_ok t = true) fields -> name_ok name = true ->
  parse_image_line (emit_image_line fields name) = Some (fields, name).
Proof.
  intros Hl Hf Hn. unfold parse_image_line, emit_image_line.
  destruct (join_sp_last fields name) as [p Hp].
  assert (Hne : name <> EmptyString) by (destruct name; [discriminate Hn | discriminate]).
  rewrite Hp, (rstrip_app p name (name_ok_rstrip _ Hn) Hne), <- Hp.
  assert (Hh : head_ok (join_sp (fields ++ [name])) = true).
  { destruct fields as [|y l]; [discriminate Hl|]. apply head_ok_join. inversion Hf; subst. apply field_ok_head. assumption. }
  rewrite (skip_seps_head_ok _ Hh), <- Hl. apply fields_n_emit; [assumption | apply name_ok_head; assumption].
Qed.

(* the importer before the repair: right exactly for the names that [squeeze] leaves alone *)
Theorem parse_emit_image_line_legacy fields name :
  List.length fields = 9%nat -> Forall (fun t => field_ok t = true) fields -> name_ok name = true ->
  parse_image_line_legacy (emit_image_line fields name) = Some (fields, squeeze name).
Proof. intros. unfold parse_image_line_legacy. rewrite parse_emit_image_line by assumption. reflexivity. Qed.

(* ------------------------------------------------------------------ the whole file: header, two lines per image *)
Lemma evens_pairs {A B} (f g : A -> B) l : evens (flat_map (fun r => [f r; g r]) l) = map f l.
Proof. induction l as [|r l IH]; [reflexivity|]. cbn [flat_map app evens]. simpl. rewrite <- IH. destruct (flat_map _ l); reflexivity. Qed.

Lemma filter_all_false {A} (p : A -> bool) l : Forall (fun x => p x = false) l -> List.filter p l = [].
Proof. induction 1; simpl; [reflexivity|]. rewrite H. assumption. Qed.
Lemma filter_all_true {A} (p : A -> bool) l : Forall (fun x => p x = true) l -> List.filter p l = l.
Proof. induction 1; simpl; [reflexivity|]. rewrite H. f_equal. assumption. Qed.

Definition rec_ok (r : list string * string * string) : Prop :=
  List.length (fst (fst r)) = 9%nat /\ Forall (fun t => field_ok t = true) (fst (fst r)) /\ name_ok (snd (fst r)) = true
  /\ is_comment (hd EmptyString (fst (fst r))) = false /\ is_comment (snd r) = false.

Lemma is_comment_emit f fs name : field_ok f = true -> is_comment (emit_image_line (f :: fs) name) = is_comment f.
Proof.
  intros Hf. unfold emit_image_line. change ((f :: fs) ++ [name]) with (f :: (fs ++ [name])).
  destruct (fs ++ [name]) eqn:E; [destruct fs; discriminate|]. rewrite join_sp_cons.
  destruct f; [discriminate Hf | reflexivity].
Qed.

Theorem parse_emit_images_txt header recs :
  Forall (fun h => is_comment h = true) header -> Forall rec_ok recs ->
  parse_images_txt (emit_images_txt header recs) = Some (map fst recs).
Proof.
  intros Hh Hr. unfold parse_images_txt, emit_images_txt. rewrite filter_app.
  rewrite (filter_all_false (fun l => negb (is_comment l)) header)
    by (eapply Forall_impl; [|exact Hh]; intros a Ha; simpl in Ha; rewrite Ha; reflexivity).
  rewrite filter_all_true.
  2:{ apply Forall_forall. intros l Hl. apply in_flat_map in Hl. destruct Hl as (r & Hin & Hl).
      rewrite Forall_forall in Hr. destruct (Hr r Hin) as (H9 & Hf & _ & Hc1 & Hc2).
      destruct Hl as [<-|[<-|[]]]; [|rewrite Hc2; reflexivity].
      destruct (fst (fst r)) as [|f fs]; [discriminate H9|]. inversion Hf; subst.
      rewrite is_comment_emit by assumption. simpl in Hc1. rewrite Hc1. reflexivity. }
  cbn [app]. rewrite (evens_pairs (fun r => emit_image_line (fst (fst r)) (snd (fst r))) (fun r => snd r)).
  induction Hr as [|r recs (H9 & Hf & Hn & _) Hr IH]; [reflexivity|].
  cbn [map all_some]. rewrite parse_emit_image_line by assumption. rewrite IH. destruct r as [[a b] c]. reflexivity.
Qed.

(* ------------------------------------------------------------------ the images.txt of EVERY exported dataset *)
From Coq Require Import QArith.
From KV.Proofs Require Import PColmap.

Lemma is_comment_join x l : field_ok x = true -> is_comment (join_sp (x :: l)) = is_comment x.
Proof. intros Hx. destruct l; [reflexivity|]. rewrite join_sp_cons. destruct x; [discriminate Hx | reflexivity]. Qed.

Section ImagesTxt.
  Variable comp : MPose.pose -> MPose.pose -> MPose.pose.
  Variable show : Q -> string.
  Variable show_z : Z -> string.
  Variable legacy : bool.
  Hypothesis show_ok : forall x, field_ok (show x) = true /\ is_comment (show x) = false.
  Hypothesis show_z_ok : forall z, field_ok (show_z z) = true /\ is_comment (show_z z) = false.

  Lemma timage_rec_ok d T ie ti :
    In ti (timage_of string show d T ie) -> name_ok (iname (snd ie)) = true ->
    rec_ok (fields_of_timage show_z ti, ti_name string ti, p2d_line show_z ti).
  Proof.
    unfold timage_of. destruct (lookup2 _ _ T) as [p|]; [|intros []]. intros [<-|[]] Hn.
    unfold rec_ok, fields_of_timage, p2d_line. cbn [fst snd ti_q ti_t ti_id ti_cam ti_name ti_p2d hd].
    split; [reflexivity|]. split; [repeat constructor; first [apply show_ok | apply show_z_ok]|].
    split; [exact Hn|]. split; [apply show_z_ok|].
    unfold p2d_of. destruct (d_kp d) as [f|]; [|reflexivity].
    destruct (nonempty (d_points d) && nonempty (d_obs d)); [|reflexivity].
    destruct (dflt [] (lookup (iname (snd ie)) (f_files f))) as [|r rs]; [reflexivity|].
    cbn [map flat_map app fst snd]. rewrite is_comment_join; apply show_ok.
  Qed.

  (* whatever the dataset, when export writes an images.txt, the text is read back as exactly the records written:
     ids, the seven pose tokens, camera id and THE NAME, for every image name kapture can hold *)
  Theorem exported_images_txt_parses d header is :
    export_timages comp string show legacy d = Some is ->
    (forall n, In n (image_names d) -> name_ok n = true) ->
    Forall (fun h => is_comment h = true) header ->
    parse_images_txt (images_txt_of show_z header is)
    = Some (map (fun ti => (fields_of_timage show_z ti, ti_name string ti)) is).
  Proof.
    unfold export_timages. destruct (wtraj comp legacy d) as [T|]; [|discriminate]. intros E Hn Hh. inversion E; subst is; clear E.
    unfold images_txt_of. rewrite parse_emit_images_txt; [rewrite map_map; reflexivity | exact Hh |].
    apply Forall_forall. intros r Hr. apply in_map_iff in Hr. destruct Hr as (ti & <- & Hti).
    apply in_flat_map in Hti. destruct Hti as (ie & Hie & Hti). eapply timage_rec_ok; [exact Hti|].
    apply Hn. unfold image_names. apply in_map. destruct ie as [i e]. eapply number_from_In. exact Hie.
  Qed.
End ImagesTxt.
