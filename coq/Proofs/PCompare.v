(* Proofs/PCompare.v — lemmas about Model/MCompare.v (property C08). *)
From Coq Require Import List Bool String ZArith QArith Qabs Qreduction Permutation Sorted Lia Lqa.
From KV Require Import Eqb AL Str.
From KV.Model Require Import MCompare.
Import ListNotations.
Local Open Scope string_scope.
Local Open Scope list_scope.

(* ------------------------------------------------------------------ 1. the order on keys *)
Lemma sleb_total a b : sleb a b = true \/ sleb b a = true.
Proof. apply lleb_total. Qed.
Lemma sleb_trans a b c : sleb a b = true -> sleb b c = true -> sleb a c = true.
Proof. apply lleb_trans. Qed.
Lemma sleb_antisym a b : sleb a b = true -> sleb b a = true -> a = b.
Proof.
  intros H1 H2. pose proof (lleb_antisym _ _ H1 H2) as E.
  rewrite <- (of_bytes_bytes_of a), <- (of_bytes_bytes_of b), E. reflexivity.
Qed.

Lemma atom_leb_total a b : atom_leb a b = true \/ atom_leb b a = true.
Proof.
  destruct a, b; cbn; auto using sleb_total.
  destruct (Z.leb_spec z z0), (Z.leb_spec z0 z); auto; lia.
Qed.
Lemma atom_leb_trans a b c : atom_leb a b = true -> atom_leb b c = true -> atom_leb a c = true.
Proof.
  destruct a, b, c; cbn; try discriminate; auto; try apply sleb_trans.
  rewrite !Z.leb_le; lia.
Qed.
Lemma atom_leb_antisym a b : atom_leb a b = true -> atom_leb b a = true -> a = b.
Proof.
  destruct a, b; cbn; try discriminate.
  - rewrite !Z.leb_le; intros; f_equal; lia.
  - intros H1 H2; f_equal; apply sleb_antisym; assumption.
  - intros H1 H2; f_equal; apply sleb_antisym; assumption.
Qed.

Lemma key_leb_total a b : key_leb a b = true \/ key_leb b a = true.
Proof.
  revert b; induction a as [|x a IH]; intros [|y b]; cbn; auto.
  rewrite (eqb_sym y x). destruct (eqb_spec x y); [apply IH | apply atom_leb_total].
Qed.
Lemma key_leb_antisym a b : key_leb a b = true -> key_leb b a = true -> a = b.
Proof.
  revert b; induction a as [|x a IH]; intros [|y b]; cbn; auto; try discriminate.
  rewrite (eqb_sym y x). destruct (eqb_spec x y) as [->|N].
  - intros; f_equal; auto.
  - intros H1 H2. elim N. apply atom_leb_antisym; assumption.
Qed.
Lemma key_leb_trans a b c : key_leb a b = true -> key_leb b c = true -> key_leb a c = true.
Proof.
  revert b c; induction a as [|x a IH]; intros [|y b] [|z c]; cbn; auto; try discriminate.
  destruct (eqb_spec x y) as [->|N1]; destruct (eqb_spec y z) as [->|N2].
  - apply IH.
  - auto.
  - destruct (eqb_spec x z); [congruence | auto].
  - intros H1 H2. destruct (eqb_spec x z) as [->|N3].
    + elim N1. apply atom_leb_antisym; assumption.
    + eapply atom_leb_trans; eassumption.
Qed.
Lemma key_leb_refl a : key_leb a a = true.
Proof. destruct (key_leb_total a a); assumption. Qed.

(* ------------------------------------------------------------------ 2. insertion sort *)
Section SortFacts.
  Context {A : Type}.
  Variable leb : A -> A -> bool.
  Hypothesis leb_total : forall a b, leb a b = true \/ leb b a = true.
  Hypothesis leb_trans : forall a b c, leb a b = true -> leb b c = true -> leb a c = true.
  Let le (a b : A) : Prop := leb a b = true.

  Lemma insert_sorted_perm x l : Permutation (insert_sorted leb x l) (x :: l).
  Proof.
    induction l as [|y l IH]; cbn; [reflexivity|].
    destruct (leb x y); [reflexivity|]. rewrite IH. apply perm_swap.
  Qed.
  Lemma isort_perm l : Permutation (isort leb l) l.
  Proof.
    induction l as [|x l IH]; cbn; [reflexivity|]. rewrite insert_sorted_perm. constructor; assumption.
  Qed.

  Lemma insert_sorted_sorted x l : StronglySorted le l -> StronglySorted le (insert_sorted leb x l).
  Proof.
    induction l as [|y l IH]; cbn; intros S; [repeat constructor|].
    inversion S as [|? ? S' F]; subst.
    destruct (leb x y) eqn:E.
    - constructor; [assumption|]. constructor; [exact E|].
      eapply Forall_impl; [|exact F]. intros z Hz. unfold le in *. eapply leb_trans; eassumption.
    - constructor; [apply IH; assumption|].
      assert (Lyx : le y x) by (destruct (leb_total x y); [congruence | assumption]).
      rewrite Forall_forall. intros z Hz.
      apply (Permutation_in _ (insert_sorted_perm x l)) in Hz. destruct Hz as [<-|Hz]; [assumption|].
      rewrite Forall_forall in F; auto.
  Qed.
  Lemma isort_sorted l : StronglySorted le (isort leb l).
  Proof. induction l as [|x l IH]; cbn; [constructor | apply insert_sorted_sorted; assumption]. Qed.

  Hypothesis leb_antisym : forall a b, leb a b = true -> leb b a = true -> a = b.

  Lemma leb_refl_ a : leb a a = true.
  Proof. destruct (leb_total a a); assumption. Qed.

  Lemma sorted_perm_eq l l' :
    StronglySorted le l -> StronglySorted le l' -> Permutation l l' -> l = l'.
  Proof.
    revert l'; induction l as [|x l IH]; intros l' S S' P.
    - apply Permutation_nil in P; subst; reflexivity.
    - destruct l' as [|y l']; [symmetry in P; apply Permutation_nil in P; discriminate|].
      inversion S as [|? ? S1 F1]; inversion S' as [|? ? S1' F1']; subst.
      assert (E : x = y).
      { assert (I1 : In y (x :: l)) by (eapply Permutation_in; [symmetry; exact P | left; reflexivity]).
        assert (I2 : In x (y :: l')) by (eapply Permutation_in; [exact P | left; reflexivity]).
        rewrite Forall_forall in F1, F1'.
        destruct I1 as [->|I1]; [reflexivity|]. destruct I2 as [->|I2]; [reflexivity|].
        apply leb_antisym; [apply F1 | apply F1']; assumption. }
      subst y. f_equal. apply IH; auto. eapply Permutation_cons_inv; exact P.
  Qed.

  Lemma isort_eq_iff_perm l l' : isort leb l = isort leb l' <-> Permutation l l'.
  Proof.
    split; intros H.
    - rewrite <- (isort_perm l), H. apply isort_perm.
    - apply sorted_perm_eq; try apply isort_sorted.
      rewrite (isort_perm l), H. symmetry; apply isort_perm.
  Qed.
End SortFacts.

(* ------------------------------------------------------------------ 3. relations used by the statements *)
Definition orel {A} (P : A -> A -> Prop) (x y : option A) : Prop :=
  match x, y with
  | None, None => True
  | Some a, Some b => P a b
  | _, _ => False
  end.

Lemma orel_refl {A} (P : A -> A -> Prop) : (forall a, P a a) -> forall x, orel P x x.
Proof. intros H [a|]; cbn; auto. Qed.
Lemma orel_sym {A} (P : A -> A -> Prop) : (forall a b, P a b -> P b a) -> forall x y, orel P x y -> orel P y x.
Proof. intros H [a|] [b|]; cbn; auto. Qed.

Notation rows := (list (key * val)).

Lemma row_leb_total (x y : key * val) : row_leb x y = true \/ row_leb y x = true.
Proof. apply key_leb_total. Qed.
Lemma row_leb_trans (x y z : key * val) : row_leb x y = true -> row_leb y z = true -> row_leb x z = true.
Proof. apply key_leb_trans. Qed.

Lemma keys_perm (m m' : rows) : Permutation m m' -> Permutation (keys m) (keys m').
Proof. apply Permutation_map. Qed.
Lemma wf_perm (m m' : rows) : Permutation m m' -> wf m -> wf m'.
Proof. unfold wf; intros P W. eapply Permutation_NoDup; [apply keys_perm; exact P | exact W]. Qed.

Lemma lookup_perm (m m' : rows) k : Permutation m m' -> wf m -> lookup k m = lookup k m'.
Proof.
  intros P W. pose proof (wf_perm _ _ P W) as W'.
  destruct (lookup k m) as [v|] eqn:E.
  - apply lookup_In in E; [|assumption]. symmetry. apply lookup_In; [assumption|].
    eapply Permutation_in; eassumption.
  - destruct (lookup k m') as [v'|] eqn:E'; [|reflexivity].
    apply lookup_In in E'; [|assumption].
    assert (I : In (k, v') m) by (eapply Permutation_in; [symmetry; exact P | exact E']).
    apply lookup_In in I; [congruence | assumption].
Qed.

Lemma wf_isort (m : rows) : wf m -> wf (isort row_leb m).
Proof. apply wf_perm. symmetry. apply isort_perm. Qed.
Lemma lookup_isort (m : rows) k : wf m -> lookup k (isort row_leb m) = lookup k m.
Proof. intros W. symmetry. apply lookup_perm; [symmetry; apply isort_perm | assumption]. Qed.

Lemma wf_tail {V} (x : key * V) (m : list (key * V)) : wf (x :: m) -> wf m.
Proof. unfold wf; cbn; intros W; inversion W; assumption. Qed.
Lemma wf_head_notin {V} (k : key) (v : V) (m : list (key * V)) : wf ((k, v) :: m) -> lookup k m = None.
Proof. unfold wf; cbn; intros W; inversion W; subst. apply lookup_None_keys; assumption. Qed.

Section Rel.
  Variable pc : pose -> pose -> bool.
  Variable nc : Q -> Q -> bool.
  Variable se : list key -> list key -> bool.
  Notation R := (val_rel pc nc se).

  Definition leaf_rel (v w : val) : Prop := R v w = true.
  (* same key set, related leaves *)
  Definition map_rel (m m' : rows) : Prop := forall k, orel leaf_rel (lookup k m) (lookup k m').

  Lemma zip_rel_lookup a b : zip_rel pc nc se a b = true -> map_rel a b.
  Proof.
    revert b; induction a as [|[k1 v1] a IH]; intros [|[k2 v2] b]; cbn; try discriminate.
    - intros _ k; cbn; exact I.
    - rewrite !andb_true_iff. intros [[E Rv] Z] k. apply eqb_true in E; subst k2. cbn.
      destruct (eqb k k1); [exact Rv | apply IH; assumption].
  Qed.

  Let rle (x y : key * val) : Prop := row_leb x y = true.

  Lemma sorted_head_le (k1 : key) (v1 : val) a k :
    StronglySorted rle ((k1, v1) :: a) -> In k (keys ((k1, v1) :: a)) -> key_leb k1 k = true.
  Proof.
    intros S I. inversion S as [|? ? S' F]; subst. cbn in I. destruct I as [<-|I]; [apply key_leb_refl|].
    unfold keys in I. apply in_map_iff in I. destruct I as [[k' v'] [E I]]; cbn in E; subst k'.
    rewrite Forall_forall in F. apply (F _ I).
  Qed.

  Lemma sorted_zip a b :
    StronglySorted rle a -> StronglySorted rle b -> wf a -> wf b -> map_rel a b ->
    zip_rel pc nc se a b = true.
  Proof.
    revert b; induction a as [|[k1 v1] a IH]; intros [|[k2 v2] b] Sa Sb Wa Wb H; cbn.
    - reflexivity.
    - specialize (H k2); cbn in H. rewrite eqb_refl in H. contradiction.
    - specialize (H k1); cbn in H. rewrite eqb_refl in H. contradiction.
    - assert (E : k1 = k2).
      { apply key_leb_antisym.
        - apply (sorted_head_le k1 v1 a k2 Sa). apply lookup_In_keys.
          pose proof (H k2) as H2. cbn [lookup] in H2 |- *. rewrite (eqb_refl k2) in H2.
          destruct (if eqb k2 k1 then Some v1 else lookup k2 a); [discriminate | contradiction].
        - apply (sorted_head_le k2 v2 b k1 Sb). apply lookup_In_keys.
          pose proof (H k1) as H1. cbn [lookup] in H1 |- *. rewrite (eqb_refl k1) in H1.
          destruct (if eqb k1 k2 then Some v2 else lookup k1 b); [discriminate | contradiction]. }
      subst k2. rewrite eqb_refl. cbn.
      pose proof (H k1) as H1. cbn in H1. rewrite eqb_refl in H1. unfold leaf_rel in H1. rewrite H1. cbn.
      inversion Sa; inversion Sb; subst.
      apply IH; eauto using wf_tail.
      intros k. destruct (eqb_spec k k1) as [->|N].
      + rewrite (wf_head_notin _ _ _ Wa), (wf_head_notin _ _ _ Wb). exact I.
      + specialize (H k). cbn in H. apply neq_eqb in N. rewrite N in H. exact H.
  Qed.

  Theorem flat_equal_spec m m' : wf m -> wf m' -> (flat_equal pc nc se m m' = true <-> map_rel m m').
  Proof.
    intros W W'. unfold flat_equal. split.
    - intros Z k. apply zip_rel_lookup in Z. specialize (Z k).
      rewrite !lookup_isort in Z by assumption. exact Z.
    - intros H. apply sorted_zip.
      + apply isort_sorted; [apply row_leb_total | apply row_leb_trans].
      + apply isort_sorted; [apply row_leb_total | apply row_leb_trans].
      + apply wf_isort; assumption.
      + apply wf_isort; assumption.
      + intros k. rewrite !lookup_isort by assumption. apply H.
  Qed.
End Rel.

(* ------------------------------------------------------------------ 4. sets, point arrays *)
Lemma subsetb_spec a b : subsetb a b = true <-> (forall x, In x a -> In x b).
Proof.
  unfold subsetb. rewrite forallb_forall. split; intros H x I; specialize (H x I); apply memb_In; assumption.
Qed.
Lemma set_equal_spec a b : set_equal a b = true <-> (forall x, In x a <-> In x b).
Proof.
  unfold set_equal. rewrite andb_true_iff, !subsetb_spec. split.
  - intros [H1 H2] x; split; auto.
  - intros H; split; intros x; apply H.
Qed.

Lemma bool_eq_of_iff (a b : bool) : (a = true <-> b = true) -> a = b.
Proof. destruct a, b; intros [H1 H2]; try reflexivity; [symmetry; apply H1; reflexivity | apply H2; reflexivity]. Qed.

Lemma forall2b_spec {A} (f : A -> A -> bool) l m :
  forall2b f l m = true <-> Forall2 (fun x y => f x y = true) l m.
Proof.
  revert m; induction l as [|x l IH]; intros [|y m]; cbn.
  - split; auto.
  - split; [discriminate | intros H; inversion H].
  - split; [discriminate | intros H; inversion H].
  - rewrite andb_true_iff, IH. split; [intros [? ?]; constructor; auto | intros H; inversion H; auto].
Qed.
Lemma forall2b_refl {A} (f : A -> A -> bool) : (forall x, f x x = true) -> forall l, forall2b f l l = true.
Proof. intros H l; induction l; cbn; [reflexivity | rewrite H, IHl; reflexivity]. Qed.
Lemma forall2b_sym {A} (f : A -> A -> bool) : (forall x y, f x y = f y x) -> forall l m, forall2b f l m = forall2b f m l.
Proof. intros H l; induction l as [|x l IH]; intros [|y m]; cbn; auto. rewrite H, IH; reflexivity. Qed.

Lemma Forall2_imp {A} (P Q : A -> A -> Prop) : (forall a b, P a b -> Q a b) ->
  forall l m, Forall2 P l m -> Forall2 Q l m.
Proof. intros H l m F; induction F; constructor; auto. Qed.

Lemma Forall2_len {A} (P : A -> A -> Prop) l m : Forall2 P l m -> List.length l = List.length m.
Proof. intros F; induction F; cbn; auto. Qed.

Lemma Forall2_same_prefix {A} (P : A -> A -> Prop) l1 x y l2 l2' :
  Forall2 P (l1 ++ x :: l2) (l1 ++ y :: l2') -> P x y.
Proof. induction l1 as [|z l1 IH]; cbn; intros H; inversion H; auto. Qed.

(* ------------------------------------------------------------------ 5. parts and datasets *)
Definition wf_part (x : part) : Prop := match x with PMap m => wf m | PPts _ _ => True end.
(* the dict invariant: keys are unique in every nested-dict part *)
Definition wf_ds (d : dataset) : Prop := forall p x, get p d = Some x -> wf_part x.

Section Rel2.
  Variable pc : pose -> pose -> bool.
  Variable nc : Q -> Q -> bool.
  Variable se : list key -> list key -> bool.
  Hypothesis se_spec : forall a b, se a b = true <-> (forall x, In x a <-> In x b).
  Notation R := (val_rel pc nc se).
  Notation mrel := (map_rel pc nc se).

  Theorem coll_equal_spec m m' : wf m -> wf m' -> (coll_equal pc nc se m m' = true <-> mrel m m').
  Proof.
    intros W W'. unfold coll_equal. rewrite andb_true_iff, forallb_forall, se_spec. split.
    - intros [S F] k. destruct (lookup k m) as [v|] eqn:E.
      + apply lookup_In in E; [|assumption]. specialize (F _ E). cbn in F.
        destruct (lookup k m') as [v'|]; [exact F | discriminate].
      + apply lookup_None_keys in E. destruct (lookup k m') as [v'|] eqn:E'; [|exact I].
        elim E. apply S. apply lookup_In_keys. congruence.
    - intros H. split.
      + intros k. fold (keys m) (keys m'). rewrite <- !lookup_In_keys. specialize (H k).
        destruct (lookup k m), (lookup k m'); cbn in H; try contradiction; split; congruence.
      + intros [k v] I. cbn. apply lookup_In in I; [|assumption]. specialize (H k). rewrite I in H.
        destruct (lookup k m'); [exact H | contradiction].
  Qed.

  Definition pts_rel (c : Z) (r : list (list Q)) (c' : Z) (r' : list (list Q)) : Prop :=
    c = c' /\ Forall2 (Forall2 (fun x y => nc x y = true)) r r'.

  Lemma pts_equal_spec c r c' r' : pts_equal nc c r c' r' = true <-> pts_rel c r c' r'.
  Proof.
    unfold pts_equal, pts_rel. rewrite !andb_true_iff, Z.eqb_eq, Nat.eqb_eq, forall2b_spec.
    split.
    - intros [[E L] F]. split; [assumption|]. eapply Forall2_imp; [|exact F].
      intros a b; apply forall2b_spec.
    - intros [E F]. split; [split; [assumption | eapply Forall2_len; exact F]|].
      eapply Forall2_imp; [|exact F]. intros a b; apply forall2b_spec.
  Qed.

  (* what "equal" means for one part: same kind, same key set, related leaves / same shape, close coordinates *)
  Definition part_rel (x y : part) : Prop :=
    match x, y with
    | PMap m, PMap m' => mrel m m'
    | PPts c r, PPts c' r' => pts_rel c r c' r'
    | _, _ => False
    end.

  Theorem part_equal_spec p x y : wf_part x -> wf_part y -> (part_equal pc nc se p x y = true <-> part_rel x y).
  Proof.
    destruct x as [m|c r], y as [m'|c' r']; cbn; intros W W'; try (split; [discriminate | contradiction]).
    - destruct (uses_sets p); [apply coll_equal_spec | apply flat_equal_spec]; assumption.
    - apply pts_equal_spec.
  Qed.

  (* what "equal" means for datasets *)
  Definition ds_rel (a b : dataset) : Prop := forall p, orel part_rel (get p a) (get p b).

  Lemma opt_part_equal_spec p (x y : option part) :
    (forall v, x = Some v -> wf_part v) -> (forall v, y = Some v -> wf_part v) ->
    (opt_equal (part_equal pc nc se p) x y = true <-> orel part_rel x y).
  Proof.
    destruct x as [v|], y as [w|]; cbn; intros W W'; try (split; [discriminate | contradiction]).
    - apply part_equal_spec; auto.
    - split; auto.
  Qed.

  Theorem equal_with_iff w a b : wf_ds a -> wf_ds b ->
    (equal_with pc nc se w a b = true <-> forall p, In p w -> orel part_rel (get p a) (get p b)).
  Proof.
    intros Wa Wb. unfold equal_with. rewrite forallb_forall.
    split; intros H p I; specialize (H p I); apply (opt_part_equal_spec p); auto; intros v E; [eapply Wa | eapply Wb | eapply Wa | eapply Wb]; exact E.
  Qed.

  Lemma all_in_walk p : In p walk.
  Proof. destruct p; vm_compute; repeat ((left; reflexivity) || right). Qed.

  Theorem equal_walk_iff a b : wf_ds a -> wf_ds b -> (equal_with pc nc se walk a b = true <-> ds_rel a b).
  Proof.
    intros Wa Wb. rewrite equal_with_iff by assumption. unfold ds_rel.
    split; intros H p; [apply H, all_in_walk | intros _; apply H].
  Qed.

  (* ---- reflexivity, symmetry *)
  Hypothesis pc_refl : forall p, pc p p = true.
  Hypothesis nc_refl : forall x, nc x x = true.

  Lemma se_refl a : se a a = true.
  Proof. apply se_spec; tauto. Qed.
  Lemma se_sym a b : se a b = se b a.
  Proof. apply bool_eq_of_iff. rewrite !se_spec. split; intros H x; symmetry; apply H. Qed.

  Lemma sensor_rel_refl s : sensor_rel nc s s = true.
  Proof.
    unfold sensor_rel. rewrite !eqb_refl, orb_true_r.
    destruct (memb (s_type s) camera_sensor_types); cbn [andb]; [apply forall2b_refl; assumption | reflexivity].
  Qed.
  Lemma val_rel_refl v : R v v = true.
  Proof.
    destruct v; cbn; rewrite ?eqb_refl, ?se_refl; auto using sensor_rel_refl.
  Qed.
  Lemma map_rel_refl m : mrel m m.
  Proof. intros k. apply orel_refl. intros v; apply val_rel_refl. Qed.
  Lemma Forall2_refl {A} (P : A -> A -> Prop) : (forall a, P a a) -> forall l, Forall2 P l l.
  Proof. intros H l; induction l; constructor; auto. Qed.
  Lemma part_rel_refl x : part_rel x x.
  Proof.
    destruct x; cbn; [apply map_rel_refl|]. split; [reflexivity|].
    apply Forall2_refl. intros l. apply Forall2_refl. assumption.
  Qed.
  Lemma ds_rel_refl a : ds_rel a a.
  Proof. intros p. apply orel_refl. apply part_rel_refl. Qed.

  Hypothesis pc_sym : forall p q, pc p q = pc q p.
  Hypothesis nc_sym : forall x y, nc x y = nc y x.

  Lemma sensor_rel_sym a b : sensor_rel nc a b = sensor_rel nc b a.
  Proof.
    unfold sensor_rel.
    rewrite (andb_comm (name_empty (s_name a))), (eqb_sym (s_name a)), (eqb_sym (s_type a)).
    destruct (eqb_spec (s_type b) (s_type a)) as [E|N]; [|rewrite !andb_false_r; reflexivity].
    rewrite E. rewrite (eqb_sym (s_model a)), (eqb_sym (s_params a)), (forall2b_sym nc nc_sym (s_cparams a)).
    reflexivity.
  Qed.
  Lemma val_rel_sym v w : R v w = R w v.
  Proof.
    destruct v, w; cbn; auto using sensor_rel_sym.
    - apply eqb_sym.
    - rewrite (eqb_sym fields), (se_sym members); reflexivity.
    - apply se_sym.
    - apply eqb_sym.
  Qed.
  Lemma map_rel_sym m m' : mrel m m' -> mrel m' m.
  Proof.
    intros H k. apply orel_sym with (x := lookup k m); [|apply H].
    unfold leaf_rel. intros v w; rewrite val_rel_sym; auto.
  Qed.
  Lemma Forall2_sym {A} (P : A -> A -> Prop) : (forall a b, P a b -> P b a) -> forall l m, Forall2 P l m -> Forall2 P m l.
  Proof. intros H l m F; induction F; constructor; auto. Qed.
  Lemma part_rel_sym x y : part_rel x y -> part_rel y x.
  Proof.
    destruct x, y; cbn; auto using map_rel_sym.
    intros [E F]. split; [congruence|]. apply Forall2_sym; [|exact F].
    intros l l'. apply Forall2_sym. intros u v; rewrite nc_sym; auto.
  Qed.
  Lemma ds_rel_sym a b : ds_rel a b -> ds_rel b a.
  Proof. intros H p. apply orel_sym with (x := get p a); [apply part_rel_sym | apply H]. Qed.

  Notation eq_ := (equal_with pc nc se walk).

  Theorem equal_walk_refl a : wf_ds a -> eq_ a a = true.
  Proof. intros W. apply equal_walk_iff; [assumption | assumption | apply ds_rel_refl]. Qed.

  Theorem equal_walk_sym a b : wf_ds a -> wf_ds b -> eq_ a b = eq_ b a.
  Proof.
    intros Wa Wb. apply bool_eq_of_iff. rewrite !equal_walk_iff by assumption.
    split; apply ds_rel_sym.
  Qed.

  (* ---- sensitivity: any difference in any part, on either side, is detected in both argument orders *)
  Theorem equal_walk_detects a b p : wf_ds a -> wf_ds b ->
    ~ orel part_rel (get p a) (get p b) -> eq_ a b = false /\ eq_ b a = false.
  Proof.
    intros Wa Wb N. assert (E : eq_ a b = false).
    { destruct (eq_ a b) eqn:E; [|reflexivity]. apply equal_walk_iff in E; try assumption. elim N. apply E. }
    split; [assumption | rewrite equal_walk_sym; assumption].
  Qed.

  (* single mutations, stated on the dataset operations *)
  Lemma get_insert q p x (d : dataset) : get q (insert p x d) = if eqb q p then Some x else get q d.
  Proof. apply lookup_insert. Qed.
  Lemma get_remove q p (d : dataset) : get q (remove p d) = if eqb q p then None else get q d.
  Proof. apply lookup_remove. Qed.
  Lemma wf_ds_insert p x d : wf_ds d -> wf_part x -> wf_ds (insert p x d).
  Proof.
    intros W Wx q y. rewrite get_insert. destruct (eqb q p); [intros [= <-]; assumption | apply W].
  Qed.
  Lemma wf_ds_remove p d : wf_ds d -> wf_ds (remove p d).
  Proof. intros W q y. rewrite get_remove. destruct (eqb q p); [discriminate | apply W]. Qed.

  (* a part present on one side only *)
  Theorem detects_part_removed a p x : wf_ds a -> get p a = Some x ->
    eq_ a (remove p a) = false /\ eq_ (remove p a) a = false.
  Proof.
    intros W G. apply (equal_walk_detects _ _ p); auto using wf_ds_remove.
    rewrite G, get_remove, eqb_refl. cbn. auto.
  Qed.
  Theorem detects_part_added a p x : wf_ds a -> wf_part x -> get p a = None ->
    eq_ a (insert p x a) = false /\ eq_ (insert p x a) a = false.
  Proof.
    intros W Wx G. apply (equal_walk_detects _ _ p); auto using wf_ds_insert.
    rewrite G, get_insert, eqb_refl. cbn. auto.
  Qed.

  Lemma detects_part_changed a p x y : wf_ds a -> wf_part y -> get p a = Some x -> ~ part_rel x y ->
    eq_ a (insert p y a) = false /\ eq_ (insert p y a) a = false.
  Proof.
    intros W Wy G N. apply (equal_walk_detects _ _ p); auto using wf_ds_insert.
    rewrite G, get_insert, eqb_refl. exact N.
  Qed.

  (* one entry (row of a nested dict / member of a collection) added, removed, altered *)
  Theorem detects_entry_added a p m k v : wf_ds a -> get p a = Some (PMap m) -> lookup k m = None ->
    let b := insert p (PMap (insert k v m)) a in eq_ a b = false /\ eq_ b a = false.
  Proof.
    intros W G L. apply (detects_part_changed a p (PMap m)); auto.
    - cbn. apply wf_insert. apply (W _ _ G).
    - cbn. intros H. specialize (H k). rewrite L, lookup_insert_eq in H. exact H.
  Qed.
  Theorem detects_entry_removed a p m k v : wf_ds a -> get p a = Some (PMap m) -> lookup k m = Some v ->
    let b := insert p (PMap (remove k m)) a in eq_ a b = false /\ eq_ b a = false.
  Proof.
    intros W G L. apply (detects_part_changed a p (PMap m)); auto.
    - cbn. apply wf_remove. apply (W _ _ G).
    - cbn. intros H. specialize (H k). rewrite L, lookup_remove_eq in H. exact H.
  Qed.
  Theorem detects_entry_altered a p m k v v' : wf_ds a -> get p a = Some (PMap m) -> lookup k m = Some v ->
    R v v' = false ->
    let b := insert p (PMap (insert k v' m)) a in eq_ a b = false /\ eq_ b a = false.
  Proof.
    intros W G L NR. apply (detects_part_changed a p (PMap m)); auto.
    - cbn. apply wf_insert. apply (W _ _ G).
    - cbn. intros H. specialize (H k). rewrite L, lookup_insert_eq in H. cbn in H. unfold leaf_rel in H. congruence.
  Qed.

  (* 3-D points: a row added / removed anywhere, one coordinate (or colour) altered, the column count changed *)
  Theorem detects_point_count a p c r r' : wf_ds a -> get p a = Some (PPts c r) -> List.length r <> List.length r' ->
    let b := insert p (PPts c r') a in eq_ a b = false /\ eq_ b a = false.
  Proof.
    intros W G L. apply (detects_part_changed a p (PPts c r)); cbn; auto.
    intros [_ F]. apply Forall2_len in F. contradiction.
  Qed.
  Theorem detects_point_altered a p c r1 r2 c1 c2 x x' : wf_ds a ->
    get p a = Some (PPts c (r1 ++ (c1 ++ x :: c2) :: r2)) -> nc x x' = false ->
    let b := insert p (PPts c (r1 ++ (c1 ++ x' :: c2) :: r2)) a in eq_ a b = false /\ eq_ b a = false.
  Proof.
    intros W G NR. eapply detects_part_changed; cbn; eauto. cbn.
    intros [_ F]. apply Forall2_same_prefix in F. apply Forall2_same_prefix in F. congruence.
  Qed.
  Theorem detects_point_columns a p c c' r r' : wf_ds a -> get p a = Some (PPts c r) -> c <> c' ->
    let b := insert p (PPts c' r') a in eq_ a b = false /\ eq_ b a = false.
  Proof.
    intros W G L. apply (detects_part_changed a p (PPts c r)); cbn; auto. intros [E _]; contradiction.
  Qed.

  (* ---- what the leaf relation is, kind by kind *)
  Lemma val_rel_pose p q : R (VPose p) (VPose q) = pc p q.
  Proof. reflexivity. Qed.
  Lemma val_rel_leaf a b : R (VLeaf a) (VLeaf b) = true <-> a = b.
  Proof. cbn. apply eqb_eq. Qed.
  Lemma val_rel_feat f m f' m' : R (VFeat f m) (VFeat f' m') = true <-> f = f' /\ (forall x, In x m <-> In x m').
  Proof. cbn. rewrite andb_true_iff, eqb_eq, se_spec. tauto. Qed.
  Lemma val_rel_set m m' : R (VSet m) (VSet m') = true <-> (forall x, In x m <-> In x m').
  Proof. cbn. apply se_spec. Qed.
  Lemma val_rel_bag r r' : R (VBag r) (VBag r') = true <-> Permutation r r'.
  Proof.
    cbn. rewrite eqb_eq. apply isort_eq_iff_perm; [apply key_leb_total | apply key_leb_trans | apply key_leb_antisym].
  Qed.
  Lemma val_rel_sensor a b : R (VSensor a) (VSensor b) = true <->
    ((name_empty (s_name a) = true /\ name_empty (s_name b) = true) \/ s_name a = s_name b)
    /\ s_type a = s_type b
    /\ (if memb (s_type a) camera_sensor_types
        then s_model a = s_model b /\ Forall2 (fun x y => nc x y = true) (s_cparams a) (s_cparams b)
        else s_params a = s_params b).
  Proof.
    change (R (VSensor a) (VSensor b)) with (sensor_rel nc a b). unfold sensor_rel.
    rewrite !andb_true_iff, orb_true_iff, andb_true_iff, (eqb_eq (s_name a)), (eqb_eq (s_type a)).
    destruct (memb (s_type a) camera_sensor_types).
    - rewrite andb_true_iff, (eqb_eq (s_model a)), forall2b_spec. tauto.
    - rewrite (eqb_eq (s_params a)). tauto.
  Qed.
  Lemma val_rel_kind v w : R v w = true ->
    match v, w with
    | VSensor _, VSensor _ | VPose _, VPose _ | VLeaf _, VLeaf _
    | VFeat _ _, VFeat _ _ | VSet _, VSet _ | VBag _, VBag _ => True
    | _, _ => False
    end.
  Proof. destruct v, w; cbn; auto; discriminate. Qed.
End Rel2.

(* ------------------------------------------------------------------ 6. the closeness relations of the code *)
Lemma np_isclose_refl x : np_isclose x x = true.
Proof.
  unfold np_isclose. apply Qle_bool_iff. assert (E : x - x == 0) by ring. rewrite E.
  change (Qabs 0) with 0. pose proof (Qabs_nonneg x). unfold atol, rtol. lra.
Qed.

(* the instance numpy uses is NOT symmetric: the relative tolerance is scaled by |b| only *)
Lemma np_isclose_asym : exists a b, np_isclose a b = true /\ np_isclose b a = false.
Proof. exists 1, (100001001005 # 100000000000). split; vm_compute; reflexivity. Qed.

Lemma isclose_sym_refl x : isclose_sym x x = true.
Proof. unfold isclose_sym. rewrite np_isclose_refl. reflexivity. Qed.
Lemma isclose_sym_sym x y : isclose_sym x y = isclose_sym y x.
Proof. unfold isclose_sym. apply andb_comm. Qed.

Lemma Qle_bool_eq_l x y c : x == y -> Qle_bool x c = Qle_bool y c.
Proof. intros E. apply bool_eq_of_iff. rewrite !Qle_bool_iff, E. tauto. Qed.

Lemma rot_close_refl r : rot_close r r = true.
Proof.
  destruct r as [[[w x] y] z]. unfold rot_close. apply orb_true_iff; left. apply Qle_bool_iff.
  assert (E : dist2_4 (w, x, y, z) (w, x, y, z) == 0) by (unfold dist2_4, sq, radd, rsub; rewrite !Qred_correct; ring).
  rewrite E. vm_compute. discriminate.
Qed.
Lemma trans_close_refl t : trans_close t t = true.
Proof.
  destruct t as [[x y] z]. unfold trans_close. apply Qle_bool_iff.
  assert (E : dist2_3 (x, y, z) (x, y, z) == 0) by (unfold dist2_3, sq, radd, rsub; rewrite !Qred_correct; ring).
  rewrite E. vm_compute. discriminate.
Qed.
Lemma rot_close_sym r s : rot_close r s = rot_close s r.
Proof.
  destruct r as [[[w x] y] z], s as [[[w' x'] y'] z']. unfold rot_close. f_equal; apply Qle_bool_eq_l;
    unfold dist2_4, sum2_4, sq, radd, rsub; rewrite !Qred_correct; ring.
Qed.
Lemma trans_close_sym t u : trans_close t u = trans_close u t.
Proof.
  destruct t as [[x y] z], u as [[x' y'] z']. unfold trans_close. apply Qle_bool_eq_l. unfold dist2_3, sq, radd, rsub; rewrite !Qred_correct; ring.
Qed.

Lemma pose_close_q_refl p : pose_close_q p p = true.
Proof.
  unfold pose_close_q. destruct (p_r p), (p_t p); rewrite ?rot_close_refl, ?trans_close_refl; reflexivity.
Qed.
Lemma pose_close_q_sym p q : pose_close_q p q = pose_close_q q p.
Proof.
  unfold pose_close_q. destruct (p_r p), (p_r q), (p_t p), (p_t q);
    rewrite ?(rot_close_sym p0), ?(trans_close_sym p1), ?(trans_close_sym p2); reflexivity.
Qed.

(* the tolerance really separates: a translation off by 2e-5 on one axis, a rotation by 1e-4 rad *)
Lemma pose_close_q_beyond :
  pose_close_q {| p_r := None; p_t := Some (0, 0, 0) |} {| p_r := None; p_t := Some (2 # 100000, 0, 0) |} = false /\
  pose_close_q {| p_r := None; p_t := Some (0, 0, 0) |} {| p_r := None; p_t := Some (1 # 200000, 0, 0) |} = true /\
  pose_close_q {| p_r := Some (1, 0, 0, 0); p_t := None |} {| p_r := None; p_t := None |} = false.
Proof. repeat split; vm_compute; reflexivity. Qed.

(* ------------------------------------------------------------------ 7. the comparison of the tree under test *)
Notation ds_rel_q := (ds_rel pose_close_q isclose_sym set_equal).
Notation part_rel_q := (part_rel pose_close_q isclose_sym set_equal).
Notation val_rel_q := (val_rel pose_close_q isclose_sym set_equal).

Theorem equal_iff a b : wf_ds a -> wf_ds b -> (equal a b = true <-> ds_rel_q a b).
Proof. apply equal_walk_iff, set_equal_spec. Qed.

Theorem equal_refl a : wf_ds a -> equal a a = true.
Proof. apply equal_walk_refl; auto using set_equal_spec, pose_close_q_refl, isclose_sym_refl. Qed.

Theorem equal_sym a b : wf_ds a -> wf_ds b -> equal a b = equal b a.
Proof.
  apply equal_walk_sym; auto using set_equal_spec, pose_close_q_refl, isclose_sym_refl, pose_close_q_sym, isclose_sym_sym.
Qed.

Theorem equal_detects a b p : wf_ds a -> wf_ds b ->
  ~ orel part_rel_q (get p a) (get p b) -> equal a b = false /\ equal b a = false.
Proof.
  apply equal_walk_detects; auto using set_equal_spec, pose_close_q_refl, isclose_sym_refl, pose_close_q_sym, isclose_sym_sym.
Qed.

(* ---- the behaviour before the repairs *)
Definition kp (members : list key) : dataset :=
  [(Keypoints, PMap [([AS "sift"], VFeat [AS "sift"; AS "float32"; AZ 128] members)])].
Definition depth1 : dataset := [(RecordsDepth, PMap [([AZ 0; AS "cam0"], VLeaf [AS "d0.depth"])])].
Definition pts1 (x : Q) : dataset := [(Points3d, PPts 3 [[x; 2; 3]])].
Definition qband : Q := 100001001005 # 100000000000.

Lemma legacy_sets_one_sided :
  equal_legacy (kp [[AS "a.jpg"]]) (kp [[AS "a.jpg"]; [AS "b.jpg"]]) = true /\
  equal_legacy (kp [[AS "a.jpg"]; [AS "b.jpg"]]) (kp [[AS "a.jpg"]]) = false.
Proof. split; vm_compute; reflexivity. Qed.
Lemma legacy_depth_ignored :
  equal_legacy depth1 [] = true /\ equal_legacy [] depth1 = true.
Proof. split; vm_compute; reflexivity. Qed.
Lemma legacy_isclose_asym :
  equal_legacy (pts1 1) (pts1 qband) = true /\ equal_legacy (pts1 qband) (pts1 1) = false.
Proof. split; vm_compute; reflexivity. Qed.
Lemma repaired_on_legacy_witnesses :
  equal (kp [[AS "a.jpg"]]) (kp [[AS "a.jpg"]; [AS "b.jpg"]]) = false /\
  equal (kp [[AS "a.jpg"]; [AS "b.jpg"]]) (kp [[AS "a.jpg"]]) = false /\
  equal depth1 [] = false /\ equal [] depth1 = false /\
  equal (pts1 1) (pts1 qband) = false /\ equal (pts1 qband) (pts1 1) = false.
Proof. repeat split; vm_compute; reflexivity. Qed.

(* ------------------------------------------------------------------ 8. the answer depends on the current content only *)
(* same content: the same parts are present, every dict-like part has the same lookups (whatever the
   insertion order, i.e. whatever sequence of operations produced the object), the same point array *)
Definition part_same (x y : part) : Prop :=
  match x, y with
  | PMap m, PMap m' => forall k, lookup k m = lookup k m'
  | PPts c r, PPts c' r' => c = c' /\ r = r'
  | _, _ => False
  end.
Definition ds_same (a a' : dataset) : Prop := forall p, orel part_same (get p a) (get p a').

Lemma part_rel_same pc nc se x x' y y' : part_same x x' -> part_same y y' ->
  (part_rel pc nc se x y <-> part_rel pc nc se x' y').
Proof.
  destruct x as [m|c r], x' as [m'|c' r'], y as [n|d s], y' as [n'|d' s']; cbn; try tauto.
  - intros H1 H2. unfold map_rel. split; intros H k; specialize (H k).
    + rewrite <- H1, <- H2; exact H.
    + rewrite H1, H2; exact H.
  - intros [-> ->] [-> ->]. tauto.
Qed.

Lemma ds_rel_same pc nc se a a' b b' : ds_same a a' -> ds_same b b' ->
  (ds_rel pc nc se a b <-> ds_rel pc nc se a' b').
Proof.
  intros Ha Hb. unfold ds_rel. split; intros H p; specialize (H p); specialize (Ha p); specialize (Hb p);
    destruct (get p a) as [x|], (get p a') as [x'|], (get p b) as [y|], (get p b') as [y'|]; cbn in *; try tauto;
    first [ apply (proj1 (part_rel_same pc nc se _ _ _ _ Ha Hb)); exact H
          | apply (proj2 (part_rel_same pc nc se _ _ _ _ Ha Hb)); exact H ].
Qed.

Theorem equal_content_only a a' b b' : wf_ds a -> wf_ds a' -> wf_ds b -> wf_ds b' ->
  ds_same a a' -> ds_same b b' -> equal a b = equal a' b'.
Proof.
  intros Wa Wa' Wb Wb' Ha Hb. apply bool_eq_of_iff. rewrite !equal_iff by assumption.
  apply ds_rel_same; assumption.
Qed.

(* ------------------------------------------------------------------ 9. the 18 helpers one by one; the order of the walk *)
Theorem equal_is_conjunction a b : equal a b = forallb (fun x => x) (answers a b).
Proof. unfold equal, equal_with, answers, answer, answer_with. induction walk as [|p w IH]; cbn; [reflexivity | rewrite IH; reflexivity]. Qed.

Lemma answers_length a b : List.length (answers a b) = 18%nat.
Proof. unfold answers. rewrite map_length. reflexivity. Qed.

Theorem answer_iff p a b : wf_ds a -> wf_ds b -> (answer p a b = true <-> orel part_rel_q (get p a) (get p b)).
Proof.
  intros Wa Wb. unfold answer, answer_with. apply opt_part_equal_spec; [apply set_equal_spec | |]; intros v E; [eapply Wa | eapply Wb]; exact E.
Qed.

Theorem answer_sym p a b : wf_ds a -> wf_ds b -> answer p a b = answer p b a.
Proof.
  intros Wa Wb. apply bool_eq_of_iff. rewrite !answer_iff by assumption.
  split; apply orel_sym; apply part_rel_sym;
    auto using set_equal_spec, pose_close_q_sym, isclose_sym_sym.
Qed.

(* a helper looks at its own part only *)
Theorem answer_local p a a' b b' : get p a = get p a' -> get p b = get p b' -> answer p a b = answer p a' b'.
Proof. unfold answer, answer_with. intros -> ->. reflexivity. Qed.

(* the order in which equal_kapture visits the parts (and visiting one twice) does not matter *)
Theorem walk_order_irrelevant pc nc se (w : list part_id) a b : (forall p, In p w) ->
  equal_with pc nc se w a b = equal_with pc nc se walk a b.
Proof.
  intros H. apply bool_eq_of_iff. unfold equal_with. rewrite !forallb_forall.
  split; intros F p _; apply F; [apply H | apply all_in_walk].
Qed.

(* ------------------------------------------------------------------ 10. the error branch *)
Theorem helper_call_typeerr h x y :
  helper_call h x y = TypeErr <-> typed_helper h = true /\ (foreign h x = true \/ foreign h y = true).
Proof.
  unfold helper_call, helper_call_with. destruct (typed_helper h); cbn [andb].
  - destruct (foreign h x), (foreign h y); cbn; split; try discriminate; try tauto; intros [_ [?|?]]; discriminate.
  - split; [discriminate | intros [? _]; discriminate].
Qed.

Theorem helper_call_never_other h x y : helper_call h x y <> OtherErr.
Proof. unfold helper_call, helper_call_with. destruct (typed_helper h && _); discriminate. Qed.

Theorem helper_call_typeerr_sym h x y : helper_call h x y = TypeErr <-> helper_call h y x = TypeErr.
Proof. rewrite !helper_call_typeerr. tauto. Qed.

(* with arguments of the helper's own class (or None) the helper answers what the part comparison says *)
Theorem helper_call_own h (x y : option part) :
  helper_call h (option_map (fun v => (h, v)) x) (option_map (fun v => (h, v)) y)
  = Ans (opt_equal (part_equal pose_close_q isclose_sym set_equal h) x y).
Proof.
  unfold helper_call, helper_call_with.
  assert (F : forall z : option part, foreign h (option_map (fun v => (h, v)) z) = false)
    by (intros [v|]; cbn; [rewrite eqb_refl|]; reflexivity).
  assert (S : forall z : option part, option_map snd (option_map (fun v => (h, v)) z) = z) by (intros [v|]; reflexivity).
  rewrite !F, !S, andb_false_r. reflexivity.
Qed.

(* a typed helper never answers True (nor False) when handed an object of another class: it raises *)
Theorem helper_call_foreign h x y b : typed_helper h = true -> foreign h x = true \/ foreign h y = true ->
  helper_call h x y <> Ans b.
Proof. intros T F E. assert (X : helper_call h x y = TypeErr) by (apply helper_call_typeerr; auto). congruence. Qed.

Lemma lookup_untag p (d : tdataset) : get p (untag d) = option_map snd (lookup p d).
Proof.
  unfold get, untag. induction d as [|[q [c x]] d IH]; cbn; [reflexivity|].
  destruct (eqb p q); [reflexivity | exact IH].
Qed.

Lemma own_class_not_foreign d p : own_class d -> foreign p (lookup p d) = false.
Proof.
  intros O. destruct (lookup p d) as [[c x]|] eqn:E; cbn; [|reflexivity].
  rewrite (O _ _ _ E), eqb_refl. reflexivity.
Qed.

(* on datasets whose every attribute holds an object of its own class (what the setters of kapture.Kapture
   enforce) the walk never reaches the error branch: its outcome is the boolean of the model *)
Theorem walk_outcome_typed w a b : own_class a -> own_class b ->
  walk_outcome w a b = Ans (equal_with pose_close_q isclose_sym set_equal w (untag a) (untag b)).
Proof.
  intros Oa Ob. induction w as [|p w IH]; cbn; [reflexivity|].
  unfold helper_call, helper_call_with. rewrite (own_class_not_foreign a p Oa), (own_class_not_foreign b p Ob), andb_false_r.
  rewrite !lookup_untag.
  destruct (opt_equal _ _ _); cbn; [exact IH | reflexivity].
Qed.

Theorem equal_outcome_typed a b : own_class a -> own_class b -> equal_outcome a b = Ans (equal (untag a) (untag b)).
Proof. apply walk_outcome_typed. Qed.

(* and when an attribute was forced to a foreign class behind the setters: the outcome is never Ans true *)
Theorem walk_outcome_foreign w a b p : In p w -> typed_helper p = true ->
  foreign p (lookup p a) = true \/ foreign p (lookup p b) = true -> walk_outcome w a b <> Ans true.
Proof.
  intros I T F. induction w as [|q w IH]; [contradiction|]. cbn.
  destruct I as [->|I].
  - assert (X : helper_call p (lookup p a) (lookup p b) = TypeErr) by (apply helper_call_typeerr; auto).
    rewrite X. discriminate.
  - destruct (helper_call q (lookup q a) (lookup q b)) as [[|]| |]; try discriminate. auto.
Qed.

(* ------------------------------------------------------------------ 11. the same change on both sides; undo *)
Section Congruence.
  Notation mrel := (map_rel pose_close_q isclose_sym set_equal).
  Let vrefl := val_rel_refl pose_close_q isclose_sym set_equal set_equal_spec pose_close_q_refl isclose_sym_refl.

  Lemma ds_rel_insert_both a b p x y : ds_rel_q a b -> part_rel_q x y -> ds_rel_q (insert p x a) (insert p y b).
  Proof.
    intros H R q. rewrite !get_insert. destruct (eqb q p); [exact R | apply H].
  Qed.

  Theorem same_entry_written_both_sides a b p m m' k v : wf_ds a -> wf_ds b ->
    get p a = Some (PMap m) -> get p b = Some (PMap m') -> equal a b = true ->
    equal (insert p (PMap (insert k v m)) a) (insert p (PMap (insert k v m')) b) = true.
  Proof.
    intros Wa Wb Ga Gb E. apply equal_iff in E; try assumption.
    apply equal_iff.
    - apply wf_ds_insert; [assumption | cbn; apply wf_insert; apply (Wa _ _ Ga)].
    - apply wf_ds_insert; [assumption | cbn; apply wf_insert; apply (Wb _ _ Gb)].
    - apply ds_rel_insert_both; [assumption|]. cbn. intros k'. rewrite !lookup_insert.
      destruct (eqb k' k); [cbn; apply vrefl|]. specialize (E p). rewrite Ga, Gb in E. apply E.
  Qed.

  Theorem same_entry_removed_both_sides a b p m m' k : wf_ds a -> wf_ds b ->
    get p a = Some (PMap m) -> get p b = Some (PMap m') -> equal a b = true ->
    equal (insert p (PMap (remove k m)) a) (insert p (PMap (remove k m')) b) = true.
  Proof.
    intros Wa Wb Ga Gb E. apply equal_iff in E; try assumption.
    apply equal_iff.
    - apply wf_ds_insert; [assumption | cbn; apply wf_remove; apply (Wa _ _ Ga)].
    - apply wf_ds_insert; [assumption | cbn; apply wf_remove; apply (Wb _ _ Gb)].
    - apply ds_rel_insert_both; [assumption|]. cbn. intros k'. rewrite !lookup_remove.
      destruct (eqb k' k); [exact I|]. specialize (E p). rewrite Ga, Gb in E. apply E.
  Qed.

  (* adding an entry and taking it away again gives a dataset equal to the original one (both orders) *)
  Theorem add_then_remove_restores a p m k v : wf_ds a -> get p a = Some (PMap m) -> lookup k m = None ->
    let a' := insert p (PMap (remove k (insert k v m))) a in equal a a' = true /\ equal a' a = true.
  Proof.
    intros Wa Ga L a'.
    assert (W' : wf_ds a') by (apply wf_ds_insert; [assumption | cbn; apply wf_remove, wf_insert; apply (Wa _ _ Ga)]).
    assert (S : ds_same a a').
    { intros q. unfold a'. rewrite get_insert. destruct (eqb_spec q p) as [->|N].
      - rewrite Ga. cbn. intros k'. rewrite lookup_remove, lookup_insert.
        destruct (eqb_spec k' k) as [->|N']; [assumption | reflexivity].
      - destruct (get q a) as [x|]; cbn; [|exact I]. destruct x; cbn; auto. }
    assert (S0 : ds_same a a).
    { intros q. destruct (get q a) as [x|]; cbn; [|exact I]. destruct x; cbn; auto. }
    split.
    - rewrite <- (equal_content_only a a a a'); auto. apply equal_refl; assumption.
    - rewrite <- (equal_content_only a a' a a); auto. apply equal_refl; assumption.
  Qed.
End Congruence.

(* ------------------------------------------------------------------ 12. a tolerance is not an equivalence *)
Lemma equal_not_transitive :
  exists a b c, equal a b = true /\ equal b c = true /\ equal a c = false /\ equal c a = false.
Proof.
  exists (pts1 1), (pts1 (1 + (8 # 1000000))), (pts1 (1 + (16 # 1000000))).
  repeat split; vm_compute; reflexivity.
Qed.
