(* Proofs/PDlUpgrade.v — lemmas about Model/MDlUpgrade.v (property C20, downloader route). *)
From Coq Require Import List Bool String ZArith.
From KV Require Import Eqb Str AL.
From KV.Gen Require Import Tupgrade.
From KV.Model Require Import MUpgrade MDlUpgrade.
From KV.Proofs Require Import PUpgrade.
Import ListNotations.
Local Open Scope string_scope.
Local Open Scope list_scope.

(* a directory the downloader may meet: no 1.0 dataset (left alone), or a 1.0 dataset in the domain of the property *)
Definition good (t : tree) : Prop :=
  wants_upgrade t = false \/ (tidy10 dl_args t /\ exists v, load10 dl_args t = Some v).

Definition calm (r : root) : Prop := Forall (fun p => wants_upgrade (snd p) = false) r.

(* the upgraded directory is not upgraded again: its sensors.txt says 1.1 *)
Lemma upgraded_is_calm t v st :
  tidy10 dl_args t -> load10 dl_args t = Some v -> upgrade_inplace dl_args t = Done st ->
  wants_upgrade (fst st) = false.
Proof.
  intros T L E. destruct (inplace_preserves dl_args t v T L) as [st' [E' [_ [_ [_ [_ [_ RW]]]]]]].
  rewrite E in E'. injection E' as <-.
  unfold wants_upgrade. rewrite (RW _ sensors_in_csv). unfold rewritten. rewrite sensors_in_csv.
  destruct (lookup sensors_file (t_top t)) as [[ssegs|?]|]; try reflexivity.
  rewrite version_rewrite_header. apply version_11_not_lenient.
Qed.

Lemma settled_calm t : good t -> wants_upgrade (settled t) = false.
Proof.
  intros [W | [T [v L]]]; unfold settled.
  - rewrite W. exact W.
  - destruct (wants_upgrade t) eqn:W; [|exact W].
    destruct (inplace_preserves dl_args t v T L) as [st [E _]]. rewrite E.
    apply (upgraded_is_calm t v st T L E).
Qed.

Lemma settled_good_done t : good t -> wants_upgrade t = true ->
  exists st v, upgrade_inplace dl_args t = Done st /\ settled t = fst st /\
               load10 dl_args t = Some v /\ load11 (fst st) = Some v.
Proof.
  intros [W | [T [v L]]] W'; [rewrite W in W'; discriminate|].
  destruct (inplace_preserves dl_args t v T L) as [st [E [L11 _]]].
  exists st, v. unfold settled. rewrite W', E. auto.
Qed.

(* a pass over directories that are all settled changes nothing and does not raise *)
Lemma pass_calm r : calm r -> upgrade_pass r = (r, false).
Proof.
  induction 1 as [|[n t] r W _ IH]; cbn; [reflexivity|]. cbn in W. rewrite W, IH. reflexivity.
Qed.

Lemma pass_app r n t : calm r -> good t -> upgrade_pass (r ++ [(n, t)]) = (r ++ [(n, settled t)], false).
Proof.
  intros C G. induction C as [|[m u] r W _ IH]; cbn.
  - unfold settled. destruct (wants_upgrade t) eqn:W; [|reflexivity].
    destruct (settled_good_done t G W) as [st [v [E _]]]. rewrite E. reflexivity.
  - cbn in W. rewrite W, IH. reflexivity.
Qed.

Lemma calm_app r n t : calm r -> wants_upgrade t = false -> calm (r ++ [(n, t)]).
Proof. intros C W. apply Forall_app. split; [exact C | constructor; [exact W | constructor]]. Qed.

Definition settle (r : root) : root := map (fun p => (fst p, settled (snd p))) r.

Lemma settle_app a b : settle (a ++ b) = settle a ++ settle b.
Proof. apply map_app. Qed.

(* the whole history, from any install directory that is settled already *)
Lemma session_from : forall ss r0,
  calm r0 -> Forall (fun p => good (snd p)) (installs ss) ->
  session r0 ss = (r0 ++ settle (installs ss), false) /\ calm (r0 ++ settle (installs ss)).
Proof.
  induction ss as [|s ss IH]; intros r0 C G.
  - cbn. rewrite app_nil_r. auto.
  - destruct s as [n t|].
    + change (installs (Install n t :: ss)) with ((n, t) :: installs ss) in *.
      inversion G as [|? ? Gt Gs]; subst. cbn in Gt.
      cbn [session step_run]. rewrite (pass_app r0 n t C Gt).
      assert (C' : calm (r0 ++ [(n, settled t)])) by (apply calm_app; [exact C | apply settled_calm; exact Gt]).
      destruct (IH _ C' Gs) as [E Cf].
      cbn [settle map fst snd]. rewrite <- app_assoc in E, Cf. cbn in E, Cf. split; assumption.
    + change (installs (Again :: ss)) with (installs ss) in *.
      cbn [session step_run]. rewrite (pass_calm r0 C). apply IH; assumption.
Qed.

Theorem session_settles ss :
  Forall (fun p => good (snd p)) (installs ss) ->
  session [] ss = (settle (installs ss), false).
Proof. intros G. destruct (session_from ss [] (Forall_nil _) G) as [E _]. exact E. Qed.

(* read per dataset: whatever was installed before and after it, and however many passes ran *)
Theorem session_preserves ss n t v :
  Forall (fun p => good (snd p)) (installs ss) ->
  In (n, t) (installs ss) -> tidy10 dl_args t -> load10 dl_args t = Some v -> wants_upgrade t = true ->
  exists r st, session [] ss = (r, false) /\ upgrade_inplace dl_args t = Done st /\
               In (n, fst st) r /\ load11 (fst st) = Some v /\ map fst r = map fst (installs ss).
Proof.
  intros G I T L W. exists (settle (installs ss)).
  destruct (inplace_preserves dl_args t v T L) as [st [E [L11 _]]]. exists st.
  split; [apply session_settles; exact G|]. split; [exact E|]. split.
  - unfold settle. apply in_map_iff. exists (n, t). split; [|exact I]. cbn. unfold settled. rewrite W, E. reflexivity.
  - split; [exact L11|]. unfold settle. rewrite map_map. reflexivity.
Qed.

(* directories that are no 1.0 dataset are never touched, in any install directory, raise or not *)
Lemma pass_frame r : forall n t, In (n, t) r -> wants_upgrade t = false -> In (n, t) (fst (upgrade_pass r)).
Proof.
  induction r as [|[m u] r IH]; intros n t I W; [destruct I|]. cbn.
  destruct I as [[= -> ->] | I].
  - rewrite W. destruct (upgrade_pass r). left. reflexivity.
  - destruct (wants_upgrade u).
    + destruct (upgrade_inplace dl_args u) as [st | f st].
      * specialize (IH n t I W). destruct (upgrade_pass r). right. exact IH.
      * right. exact I.
    + specialize (IH n t I W). destruct (upgrade_pass r). right. exact IH.
Qed.

(* a pass keeps the directory names and their order *)
Lemma pass_names r : map fst (fst (upgrade_pass r)) = map fst r.
Proof.
  induction r as [|[m u] r IH]; cbn; [reflexivity|].
  destruct (wants_upgrade u).
  - destruct (upgrade_inplace dl_args u) as [st | f st].
    + destruct (upgrade_pass r). cbn in *. rewrite IH. reflexivity.
    + reflexivity.
  - destruct (upgrade_pass r). cbn in *. rewrite IH. reflexivity.
Qed.
