(* Proofs/PDownload.v — lemmas about Model/MDownload.v (property C17).
   Everything in the first section is proved for an arbitrary server [srv] (a function of the request
   history, no hypothesis), an arbitrary digest function [sha], arbitrary name / expected digest,
   an arbitrary untar behaviour and an arbitrary number of attempts. *)
From Coq Require Import List Bool String ZArith Lia.
From KV Require Import Eqb Str.
From KV.Model Require Import MDownload.
Import ListNotations.
Local Open Scope string_scope.
Local Open Scope list_scope.

(* ---- the installed index as a set *)
Lemma idx_remove_In n l m : In m (idx_remove n l) <-> In m l /\ m <> n.
Proof.
  unfold idx_remove. rewrite filter_In, negb_true_iff. split; intros [H1 H2]; split; auto.
  - apply eqb_false; assumption.
  - apply neq_eqb; assumption.
Qed.

Lemma idx_remove_memb n l : memb n (idx_remove n l) = false.
Proof. apply memb_not_In. rewrite idx_remove_In. intros [_ N]; congruence. Qed.

Lemma idx_add_In n l m : In m (idx_add n l) <-> In m l \/ m = n.
Proof.
  unfold idx_add. destruct (memb n l) eqn:E.
  - apply memb_In in E. split; [auto|]. intros [H| ->]; auto.
  - rewrite in_app_iff; cbn. intuition.
Qed.

Lemma idx_add_memb n l : memb n (idx_add n l) = true.
Proof. apply memb_In. rewrite idx_add_In. auto. Qed.

(* ---- strings as byte sequences *)
Lemma slen_app (a b : string) : String.length (a ++ b)%string = (String.length a + String.length b)%nat.
Proof. induction a as [|c a IH]; cbn; [reflexivity|]. rewrite IH; reflexivity. Qed.

Lemma slen_sskip n (s : string) : String.length (sskip n s) = (String.length s - n)%nat.
Proof.
  revert s; induction n as [|n IH]; intros s; cbn; [lia|].
  destruct s as [|c s]; cbn; [reflexivity|]. apply IH.
Qed.

Definition net_exn (x : exn) : Prop := x = XConn \/ x = XParse \/ x = XNoSize \/ x = XZeroDiv \/ x = XStream.

(* what a step leaves alone *)
Definition keeps (s s' : lstate) : Prop := archive s' = archive s /\ index s' = index s /\ log s' = log s.
Definition frame (s s' : lstate) : Prop := index s' = index s /\ log s' = log s.

Lemma keeps_frame s s' : keeps s s' -> frame s s'.
Proof. unfold keeps, frame; tauto. Qed.
Lemma frame_trans a b c : frame a b -> frame b c -> frame a c.
Proof. unfold frame; intros [-> ->] [-> ->]; auto. Qed.
Lemma frame_refl a : frame a a.
Proof. split; reflexivity. Qed.

Section Safety.
  Variable sha : bytes -> string.
  Variable srv : server.
  Variable name : string.
  Variable expected : string.
  Variable untar_fails : bytes -> bool.

  Notation remote_size := (remote_size srv).
  Notation prob_status := (prob_status sha srv name expected).
  Notation download_resume := (download_resume srv).
  Notation download_file := (download_file srv).
  Notation attempts := (attempts sha srv name expected).
  Notation download := (download sha srv name expected).
  Notation install_n := (install_n sha srv name expected untar_fails).
  Notation is_installed := (is_installed name).

  Definition verified (s : lstate) : Prop := exists b, archive s = Some b /\ sha b = expected.

  Lemma remote_size_spec s :
    match remote_size s with
    | Ret _ s' => keeps s s'
    | Raise x s' => keeps s s' /\ (x = XConn \/ x = XParse)
    end.
  Proof.
    unfold MDownload.remote_size, ask; cbn.
    destruct (r_conn_err _); [unfold keeps; cbn; auto|].
    destruct (r_probe _); unfold keeps; cbn; auto.
  Qed.

  (* prob_status never changes the local state; what each answer means *)
  Lemma prob_status_spec s :
    match prob_status s with
    | Ret st s' =>
        keeps s s' /\
        match st with
        | SInstalled => is_installed s = true /\ s' = s
        | SNotInstalled => is_installed s = false /\ archive s = None /\ s' = s
        | SDownloaded => is_installed s = false /\ verified s
        | SCorrupted | SIncomplete => is_installed s = false /\ archive s <> None
        end
    | Raise x s' => keeps s s' /\ is_installed s = false /\ (x = XConn \/ x = XParse)
    end.
  Proof.
    unfold MDownload.prob_status. destruct (is_installed s) eqn:I.
    - split; [repeat split|auto].
    - destruct (archive s) as [b|] eqn:A.
      + pose proof (remote_size_spec s) as R. destruct (remote_size s) as [[z|] s1|x s1]; cbn.
        * destruct (z <? blen b)%Z; [split; [exact R|split; [reflexivity|congruence]]|].
          destruct (blen b <? z)%Z; [split; [exact R|split; [reflexivity|congruence]]|].
          destruct (eqb_spec (sha b) expected) as [E|E].
          -- split; [exact R|split; [reflexivity|]]. exists b; auto.
          -- split; [exact R|split; [reflexivity|congruence]].
        * split; [exact R|split; [reflexivity|congruence]].
        * destruct R as [R X]. auto.
      + split; [repeat split|auto].
  Qed.

  Lemma prob_status_installed s : is_installed s = true -> prob_status s = Ret SInstalled s.
  Proof. intros I. unfold MDownload.prob_status. rewrite I. reflexivity. Qed.

  Lemma download_resume_spec pos s :
    match download_resume pos s with
    | Ret _ s' => frame s s' /\ archive s' <> None
    | Raise x s' => frame s s' /\ net_exn x
    end.
  Proof.
    unfold MDownload.download_resume.
    pose proof (remote_size_spec s) as R. destruct (remote_size s) as [o s1|x s1]; cbn.
    - apply keeps_frame in R. unfold ask; cbn. destruct R as [R1 R2].
      destruct (r_conn_err _); [unfold frame, net_exn; cbn; auto|].
      destruct (r_stream_err _); unfold frame, net_exn; cbn; repeat split; auto; congruence.
    - destruct R as [R X]. split; [apply keeps_frame; exact R|]. unfold net_exn; tauto.
  Qed.

  Lemma download_file_spec s :
    match download_file s with
    | Ret _ s' => frame s s' /\ archive s' <> None
    | Raise x s' => frame s s' /\ net_exn x
    end.
  Proof.
    unfold MDownload.download_file. destruct (archive s) as [b|] eqn:A; [|apply download_resume_spec].
    pose proof (remote_size_spec s) as R. destruct (remote_size s) as [[z|] s1|x s1]; cbn.
    - destruct (z =? blen b)%Z.
      + split; [apply keeps_frame; exact R|]. destruct R as [R _]. congruence.
      + destruct (z =? 0)%Z; [split; [apply keeps_frame; exact R|unfold net_exn; tauto]|].
        match goal with |- context [download_resume ?p s1] =>
          pose proof (download_resume_spec p s1) as D; destruct (download_resume p s1) as [u s2|x s2] end.
        * destruct D as [D1 D2]. split; [eapply frame_trans; [apply keeps_frame; exact R|exact D1]|exact D2].
        * destruct D as [D1 D2]. split; [eapply frame_trans; [apply keeps_frame; exact R|exact D1]|exact D2].
    - split; [apply keeps_frame; exact R|unfold net_exn; tauto].
    - destruct R as [R X]. split; [apply keeps_frame; exact R|unfold net_exn; tauto].
  Qed.

  (* a status the download loop may hold: never "installed"; "downloaded" only with a verified file *)
  Definition okst (st : status) (s : lstate) : Prop :=
    st <> SInstalled /\ (st = SDownloaded -> verified s).
  Definition strong (st : status) : Prop := st = SDownloaded \/ st = SCorrupted \/ st = SIncomplete.

  Lemma is_installed_frame s s' : frame s s' -> is_installed s' = is_installed s.
  Proof. intros [F _]. unfold MDownload.is_installed. rewrite F. reflexivity. Qed.

  Lemma attempts_spec n : forall st s,
    is_installed s = false -> okst st s ->
    match attempts n st s with
    | Ret st' s' => frame s s' /\ okst st' s' /\ (strong st \/ n <> O -> strong st')
    | Raise x s' => frame s s' /\ net_exn x
    end.
  Proof.
    induction n as [|n IH]; intros st s I OK; cbn.
    - split; [apply frame_refl|]. split; [exact OK|]. intros [S|N]; [exact S|congruence].
    - destruct (status_eqb st SDownloaded) eqn:ED.
      + split; [apply frame_refl|]. split; [exact OK|]. intros _. left. destruct st; cbn in ED; congruence.
      + set (s1 := if status_eqb st SCorrupted then set_archive None s else s).
        assert (F1 : frame s s1) by (unfold s1; destruct (status_eqb st SCorrupted); split; reflexivity).
        pose proof (download_file_spec s1) as D. destruct (download_file s1) as [u s2|x s2]; cbn.
        * destruct D as [F2 A2].
          assert (I2 : is_installed s2 = false)
            by (rewrite (is_installed_frame s1 s2 F2), (is_installed_frame s s1 F1); exact I).
          pose proof (prob_status_spec s2) as P. destruct (prob_status s2) as [st' s3|x s3]; cbn.
          -- destruct P as [K3 P].
             assert (F3 : frame s s3)
               by (eapply frame_trans; [exact F1|eapply frame_trans; [exact F2|apply keeps_frame; exact K3]]).
             assert (OK3 : okst st' s3 /\ strong st').
             { destruct K3 as [KA _]. destruct st'; unfold okst, strong, verified.
               - destruct P as [P _]; congruence.
               - destruct P as [_ [P _]]; congruence.
               - split; [split; congruence|auto].
               - split; [split; congruence|auto].
               - destruct P as [_ [b [Pb Ps]]]. split; [split; [congruence|]|auto].
                 intros _. exists b. split; [congruence|assumption]. }
             destruct OK3 as [OK3 S3].
             assert (I3 : is_installed s3 = false) by (rewrite (is_installed_frame s s3 F3); exact I).
             specialize (IH st' s3 I3 OK3). destruct (attempts n st' s3) as [st'' s4|x s4].
             ++ destruct IH as [F4 [OK4 S4]]. split; [eapply frame_trans; eassumption|]. split; [exact OK4|].
                intros _. apply S4. left; exact S3.
             ++ destruct IH as [F4 X]. split; [eapply frame_trans; eassumption|exact X].
          -- destruct P as [K3 [_ X]]. split.
             ++ eapply frame_trans; [exact F1|eapply frame_trans; [exact F2|apply keeps_frame; exact K3]].
             ++ unfold net_exn; tauto.
        * destruct D as [F2 X]. split; [eapply frame_trans; eassumption|exact X].
  Qed.

  Lemma download_spec n st s :
    is_installed s = false -> okst st s ->
    match download n st s with
    | Ret st' s' => frame s s' /\ okst st' s' /\ (strong st \/ n <> O -> strong st')
    | Raise x s' => frame s s' /\ net_exn x
    end.
  Proof.
    intros I OK. unfold MDownload.download. destruct (status_eqb st SDownloaded) eqn:ED; [|apply attempts_spec; assumption].
    split; [apply frame_refl|]. split; [exact OK|]. intros _. left. destruct st; cbn in ED; congruence.
  Qed.

  (* ---- frames that hold with no precondition (used for the `download` command) *)
  Lemma prob_status_keeps s : keeps s (final (prob_status s)).
  Proof. pose proof (prob_status_spec s) as P. destruct (prob_status s); cbn; tauto. Qed.

  Lemma download_file_frame s : frame s (final (download_file s)).
  Proof. pose proof (download_file_spec s) as P. destruct (download_file s); cbn; tauto. Qed.

  Lemma attempts_frame n : forall st s, frame s (final (attempts n st s)).
  Proof.
    induction n as [|n IH]; intros st s; cbn; [apply frame_refl|].
    destruct (status_eqb st SDownloaded); [apply frame_refl|].
    set (s1 := if status_eqb st SCorrupted then set_archive None s else s).
    assert (F1 : frame s s1) by (unfold s1; destruct (status_eqb st SCorrupted); split; reflexivity).
    pose proof (download_file_frame s1) as D. destruct (download_file s1) as [u s2|x s2]; cbn in *.
    - pose proof (prob_status_keeps s2) as P. destruct (prob_status s2) as [st' s3|x s3]; cbn in *.
      + eapply frame_trans; [exact F1|]. eapply frame_trans; [exact D|]. eapply frame_trans; [apply keeps_frame; exact P|apply IH].
      + eapply frame_trans; [exact F1|]. eapply frame_trans; [exact D|apply keeps_frame; exact P].
    - eapply frame_trans; eassumption.
  Qed.

  Lemma download_frame n st s : frame s (final (download n st s)).
  Proof. unfold MDownload.download. destruct (status_eqb st SDownloaded); [apply frame_refl|apply attempts_frame]. Qed.

  (* the `download` command never touches the index or the extraction log, whatever the server does *)
  Lemma download_cmd_frame n force s :
    frame s (final (MDownload.download_cmd sha srv name expected n force s)).
  Proof.
    unfold MDownload.download_cmd.
    pose proof (prob_status_keeps s) as P. destruct (prob_status s) as [st s1|x s1]; cbn in *; [|apply keeps_frame; exact P].
    apply keeps_frame in P.
    assert (Q : forall m : outcome status,
              (m = Ret st s1 \/ m = prob_status (set_archive None s1)) -> frame s1 (final m)).
    { intros m [->| ->]; [apply frame_refl|].
      eapply frame_trans; [|apply keeps_frame; apply prob_status_keeps]. split; reflexivity. }
    match goal with |- context [bind ?m _] => assert (F : frame s1 (final m)) end.
    { destruct (archive s1); [destruct force|]; apply Q; auto. }
    match goal with |- context [bind ?m _] => destruct m as [st2 s2|x s2] end; cbn in *.
    - eapply frame_trans; [exact P|]. eapply frame_trans; [exact F|apply download_frame].
    - eapply frame_trans; eassumption.
  Qed.

  (* ---- the whole installation, every case *)
  Definition install_post (n : nat) (force nc : bool) (s0 : lstate) (r : outcome status) : Prop :=
    let sf := final r in
    (forall m, m <> name -> (In m (index sf) <-> In m (index s0))) /\
    match r with
    | Ret st _ =>
        (st = SInstalled /\ force = false /\ is_installed s0 = true /\ sf = s0)
        \/ (st = SInstalled /\ (force = true \/ is_installed s0 = false) /\ is_installed sf = true /\
            exists b, sha b = expected /\ untar_fails b = false /\
                      log sf = EUpgrade true :: EExtract b false :: log s0 /\
                      archive sf = (if nc then Some b else None))
        \/ ((st = SCorrupted \/ st = SIncomplete \/ (n = O /\ st = SNotInstalled)) /\
            log sf = log s0 /\ is_installed sf = false)
    | Raise x _ =>
        is_installed sf = false /\
        ((x = XUntar /\ exists b, sha b = expected /\ untar_fails b = true /\ archive sf = Some b /\
                                  log sf = EExtract b false :: log s0)
         \/ (net_exn x /\ log sf = log s0))
    end.

  Lemma install_spec n force nc s0 : install_post n force nc s0 (install_n n force nc s0).
  Proof.
    unfold install_post, MDownload.install_n.
    set (s := if force then set_index (idx_remove name (index s0)) s0 else s0).
    assert (L0 : log s = log s0) by (unfold s; destruct force; reflexivity).
    assert (X0 : forall m, m <> name -> (In m (index s) <-> In m (index s0))).
    { intros m N. unfold s; destruct force; cbn; [|tauto]. rewrite idx_remove_In. tauto. }
    assert (I0 : force = true -> is_installed s = false).
    { intros ->. unfold s, MDownload.is_installed; cbn. apply idx_remove_memb. }
    assert (I0' : force = false -> s = s0) by (intros ->; reflexivity).
    pose proof (prob_status_spec s) as P. destruct (prob_status s) as [st s1|x s1]; cbn.
    2:{ destruct P as [[KA [KI KL]] [I X]]. split; [intros m N; rewrite KI; apply X0; exact N|].
        split; [unfold MDownload.is_installed in *; rewrite KI; exact I|].
        right. split; [unfold net_exn; tauto|congruence]. }
    destruct P as [[KA [KI KL]] P].
    destruct (status_eqb st SInstalled) eqn:EI.
    { destruct st; cbn in EI; try discriminate. destruct P as [I ->]. cbn.
      split; [exact X0|]. left. destruct force.
      - rewrite I0 in I; [discriminate|reflexivity].
      - rewrite (I0' eq_refl) in *. auto. }
    assert (I1 : is_installed s1 = false).
    { unfold MDownload.is_installed in *. rewrite KI. destruct st; cbn in EI; try discriminate; tauto. }
    assert (Ipre : force = true \/ is_installed s0 = false).
    { destruct force; [auto|right]. rewrite <- (I0' eq_refl). unfold MDownload.is_installed in *. rewrite <- KI. exact I1. }
    assert (OK1 : okst st s1).
    { split; [destruct st; cbn in EI; congruence|]. intros ->. destruct P as [_ [b [Pb Ps]]].
      exists b; split; [congruence|assumption]. }
    assert (S1 : st = SNotInstalled \/ strong st).
    { unfold strong. destruct st; cbn in EI; try discriminate; auto. }
    pose proof (download_spec n st s1 I1 OK1) as D. destruct (download n st s1) as [st2 s2|x s2]; cbn.
    2:{ destruct D as [[FI FL] X]. split; [intros m N; rewrite FI, KI; apply X0; exact N|].
        split; [unfold MDownload.is_installed in *; rewrite FI; exact I1|].
        right. split; [exact X|congruence]. }
    destruct D as [[FI FL] [[NI V] S2]].
    assert (I2 : is_installed s2 = false) by (unfold MDownload.is_installed in *; rewrite FI; exact I1).
    destruct (status_eqb st2 SDownloaded) eqn:ED; cbn.
    2:{ split; [intros m N; rewrite FI, KI; apply X0; exact N|].
        right; right. split; [|split; [congruence|exact I2]].
        destruct n as [|n].
        - destruct S1 as [->|S1].
          + (* no attempt at all: the status is still "not installed" *)
            cbn in *. destruct st2; cbn in ED; try discriminate; try tauto; try congruence;
              unfold MDownload.download in *; cbn in *.
            all: try (right; right; split; reflexivity).
            all: try tauto.
          + specialize (S2 (or_introl S1)). unfold strong in S2. destruct st2; cbn in ED; try discriminate;
              destruct S2 as [S|[S|S]]; try discriminate; auto.
        - assert (S : strong st2) by (apply S2; right; discriminate).
          unfold strong in S. destruct st2; cbn in ED; try discriminate; destruct S as [S|[S|S]]; try discriminate; auto. }
    assert (st2 = SDownloaded) as -> by (destruct st2; cbn in ED; congruence).
    destruct (V eq_refl) as [b [Ab Sb]]. rewrite Ab. rewrite I2.
    destruct (untar_fails b) eqn:U; cbn.
    { split; [intros m N; rewrite FI, KI; apply X0; exact N|].
      split; [exact I2|]. left. split; [reflexivity|]. exists b. repeat split; auto; congruence. }
    (* extraction succeeded: clean, mark, upgrade, final probe *)
    set (s3 := if nc then add_event (EExtract b false) s2 else set_archive None (add_event (EExtract b false) s2)).
    assert (X3 : index s3 = index s2) by (unfold s3; destruct nc; reflexivity).
    assert (L3 : log s3 = EExtract b false :: log s2) by (unfold s3; destruct nc; reflexivity).
    assert (A3 : archive s3 = if nc then Some b else None) by (unfold s3; destruct nc; cbn; auto).
    set (s4 := set_index (idx_add name (index s3)) s3).
    assert (I4 : is_installed s4 = true) by (unfold s4, MDownload.is_installed; cbn; apply idx_add_memb).
    rewrite (idx_add_memb name (index s3)).
    set (s5 := add_event (EUpgrade true) s4).
    assert (I5 : is_installed s5 = true) by exact I4.
    rewrite (prob_status_installed s5 I5). cbn [final].
    split.
    { intros m N. unfold s5, s4; cbn. rewrite idx_add_In, X3, FI, KI, X0 by exact N. tauto. }
    right; left. split; [reflexivity|]. split; [exact Ipre|]. split; [exact I5|].
    exists b. repeat split; auto.
    unfold s5, s4; cbn. rewrite L3. congruence.
  Qed.
End Safety.

(* ---- histories: the invariant composes over any sequence of installation calls *)
Section History.
  Variable sha : bytes -> string.
  Variable name : string.
  Variable expected : string.

  Definition hist_post (s0 sf : lstate) : Prop :=
    exists new, log sf = new ++ log s0 /\
      (forall b m, In (EExtract b m) new -> sha b = expected /\ m = false) /\
      (is_installed name sf = true ->
         is_installed name s0 = true \/ exists b, In (EExtract b false) new /\ sha b = expected) /\
      (forall m, m <> name -> (In m (index sf) <-> In m (index s0))).

  Lemma install_step_post srv untar_fails n force nc s :
    hist_post s (final (install_n sha srv name expected untar_fails n force nc s)).
  Proof.
    destruct (install_spec sha srv name expected untar_fails n force nc s) as [O H].
    destruct (install_n sha srv name expected untar_fails n force nc s) as [st sf|x sf]; cbn [final] in *.
    - destruct H as [[_ [_ [I ->]]]|[[_ [_ [_ [b [S [_ [L _]]]]]]]|[_ [L N]]]].
      + exists []. split; [reflexivity|]. split; [intros ? ? []|]. split; [auto|exact O].
      + exists [EUpgrade true; EExtract b false]. split; [exact L|]. split.
        * intros b' m [E|[E|[]]]; inversion E; subst; auto.
        * split; [|exact O]. intros _. right. exists b. split; [right; left; reflexivity|exact S].
      + exists []. split; [exact L|]. split; [intros ? ? []|]. split; [congruence|exact O].
    - destruct H as [N [[_ [b [S [_ [_ L]]]]]|[_ L]]].
      + exists [EExtract b false]. split; [exact L|]. split.
        * intros b' m [E|[]]; inversion E; subst; auto.
        * split; [congruence|exact O].
      + exists []. split; [exact L|]. split; [intros ? ? []|]. split; [congruence|exact O].
  Qed.

  Lemma step_post c s : hist_post s (final (run_call sha name expected c s)).
  Proof.
    unfold run_call.
    assert (Q : forall sf, frame s sf -> hist_post s sf).
    { intros sf [FI FL]. exists []. split; [exact FL|]. split; [intros ? ? []|]. split.
      - intros I. left. unfold is_installed in *. rewrite <- FI. exact I.
      - intros m _. rewrite FI. tauto. }
    destruct (k_kind c); [apply install_step_post| |]; apply Q.
    - exact (download_cmd_frame sha (k_srv c) name expected (k_untar c) (k_attempts c) (k_force c) s).
    - apply keeps_frame. exact (prob_status_keeps sha (k_srv c) name expected (k_untar c) s).
  Qed.

  Lemma hist_post_trans a b c : hist_post a b -> hist_post b c -> hist_post a c.
  Proof.
    intros [n1 [L1 [V1 [M1 O1]]]] [n2 [L2 [V2 [M2 O2]]]].
    exists (n2 ++ n1). split; [rewrite L2, L1, app_assoc; reflexivity|]. split.
    - intros b' m I. apply in_app_iff in I. destruct I as [I|I]; [apply (V2 _ _ I)|apply (V1 _ _ I)].
    - split.
      + intros I. destruct (M2 I) as [I2|[b' [Ib Sb]]].
        * destruct (M1 I2) as [I1|[b' [Ib Sb]]]; [left; exact I1|].
          right. exists b'. split; [apply in_app_iff; right; exact Ib|exact Sb].
        * right. exists b'. split; [apply in_app_iff; left; exact Ib|exact Sb].
      + intros m N. rewrite (O2 m N). apply O1; exact N.
  Qed.

  Lemma run_calls_post cs : forall s0, hist_post s0 (run_calls sha name expected cs s0).
  Proof.
    induction cs as [|c cs IH]; intros s0; cbn.
    - exists []. split; [reflexivity|]. split; [intros ? ? []|]. split; [auto|tauto].
    - eapply hist_post_trans; [apply step_post|apply IH].
  Qed.
End History.

(* ---- histories during which the index is re-published: every call is judged against the checksum published
   at the time of that call *)
Section Republished.
  Variable sha : bytes -> string.
  Variable name : string.

  (* [news] = the events of each call, in call order (each list most recent first, like the log) *)
  Definition pub_post (cs : list (string * call)) (s0 sf : lstate) : Prop :=
    exists news : list (list event),
      Forall2 (fun (ec : string * call) new =>
                 forall b m, In (EExtract b m) new -> sha b = fst ec /\ m = false) cs news /\
      log sf = (List.concat (rev news) ++ log s0)%list /\
      (is_installed name sf = true ->
         is_installed name s0 = true \/
         exists e c new b, In (e, c, new) (combine cs news) /\ In (EExtract b false) new /\ sha b = e) /\
      (forall m, m <> name -> (In m (index sf) <-> In m (index s0))).

  Lemma run_pub_post cs : forall s0, pub_post cs s0 (run_pub sha name cs s0).
  Proof.
    induction cs as [|[e c] cs IH]; intros s0; cbn [run_pub].
    - exists []. split; [constructor|]. split; [reflexivity|]. split; [auto|tauto].
    - destruct (step_post sha name e c s0) as [new [L1 [V1 [M1 O1]]]].
      destruct (IH (final (run_call sha name e c s0))) as [news [F [L [M O]]]].
      exists (new :: news). split; [constructor; [exact V1|exact F]|]. split.
      + rewrite L, L1. cbn [rev]. rewrite List.concat_app. cbn [List.concat]. rewrite app_nil_r, app_assoc. reflexivity.
      + split.
        * intros I. destruct (M I) as [I1|[e' [c' [new' [b [Ic [Ib Sb]]]]]]].
          -- destruct (M1 I1) as [I0|[b [Ib Sb]]]; [left; exact I0|].
             right. exists e, c, new, b. split; [left; reflexivity|auto].
          -- right. exists e', c', new', b. split; [right; exact Ic|auto].
        * intros m N. rewrite (O m N). apply O1; exact N.
  Qed.

  (* with a constant publication this is the plain history *)
  Lemma run_pub_const e cs : forall s, run_pub sha name (List.map (fun c => (e, c)) cs) s = run_calls sha name e cs s.
  Proof. induction cs as [|c cs IH]; intros s; cbn; [reflexivity|apply IH]. Qed.
End Republished.

(* ---- an honest server leads to a verified installation from every prior state *)
Section Honest.
  Variable sha : bytes -> string.
  Variable name : string.
  Variable good : bytes.
  Variable untar_fails : bytes -> bool.
  Let expected := sha good.
  Let srv := honest good.

  Notation prob_status := (prob_status sha srv name expected).
  Notation download_file := (download_file srv).
  Notation attempts := (attempts sha srv name expected).
  Notation is_installed := (is_installed name).

  Definition req_only (s s' : lstate) : Prop :=
    archive s' = archive s /\ index s' = index s /\ log s' = log s.

  (* probing against the honest server *)
  Lemma honest_prob s b :
    is_installed s = false -> archive s = Some b ->
    exists s', keeps s s' /\
      prob_status s = Ret (if (blen good <? blen b)%Z then SCorrupted
                           else if (blen b <? blen good)%Z then SIncomplete
                           else if eqb (sha b) expected then SDownloaded else SCorrupted) s'.
  Proof.
    intros I A. unfold MDownload.prob_status. rewrite I, A. unfold MDownload.remote_size, ask; cbn.
    eexists. split.
    2:{ destruct (blen good <? blen b)%Z; [reflexivity|].
        destruct (blen b <? blen good)%Z; [reflexivity|].
        destruct (eqb (sha b) expected); reflexivity. }
    unfold keeps; cbn; auto.
  Qed.

  (* a fresh download (no file) fetches exactly [good] *)
  Lemma honest_fresh s :
    archive s = None ->
    exists s', frame s s' /\ archive s' = Some good /\ download_file s = Ret tt s'.
  Proof.
    intros A. unfold MDownload.download_file. rewrite A. unfold MDownload.download_resume, MDownload.remote_size, ask; cbn.
    eexists. split; [|split].
    3: reflexivity.
    - unfold frame; cbn; auto.
    - reflexivity.
  Qed.

  (* resuming an incomplete file yields a file of the right size *)
  Lemma honest_resume s b :
    archive s = Some b -> (blen b < blen good)%Z ->
    exists s' c, frame s s' /\ archive s' = Some c /\ blen c = blen good /\ download_file s = Ret tt s'.
  Proof.
    intros A L. unfold MDownload.download_file. rewrite A. unfold MDownload.remote_size, ask; cbn.
    assert (E1 : (blen good =? blen b)%Z = false) by (apply Z.eqb_neq; lia). rewrite E1.
    assert (G0 : (0 <= blen b)%Z) by (unfold blen; lia).
    assert (E2 : (blen good =? 0)%Z = false) by (apply Z.eqb_neq; lia). rewrite E2.
    unfold MDownload.download_resume, MDownload.remote_size, ask; cbn.
    destruct (blen b =? 0)%Z eqn:E3; cbn.
    - eexists; exists good. split; [|split; [|split]].
      4: reflexivity.
      + unfold frame; cbn; auto.
      + reflexivity.
      + reflexivity.
    - rewrite A. eexists; eexists. split; [|split; [|split]].
      4: reflexivity.
      + unfold frame; cbn; auto.
      + reflexivity.
      + unfold blen in *. rewrite slen_app, slen_sskip, Nat2Z.id. lia.
  Qed.

  Lemma attempts_downloaded n s : attempts n SDownloaded s = Ret SDownloaded s.
  Proof. destruct n; reflexivity. Qed.

  (* one attempt starting from "corrupted" (or from nothing) succeeds *)
  Lemma honest_restart n s st :
    is_installed s = false -> (st = SCorrupted \/ (st = SNotInstalled /\ archive s = None)) ->
    exists s', frame s s' /\ archive s' = Some good /\ attempts (S n) st s = Ret SDownloaded s'.
  Proof.
    intros I ST. cbn.
    set (s1 := if status_eqb st SCorrupted then set_archive None s else s).
    assert (H1 : frame s s1 /\ archive s1 = None /\ status_eqb st SDownloaded = false).
    { unfold s1. destruct ST as [->|[-> A]]; cbn; repeat split; auto. }
    destruct H1 as [F1 [A1 ->]].
    destruct (honest_fresh s1 A1) as [s2 [F2 [A2 ->]]]. cbn.
    assert (I2 : is_installed s2 = false).
    { unfold MDownload.is_installed in *. destruct F1 as [F1 _]. destruct F2 as [F2 _]. rewrite F2, F1. exact I. }
    destruct (honest_prob s2 good I2 A2) as [s3 [K3 ->]]. cbn.
    rewrite Z.ltb_irrefl. unfold expected. rewrite eqb_refl. rewrite attempts_downloaded.
    exists s3. split; [eapply frame_trans; [exact F1|eapply frame_trans; [exact F2|apply keeps_frame; exact K3]]|].
    split; [destruct K3 as [-> _]; exact A2|reflexivity].
  Qed.

  Definition verified_h (s : lstate) : Prop := exists b, archive s = Some b /\ sha b = expected.

  Lemma honest_download s0 st s :
    is_installed s0 = false ->
    prob_status s0 = Ret st s ->
    exists s', download sha srv name expected 2 st s = Ret SDownloaded s' /\ frame s0 s' /\ verified_h s'.
  Proof.
    intros I P.
    pose proof (prob_status_spec sha srv name expected s0) as PS. rewrite P in PS. destruct PS as [K PS].
    assert (Is : is_installed s = false).
    { unfold MDownload.is_installed in *. destruct K as [_ [-> _]]. exact I. }
    assert (F0 : frame s0 s) by (apply keeps_frame; exact K).
    destruct st.
    - destruct PS as [PS _]. congruence.
    - (* not installed, no archive *)
      destruct PS as [_ [A ->]]. unfold MDownload.download; cbn [status_eqb].
      destruct (honest_restart 1 s0 SNotInstalled I (or_intror (conj eq_refl A))) as [s' [F [A' E]]].
      exists s'. split; [exact E|]. split; [exact F|]. exists good; split; [exact A'|reflexivity].
    - (* incomplete: resume; then either verified or corrupted -> restart *)
      unfold MDownload.download; cbn [status_eqb].
      destruct PS as [_ NA]. destruct (archive s0) as [b|] eqn:A0; [|congruence].
      destruct (honest_prob s0 b I A0) as [sx [_ Px]]. rewrite P in Px.
      assert (L : (blen b < blen good)%Z).
      { destruct (blen good <? blen b)%Z; [discriminate|]. destruct (blen b <? blen good)%Z eqn:E; [apply Z.ltb_lt; exact E|].
        destruct (eqb (sha b) expected); discriminate. }
      assert (As : archive s = Some b) by (destruct K as [-> _]; exact A0).
      destruct (honest_resume s b As L) as [s2 [c [F2 [A2 [Lc D]]]]].
      cbn. rewrite D; cbn.
      assert (I2 : is_installed s2 = false).
      { unfold MDownload.is_installed in *. destruct F2 as [-> _]. exact Is. }
      destruct (honest_prob s2 c I2 A2) as [s3 [K3 ->]]. cbn. rewrite Lc, Z.ltb_irrefl.
      assert (A3 : archive s3 = Some c) by (destruct K3 as [-> _]; exact A2).
      assert (F3 : frame s0 s3) by (eapply frame_trans; [exact F0|eapply frame_trans; [exact F2|apply keeps_frame; exact K3]]).
      destruct (eqb_spec (sha c) expected) as [E|E].
      + exists s3. split; [reflexivity|]. split; [exact F3|]. exists c; auto.
      + assert (I3 : is_installed s3 = false).
        { unfold MDownload.is_installed in *. destruct F3 as [-> _]. exact I. }
        destruct (honest_restart 0 s3 SCorrupted I3 (or_introl eq_refl)) as [s' [F [A' E']]].
        exists s'. split; [exact E'|]. split; [eapply frame_trans; eassumption|]. exists good; split; [exact A'|reflexivity].
    - (* corrupted: removed, fetched again *)
      unfold MDownload.download; cbn [status_eqb].
      destruct (honest_restart 1 s SCorrupted Is (or_introl eq_refl)) as [s' [F [A' E]]].
      exists s'. split; [exact E|]. split; [eapply frame_trans; eassumption|]. exists good; split; [exact A'|reflexivity].
    - (* already downloaded and verified *)
      destruct PS as [_ [b [Ab Sb]]]. exists s. split; [reflexivity|]. split; [exact F0|].
      exists b. split; [destruct K as [-> _]; exact Ab|exact Sb].
  Qed.
  Lemma honest_prob_total s :
    is_installed s = false -> exists st s', prob_status s = Ret st s' /\ st <> SInstalled.
  Proof.
    intros I. destruct (archive s) as [b|] eqn:A.
    - destruct (honest_prob s b I A) as [s' [_ E]]. eexists; eexists; split; [exact E|].
      destruct (blen good <? blen b)%Z; [discriminate|]. destruct (blen b <? blen good)%Z; [discriminate|].
      destruct (eqb (sha b) expected); discriminate.
    - exists SNotInstalled, s. unfold MDownload.prob_status. rewrite I, A. split; [reflexivity|discriminate].
  Qed.

  Hypothesis untar_ok : forall b, sha b = expected -> untar_fails b = false.

  Lemma honest_install force nc s0 :
    force = true \/ is_installed s0 = false ->
    exists b sf, install sha srv name expected untar_fails force nc s0 = Ret SInstalled sf /\
                 sha b = expected /\ is_installed sf = true /\
                 log sf = EUpgrade true :: EExtract b false :: log s0.
  Proof.
    intros H. unfold install, MDownload.install_n.
    set (s := if force then set_index (idx_remove name (index s0)) s0 else s0).
    assert (I : is_installed s = false).
    { unfold s. destruct force; [apply idx_remove_memb|]. destruct H as [H|H]; [discriminate|exact H]. }
    assert (L : log s = log s0) by (unfold s; destruct force; reflexivity).
    destruct (honest_prob_total s I) as [st [s1 [P N]]]. rewrite P. cbn [bind].
    replace (status_eqb st SInstalled) with false by (destruct st; try reflexivity; congruence).
    destruct (honest_download s st s1 I P) as [s2 [D [F [b [A S]]]]]. rewrite D. cbn [bind status_eqb negb].
    rewrite A, (untar_ok b S).
    assert (I2 : is_installed s2 = false).
    { unfold MDownload.is_installed in *. destruct F as [-> _]. exact I. }
    rewrite I2.
    match goal with |- context [MDownload.prob_status _ _ _ _ ?x] => set (s5 := x) end.
    assert (I5 : is_installed s5 = true).
    { unfold s5, MDownload.is_installed; cbn. apply idx_add_memb. }
    rewrite (prob_status_installed sha srv name expected s5 I5).
    exists b, s5. split; [reflexivity|]. split; [exact S|]. split; [exact I5|].
    unfold s5. cbn [log add_event set_index]. unfold MDownload.is_installed. cbn [index set_index].
    rewrite idx_add_memb.
    destruct F as [_ FL]. destruct nc; cbn; rewrite FL, L; reflexivity.
  Qed.
End Honest.
